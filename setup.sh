#!/bin/bash
# Builds the framework offline from files on disk: Lean models/theorems/driver, extractor, per-property harnesses.
cd "$(dirname "$0")"
export GOFLAGS=-mod=mod GOPROXY=off GOSUMDB=off GOTOOLCHAIN=local CGO_ENABLED=0
mkdir -p .build/bin evidence replays
python3 - <<'PY'
import importlib.machinery, importlib.util, sys
loader = importlib.machinery.SourceFileLoader("check", "./check")
spec = importlib.util.spec_from_loader("check", loader); m = importlib.util.module_from_spec(spec); loader.exec_module(m)
import os
for d in sorted(os.listdir("tools/extract")):
    if d.startswith("c") and os.path.isdir("tools/extract/" + d):
        print(d, m.regenerate(d.upper())[1].splitlines()[0])
PY
(cd lean && lake build KG.Audit 2>&1 | tail -1)
for f in lean/KG/Props/C*.lean; do
  mod=KG.Props.$(basename $f .lean)
  (cd lean && lake build $mod 2>&1 | tail -1 | sed "s/^/$mod: /")
  id=$(basename $f .lean | cut -c1-3 | tr 'C' 'c')
  (cd lean && lake build kgd_$id 2>&1 | tail -1 | sed "s/^/kgd_$id: /")
done
# warm the Go build cache: build every harness once (the checks rebuild them against the current tree anyway)
for d in harness/cmd/*/; do
  id=$(basename $d)
  python3 - "$id" <<'PY'
import importlib.machinery, importlib.util, sys
loader = importlib.machinery.SourceFileLoader("check", "./check")
spec = importlib.util.spec_from_loader("check", loader); m = importlib.util.module_from_spec(spec); loader.exec_module(m)
b, out = m.build_harness(sys.argv[1].upper())
print(sys.argv[1], "harness built" if b else "harness build FAILED:\n" + out[-2000:])
PY
done
exit 0
