#!/bin/bash
# Builds the framework offline from files on disk: Lean models/theorems/driver, extractor, per-property harnesses.
cd "$(dirname "$0")"
export GOFLAGS=-mod=mod GOPROXY=off GOSUMDB=off GOTOOLCHAIN=local CGO_ENABLED=0
mkdir -p .build/bin evidence replays
python3 - <<'PY'
import importlib.machinery, importlib.util, sys
loader = importlib.machinery.SourceFileLoader("check", "./check")
spec = importlib.util.spec_from_loader("check", loader); m = importlib.util.module_from_spec(spec); loader.exec_module(m)
ok, msg = m.regenerate(); print(msg)
m.gen_gomod(m.HARNESS)
PY
(cd lean && lake build kgdriver KG.Audit 2>&1 | tail -3)
for f in lean/KG/Props/C*.lean; do
  mod=KG.Props.$(basename $f .lean)
  (cd lean && lake build $mod 2>&1 | tail -1 | sed "s/^/$mod: /")
done
# warm the Go build cache: build every harness once (the checks rebuild them against the current tree anyway)
for d in harness/cmd/*/; do
  id=$(basename $d)
  python3 - "$id" <<'PY'
import importlib.machinery, importlib.util, sys
loader = importlib.machinery.SourceFileLoader("check", "./check")
spec = importlib.util.spec_from_loader("check", loader); m = importlib.util.module_from_spec(spec); loader.exec_module(m)
b, out = m.build_harness(sys.argv[1].upper())
print(sys.argv[1], "harness built" if b else "harness build FAILED:\n" + out[-2000:])
PY
done
exit 0
