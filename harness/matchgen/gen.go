// Package matchgen generates dispatch rules, policies and request attributes for C01 / C17 and encodes
// them for the Lean driver. Entries come from a small universe built to collide, plus a raw-byte stream.
package matchgen

import (
	"fmt"
	"math/rand"
	"strings"

	"k8s.io/apiserver/pkg/authentication/user"
	"k8s.io/apiserver/pkg/authorization/authorizer"

	proxyv1alpha1 "github.com/kubewharf/kubegateway/pkg/apis/proxy/v1alpha1"

	"verifharness/rig"
)

var Names = []string{"", "a", "b", "ab", "pods", "deployments", "status", "sys", "sysadm", "g", "h",
	"system:serviceaccount:n:a", "system:serviceaccount:n:", "/x", "/x/y", "/healthz"}

// entry universe for rule lists
var Entries = []string{"", "a", "b", "ab", "a*", "*", "-", "-a", "-b", "-ab", "-a*", "-*", "--a", "*/s", "*/t", "-*/s",
	"a/s", "-a/s", "a/t", "/x", "/x/*", "-/x", "/x*", "pods", "-pods", "-deployments", "pods/status", "*/status",
	"-*/status", "sys*", "-sys*", "g", "-g", "-h", "system:serviceaccount:n:a", "-system:serviceaccount:n:a", "**", "a**", "*a",
	"a b", "-a b", "get", "-get", "list", "Pods", "A", "-A", "G"}

// Domains are value sets that somebody may regard as "complete" (every API verb, every resource of the universe …): a list
// that spells a whole domain out is still a positive list, it does not select values outside the domain.
var Domains = [][]string{
	{"get", "list", "watch", "create", "update", "patch", "delete", "deletecollection"},
	{"pods", "deployments", "status", "a", "b", "ab"},
	{"g", "h", "sys", "sysadm"},
	{"", "apps", "a", "b"},
}

var Requests = []string{"", "a", "b", "ab", "abc", "*", "-", "-a", "a*", "s", "t", "a/s", "pods", "deployments",
	"pods/status", "status", "sys", "sysadm", "g", "h", "/x", "/x/", "/x/y", "/xy", "/", "system:serviceaccount:n:a",
	"system:serviceaccount:n:", "*/s", "-pods", "system:serviceaccount:nx:a", "system:serviceaccount:n:xa", "system:serviceaccount:n-canary:a",
	"system:serviceaccount:xn:a", "system:serviceaccount:n:a:b", "system:serviceaccount:n::a", "system:serviceaccount::a", "system:serviceaccount:kube-system:default",
	"get", "list", "watch", "create", "post", "put", "head", "options", "proxy", "connect", "a b", "Pods", "PODS", "A", "G", "apps"}

// NearDup returns a string a careless comparison would take for e: another letter case, or white space at an end.
func NearDup(r *rand.Rand, e string) string {
	neg := ""
	if len(e) > 1 && e[0] == '-' {
		neg, e = "-", e[1:]
	}
	switch r.Intn(4) {
	case 0:
		return neg + strings.ToUpper(e)
	case 1:
		return neg + strings.ToUpper(e[:len(e)/2]) + e[len(e)/2:]
	case 2:
		return neg + e + " "
	}
	if len(e) > 0 {
		return neg + strings.ToUpper(e[:1]) + e[1:]
	}
	return neg + e
}

func randBytes(r *rand.Rand) string {
	n := r.Intn(6)
	b := make([]byte, n)
	alphabet := []byte{'*', '-', '/', 'a', 'b', 0xff, 0xc3, 0x28, ':', 0}
	for i := range b {
		if r.Intn(3) == 0 {
			b[i] = byte(r.Intn(256))
		} else {
			b[i] = alphabet[r.Intn(len(alphabet))]
		}
	}
	return string(b)
}

func Entry(r *rand.Rand, raw bool) string {
	if raw && r.Intn(3) == 0 {
		return randBytes(r)
	}
	return Entries[r.Intn(len(Entries))]
}

func Request(r *rand.Rand, raw bool) string {
	if raw && r.Intn(3) == 0 {
		return randBytes(r)
	}
	return Requests[r.Intn(len(Requests))]
}

// List draws a rule list: class mix of empty / star / positive / mixed / all-inverted (1 or >=2 entries).
func List(r *rand.Rand, raw bool) []string {
	switch r.Intn(10) {
	case 0:
		return nil
	case 1:
		return []string{}
	}
	n := 1 + r.Intn(4)
	allInv := r.Intn(3) == 0
	inv := func(e string) string {
		if allInv && (len(e) == 0 || e[0] != '-') && e != "*" {
			e = "-" + e
		}
		return e
	}
	var l []string
	switch r.Intn(24) {
	case 0: // a whole domain spelt out (in any order, possibly with more entries): still a positive / an inverted list
		d := Domains[r.Intn(len(Domains))]
		for _, k := range r.Perm(len(d)) {
			l = append(l, inv(d[k]))
		}
		n = r.Intn(2)
	case 1: // a long list (thresholds of "fast paths" are products of list length and number of request values)
		for i, k := 0, 20+r.Intn(100); i < k; i++ {
			l = append(l, inv(fmt.Sprintf("g%d", r.Intn(150))))
		}
	}
	for i := 0; i < n; i++ {
		l = append(l, inv(Entry(r, raw)))
	}
	if len(l) > 0 && r.Intn(6) == 0 { // a near-duplicate of an entry: another case, white space, or the entry again
		e := l[r.Intn(len(l))]
		d := e
		if r.Intn(3) > 0 && e != "*" && e != "" {
			d = NearDup(r, e)
		}
		k := r.Intn(len(l) + 1)
		l = append(l[:k], append([]string{d}, l[k:]...)...)
	}
	return l
}

// EditList returns a minimally different list: what an administrator's edit, or a sloppy comparison of two versions, is
// about — [] vs [""], one entry "a b" vs two entries "a","b", entries swapped, an entry doubled, dropped or re-cased.
func EditList(r *rand.Rand, l []string, raw bool) []string {
	out := append([]string{}, l...)
	switch r.Intn(9) {
	case 0:
		if len(out) == 0 {
			return []string{""}
		}
		if len(out) == 1 && out[0] == "" {
			return []string{}
		}
		return append(out, "")
	case 1: // split an entry at a space / join two entries with a space
		for i, e := range out {
			if k := strings.IndexByte(e, ' '); k >= 0 {
				return append(out[:i], append([]string{e[:k], e[k+1:]}, out[i+1:]...)...)
			}
		}
		if len(out) >= 2 {
			i := r.Intn(len(out) - 1)
			return append(out[:i], append([]string{out[i] + " " + out[i+1]}, out[i+2:]...)...)
		}
	case 2:
		if len(out) >= 2 {
			i, j := r.Intn(len(out)), r.Intn(len(out))
			out[i], out[j] = out[j], out[i]
			return out
		}
	case 3:
		if len(out) > 0 {
			i := r.Intn(len(out))
			return append(out[:i], out[i+1:]...)
		}
	case 4:
		if len(out) > 0 {
			i := r.Intn(len(out))
			out[i] = NearDup(r, out[i])
			return out
		}
	case 5:
		if len(out) > 0 {
			return append(out, out[r.Intn(len(out))])
		}
	case 6:
		if len(out) > 0 { // flip the polarity of one entry
			i := r.Intn(len(out))
			if len(out[i]) > 0 && out[i][0] == '-' {
				out[i] = out[i][1:]
			} else {
				out[i] = "-" + out[i]
			}
			return out
		}
	}
	return append(out, Entry(r, raw))
}

// EditRule edits one list of the rule (see EditList).
func EditRule(r *rand.Rand, rule proxyv1alpha1.DispatchPolicyRule, raw bool) proxyv1alpha1.DispatchPolicyRule {
	switch r.Intn(7) {
	case 0:
		rule.Verbs = EditList(r, rule.Verbs, raw)
	case 1:
		rule.APIGroups = EditList(r, rule.APIGroups, raw)
	case 2:
		rule.Resources = EditList(r, rule.Resources, raw)
	case 3:
		rule.ResourceNames = EditList(r, rule.ResourceNames, raw)
	case 4:
		rule.Users = EditList(r, rule.Users, raw)
	case 5:
		rule.UserGroups = EditList(r, rule.UserGroups, raw)
	case 6:
		rule.NonResourceURLs = EditList(r, rule.NonResourceURLs, raw)
	}
	return rule
}

func ListClass(l []string) string {
	if len(l) == 0 {
		return "empty"
	}
	pos, inv := 0, 0
	for _, e := range l {
		if e == "*" {
			return "star"
		}
		if len(e) > 0 && e[0] == '-' {
			inv++
		} else {
			pos++
		}
	}
	switch {
	case pos > 0 && inv > 0:
		return "mixed"
	case pos > 0:
		return "positive"
	case inv == 1:
		return "inverted-1"
	default:
		return "inverted-n"
	}
}

func SAs(r *rand.Rand) []proxyv1alpha1.ServiceAccountRef {
	n := r.Intn(3)
	if r.Intn(2) == 0 {
		n = 0
	}
	var l []proxyv1alpha1.ServiceAccountRef
	for i := 0; i < n; i++ {
		l = append(l, proxyv1alpha1.ServiceAccountRef{Namespace: rig.Pick(r, []string{"", "n", "m", "kube", "n:a", "n-canary"}), Name: rig.Pick(r, []string{"", "a", "b", "default", "a:b"})})
	}
	return l
}

func Rule(r *rand.Rand, raw bool) proxyv1alpha1.DispatchPolicyRule {
	// most fields match-all most of the time, so that whole rules match about as often as they do not
	f := func() []string {
		if r.Intn(2) == 0 {
			return []string{"*"}
		}
		return List(r, raw)
	}
	opt := func() []string {
		if r.Intn(2) == 0 {
			return nil
		}
		return List(r, raw)
	}
	return proxyv1alpha1.DispatchPolicyRule{
		Verbs: f(), APIGroups: f(), Resources: f(), ResourceNames: opt(), Users: opt(), ServiceAccounts: SAs(r),
		UserGroups: opt(), NonResourceURLs: f(),
	}
}

type Attrs struct {
	Verb, User           string
	Groups               []string
	IsResource           bool
	APIGroup, Resource   string
	Subresource, Name    string
	Path                 string
}

func GenAttrs(r *rand.Rand, raw bool) Attrs {
	a := Attrs{Verb: Request(r, raw), User: Request(r, raw), IsResource: r.Intn(3) != 0, APIGroup: Request(r, raw),
		Resource: Request(r, raw), Name: Request(r, raw), Path: Request(r, raw)}
	if r.Intn(2) == 0 {
		a.Subresource = rig.Pick(r, []string{"s", "t", "status", Request(r, raw)})
	}
	for i, n := 0, r.Intn(3); i < n; i++ {
		a.Groups = append(a.Groups, Request(r, raw))
	}
	if r.Intn(20) == 0 { // a user with many groups
		for i, n := 0, 30+r.Intn(40); i < n; i++ {
			a.Groups = append(a.Groups, fmt.Sprintf("g%d", r.Intn(150)))
		}
	}
	return a
}

// AttrsFor draws a request that is likely to match the rule: every field takes, most of the time, a value derived from
// one of the rule's entries (a positive entry as is, a glob's prefix plus a tail, a "*/sub" closure, a listed service
// account) — so that whole rules match often and the interesting interactions between fields are reached.
func AttrsFor(r *rand.Rand, rule proxyv1alpha1.DispatchPolicyRule, raw bool) Attrs {
	a := GenAttrs(r, raw)
	from := func(l []string, def string) string {
		if len(l) == 0 || r.Intn(5) == 0 {
			return def
		}
		e := l[r.Intn(len(l))]
		if e == "*" {
			return def
		}
		if len(e) > 0 && e[0] == '-' {
			if r.Intn(2) == 0 {
				return e[1:] // the excluded value itself
			}
			return def
		}
		if n := len(e); n > 0 && e[n-1] == '*' && r.Intn(2) == 0 {
			return e[:n-1] + rig.Pick(r, []string{"", "z", "/y"})
		}
		return e
	}
	a.Verb = from(rule.Verbs, a.Verb)
	a.APIGroup = from(rule.APIGroups, a.APIGroup)
	a.Name = from(rule.ResourceNames, a.Name)
	a.User = from(rule.Users, a.User)
	if len(rule.ServiceAccounts) > 0 && r.Intn(3) == 0 {
		sa := rule.ServiceAccounts[r.Intn(len(rule.ServiceAccounts))]
		ns, name := sa.Namespace, sa.Name
		// the listed account itself, or a near miss: another namespace/name that shares a prefix or suffix with it
		switch r.Intn(8) {
		case 0:
			ns += rig.Pick(r, []string{"x", "-canary", "-system", ":"})
		case 1:
			ns = rig.Pick(r, []string{"x", "kube-"}) + ns
		case 2:
			name = rig.Pick(r, []string{"x", "pre-"}) + name
		case 3:
			name += rig.Pick(r, []string{"x", "-2"})
		case 4:
			if len(ns) > 1 {
				ns = ns[:len(ns)-1]
			}
		}
		a.User = proxyv1alpha1.MakeServiceAccountUsername(ns, name)
	}
	if g := from(rule.UserGroups, ""); g != "" || r.Intn(2) == 0 {
		a.Groups = append(a.Groups, g)
	}
	a.Path = from(rule.NonResourceURLs, a.Path)
	res := from(rule.Resources, a.Resource)
	a.Resource, a.Subresource = res, ""
	for i := 0; i < len(res); i++ {
		if res[i] == '/' {
			a.Resource, a.Subresource = res[:i], res[i+1:]
			if a.Resource == "*" {
				a.Resource = rig.Pick(r, []string{"pods", "a"})
			}
			break
		}
	}
	return a
}

func (a Attrs) Record() authorizer.Attributes {
	return authorizer.AttributesRecord{
		User:            &user.DefaultInfo{Name: a.User, Groups: a.Groups},
		Verb:            a.Verb,
		APIGroup:        a.APIGroup,
		Resource:        a.Resource,
		Subresource:     a.Subresource,
		Name:            a.Name,
		ResourceRequest: a.IsResource,
		Path:            a.Path,
	}
}

func (a Attrs) JSON() map[string]interface{} {
	return map[string]interface{}{"verb": rig.Hex(a.Verb), "user": rig.Hex(a.User), "groups": rig.HexList(a.Groups),
		"isResource": a.IsResource, "apiGroup": rig.Hex(a.APIGroup), "resource": rig.Hex(a.Resource),
		"subresource": rig.Hex(a.Subresource), "name": rig.Hex(a.Name), "path": rig.Hex(a.Path)}
}

func RuleJSON(r proxyv1alpha1.DispatchPolicyRule) map[string]interface{} {
	sas := []map[string]string{}
	for _, sa := range r.ServiceAccounts {
		sas = append(sas, map[string]string{"ns": rig.Hex(sa.Namespace), "name": rig.Hex(sa.Name)})
	}
	return map[string]interface{}{"verbs": rig.HexList(r.Verbs), "apiGroups": rig.HexList(r.APIGroups),
		"resources": rig.HexList(r.Resources), "resourceNames": rig.HexList(r.ResourceNames),
		"users": rig.HexList(r.Users), "serviceAccounts": sas, "userGroups": rig.HexList(r.UserGroups),
		"nonResourceURLs": rig.HexList(r.NonResourceURLs)}
}

// RuleFromJSON is the inverse of RuleJSON (used for replays and for reading the model's normalised rule).
type RuleWire struct {
	Verbs, APIGroups, Resources, ResourceNames, Users, UserGroups, NonResourceURLs []string
	ServiceAccounts                                                                []struct{ Ns, Name string }
}

func unhexList(l []string) []string {
	r := make([]string, len(l))
	for i, s := range l {
		r[i] = rig.UnHex(s)
	}
	return r
}

func (w RuleWire) Rule() proxyv1alpha1.DispatchPolicyRule {
	r := proxyv1alpha1.DispatchPolicyRule{Verbs: unhexList(w.Verbs), APIGroups: unhexList(w.APIGroups),
		Resources: unhexList(w.Resources), ResourceNames: unhexList(w.ResourceNames), Users: unhexList(w.Users),
		UserGroups: unhexList(w.UserGroups), NonResourceURLs: unhexList(w.NonResourceURLs)}
	for _, sa := range w.ServiceAccounts {
		r.ServiceAccounts = append(r.ServiceAccounts, proxyv1alpha1.ServiceAccountRef{Namespace: rig.UnHex(sa.Ns), Name: rig.UnHex(sa.Name)})
	}
	return r
}
