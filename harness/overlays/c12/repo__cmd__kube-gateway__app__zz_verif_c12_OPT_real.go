//go:build verif

// Export shim for the C12 harness (injected with `go build -overlay`, never present in /repo): the proxy handler chain
// exactly as the shipped wiring of cmd/kube-gateway/app/proxy.go builds it (buildProxyHandlerChainFunc), so that the
// order of WithUpstreamInfo / WithAuthentication / WithNoLoggingImpersonation / dispatcher that the harness exercises is
// the shipped one and not a copy kept in the harness.
package app

import (
	"net/http"

	genericapiserver "k8s.io/apiserver/pkg/server"

	"github.com/kubewharf/kubegateway/pkg/clusters"
)

func VerifC12BuildProxyHandlerChain(m clusters.Manager, apiHandler http.Handler, c *genericapiserver.Config) http.Handler {
	return buildProxyHandlerChainFunc(&proxyHandlerOptions{clusterManager: m})(apiHandler, c)
}
