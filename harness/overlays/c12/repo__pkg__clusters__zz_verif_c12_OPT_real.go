//go:build verif

// Export shim for the C12 harness (injected with `go build -overlay`, never part of /repo): creates an
// EndpointInfo whose clientset is supplied by the caller (a client-go fake), so that the REAL
// manager.ClientFor -> ClusterInfo.PickOne -> endpointPickStrategy.Pop -> EndpointInfo.Clientset() path can be
// driven without network. Health / disabled changes afterwards go through the exported UpdateStatus / SetDisabled.
package clusters

import (
	"context"

	"k8s.io/client-go/kubernetes"

	proxyv1alpha1 "github.com/kubewharf/kubegateway/pkg/apis/proxy/v1alpha1"
)

// VerifC12SetDispatchPolicies stores dispatch policies the way the last statement of ClusterInfo.Sync does (a full Sync
// would also start the flow-control meters, two goroutines per cluster that outlive the cluster).
func VerifC12SetDispatchPolicies(c *ClusterInfo, p []proxyv1alpha1.DispatchPolicy) {
	c.currentDispatchPolicies.Store(p)
}

func VerifC12AddEndpoint(c *ClusterInfo, name string, cs kubernetes.Interface, healthy, disabled bool) *EndpointInfo {
	ctx, cancel := context.WithCancel(c.Context())
	e := &EndpointInfo{
		ctx:       ctx,
		cancel:    cancel,
		Cluster:   c.Cluster,
		Endpoint:  name,
		clientset: cs,
		status:    &endpointStatus{Healthy: healthy, Disabled: disabled},
	}
	c.Endpoints.Store(name, e)
	return e
}
