//go:build verif

// Export shim for the C14 harness (same content as overlays/c03: the harnesses share harness/c03lib) (injected with `go build -overlay`, never present in /repo).
// Read-only accessors for unexported state of ClusterInfo / EndpointInfo / endpointPickStrategy, plus a
// constructor that is CreateClusterInfo with the health-check ticker interval chosen by the caller (the
// production value is 5 s, which would make probe timing part of every history).
package clusters

import (
	"sync/atomic"
	"time"

	proxyv1alpha1 "github.com/kubewharf/kubegateway/pkg/apis/proxy/v1alpha1"
)

// VerifCreateClusterInfo mirrors CreateClusterInfo statement by statement; the only addition is the
// assignment of healthCheckInterval between NewEmptyClusterInfo and the first Sync.
func VerifCreateClusterInfo(cluster *proxyv1alpha1.UpstreamCluster, healthCheck EndpointHealthCheck, interval time.Duration) (*ClusterInfo, error) {
	restconfig, err := buildClusterRESTConfig(cluster)
	if err != nil {
		return nil, err
	}
	info := NewEmptyClusterInfo(cluster.Name, restconfig, healthCheck, "", nil)
	info.healthCheckInterval = interval
	err = info.Sync(cluster)
	if err != nil {
		return nil, err
	}
	return info, nil
}

// VerifSetHealthCheckInterval changes the ticker interval used by health checks started from now on.
func VerifSetHealthCheckInterval(c *ClusterInfo, d time.Duration) { c.healthCheckInterval = d }

// VerifLoadbalancer is a snapshot of the round-robin cursors: key (fmt "%v" of the ready []*EndpointInfo) -> value.
func VerifLoadbalancer(c *ClusterInfo) map[string]uint64 {
	res := map[string]uint64{}
	c.loadbalancer.Range(func(k, v interface{}) bool {
		res[k.(string)] = atomic.LoadUint64(v.(*uint64))
		return true
	})
	return res
}

// VerifSetCursor stores a cursor value under a key (used to start round-robin runs from arbitrary cursors).
func VerifSetCursor(c *ClusterInfo, key string, v uint64) {
	x := v
	c.loadbalancer.Store(key, &x)
}

// VerifEndpointState reads the status and health-check bookkeeping of one endpoint.
type VerifEndpointState struct {
	Disabled, Healthy bool
	UnhealthyCount    int
	Probing           bool // a health-check worker has been started and not cancelled (cancelHealthCheck != nil)
	ChanLen           int  // tokens waiting in healthCheckCh
}

func VerifEndpointStatus(e *EndpointInfo) VerifEndpointState {
	e.status.mux.RLock()
	s := VerifEndpointState{Disabled: e.status.Disabled, Healthy: e.status.Healthy, UnhealthyCount: e.status.UnhealthyCount}
	e.status.mux.RUnlock()
	e.Lock()
	s.Probing = e.cancelHealthCheck != nil
	e.Unlock()
	if e.healthCheckCh != nil {
		s.ChanLen = len(e.healthCheckCh)
	}
	return s
}

// VerifPickerUpstreams is the list Pop() will walk (the policy's subset, or AllEndpoints() as returned to MatchAttributes).
func VerifPickerUpstreams(p EndpointPicker) []string {
	if s, ok := p.(*endpointPickStrategy); ok {
		return append([]string{}, s.upstreams...)
	}
	return nil
}

// VerifNewPicker builds a picker over an explicit upstream list (what MatchAttributes does for a policy with that subset).
func VerifNewPicker(c *ClusterInfo, upstreams []string) EndpointPicker {
	return &endpointPickStrategy{cluster: c, upstreams: upstreams}
}
