//go:build verif

// Export shim of property C13: what became of a k8s limiter store that was (or should have been) stopped.
package k8s

import (
	_interface "github.com/kubewharf/kubegateway/pkg/ratelimiter/store/interface"
)

// VerifC13StoreState reports, for an objectStore: whether it has a periodic flusher (syncPeriod > 0), whether
// stopCh is closed (the flusher goroutine, `wait.Until(store.sync, syncPeriod, store.stopCh)`, ends), and the
// `stopped` flag. isK8s is false for any other store.
func VerifC13StoreState(s _interface.LimitStore) (isK8s, periodic, stopChClosed, stopped bool) {
	o, ok := s.(*objectStore)
	if !ok {
		return false, false, false, false
	}
	select {
	case <-o.stopCh:
		stopChClosed = true
	default:
	}
	o.Lock()
	stopped = o.stopped
	o.Unlock()
	return true, o.syncPeriod > 0, stopChClosed, stopped
}

// VerifC13Abandon ends the flusher goroutine of a store the harness is done with (nothing else).
func VerifC13Abandon(s _interface.LimitStore) {
	if o, ok := s.(*objectStore); ok {
		select {
		case <-o.stopCh:
		default:
			close(o.stopCh)
		}
	}
}
