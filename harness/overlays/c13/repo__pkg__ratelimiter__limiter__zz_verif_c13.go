//go:build verif

// Export shim of property C13 (sharding and leadership guard). Injected by `go build -overlay` only.
// Every helper is prefixed VerifC13 so that shims of other properties in this package never collide.
package limiter

import (
	"k8s.io/client-go/kubernetes"

	proxyv1alpha1 "github.com/kubewharf/kubegateway/pkg/apis/proxy/v1alpha1"
	gatewayclientset "github.com/kubewharf/kubegateway/pkg/client/kubernetes"
	"github.com/kubewharf/kubegateway/pkg/ratelimiter/limiter/controller"
	"github.com/kubewharf/kubegateway/pkg/ratelimiter/limiter/elector"
	"github.com/kubewharf/kubegateway/pkg/ratelimiter/options"
	_interface "github.com/kubewharf/kubegateway/pkg/ratelimiter/store/interface"
)

// VerifC13NewRateLimiter builds a rate limiter with the REAL constructor (real leader elector, real callback
// wiring) and then replaces the informer-backed upstream controller by uc, whose lister the harness scripts.
// Nothing is started (no Run): the harness calls the callbacks and entry points itself.
func VerifC13NewRateLimiter(gatewayClient gatewayclientset.Interface, client kubernetes.Interface, opts options.RateLimitOptions, uc controller.UpstreamController) (RateLimiter, controller.UpstreamController, error) {
	rl, err := NewRateLimiter(gatewayClient, client, opts)
	if err != nil {
		return nil, nil, err
	}
	unused := rl.(*rateLimiter).upstreamController // never run; the caller may shut its queue down
	rl.(*rateLimiter).upstreamController = uc
	return rl, unused, nil
}

// VerifC13Elector returns the limiter's leader elector.
func VerifC13Elector(rl RateLimiter) elector.LeaderElector { return rl.(*rateLimiter).leaderElector }

// VerifC13Stores returns a copy of limitStoreMap.
func VerifC13Stores(rl RateLimiter) map[int]_interface.LimitStore {
	r := rl.(*rateLimiter)
	r.limitStoreLock.RLock()
	defer r.limitStoreLock.RUnlock()
	m := make(map[int]_interface.LimitStore, len(r.limitStoreMap))
	for k, v := range r.limitStoreMap {
		m[k] = v
	}
	return m
}

// VerifC13LeaderCheck runs the periodic leader check once.
func VerifC13LeaderCheck(rl RateLimiter) { rl.(*rateLimiter).leaderCheck() }

// VerifC13UpstreamConditionHandler calls the upstream controller's handler.
func VerifC13UpstreamConditionHandler(rl RateLimiter, cluster *proxyv1alpha1.UpstreamCluster) error {
	return rl.(*rateLimiter).UpstreamConditionHandler(cluster)
}

// VerifC13DeleteCondition calls deleteCondition on the store of shard k, as the cleanup loops do for every
// store of limitStoreMap; false when there is no such store (the call cannot happen).
func VerifC13DeleteCondition(rl RateLimiter, k int, condition *proxyv1alpha1.RateLimitCondition) bool {
	r := rl.(*rateLimiter)
	r.limitStoreLock.RLock()
	st, ok := r.limitStoreMap[k]
	r.limitStoreLock.RUnlock()
	if !ok {
		return false
	}
	r.deleteCondition(st, condition, "verif")
	return true
}

// VerifC13SetStopCallback re-wires the elector's callbacks: OnStartedLeading stays the limiter's startLeading,
// OnStoppedLeading becomes f (the harness passes a function that ends in VerifC13StopLeadingStepped).
func VerifC13SetStopCallback(rl RateLimiter, f func(shardId int)) {
	r := rl.(*rateLimiter)
	r.leaderElector.SetCallbacks(elector.LeaderCallbacks{OnStartedLeading: r.startLeading, OnStoppedLeading: f})
}

// VerifC13StopLeadingStepped is rateLimiter.stopLeading + stopLimitStoreWithRetry with the 2 s sleep between
// attempts replaced by a call of between(attempt, err) (the shape of both functions is a regenerated fact,
// gen_stop). It answers the store that was removed (nil if none), the number of Stop attempts and whether one
// of them returned nil.
func VerifC13StopLeadingStepped(rl RateLimiter, shardId int, between func(attempt int, err error)) (_interface.LimitStore, int, bool) {
	r := rl.(*rateLimiter)
	r.limitStoreLock.Lock()
	limitStore := r.limitStoreMap[shardId]
	delete(r.limitStoreMap, shardId)
	r.limitStoreLock.Unlock()

	attempts, ok := 0, false
	if limitStore != nil {
		for i := 0; i < 10; i++ {
			err := limitStore.Stop()
			attempts++
			if err == nil {
				ok = true
				break
			}
			between(i, err)
		}
	}
	return limitStore, attempts, ok
}

// VerifC13StopLeading is the real rateLimiter.stopLeading (sleeps 2 s between failed Stop attempts).
func VerifC13StopLeading(rl RateLimiter, shardId int) { rl.(*rateLimiter).stopLeading(shardId) }
