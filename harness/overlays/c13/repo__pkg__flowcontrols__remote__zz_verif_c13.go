//go:build verif

// Export shim of property C13: one period of the gateway's allocate loop and one round of its count path, run
// by the harness instead of by their timers (`wait.Until(r.reconcile, LimiterReconcilePeriod, …)`, limitWorker).
package remote

// VerifC13ReconcileOnce is one tick of the allocate loop of an upstream: the real reconcile.reconcile().
func VerifC13ReconcileOnce(r Reconcile) { r.(*reconcile).reconcile() }

// VerifC13AcquireOnce marks every counter of the upstream as having an event and runs the real
// globalCounterManager.doAcquire() (which sends its request in a goroutine). It answers the number of counters.
func VerifC13AcquireOnce(p GlobalCounterProvider) int {
	g := p.(*globalCounterManager)
	g.lock.Lock()
	n := len(g.counterMap)
	for _, c := range g.counterMap {
		select {
		case c.eventCh <- struct{}{}:
		default:
		}
	}
	g.lock.Unlock()
	g.doAcquire()
	return n
}

// VerifC13HoldAcquires takes the acquire lock of the upstream's count path, so that no doAcquire is under way
// (between its ClientFor and the stamping of its request) while the harness lets the gateway sync; it answers
// the function that releases it. Scheduling control of the harness only.
func VerifC13HoldAcquires(p GlobalCounterProvider) func() {
	g := p.(*globalCounterManager)
	g.acquireLock.Lock()
	return g.acquireLock.Unlock
}
