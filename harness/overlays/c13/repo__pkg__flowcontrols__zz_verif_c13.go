//go:build verif

// Export shim of property C13: the two parts of an upstream limiter that send requests to the limiter servers.
package flowcontrols

import "github.com/kubewharf/kubegateway/pkg/flowcontrols/remote"

// VerifC13Parts returns the allocate loop (reconcile) and the count path (global counter manager) of ul.
func VerifC13Parts(ul UpstreamLimiter) (remote.Reconcile, remote.GlobalCounterProvider) {
	u := ul.(*upstreamLimiter)
	return u.reconcile, u.globalCounterProvider
}
