//go:build verif

// Export shim of property C13: the three callbacks client-go's leader election invokes on the elector
// (see leaderElector.Run), callable without a running election.
package elector

// VerifC13StartLeading is what OnStartedLeading of shard shardId does.
func VerifC13StartLeading(l LeaderElector, shardId int) { l.(*leaderElector).startLeading(shardId) }

// VerifC13StopLeading is what OnStoppedLeading of shard shardId does.
func VerifC13StopLeading(l LeaderElector, shardId int) { l.(*leaderElector).stopLeading(shardId) }

// VerifC13SetLeader is what OnNewLeader(identity) of shard shardId does.
func VerifC13SetLeader(l LeaderElector, shardId int, identity string) {
	l.(*leaderElector).setLeader(shardId, identity)
}
