//go:build verif

// Export shim of property C13 (optional): the work queue of an upstream controller the harness does not run
// starts two goroutines when it is created; shut it down so that thousands of limiters do not pile them up.
package controller

// VerifC13ShutDown shuts the controller's queue down.
func VerifC13ShutDown(c UpstreamController) {
	if u, ok := c.(*upstreamController); ok && u.queue != nil {
		u.queue.ShutDown()
	}
}
