//go:build verif

// Export shim of property C13: a clientSets without its background loops, so that the harness decides when
// sync runs and what the lookup returns.
package clientsets

import (
	"sort"
	"time"

	"k8s.io/client-go/rest"
)

// VerifC13NewClientSets builds a clientSets like newClientSets does, minus the three goroutines, with a given
// state (shardCount, leaderEndpoints) and lookup function.
func VerifC13NewClientSets(restConfig *rest.Config, lookup LookupFunc, shardCount int, leaders map[int]string) ClientSets {
	c := &clientSets{
		service:    "verif",
		lookupFunc: lookup,
		restConfig: restConfig,
		runId:      "verif",
		insecure:   len(restConfig.TLSClientConfig.CAData) == 0,
		shardCount: shardCount,
	}
	for k, v := range leaders {
		c.leaderEndpoints.Store(k, v)
	}
	return c
}

// VerifC13Sync runs one sync round (lookup, GET server info, copy shard count and leaders).
func VerifC13Sync(cs ClientSets) { cs.(*clientSets).sync() }

// VerifC13State returns shardCount and leaderEndpoints.
func VerifC13State(cs ClientSets) (int, map[int]string, []int) {
	c := cs.(*clientSets)
	m := map[int]string{}
	var keys []int
	c.leaderEndpoints.Range(func(k, v interface{}) bool {
		m[k.(int)] = v.(string)
		keys = append(keys, k.(int))
		return true
	})
	sort.Ints(keys)
	return c.shardCount, m, keys
}

// VerifC13Heartbeat runs one heartbeat round (the real clientHeart: POST to every recorded leader, readiness).
func VerifC13Heartbeat(cs ClientSets) { cs.(*clientSets).clientHeart() }

// VerifC13AgeHeartbeats lets d of time pass for the readiness bookkeeping (lastChange moves into the past):
// the only clock clientSets reads is time.Now() against heartbeatStatus.lastChange.
func VerifC13AgeHeartbeats(cs ClientSets, d time.Duration) {
	cs.(*clientSets).leaderReady.Range(func(_, v interface{}) bool {
		st := v.(*heartbeatStatus)
		st.lastChange = st.lastChange.Add(-d)
		return true
	})
}
