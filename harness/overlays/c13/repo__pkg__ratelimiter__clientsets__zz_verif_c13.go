//go:build verif

// Export shim of property C13: a clientSets without its background loops, so that the harness decides when
// sync and the heartbeat run and what the lookup returns. It is built by the package's own constructor and
// its state is only ever set by the real sync(); the leader table is read by ROLE ("one shared table keyed by
// the shard id"), whatever its representation.
package clientsets

import (
	"context"
	"sort"
	"sync"
	"time"

	"k8s.io/client-go/rest"
)

// VerifC13NewClientSets builds a clientSets with the real constructor on a context that is already over (the
// three loops `wait.Until(…, ctx.Done())` return at once) and gives it the lookup function.
func VerifC13NewClientSets(restConfig *rest.Config, lookup LookupFunc) ClientSets {
	ctx, cancel := context.WithCancel(context.Background())
	cancel()
	cs := NewClientSetsWithRestConfig(ctx, "verif", "verif", restConfig)
	cs.(*clientSets).lookupFunc = lookup
	return cs
}

// VerifC13SetLookup replaces the lookup function.
func VerifC13SetLookup(cs ClientSets, lookup LookupFunc) { cs.(*clientSets).lookupFunc = lookup }

// VerifC13Sync runs one sync round (lookup, GET server info, copy shard count and leaders).
func VerifC13Sync(cs ClientSets) { cs.(*clientSets).sync() }

// VerifC13State returns shardCount and the shard -> leader table.
func VerifC13State(cs ClientSets) (int, map[int]string, []int) {
	c := cs.(*clientSets)
	m := map[int]string{}
	switch t := interface{}(&c.leaderEndpoints).(type) {
	case *sync.Map:
		t.Range(func(k, v interface{}) bool {
			m[k.(int)] = v.(string)
			return true
		})
	case *map[int]string:
		for k, v := range *t { // the harness reads while nothing else runs
			m[k] = v
		}
	default:
		panic("VerifC13State: leaderEndpoints has a representation this shim does not know")
	}
	var keys []int
	for k := range m {
		keys = append(keys, k)
	}
	sort.Ints(keys)
	return c.shardCount, m, keys
}

// VerifC13Heartbeat runs one heartbeat round (the real clientHeart: POST to every recorded leader, readiness).
func VerifC13Heartbeat(cs ClientSets) { cs.(*clientSets).clientHeart() }

// VerifC13AgeHeartbeats lets d of time pass for the readiness bookkeeping (lastChange moves into the past):
// the only clock clientSets reads is time.Now() against heartbeatStatus.lastChange.
func VerifC13AgeHeartbeats(cs ClientSets, d time.Duration) {
	cs.(*clientSets).leaderReady.Range(func(_, v interface{}) bool {
		st := v.(*heartbeatStatus)
		st.lastChange = st.lastChange.Add(-d)
		return true
	})
}
