//go:build verif

// Export shim for the C16 check (injected with `go build -overlay`, never part of /repo).
package remote

import (
	"context"

	proxyv1alpha1 "github.com/kubewharf/kubegateway/pkg/apis/proxy/v1alpha1"
	"github.com/kubewharf/kubegateway/pkg/ratelimiter/clientsets"
)

// VerifC16ReconcileOnce runs the statements of one period of reconcile.reconcile() synchronously on the given
// flow-control caches: updateGlobalCuntFlowControls, buildLimitConditions, <update> (stands for the UpdateStatus
// call to the limiter server), updateFlowControls. It returns the condition sent and the error of update.
func VerifC16ReconcileOnce(ctx context.Context, cluster string, cs clientsets.ClientSets, fcs map[string]FlowControlCache,
	update func(*proxyv1alpha1.RateLimitCondition) (*proxyv1alpha1.RateLimitCondition, error)) (*proxyv1alpha1.RateLimitCondition, error) {
	m := NewFlowControlsMap()
	for k, v := range fcs {
		m.Store(k, v)
	}
	r := NewReconcile(ctx, cluster, cs, m).(*reconcile)
	r.updateGlobalCuntFlowControls()
	condition := r.buildLimitConditions()
	ret, err := update(condition)
	if err != nil {
		return condition, err
	}
	r.updateFlowControls(ret)
	return condition, nil
}
