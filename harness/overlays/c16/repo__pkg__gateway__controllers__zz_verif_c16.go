//go:build verif

// Export shim for the C16 check (injected with `go build -overlay`, never part of /repo).
package controllers

import (
	"context"

	proxylisters "github.com/kubewharf/kubegateway/pkg/client/listers/proxy/v1alpha1"
	"github.com/kubewharf/kubegateway/pkg/clusters"
	"github.com/kubewharf/kubegateway/pkg/ratelimiter/clientsets"
	"github.com/kubewharf/kubegateway/pkg/syncqueue"
)

// VerifC16NewController builds the controller around a given lister, without informer and queue.
func VerifC16NewController(lister proxylisters.UpstreamClusterLister, rateLimiter string, cs clientsets.ClientSets) *UpstreamClusterController {
	ctx, cancel := context.WithCancel(context.Background())
	return &UpstreamClusterController{ctx: ctx, cancel: cancel, lister: lister, Manager: clusters.NewManager(),
		rateLimiter: rateLimiter, clientSets: cs}
}

// VerifC16Sync is the queue worker's handler.
func (m *UpstreamClusterController) VerifC16Sync(obj interface{}) (syncqueue.Result, error) {
	return m.syncUpstreamCluster(obj)
}
