//go:build verif

// Export shim for the C16 check (injected with `go build -overlay`, never part of /repo).
package limiter

import (
	"sync"

	"github.com/kubewharf/kubegateway/pkg/ratelimiter/limiter/controller"
	"github.com/kubewharf/kubegateway/pkg/ratelimiter/limiter/elector"
	_interface "github.com/kubewharf/kubegateway/pkg/ratelimiter/store/interface"
)

// VerifC16NewRateLimiter builds the limiter server's rateLimiter around a given elector, upstream controller
// (lister) and store, the store serving every shard.
func VerifC16NewRateLimiter(le elector.LeaderElector, uc controller.UpstreamController, store _interface.LimitStore, shardCount int) RateLimiter {
	r := &rateLimiter{
		runId:              "verif",
		identity:           "verif",
		shardCount:         shardCount,
		leaderElector:      le,
		clientCache:        NewClientCache(),
		limitStoreMap:      map[int]_interface.LimitStore{},
		upstreamLock:       map[string]*sync.Mutex{},
		upstreamController: uc,
	}
	for i := 0; i < shardCount; i++ {
		r.limitStoreMap[i] = store
	}
	return r
}

// VerifC16Handle is the upstream controller's handler.
func VerifC16Handle(r RateLimiter) controller.UpstreamClusterHandler {
	return r.(*rateLimiter).UpstreamConditionHandler
}
