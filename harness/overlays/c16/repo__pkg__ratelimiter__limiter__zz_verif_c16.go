//go:build verif

// Export shim for the C16 check (injected with `go build -overlay`, never part of /repo).
package limiter

import (
	"sync"

	gatewayclientset "github.com/kubewharf/kubegateway/pkg/client/kubernetes"
	"github.com/kubewharf/kubegateway/pkg/ratelimiter/limiter/controller"
	"github.com/kubewharf/kubegateway/pkg/ratelimiter/limiter/elector"
	"github.com/kubewharf/kubegateway/pkg/ratelimiter/options"
	_interface "github.com/kubewharf/kubegateway/pkg/ratelimiter/store/interface"
)

// VerifC16NewRateLimiter builds the limiter server's rateLimiter around a given elector, upstream controller
// (lister) and store, the store serving every shard.
func VerifC16NewRateLimiter(le elector.LeaderElector, uc controller.UpstreamController, store _interface.LimitStore, shardCount int) RateLimiter {
	r := &rateLimiter{
		runId:              "verif",
		identity:           "verif",
		shardCount:         shardCount,
		leaderElector:      le,
		clientCache:        NewClientCache(),
		limitStoreMap:      map[int]_interface.LimitStore{},
		upstreamLock:       map[string]*sync.Mutex{},
		upstreamController: uc,
	}
	for i := 0; i < shardCount; i++ {
		r.limitStoreMap[i] = store
	}
	return r
}

// VerifC16Handle is the upstream controller's handler.
func VerifC16Handle(r RateLimiter) controller.UpstreamClusterHandler {
	return r.(*rateLimiter).UpstreamConditionHandler
}

// VerifC16NewReplica builds a limiter-server replica that creates its stores itself, the way the real one does when
// it starts leading a shard: store kind "local" or "k8s" (over gatewayClient, no periodic flusher: it flushes when
// it stops leading), one shard.
func VerifC16NewReplica(le elector.LeaderElector, uc controller.UpstreamController, gatewayClient gatewayclientset.Interface, storeKind string) RateLimiter {
	return &rateLimiter{
		runId:              "verif",
		identity:           "verif",
		shardCount:         1,
		limitOptions:       options.RateLimitOptions{ShardingCount: 1, LimitStore: storeKind, Identity: "verif"},
		gatewayClient:      gatewayClient,
		leaderElector:      le,
		clientCache:        NewClientCache(),
		limitStoreMap:      map[int]_interface.LimitStore{},
		upstreamLock:       map[string]*sync.Mutex{},
		upstreamController: uc,
	}
}

// VerifC16StartLeading / VerifC16StopLeading are the leader elector's callbacks: startLeading creates the shard's
// store, Load()s it and re-applies every upstream cluster of the shard (syncUpstreamClustersForShard);
// stopLeading drops the store and stops it (the k8s store flushes).
func VerifC16StartLeading(r RateLimiter, shard int) { r.(*rateLimiter).startLeading(shard) }
func VerifC16StopLeading(r RateLimiter, shard int)  { r.(*rateLimiter).stopLeading(shard) }

// VerifC16Store returns the store of a shard (nil when the replica does not lead it).
func VerifC16Store(r RateLimiter, shard int) _interface.LimitStore {
	return r.(*rateLimiter).getLimitStoreForShard(shard)
}
