//go:build verif

// Export shim for the C16 check (injected with `go build -overlay`, never part of /repo).
package upstreamclusteradmission

import (
	"k8s.io/apiserver/pkg/admission"

	proxylisters "github.com/kubewharf/kubegateway/pkg/client/listers/proxy/v1alpha1"
)

// VerifC16NewPlugin builds the admission plugin around a given lister, its cache reported as warm.
func VerifC16NewPlugin(lister proxylisters.UpstreamClusterLister) admission.ValidationInterface {
	p := &upstreamclusterPlugin{Handler: admission.NewHandler(admission.Create, admission.Update), lister: lister}
	p.SetReadyFunc(func() bool { return true })
	return p
}
