//go:build verif

// Export shim for the C16 check (injected with `go build -overlay`, never part of /repo).
package clusters

import (
	"k8s.io/apiserver/pkg/authorization/authorizer"

	proxyv1alpha1 "github.com/kubewharf/kubegateway/pkg/apis/proxy/v1alpha1"
	"github.com/kubewharf/kubegateway/pkg/flowcontrols/remote"
	"github.com/kubewharf/kubegateway/pkg/ratelimiter/clientsets"
)

// VerifC16Create runs the three statements of CreateClusterInfo (buildClusterRESTConfig, NewEmptyClusterInfo,
// Sync) but hands the ClusterInfo out through *out before Sync runs, so that a half-built one can be stopped
// when Sync fails or panics (CreateClusterInfo drops it).
func VerifC16Create(cluster *proxyv1alpha1.UpstreamCluster, healthCheck EndpointHealthCheck, rateLimiter string,
	clientSets clientsets.ClientSets, out **ClusterInfo) error {
	restconfig, err := buildClusterRESTConfig(cluster)
	if err != nil {
		return err
	}
	info := NewEmptyClusterInfo(cluster.Name, restconfig, healthCheck, rateLimiter, clientSets)
	*out = info
	return info.Sync(cluster)
}

// VerifC16FlowControls returns the cluster's flow-control caches (name -> cache).
func VerifC16FlowControls(c *ClusterInfo) map[string]remote.FlowControlCache {
	return c.flowcontrol.AllFlowControls()
}

// VerifC16Stop stops the cluster and the meters of its flow controls (ClusterInfo.Stop leaves them running).
func VerifC16Stop(c *ClusterInfo) {
	if c == nil {
		return
	}
	c.Stop()
	for _, fc := range c.flowcontrol.AllFlowControls() {
		func() {
			defer func() { recover() }() //nolint
			fc.Stop()
		}()
	}
}

// VerifC16Resolve: what a request resolves to on this cluster - the upstreams of the picker MatchAttributes builds
// for the dispatch policy the request matches, which of them Pop can load, the flow control's name and limiter.
func VerifC16Resolve(c *ClusterInfo, a authorizer.Attributes) (upstreams []string, loaded []string, flowControlName, limiter string, picker EndpointPicker, err error) {
	p, err := c.MatchAttributes(a)
	if err != nil {
		return nil, nil, "", "", nil, err
	}
	s := p.(*endpointPickStrategy)
	for _, ep := range s.upstreams {
		if _, ok := c.Endpoints.Load(ep); ok {
			loaded = append(loaded, ep)
		}
	}
	func() {
		defer func() {
			if r := recover(); r != nil {
				limiter = "nil"
			}
		}()
		limiter = s.flowControl.String()
	}()
	return append([]string{}, s.upstreams...), loaded, s.flowControlName, limiter, p, nil
}

// VerifC16MarkHealthy reports every endpoint of the cluster healthy, as a successful health check does.
func VerifC16MarkHealthy(c *ClusterInfo) {
	c.Endpoints.Range(func(name string, info *EndpointInfo) bool {
		info.UpdateStatus(true, "", "")
		return true
	})
}
