//go:build verif

// Export shim for the C16 check (injected with `go build -overlay`, never part of /repo).
package clusters

import (
	proxyv1alpha1 "github.com/kubewharf/kubegateway/pkg/apis/proxy/v1alpha1"
	"github.com/kubewharf/kubegateway/pkg/flowcontrols/remote"
	"github.com/kubewharf/kubegateway/pkg/ratelimiter/clientsets"
)

// VerifC16Create runs the three statements of CreateClusterInfo (buildClusterRESTConfig, NewEmptyClusterInfo,
// Sync) but hands the ClusterInfo out through *out before Sync runs, so that a half-built one can be stopped
// when Sync fails or panics (CreateClusterInfo drops it).
func VerifC16Create(cluster *proxyv1alpha1.UpstreamCluster, healthCheck EndpointHealthCheck, rateLimiter string,
	clientSets clientsets.ClientSets, out **ClusterInfo) error {
	restconfig, err := buildClusterRESTConfig(cluster)
	if err != nil {
		return err
	}
	info := NewEmptyClusterInfo(cluster.Name, restconfig, healthCheck, rateLimiter, clientSets)
	*out = info
	return info.Sync(cluster)
}

// VerifC16FlowControls returns the cluster's flow-control caches (name -> cache).
func VerifC16FlowControls(c *ClusterInfo) map[string]remote.FlowControlCache {
	return c.flowcontrol.AllFlowControls()
}

// VerifC16Stop stops the cluster and the meters of its flow controls (ClusterInfo.Stop leaves them running).
func VerifC16Stop(c *ClusterInfo) {
	if c == nil {
		return
	}
	c.Stop()
	for _, fc := range c.flowcontrol.AllFlowControls() {
		func() {
			defer func() { recover() }() //nolint
			fc.Stop()
		}()
	}
}
