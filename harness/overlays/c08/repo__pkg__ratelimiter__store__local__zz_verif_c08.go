//go:build verif

// Export shim for the C08 correspondence harness (injected with `go build -overlay`, never part of /repo).
package local

import (
	"github.com/kubewharf/kubegateway/pkg/ratelimiter/store/flowcontrol"
	_interface "github.com/kubewharf/kubegateway/pkg/ratelimiter/store/interface"
)

// VerifC08FlowControls lists the flow controls the local store holds for one upstream.
func VerifC08FlowControls(s _interface.LimitStore, cluster string) map[string]flowcontrol.GlobalFlowControl {
	res := map[string]flowcontrol.GlobalFlowControl{}
	ls, ok := s.(*localStore)
	if !ok {
		return res
	}
	v, ok := ls.clusters.Load(cluster)
	if !ok {
		return res
	}
	v.(*upstreamCondition).flowControls.Range(func(key, value interface{}) bool {
		res[key.(string)] = value.(flowcontrol.GlobalFlowControl)
		return true
	})
	return res
}
