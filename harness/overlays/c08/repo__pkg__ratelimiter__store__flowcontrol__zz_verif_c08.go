//go:build verif

// Export shim for the C08 correspondence harness (injected with `go build -overlay`, never part of /repo).
package flowcontrol

import (
	"sync/atomic"

	"golang.org/x/time/rate"
)

// VerifC08State is the observable state of a global flow control.
type VerifC08State struct {
	Kind   string // "mif" | "tb" | ""
	Max    int32
	Count  int32
	States map[string][2]int64 // instance -> (count, requestId)
	QPS    int32
	Burst  int32
}

// VerifC08Snapshot reads the unexported fields of a flow control (under its own lock).
func VerifC08Snapshot(fc GlobalFlowControl) VerifC08State {
	switch f := fc.(type) {
	case *globalMaxInflight:
		st := VerifC08State{Kind: "mif", States: map[string][2]int64{}}
		f.lock.RLock()
		for k, v := range f.instanceStates {
			st.States[k] = [2]int64{int64(atomic.LoadInt32(&v.count)), atomic.LoadInt64(&v.requestId)}
		}
		f.lock.RUnlock()
		st.Max = atomic.LoadInt32(&f.max)
		st.Count = atomic.LoadInt32(&f.count)
		return st
	case *globalTokenBucket:
		return VerifC08State{Kind: "tb", QPS: f.qps, Burst: f.burst}
	}
	return VerifC08State{}
}

// VerifC08Limiter returns the rate.Limiter a server token bucket consults in TryAcquireN.
func VerifC08Limiter(fc GlobalFlowControl) *rate.Limiter {
	if f, ok := fc.(*globalTokenBucket); ok {
		return f.limiter
	}
	return nil
}
