//go:build verif

// Export shim for the C08 correspondence harness (injected with `go build -overlay`, never part of /repo):
// a real rateLimiter that is leader of its single shard and owns the given limit store, so that the real DoAcquire,
// Heartbeat, cleanupTimeoutClient and cleanupUnknownCondition can be driven without an API server, leader election
// or timers. Which clients are past the heartbeat time-out is scripted by re-dating the entries of the real cache.
package limiter

import (
	"context"
	"fmt"
	"runtime"
	"strings"
	"sync"
	"time"

	"k8s.io/client-go/tools/cache"

	proxyv1alpha1 "github.com/kubewharf/kubegateway/pkg/apis/proxy/v1alpha1"
	proxylisters "github.com/kubewharf/kubegateway/pkg/client/listers/proxy/v1alpha1"
	"github.com/kubewharf/kubegateway/pkg/ratelimiter/limiter/elector"
	_interface "github.com/kubewharf/kubegateway/pkg/ratelimiter/store/interface"
)

type verifC08Elector struct{ leader bool }

func (verifC08Elector) Run(ctx context.Context)              {}
func (e verifC08Elector) IsLeader(shardId int) bool          { return e.leader }
func (verifC08Elector) SetCallbacks(elector.LeaderCallbacks) {}
func (verifC08Elector) GetLeaders() map[int]proxyv1alpha1.EndpointInfo {
	return map[int]proxyv1alpha1.EndpointInfo{0: {Leader: "other"}}
}

type verifC08Controller struct {
	lister proxylisters.UpstreamClusterLister
}

func (c *verifC08Controller) Run(stopCh <-chan struct{})                                {}
func (c *verifC08Controller) UpstreamClusterLister() proxylisters.UpstreamClusterLister { return c.lister }
func (c *verifC08Controller) Get(cluster string) (*proxyv1alpha1.UpstreamCluster, bool) {
	return nil, false
}

// VerifC08Rig is the limiter server object around a store, with its environment scripted.
type VerifC08Rig struct {
	r       *rateLimiter
	indexer cache.Indexer
}

// VerifC08NewRig: upstreams are the UpstreamCluster names the lister knows (cleanupUnknownCondition drops the stores
// of unknown upstreams).
func VerifC08NewRig(store _interface.LimitStore, leader bool, upstreams ...string) *VerifC08Rig {
	indexer := cache.NewIndexer(cache.MetaNamespaceKeyFunc, cache.Indexers{})
	for _, u := range upstreams {
		uc := &proxyv1alpha1.UpstreamCluster{}
		uc.Name = u
		indexer.Add(uc)
	}
	r := &rateLimiter{
		runId:              "verif",
		identity:           "verif",
		shardCount:         1,
		leaderElector:      verifC08Elector{leader: leader},
		clientCache:        NewClientCache(),
		limitStoreMap:      map[int]_interface.LimitStore{0: store},
		upstreamLock:       map[string]*sync.Mutex{},
		upstreamController: &verifC08Controller{lister: proxylisters.NewUpstreamClusterLister(indexer)},
	}
	return &VerifC08Rig{r: r, indexer: indexer}
}

// VerifC08RateLimiter builds the limiter server object around a store.
func VerifC08RateLimiter(store _interface.LimitStore, leader bool) RateLimiter {
	return VerifC08NewRig(store, leader).r
}

func (g *VerifC08Rig) Limiter() RateLimiter { return g.r }

// Clients reads the real heartbeat table.
func (g *VerifC08Rig) Clients() []string {
	clients, _ := g.r.clientCache.AllClients()
	res := []string{}
	for c := range clients {
		res = append(res, c)
	}
	return res
}

func verifC08PassRunning() bool {
	buf := make([]byte, 1<<20)
	for {
		n := runtime.Stack(buf, true)
		if n < len(buf) {
			return strings.Contains(string(buf[:n]), "cleanupTimeoutClient.func")
		}
		buf = make([]byte, 2*len(buf))
	}
}

// SweepTimeout runs ONE real cleanupTimeoutClient pass in which exactly the recorded clients named in stale are past
// ClientHeartBeatTimeout: their entries are re-dated to three time-outs ago, all others to now (margins of seconds on
// both sides, so the real clock cannot change who is stale). The goroutines the pass starts are awaited.
func (g *VerifC08Rig) SweepTimeout(stale []string) error {
	isStale := map[string]bool{}
	for _, s := range stale {
		isStale[s] = true
	}
	clients, _ := g.r.clientCache.AllClients()
	now := time.Now()
	for c := range clients {
		if isStale[c] {
			g.r.clientCache.clientHeartbeats.Store(c, now.Add(-3*ClientHeartBeatTimeout))
		} else {
			g.r.clientCache.clientHeartbeats.Store(c, now)
		}
	}
	g.r.cleanupTimeoutClient()
	deadline := time.Now().Add(20 * time.Second)
	for verifC08PassRunning() {
		if time.Now().After(deadline) {
			return fmt.Errorf("goroutines started by cleanupTimeoutClient did not finish")
		}
		time.Sleep(20 * time.Microsecond)
	}
	return nil
}

// CleanupUnknown runs ONE real cleanupUnknownCondition pass (synchronous).
func (g *VerifC08Rig) CleanupUnknown() { g.r.cleanupUnknownCondition() }
