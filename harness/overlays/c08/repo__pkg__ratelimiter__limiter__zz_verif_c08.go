//go:build verif

// Export shim for the C08 correspondence harness (injected with `go build -overlay`, never part of /repo):
// a rateLimiter that is leader of its single shard and owns the given limit store, so that the real
// DoAcquire can be driven without an API server or leader election.
package limiter

import (
	"context"
	"sync"

	proxyv1alpha1 "github.com/kubewharf/kubegateway/pkg/apis/proxy/v1alpha1"
	"github.com/kubewharf/kubegateway/pkg/ratelimiter/limiter/elector"
	_interface "github.com/kubewharf/kubegateway/pkg/ratelimiter/store/interface"
)

type verifC08Elector struct{ leader bool }

func (verifC08Elector) Run(ctx context.Context)                 {}
func (e verifC08Elector) IsLeader(shardId int) bool             { return e.leader }
func (verifC08Elector) SetCallbacks(elector.LeaderCallbacks)    {}
func (verifC08Elector) GetLeaders() map[int]proxyv1alpha1.EndpointInfo {
	return map[int]proxyv1alpha1.EndpointInfo{0: {Leader: "other"}}
}

// VerifC08RateLimiter builds the limiter server object around a store.
func VerifC08RateLimiter(store _interface.LimitStore, leader bool) RateLimiter {
	return &rateLimiter{
		runId:         "verif",
		identity:      "verif",
		shardCount:    1,
		leaderElector: verifC08Elector{leader: leader},
		clientCache:   NewClientCache(),
		limitStoreMap: map[int]_interface.LimitStore{0: store},
		upstreamLock:  map[string]*sync.Mutex{},
	}
}
