//go:build verif

// OPTIONAL export shim for the C15 correspondence harness (dropped, with build tag no_hcwrap, when it no longer builds):
// a way to count, per EndpointInfo object, the calls its health-check loop makes (the loop calls e.healthCheckFun(e)).
// Without it the harness counts /healthz arrivals at the stub upstreams per (cluster credential, upstream) instead.
package clusters

// VerifC15WrapHealthCheck replaces the endpoint's health-check function by wrap(current function).
func (e *EndpointInfo) VerifC15WrapHealthCheck(wrap func(EndpointHealthCheck) EndpointHealthCheck) {
	e.Lock()
	defer e.Unlock()
	if e.healthCheckFun != nil {
		e.healthCheckFun = wrap(e.healthCheckFun)
	}
}
