//go:build verif

// Export shim for the C15 correspondence harness (injected with `go build -overlay`, never part of /repo):
// an UpstreamClusterController whose lister reads a caller-owned indexer (instead of a watch connection), around
// the real clusters.NewManager(), and access to the real, unexported queue handler syncUpstreamCluster.
package controllers

import (
	"context"

	"k8s.io/client-go/tools/cache"

	proxylisters "github.com/kubewharf/kubegateway/pkg/client/listers/proxy/v1alpha1"
	"github.com/kubewharf/kubegateway/pkg/clusters"
)

// VerifC15NewController returns a controller whose lister reads the given indexer.
func VerifC15NewController(indexer cache.Indexer) *UpstreamClusterController {
	ctx, cancel := context.WithCancel(context.Background())
	return &UpstreamClusterController{
		ctx:     ctx,
		cancel:  cancel,
		lister:  proxylisters.NewUpstreamClusterLister(indexer),
		synced:  func() bool { return true },
		Manager: clusters.NewManager(),
	}
}

// VerifC15Sync is the queue handler (syncUpstreamCluster); requeue reports a non-zero RequeueAfter.
func (m *UpstreamClusterController) VerifC15Sync(obj interface{}) (requeue bool, err error) {
	res, err := m.syncUpstreamCluster(obj)
	return res.Requeue || res.RequeueAfter > 0, err
}

// VerifC15Stop cancels the controller context and stops every ClusterInfo still registered.
func (m *UpstreamClusterController) VerifC15Stop() {
	m.cancel()
	m.DeleteAll()
}
