//go:build verif

// Export shim for the C15 correspondence harness: the raw key set of the manager's sync.Map, and a way to count,
// per EndpointInfo object, the calls its health-check loop makes (the loop calls e.healthCheckFun(e)).
package clusters

// VerifC15Keys lists the keys currently stored in a manager created by NewManager.
func VerifC15Keys(m Manager) map[string]*ClusterInfo {
	out := map[string]*ClusterInfo{}
	mm, ok := m.(*manager)
	if !ok {
		return out
	}
	mm.clusters.Range(func(k, v interface{}) bool {
		out[k.(string)] = v.(*ClusterInfo)
		return true
	})
	return out
}

// VerifC15WrapHealthCheck replaces the endpoint's health-check function by wrap(current function).
func (e *EndpointInfo) VerifC15WrapHealthCheck(wrap func(EndpointHealthCheck) EndpointHealthCheck) {
	e.Lock()
	defer e.Unlock()
	if e.healthCheckFun != nil {
		e.healthCheckFun = wrap(e.healthCheckFun)
	}
}
