//go:build verif

package local

// OPTIONAL shim (tag no_spec when it no longer builds): the only thing the C18 harness reads from the local store's
// fields. Conditions and flow controls are read through the LimitStore interface (List, ListUpstream, GetFlowControl).

import (
	proxyv1alpha1 "github.com/kubewharf/kubegateway/pkg/apis/proxy/v1alpha1"
	_interface "github.com/kubewharf/kubegateway/pkg/ratelimiter/store/interface"
)

// VerifC18Spec: the flow-control spec last synchronised for a cluster (decides whether the next SyncFlowControl is a no-op).
func VerifC18Spec(s _interface.LimitStore, cluster string) (proxyv1alpha1.FlowControl, bool) {
	ls, ok := s.(*localStore)
	if !ok {
		return proxyv1alpha1.FlowControl{}, false
	}
	v, ok := ls.clusters.Load(cluster)
	if !ok {
		return proxyv1alpha1.FlowControl{}, true
	}
	return v.(*upstreamCondition).currentFlowControlSpec, true
}
