//go:build verif

package flowcontrol

import "sync/atomic"

// OPTIONAL shim (tag no_fc when it no longer builds; the harness then reads Type(), String() and DebugInfo()).

// VerifC18FC is the content of a global flow control.
type VerifC18FC struct {
	Name   string
	IsMif  bool
	Max    int32 // max in flight, or qps
	Burst  int32
	Count  int32
	States map[string][2]int64 // instance -> (count, requestId)
}

// VerifC18Inspect reads a global flow control (read only).
func VerifC18Inspect(fc GlobalFlowControl) (VerifC18FC, bool) {
	switch f := fc.(type) {
	case *globalMaxInflight:
		res := VerifC18FC{Name: f.name, IsMif: true, Max: atomic.LoadInt32(&f.max), Count: atomic.LoadInt32(&f.count), States: map[string][2]int64{}}
		f.lock.RLock()
		for i, st := range f.instanceStates {
			res.States[i] = [2]int64{int64(atomic.LoadInt32(&st.count)), atomic.LoadInt64(&st.requestId)}
		}
		f.lock.RUnlock()
		return res, true
	case *globalTokenBucket:
		return VerifC18FC{Name: f.name, IsMif: false, Max: f.qps, Burst: f.burst, States: map[string][2]int64{}}, true
	}
	return VerifC18FC{}, false
}
