//go:build verif

package local

import (
	proxyv1alpha1 "github.com/kubewharf/kubegateway/pkg/apis/proxy/v1alpha1"
	"github.com/kubewharf/kubegateway/pkg/ratelimiter/store/flowcontrol"
	_interface "github.com/kubewharf/kubegateway/pkg/ratelimiter/store/interface"
)

// VerifC18Cluster is one entry of localStore.clusters.
type VerifC18Cluster struct {
	Name         string
	Conditions   []*proxyv1alpha1.RateLimitCondition
	FlowControls map[string]flowcontrol.GlobalFlowControl
	Spec         proxyv1alpha1.FlowControl
}

// VerifC18Dump walks a local store (read only). ok is false when the store is not the local one.
func VerifC18Dump(s _interface.LimitStore) (res []VerifC18Cluster, ok bool) {
	ls, ok := s.(*localStore)
	if !ok {
		return nil, false
	}
	ls.clusters.Range(func(key, value interface{}) bool {
		uc := value.(*upstreamCondition)
		c := VerifC18Cluster{Name: key.(string), FlowControls: map[string]flowcontrol.GlobalFlowControl{}, Spec: uc.currentFlowControlSpec}
		uc.conditions.Range(func(_, v interface{}) bool {
			c.Conditions = append(c.Conditions, v.(*proxyv1alpha1.RateLimitCondition))
			return true
		})
		uc.flowControls.Range(func(k, v interface{}) bool {
			c.FlowControls[k.(string)] = v.(flowcontrol.GlobalFlowControl)
			return true
		})
		res = append(res, c)
		return true
	})
	return res, true
}
