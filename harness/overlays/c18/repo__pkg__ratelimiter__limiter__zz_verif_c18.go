//go:build verif

package limiter

// Export shim for the C18 harness (injected with `go build -overlay`, never part of /repo).
// It builds the real, unexported rateLimiter with a scripted LeaderElector and a lister over a plain indexer
// (no informers, no timers) and lets the harness run ONE clean-up pass synchronously with a scripted clock.

import (
	"context"
	"errors"
	"fmt"
	"reflect"
	"runtime"
	"sort"
	"sync"
	"time"
	"unsafe"

	metav1 "k8s.io/apimachinery/pkg/apis/meta/v1"
	"k8s.io/apimachinery/pkg/labels"
	kubefake "k8s.io/client-go/kubernetes/fake"
	"k8s.io/client-go/tools/cache"
	componentbaseconfig "k8s.io/component-base/config"

	proxyv1alpha1 "github.com/kubewharf/kubegateway/pkg/apis/proxy/v1alpha1"
	gatewayclientset "github.com/kubewharf/kubegateway/pkg/client/kubernetes"
	gatewayfake "github.com/kubewharf/kubegateway/pkg/client/kubernetes/fake"
	proxylisters "github.com/kubewharf/kubegateway/pkg/client/listers/proxy/v1alpha1"
	"github.com/kubewharf/kubegateway/pkg/ratelimiter/limiter/elector"
	"github.com/kubewharf/kubegateway/pkg/ratelimiter/options"
	_interface "github.com/kubewharf/kubegateway/pkg/ratelimiter/store/interface"
)

type verifC18Elector struct {
	mu       sync.RWMutex
	identity string
	count    int
	led      map[int]bool
}

func (e *verifC18Elector) Run(ctx context.Context)              {}
func (e *verifC18Elector) SetCallbacks(elector.LeaderCallbacks) {}
func (e *verifC18Elector) IsLeader(shardId int) bool {
	e.mu.RLock()
	defer e.mu.RUnlock()
	return e.led[shardId]
}
func (e *verifC18Elector) GetLeaders() map[int]proxyv1alpha1.EndpointInfo {
	e.mu.Lock()
	defer e.mu.Unlock()
	res := map[int]proxyv1alpha1.EndpointInfo{}
	for s := 0; s < e.count; s++ {
		res[s] = proxyv1alpha1.EndpointInfo{Leader: "somebody-else", ShardID: int32(s)}
	}
	for s, b := range e.led {
		if b {
			res[s] = proxyv1alpha1.EndpointInfo{Leader: e.identity, ShardID: int32(s)}
		}
	}
	return res
}

type verifC18Controller struct {
	lister proxylisters.UpstreamClusterLister
}

func (c *verifC18Controller) Run(stopCh <-chan struct{})                                  {}
func (c *verifC18Controller) UpstreamClusterLister() proxylisters.UpstreamClusterLister { return c.lister }
func (c *verifC18Controller) Get(cluster string) (*proxyv1alpha1.UpstreamCluster, bool)  { return nil, false }

// VerifC18Rig is a real rateLimiter whose environment (leadership, lister, clock of the heartbeat table) is scripted.
type VerifC18Rig struct {
	r       *rateLimiter
	el      *verifC18Elector
	indexer cache.Indexer
	base    time.Time
}

func VerifC18New(identity string, shardCount int) *VerifC18Rig {
	return VerifC18NewWith(identity, shardCount, "local", nil)
}

// VerifC18NewWith: storeKind is "local" or "k8s" (API-backed store in write-through mode: no flusher goroutine)
// over the given gateway client.
func VerifC18NewWith(identity string, shardCount int, storeKind string, client gatewayclientset.Interface) *VerifC18Rig {
	indexer := cache.NewIndexer(cache.MetaNamespaceKeyFunc, cache.Indexers{})
	el := &verifC18Elector{identity: identity, count: shardCount, led: map[int]bool{}}
	ctl := &verifC18Controller{lister: proxylisters.NewUpstreamClusterLister(indexer)}
	opts := options.RateLimitOptions{LimitStore: storeKind, ShardingCount: shardCount, Identity: identity, K8sStoreSyncPeriod: 0,
		LeaderElectionConfiguration: componentbaseconfig.LeaderElectionConfiguration{LeaderElect: true, ResourceLock: "leases",
			ResourceNamespace: "kube-system", ResourceName: "verif-limiter",
			LeaseDuration: metav1.Duration{Duration: 15 * time.Second}, RenewDeadline: metav1.Duration{Duration: 10 * time.Second},
			RetryPeriod: metav1.Duration{Duration: 2 * time.Second}}}
	// The limiter is built by the SHIPPED constructor (whatever it wires up - limiters, caches, defaults - is there), then
	// its environment is replaced by the scripted one: the elector and the upstream controller. Nothing is started.
	var r *rateLimiter
	gw := client
	if gw == nil {
		gw = gatewayfake.NewSimpleClientset()
	}
	if rl, err := NewRateLimiter(gw, kubefake.NewSimpleClientset(), opts); err == nil {
		r, _ = rl.(*rateLimiter)
	}
	if r == nil {
		// the constructor could not be used without a cluster: fall back to the bare struct
		r = &rateLimiter{runId: "verif", identity: identity, shardCount: shardCount, limitOptions: opts,
			clientCache: NewClientCache(), limitStoreMap: map[int]_interface.LimitStore{}, upstreamLock: map[string]*sync.Mutex{}}
	}
	r.gatewayClient = client
	r.leaderElector = el
	r.upstreamController = ctl
	return &VerifC18Rig{r: r, el: el, indexer: indexer, base: time.Unix(1700000000, 0)}
}

func (g *VerifC18Rig) VerifC18Limiter() RateLimiter { return g.r }

func (g *VerifC18Rig) VerifC18SetLeader(shard int, b bool) {
	g.el.mu.Lock()
	if b {
		g.el.led[shard] = true
	} else {
		delete(g.el.led, shard)
	}
	g.el.mu.Unlock()
}

func (g *VerifC18Rig) VerifC18IsLeader(shard int) bool { return g.el.IsLeader(shard) }

func (g *VerifC18Rig) VerifC18Leaders() []int {
	g.el.mu.Lock()
	defer g.el.mu.Unlock()
	var res []int
	for s, b := range g.el.led {
		if b {
			res = append(res, s)
		}
	}
	sort.Ints(res)
	return res
}

// VerifC18LeaderCheck runs the real leaderCheck (startLeading / stopLeading).
func (g *VerifC18Rig) VerifC18LeaderCheck() { g.r.leaderCheck() }

func (g *VerifC18Rig) VerifC18List(c *proxyv1alpha1.UpstreamCluster) error {
	if _, ok, _ := g.indexer.GetByKey(c.Name); ok {
		return g.indexer.Update(c)
	}
	return g.indexer.Add(c)
}

func (g *VerifC18Rig) VerifC18Unlist(name string) {
	if obj, ok, _ := g.indexer.GetByKey(name); ok {
		g.indexer.Delete(obj)
	}
}

func (g *VerifC18Rig) VerifC18Listed() []*proxyv1alpha1.UpstreamCluster {
	l, _ := g.r.upstreamController.UpstreamClusterLister().List(labels.Everything())
	return l
}

// VerifC18Handle delivers one upstream event: the real UpstreamConditionHandler on the lister's object, or on a
// bare object of that name when the upstream is gone.
func (g *VerifC18Rig) VerifC18Handle(name string) error {
	c, err := g.r.upstreamController.UpstreamClusterLister().Get(name)
	if err != nil {
		c = &proxyv1alpha1.UpstreamCluster{}
		c.Name = name
	}
	return g.r.UpstreamConditionHandler(c)
}

// verifC18Redate writes one entry of the heartbeat table with a time of the harness's choosing (the code has no clock
// to inject). The table is found by ROLE, not by name: the one field of ClientCache that is a shared table from
// instance to time - a sync.Map, or a map[string]time.Time guarded by whatever sync.Mutex / sync.RWMutex fields sit
// beside it (values or pointers). Reading always goes through the package's own AllClients().
func verifC18Redate(c *ClientCache, instance string, t time.Time) error {
	v := reflect.ValueOf(c).Elem()
	var lockers []sync.Locker
	var sm *sync.Map
	var mp *map[string]time.Time
	for i := 0; i < v.NumField(); i++ {
		f := v.Field(i)
		p := unsafe.Pointer(f.UnsafeAddr())
		switch f.Type() {
		case reflect.TypeOf(sync.Map{}):
			sm = (*sync.Map)(p)
		case reflect.TypeOf(&sync.Map{}):
			sm = *(**sync.Map)(p)
		case reflect.TypeOf(map[string]time.Time{}):
			mp = (*map[string]time.Time)(p)
		case reflect.TypeOf(sync.RWMutex{}):
			lockers = append(lockers, (*sync.RWMutex)(p))
		case reflect.TypeOf(&sync.RWMutex{}):
			lockers = append(lockers, *(**sync.RWMutex)(p))
		case reflect.TypeOf(sync.Mutex{}):
			lockers = append(lockers, (*sync.Mutex)(p))
		case reflect.TypeOf(&sync.Mutex{}):
			lockers = append(lockers, *(**sync.Mutex)(p))
		}
	}
	switch {
	case sm != nil && mp == nil:
		sm.Store(instance, t)
	case mp != nil && sm == nil:
		for _, l := range lockers {
			l.Lock()
		}
		if *mp == nil {
			*mp = map[string]time.Time{}
		}
		(*mp)[instance] = t
		for i := len(lockers) - 1; i >= 0; i-- {
			lockers[i].Unlock()
		}
	default:
		return fmt.Errorf("verif: ClientCache no longer holds one table from instance to time (sync.Map or map[string]time.Time)")
	}
	// the package's own reader must see it
	if all, _ := c.AllClients(); !all[instance].Equal(t) {
		return fmt.Errorf("verif: an entry written to ClientCache's table is not what AllClients() answers")
	}
	return nil
}

// VerifC18Heartbeat calls the real Heartbeat, checks that it recorded the wall clock, then re-dates the entry to the
// scripted time tMs (milliseconds on the rig's own time axis).
func (g *VerifC18Rig) VerifC18Heartbeat(instance string, tMs int64) error {
	before := time.Now()
	if err := g.r.Heartbeat(instance); err != nil {
		return err
	}
	after := time.Now()
	all, _ := g.r.clientCache.AllClients()
	t, ok := all[instance]
	if !ok {
		return fmt.Errorf("Heartbeat(%q) recorded nothing", instance)
	}
	if t.Before(before.Add(-time.Millisecond)) || t.After(after.Add(time.Millisecond)) {
		return fmt.Errorf("Heartbeat(%q) recorded %v, not the current time", instance, t)
	}
	return verifC18Redate(g.r.clientCache, instance, g.base.Add(time.Duration(tMs)*time.Millisecond))
}

// VerifC18RedateFresh: after a heartbeat that came in through the HTTP endpoint. Every entry of the table that carries
// the wall clock of the window [before, after] (all other entries live on the rig's own time axis) was written by that
// heartbeat, under whatever key the endpoint chose: it is re-dated to the scripted time tMs. What the key is, is for the
// judge to see.
func (g *VerifC18Rig) VerifC18RedateFresh(before, after time.Time, tMs int64) []string {
	var keys []string
	clients, _ := g.r.clientCache.AllClients()
	for c, t := range clients {
		if !t.Before(before.Add(-time.Millisecond)) && !t.After(after.Add(time.Millisecond)) {
			keys = append(keys, c)
			verifC18Redate(g.r.clientCache, c, g.base.Add(time.Duration(tMs)*time.Millisecond))
		}
	}
	sort.Strings(keys)
	return keys
}

// VerifC18Heartbeats reads the real heartbeat table (AllClients) back on the rig's time axis.
func (g *VerifC18Rig) VerifC18Heartbeats() map[string]int64 {
	res := map[string]int64{}
	clients, _ := g.r.clientCache.AllClients()
	for c, t := range clients {
		res[c] = int64(t.Sub(g.base) / time.Millisecond)
	}
	return res
}

// VerifC18ErrSlow: so much real time went by while the pass compared the entries with the clock that the scripted
// clock's slack could have been used up; the pass ran, but its outcome must not be judged (the caller starts over).
var VerifC18ErrSlow = errors.New("verif: the time-out pass overran the slack of the scripted clock")

// VerifC18CleanupTimeout runs ONE real cleanupTimeoutClient pass as if the wall clock read nowMs on the rig's axis:
// every entry is re-dated relative to the real clock, the pass runs, the goroutines it starts are awaited, the
// surviving entries are dated back. An entry that the scripted clock calls live but that is within slackMs of the
// time-out gets slackMs of extra margin, so that real time elapsing during the pass can never flip the verdict.
func (g *VerifC18Rig) VerifC18CleanupTimeout(nowMs int64, slackMs int64) error {
	clients, _ := g.r.clientCache.AllClients()
	orig := map[string]time.Time{}
	timeoutMs := int64(ClientHeartBeatTimeout / time.Millisecond)
	baseline := runtime.NumGoroutine()
	wall := time.Now()
	for c, t := range clients {
		orig[c] = t
		age := nowMs - int64(t.Sub(g.base)/time.Millisecond)
		if age <= timeoutMs && age > timeoutMs-slackMs {
			age -= slackMs
		}
		if err := verifC18Redate(g.r.clientCache, c, wall.Add(-time.Duration(age)*time.Millisecond)); err != nil {
			return err
		}
	}
	g.r.cleanupTimeoutClient()
	slow := time.Since(wall) >= time.Duration(slackMs)*time.Millisecond/2
	deadline := time.Now().Add(20 * time.Second)
	for runtime.NumGoroutine() > baseline {
		if time.Now().After(deadline) {
			return fmt.Errorf("goroutines started by cleanupTimeoutClient did not finish")
		}
		time.Sleep(20 * time.Microsecond)
	}
	left, _ := g.r.clientCache.AllClients()
	for c := range left {
		if t, ok := orig[c]; ok {
			verifC18Redate(g.r.clientCache, c, t)
		}
	}
	if slow {
		return VerifC18ErrSlow
	}
	return nil
}

// VerifC18CleanupUnknown runs ONE real cleanupUnknownCondition pass (it is synchronous).
func (g *VerifC18Rig) VerifC18CleanupUnknown() { g.r.cleanupUnknownCondition() }

// VerifC18Stores is limitStoreMap.
func (g *VerifC18Rig) VerifC18Stores() map[int]_interface.LimitStore {
	g.r.limitStoreLock.RLock()
	defer g.r.limitStoreLock.RUnlock()
	res := map[int]_interface.LimitStore{}
	for k, v := range g.r.limitStoreMap {
		res[k] = v
	}
	return res
}

// VerifC18Locks is the key set of upstreamLock.
func (g *VerifC18Rig) VerifC18Locks() []string {
	var res []string
	for u, m := range g.r.upstreamLock {
		if m != nil {
			res = append(res, u)
		}
	}
	sort.Strings(res)
	return res
}

// VerifC18TimeoutMs is ClientHeartBeatTimeout as compiled.
func VerifC18TimeoutMs() int64 { return int64(ClientHeartBeatTimeout / time.Millisecond) }
