//go:build verif

package k8s

// OPTIONAL shim (tag no_spec): the in-memory store behind an API-backed store, only to read the synchronised flow-control
// spec from it. Everything else the harness reads goes through the store's own methods, which answer from that cache.

import (
	_interface "github.com/kubewharf/kubegateway/pkg/ratelimiter/store/interface"
)

func VerifC18Cache(s _interface.LimitStore) (_interface.LimitStore, bool) {
	o, ok := s.(*objectStore)
	if !ok {
		return nil, false
	}
	return o.localStore, true
}
