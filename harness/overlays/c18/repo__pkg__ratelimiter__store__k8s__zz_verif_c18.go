//go:build verif

package k8s

import (
	_interface "github.com/kubewharf/kubegateway/pkg/ratelimiter/store/interface"
)

// VerifC18Cache hands out the in-memory store an API-backed store answers from (read only use).
func VerifC18Cache(s _interface.LimitStore) (_interface.LimitStore, bool) {
	o, ok := s.(*objectStore)
	if !ok {
		return nil, false
	}
	return o.localStore, true
}
