//go:build verif

// Export shim for the closed-loop stream of the C07 harness (injected with `go build -overlay`, never present in /repo):
// a clientSets value without its three background goroutines, and the real setLeaderStatus driven with a shifted clock.
package clientsets

import (
	"time"

	"k8s.io/client-go/rest"
)

// VerifC07LoopBare returns the real clientSets struct with nothing running. IsReady reads leaderReady as in production.
func VerifC07LoopBare(runID string, shardCount int) ClientSets {
	return &clientSets{
		runId:      runID,
		service:    "verif",
		lookupFunc: func(string) []string { return nil },
		restConfig: &rest.Config{},
		insecure:   true,
		shardCount: shardCount,
	}
}

// VerifC07LoopAdvance moves the clock forward by d for everything setLeaderStatus compares with (it only ever compares
// time.Now() with status.lastChange).
func VerifC07LoopAdvance(c ClientSets, d time.Duration) {
	c.(*clientSets).leaderReady.Range(func(_, v interface{}) bool {
		st := v.(*heartbeatStatus)
		if !st.lastChange.IsZero() {
			st.lastChange = st.lastChange.Add(-d)
		}
		return true
	})
}

// VerifC07LoopHeartbeat calls the real setLeaderStatus(shard, server, ready): one heartbeat outcome.
func VerifC07LoopHeartbeat(c ClientSets, shard int, ready bool) {
	c.(*clientSets).setLeaderStatus(shard, "verif", ready)
}
