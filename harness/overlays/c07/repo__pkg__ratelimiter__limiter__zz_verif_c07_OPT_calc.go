//go:build verif

package limiter

import (
	proxyv1alpha1 "github.com/kubewharf/kubegateway/pkg/apis/proxy/v1alpha1"
)

// VerifC07CalcNext exposes calculateNextQuota.
func VerifC07CalcNext(upstreamTotal proxyv1alpha1.RateLimitItemConfiguration, upstreamUsed proxyv1alpha1.RateLimitItemStatus,
	cfg, recorded proxyv1alpha1.RateLimitItemConfiguration, status proxyv1alpha1.RateLimitItemStatus, clients int) proxyv1alpha1.RateLimitItemConfiguration {
	return calculateNextQuota(upstreamTotal, upstreamUsed, cfg, recorded, status, clients, &proxyv1alpha1.RateLimitCondition{})
}

