//go:build verif

package limiter

// Export shim for the closed-loop stream of the C07 harness (injected with `go build -overlay`, never part of /repo).
// It builds the real, unexported rateLimiter with a scripted LeaderElector, a lister over a plain indexer and the
// store type the script asks for ("local", or "k8s" = the API-backed store over a fake clientset in write-through
// mode), and lets the harness run every periodic piece (time-out pass, unknown pass, leaderCheck) synchronously with
// a scripted clock. No informers, no timers.

import (
	"context"
	"fmt"
	"runtime"
	"sort"
	"strings"
	"sync"
	"time"

	"k8s.io/apimachinery/pkg/labels"
	"k8s.io/client-go/tools/cache"

	proxyv1alpha1 "github.com/kubewharf/kubegateway/pkg/apis/proxy/v1alpha1"
	gatewayclientset "github.com/kubewharf/kubegateway/pkg/client/kubernetes"
	proxylisters "github.com/kubewharf/kubegateway/pkg/client/listers/proxy/v1alpha1"
	"github.com/kubewharf/kubegateway/pkg/ratelimiter/limiter/elector"
	"github.com/kubewharf/kubegateway/pkg/ratelimiter/options"
	_interface "github.com/kubewharf/kubegateway/pkg/ratelimiter/store/interface"
)

type verifC07LoopElector struct {
	mu       sync.Mutex
	identity string
	count    int
	led      map[int]bool
}

func (e *verifC07LoopElector) Run(ctx context.Context)              {}
func (e *verifC07LoopElector) SetCallbacks(elector.LeaderCallbacks) {}
func (e *verifC07LoopElector) IsLeader(shardId int) bool {
	e.mu.Lock()
	defer e.mu.Unlock()
	return e.led[shardId]
}
func (e *verifC07LoopElector) GetLeaders() map[int]proxyv1alpha1.EndpointInfo {
	e.mu.Lock()
	defer e.mu.Unlock()
	res := map[int]proxyv1alpha1.EndpointInfo{}
	for s := 0; s < e.count; s++ {
		res[s] = proxyv1alpha1.EndpointInfo{Leader: "somebody-else", ShardID: int32(s)}
	}
	for s, b := range e.led {
		if b {
			res[s] = proxyv1alpha1.EndpointInfo{Leader: e.identity, ShardID: int32(s)}
		}
	}
	return res
}

type verifC07LoopController struct {
	lister proxylisters.UpstreamClusterLister
}

func (c *verifC07LoopController) Run(stopCh <-chan struct{}) {}
func (c *verifC07LoopController) UpstreamClusterLister() proxylisters.UpstreamClusterLister {
	return c.lister
}
func (c *verifC07LoopController) Get(cluster string) (*proxyv1alpha1.UpstreamCluster, bool) {
	u, err := c.lister.Get(cluster)
	return u, err == nil
}

// VerifC07LoopRig is a real rateLimiter whose environment (leadership, lister, clock of the heartbeat table) is scripted.
type VerifC07LoopRig struct {
	r       *rateLimiter
	el      *verifC07LoopElector
	indexer cache.Indexer
	base    time.Time
}

// VerifC07LoopNew: storeType is "local" or "k8s" (client must then be a clientset; syncPeriod 0 = write-through).
func VerifC07LoopNew(identity string, shardCount int, storeType string, client gatewayclientset.Interface) *VerifC07LoopRig {
	indexer := cache.NewIndexer(cache.MetaNamespaceKeyFunc, cache.Indexers{})
	el := &verifC07LoopElector{identity: identity, count: shardCount, led: map[int]bool{}}
	r := &rateLimiter{
		runId:              "verif",
		identity:           identity,
		shardCount:         shardCount,
		limitOptions:       options.RateLimitOptions{LimitStore: storeType, ShardingCount: shardCount, Identity: identity, K8sStoreSyncPeriod: 0},
		gatewayClient:      client,
		leaderElector:      el,
		clientCache:        NewClientCache(),
		limitStoreMap:      map[int]_interface.LimitStore{},
		upstreamLock:       map[string]*sync.Mutex{},
		upstreamController: &verifC07LoopController{lister: proxylisters.NewUpstreamClusterLister(indexer)},
	}
	return &VerifC07LoopRig{r: r, el: el, indexer: indexer, base: time.Unix(1700000000, 0)}
}

func (g *VerifC07LoopRig) Limiter() RateLimiter { return g.r }

// Elect changes what the elector answers for the shard.
func (g *VerifC07LoopRig) Elect(shard int, b bool) {
	g.el.mu.Lock()
	if b {
		g.el.led[shard] = true
	} else {
		delete(g.el.led, shard)
	}
	g.el.mu.Unlock()
}

func (g *VerifC07LoopRig) Leaders() []int {
	g.el.mu.Lock()
	defer g.el.mu.Unlock()
	res := []int{}
	for s, b := range g.el.led {
		if b {
			res = append(res, s)
		}
	}
	sort.Ints(res)
	return res
}

// StartLeading / StopLeading are the elector's callbacks (the real startLeading / stopLeading).
func (g *VerifC07LoopRig) StartLeading(shard int) { g.r.startLeading(shard) }
func (g *VerifC07LoopRig) StopLeading(shard int)  { g.r.stopLeading(shard) }

// LeaderCheck runs the real leaderCheck.
func (g *VerifC07LoopRig) LeaderCheck() { g.r.leaderCheck() }

// List puts / replaces the upstream in the lister (no event is delivered).
func (g *VerifC07LoopRig) List(c *proxyv1alpha1.UpstreamCluster) error {
	if _, ok, _ := g.indexer.GetByKey(c.Name); ok {
		return g.indexer.Update(c)
	}
	return g.indexer.Add(c)
}

// Handle delivers one upstream event: the real UpstreamConditionHandler on the lister's object, or on a bare object of
// that name when the lister does not have it.
func (g *VerifC07LoopRig) Handle(name string) error {
	c, err := g.r.upstreamController.UpstreamClusterLister().Get(name)
	if err != nil {
		c = &proxyv1alpha1.UpstreamCluster{}
		c.Name = name
	}
	return g.r.UpstreamConditionHandler(c)
}

// Heartbeat calls the real Heartbeat, checks that it recorded the wall clock, then re-dates the entry to the scripted
// time tMs (milliseconds on the rig's own time axis).
func (g *VerifC07LoopRig) Heartbeat(instance string, tMs int64) error {
	before := time.Now()
	if err := g.r.Heartbeat(instance); err != nil {
		return err
	}
	after := time.Now()
	v, ok := g.r.clientCache.clientHeartbeats.Load(instance)
	if !ok {
		return fmt.Errorf("Heartbeat(%q) recorded nothing", instance)
	}
	t := v.(time.Time)
	if t.Before(before.Add(-time.Millisecond)) || t.After(after.Add(time.Millisecond)) {
		return fmt.Errorf("Heartbeat(%q) recorded %v, not the current time", instance, t)
	}
	g.r.clientCache.clientHeartbeats.Store(instance, g.base.Add(time.Duration(tMs)*time.Millisecond))
	return nil
}

// Heartbeats reads the real heartbeat table (AllClients) back on the rig's time axis.
func (g *VerifC07LoopRig) Heartbeats() map[string]int64 {
	res := map[string]int64{}
	clients, _ := g.r.clientCache.AllClients()
	for c, t := range clients {
		res[c] = int64(t.Sub(g.base) / time.Millisecond)
	}
	return res
}

func verifC07LoopPassRunning() bool {
	buf := make([]byte, 1<<20)
	for {
		n := runtime.Stack(buf, true)
		if n < len(buf) {
			return strings.Contains(string(buf[:n]), "cleanupTimeoutClient.func")
		}
		buf = make([]byte, 2*len(buf)) // the dump was truncated: every goroutine must be seen
	}
}

// CleanupTimeout runs ONE real cleanupTimeoutClient pass as if the wall clock read nowMs on the rig's axis: every entry
// is re-dated relative to the real clock, the pass runs, the goroutines it starts are awaited (no goroutine whose stack
// is inside cleanupTimeoutClient's closures is left), the surviving entries are dated back. slow = more than slackMs/2
// of real time went by while the pass compared entries with the clock: the outcome must not be judged.
func (g *VerifC07LoopRig) CleanupTimeout(nowMs int64, slackMs int64) (slow bool, err error) {
	clients, _ := g.r.clientCache.AllClients()
	orig := map[string]time.Time{}
	wall := time.Now()
	for c, t := range clients {
		orig[c] = t
		age := nowMs - int64(t.Sub(g.base)/time.Millisecond)
		g.r.clientCache.clientHeartbeats.Store(c, wall.Add(-time.Duration(age)*time.Millisecond))
	}
	g.r.cleanupTimeoutClient()
	slow = time.Since(wall) >= time.Duration(slackMs)*time.Millisecond/2
	deadline := time.Now().Add(20 * time.Second)
	for verifC07LoopPassRunning() {
		if time.Now().After(deadline) {
			return slow, fmt.Errorf("goroutines started by cleanupTimeoutClient did not finish")
		}
		time.Sleep(20 * time.Microsecond)
	}
	left, _ := g.r.clientCache.AllClients()
	for c := range left {
		if t, ok := orig[c]; ok {
			g.r.clientCache.clientHeartbeats.Store(c, t)
		}
	}
	return slow, nil
}

// CleanupUnknown runs ONE real cleanupUnknownCondition pass (it is synchronous).
func (g *VerifC07LoopRig) CleanupUnknown() { g.r.cleanupUnknownCondition() }

// Stores: the shards that have a store, and every condition each store lists.
func (g *VerifC07LoopRig) Stores() map[int][]*proxyv1alpha1.RateLimitCondition {
	g.r.limitStoreLock.RLock()
	defer g.r.limitStoreLock.RUnlock()
	res := map[int][]*proxyv1alpha1.RateLimitCondition{}
	for k, v := range g.r.limitStoreMap {
		res[k] = v.List(labels.Everything())
	}
	return res
}

// VerifC07LoopTimeoutMs is ClientHeartBeatTimeout as compiled.
func VerifC07LoopTimeoutMs() int64 { return int64(ClientHeartBeatTimeout / time.Millisecond) }
