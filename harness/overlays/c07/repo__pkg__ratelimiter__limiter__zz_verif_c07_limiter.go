//go:build verif

package limiter

import (
	"context"
	"sync"

	proxyv1alpha1 "github.com/kubewharf/kubegateway/pkg/apis/proxy/v1alpha1"
	proxylisters "github.com/kubewharf/kubegateway/pkg/client/listers/proxy/v1alpha1"
	"github.com/kubewharf/kubegateway/pkg/ratelimiter/limiter/elector"
	_interface "github.com/kubewharf/kubegateway/pkg/ratelimiter/store/interface"
	"github.com/kubewharf/kubegateway/pkg/ratelimiter/store/local"
)

type verifC07Leader struct{}

func (verifC07Leader) Run(ctx context.Context)                        {}
func (verifC07Leader) IsLeader(shardId int) bool                      { return true }
func (verifC07Leader) GetLeaders() map[int]proxyv1alpha1.EndpointInfo { return map[int]proxyv1alpha1.EndpointInfo{} }
func (verifC07Leader) SetCallbacks(elector.LeaderCallbacks)           {}

type verifC07Controller struct {
	lister proxylisters.UpstreamClusterLister
}

func (c verifC07Controller) Run(stopCh <-chan struct{}) {}
func (c verifC07Controller) UpstreamClusterLister() proxylisters.UpstreamClusterLister {
	return c.lister
}
func (c verifC07Controller) Get(cluster string) (*proxyv1alpha1.UpstreamCluster, bool) {
	u, err := c.lister.Get(cluster)
	return u, err == nil
}

// VerifC07Limiter is a real rateLimiter (single shard, always leader, local store) around a lister.
type VerifC07Limiter struct {
	r     *rateLimiter
	Store _interface.LimitStore
}

func VerifC07NewLimiter(lister proxylisters.UpstreamClusterLister) *VerifC07Limiter {
	return VerifC07NewLimiterWithStore(lister, local.NewLocalStore())
}

// VerifC07NewLimiterWithStore: the same around a given store (e.g. the API-backed one over a fake clientset).
func VerifC07NewLimiterWithStore(lister proxylisters.UpstreamClusterLister, store _interface.LimitStore) *VerifC07Limiter {
	r := &rateLimiter{
		runId:              "verif",
		identity:           "verif",
		shardCount:         1,
		leaderElector:      verifC07Leader{},
		clientCache:        NewClientCache(),
		limitStoreMap:      map[int]_interface.LimitStore{0: store},
		upstreamLock:       map[string]*sync.Mutex{},
		upstreamController: verifC07Controller{lister: lister},
	}
	return &VerifC07Limiter{r: r, Store: store}
}

func (l *VerifC07Limiter) Limiter() RateLimiter { return l.r }
func (l *VerifC07Limiter) HandleCluster(c *proxyv1alpha1.UpstreamCluster) error {
	return l.r.UpstreamConditionHandler(c)
}
func (l *VerifC07Limiter) SetClients(ids []string) {
	l.r.clientCache = NewClientCache()
	for _, id := range ids {
		l.r.clientCache.Heartbeat(id)
	}
}
