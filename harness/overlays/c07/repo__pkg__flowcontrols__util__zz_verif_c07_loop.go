//go:build verif

// Export shim for the closed-loop stream of the C07 harness (injected with `go build -overlay`, never present in /repo).
// The meter's goroutines run on the wall clock; the gateway's report reads meter.AvgInflight(). The harness stops the
// goroutines right after the meter is created and sets the reading it wants the report to carry.
package util

// VerifC07LoopFreeze stops the meter's goroutines (as Stop does) and then keeps m.mu locked for ever: a goroutine that
// has not seen the stop yet blocks in calInflight / latestRate (the only writers, all under m.mu) and can never
// overwrite what VerifC07LoopSetInflight stored. Must be called once per meter.
func (m *Meter) VerifC07LoopFreeze() {
	close(m.stopCh)
	m.mu.Lock()
}

// VerifC07LoopSetInflight sets what AvgInflight() returns (a plain field read without the lock by the real code).
func (m *Meter) VerifC07LoopSetInflight(avg float64) { m.inflightAvg = avg }
