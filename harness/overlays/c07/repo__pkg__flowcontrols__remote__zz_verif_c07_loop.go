//go:build verif

// Export shim for the closed-loop stream of the C07 harness (injected with `go build -overlay`, never present in /repo).
package remote

import (
	"context"

	proxyv1alpha1 "github.com/kubewharf/kubegateway/pkg/apis/proxy/v1alpha1"
	"github.com/kubewharf/kubegateway/pkg/ratelimiter/clientsets"
)

func verifC07LoopReconcile(cluster string, cs clientsets.ClientSets, caches map[string]FlowControlCache) *reconcile {
	m := NewFlowControlsMap()
	for k, v := range caches {
		m.Store(k, v)
	}
	return &reconcile{ctx: context.Background(), cluster: cluster, clientSets: cs, flowControls: m, clientID: cs.ClientID()}
}

// VerifC07LoopBuildReport runs the real reconcile.buildLimitConditions: the condition the gateway would PUT.
func VerifC07LoopBuildReport(cluster string, cs clientsets.ClientSets, caches map[string]FlowControlCache) *proxyv1alpha1.RateLimitCondition {
	return verifC07LoopReconcile(cluster, cs, caches).buildLimitConditions()
}

// VerifC07LoopApply runs the real reconcile.updateFlowControls with the limiter server's answer.
func VerifC07LoopApply(cluster string, cs clientsets.ClientSets, caches map[string]FlowControlCache, answer *proxyv1alpha1.RateLimitCondition) {
	verifC07LoopReconcile(cluster, cs, caches).updateFlowControls(answer)
}

// VerifC07LoopFreezeMeter stops the cache's meter goroutines; VerifC07LoopSetInflight sets the usage it reports.
func VerifC07LoopFreezeMeter(c FlowControlCache) { c.(*flowControlCache).meter.VerifC07LoopFreeze() }
func VerifC07LoopSetInflight(c FlowControlCache, avg float64) {
	c.(*flowControlCache).meter.VerifC07LoopSetInflight(avg)
}

// VerifC07LoopRemoteConfig: the item the remote wrapper holds (what the next report carries); ok = there is a remote wrapper.
func VerifC07LoopRemoteConfig(c FlowControlCache) (proxyv1alpha1.RateLimitItemConfiguration, bool) {
	r := c.(*flowControlCache).remote
	if r == nil {
		return proxyv1alpha1.RateLimitItemConfiguration{}, false
	}
	return r.remoteConfig, true
}
