//go:build verif

package flowcontrol

// VerifC06SetClock makes a token-bucket rate limiter (as built by NewTokenBucketRateLimiter) read the given
// clock instead of the wall clock; its bucket is left untouched.
func VerifC06SetClock(rl RateLimiter, c Clock) bool {
	t, ok := rl.(*tokenBucketRateLimiter)
	if !ok {
		return false
	}
	t.clock = c
	return true
}
