//go:build verif

package flowcontrol

import (
	clientflowcontrol "k8s.io/client-go/util/flowcontrol"
)

// VerifC06Limiter returns the client-go rate limiter a token-bucket FlowControl currently delegates to
// (nil, false for any other FlowControl). Read-only: the C06 harness uses it to notice that Resize built a
// new limiter and to hand that limiter a scripted clock (see the client-go shim).
func VerifC06Limiter(fc FlowControl) (clientflowcontrol.RateLimiter, bool) {
	tb, ok := fc.(*resizeableTokenBucket)
	if !ok {
		return nil, false
	}
	return tb.rateLimiter, true
}
