//go:build verif

package remote

import "github.com/kubewharf/kubegateway/pkg/flowcontrols/flowcontrol"

// VerifC06Inner returns the limiter behind the metering wrapper that localWrapper.Sync installs.
func VerifC06Inner(fc flowcontrol.FlowControl) flowcontrol.FlowControl {
	if m, ok := fc.(*meterWrapper); ok {
		return m.FlowControl
	}
	return fc
}
