//go:build verif

// Optional export shim of property C19 (life-cycle stream): the real rate limiter's start/stop of a shard.
package limiter

import (
	"k8s.io/client-go/kubernetes"

	gatewayclientset "github.com/kubewharf/kubegateway/pkg/client/kubernetes"
	"github.com/kubewharf/kubegateway/pkg/ratelimiter/limiter/controller"
	"github.com/kubewharf/kubegateway/pkg/ratelimiter/options"
	_interface "github.com/kubewharf/kubegateway/pkg/ratelimiter/store/interface"
)

// VerifC19NewRateLimiter: the REAL constructor, then the informer-backed upstream controller replaced by uc.
// Nothing is started: the harness calls the entry points the elector callback and leaderCheck call.
func VerifC19NewRateLimiter(gatewayClient gatewayclientset.Interface, client kubernetes.Interface, opts options.RateLimitOptions, uc controller.UpstreamController) (RateLimiter, error) {
	rl, err := NewRateLimiter(gatewayClient, client, opts)
	if err != nil {
		return nil, err
	}
	rl.(*rateLimiter).upstreamController = uc
	return rl, nil
}

// VerifC19StartLeading is what both the elector's OnStartedLeading callback and leaderCheck call.
func VerifC19StartLeading(rl RateLimiter, shard int) { rl.(*rateLimiter).startLeading(shard) }

// VerifC19StopLeading is the elector's OnStoppedLeading callback (and leaderCheck's way to give a shard up).
func VerifC19StopLeading(rl RateLimiter, shard int) { rl.(*rateLimiter).stopLeading(shard) }

// VerifC19Store is the store the limiter currently uses for the shard (nil: none).
func VerifC19Store(rl RateLimiter, shard int) _interface.LimitStore {
	return rl.(*rateLimiter).getLimitStoreForShard(shard)
}
