//go:build verif

package k8s

import (
	_interface "github.com/kubewharf/kubegateway/pkg/ratelimiter/store/interface"
)

// VerifAbandon ends the background flush goroutine of a store the harness has declared dead
// (a crashed process takes its goroutines with it). It does nothing else: no flush, no flag.
func VerifAbandon(s _interface.LimitStore) {
	o, ok := s.(*objectStore)
	if !ok {
		return
	}
	select {
	case <-o.stopCh:
	default:
		close(o.stopCh)
	}
}
