//go:build verif

// Export shim for the C09 harness (injected with `go build -overlay`, never present in /repo).
// The meter's two goroutines (rate ticker, in-flight worker) run on the wall clock; the error fallbacks of the
// global-count wrappers read meter.MaxInflight() / meter.Rate(). The harness stops the goroutines right after
// the meter is created and sets the readings it wants the fallbacks to see.
package util

// VerifFreeze stops the meter's goroutines (as Stop does) and then keeps m.mu locked for ever: a goroutine that has
// not seen the stop yet and picks up an in-flight sample or a tick instead blocks in calInflight / latestRate
// (the only places that write the readings, all under m.mu) and can never overwrite what VerifSet stored.
// Must be called once per meter.
func (m *Meter) VerifFreeze() {
	close(m.stopCh)
	m.mu.Lock()
}

// VerifSet sets what MaxInflight() and Rate() return (plain fields read without the lock by the real code).
// The caller holds m.mu since VerifFreeze.
func (m *Meter) VerifSet(maxInflight int32, rate float64) {
	for i := range m.inflightBuckets {
		m.inflightBuckets[i] = maxInflight
	}
	m.inflightMax = maxInflight
	for i := range m.counterBuckets {
		m.counterBuckets[i] = rate
	}
	m.rateAvg = rate
}
