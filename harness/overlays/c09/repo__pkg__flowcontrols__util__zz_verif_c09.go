//go:build verif

// Export shim for the C09 harness (injected with `go build -overlay`, never present in /repo).
// The meter's two goroutines (rate ticker, in-flight worker) run on the wall clock; the error fallbacks of the
// global-count wrappers read meter.MaxInflight() / meter.Rate(). The harness stops the goroutines right after
// the meter is created and sets the readings it wants the fallbacks to see.
package util

// VerifFreeze stops the meter's goroutines (as Stop does). Must be called once, before any traffic.
func (m *Meter) VerifFreeze() {
	m.mu.Lock()
	defer m.mu.Unlock()
	select {
	case <-m.stopCh:
	default:
		close(m.stopCh)
	}
}

// VerifSet sets what MaxInflight() and Rate() return. Every bucket is set too, so that a worker goroutine that
// has not seen the stop yet recomputes the same maximum.
func (m *Meter) VerifSet(maxInflight int32, rate float64) {
	m.mu.Lock()
	defer m.mu.Unlock()
	for i := range m.inflightBuckets {
		m.inflightBuckets[i] = maxInflight
	}
	m.inflightMax = maxInflight
	for i := range m.counterBuckets {
		m.counterBuckets[i] = rate
	}
	m.rateAvg = rate
}
