//go:build verif

// Export shim for the C09 harness (injected with `go build -overlay`, never present in /repo).
package remote

import (
	"context"
	"time"

	proxyv1alpha1 "github.com/kubewharf/kubegateway/pkg/apis/proxy/v1alpha1"
	"github.com/kubewharf/kubegateway/pkg/flowcontrols/flowcontrol"
)

// A refused TryAcquire of the max-in-flight count wrapper waits for the next acquire answer for at most
// waitAcquireTimeout (300 ms). Capacity probes end with one refused TryAcquire; nothing answers in the harness.
func init() { waitAcquireTimeout = 20 * time.Microsecond }

// VerifAcquireResult builds the (unexported-field) AcquireResult that globalCounterManager.doAcquire / resetCheck build.
func VerifAcquireResult(name string, hasRequest bool, tokens int32, accept bool, limit int32, errMsg string, requestTime int64) *AcquireResult {
	r := &AcquireResult{
		result:      &proxyv1alpha1.RateLimitAcquireResult{FlowControl: name, Accept: accept, Limit: limit, Error: errMsg},
		requestTime: requestTime,
	}
	if hasRequest {
		r.request = &proxyv1alpha1.RateLimitAcquireRequest{FlowControl: name, Tokens: tokens}
	}
	return r
}

func verifReconcile(cluster string, caches map[string]FlowControlCache) *reconcile {
	m := NewFlowControlsMap()
	for k, v := range caches {
		m.Store(k, v)
	}
	return &reconcile{ctx: context.Background(), cluster: cluster, flowControls: m}
}

// VerifUpdateGlobalCount runs the real reconcile.updateGlobalCuntFlowControls over the given caches.
func VerifUpdateGlobalCount(cluster string, caches map[string]FlowControlCache) {
	verifReconcile(cluster, caches).updateGlobalCuntFlowControls()
}

// VerifUpdateFlowControls runs the real reconcile.updateFlowControls with the limiter server's answer.
func VerifUpdateFlowControls(cluster string, caches map[string]FlowControlCache, items []proxyv1alpha1.RateLimitItemConfiguration) {
	verifReconcile(cluster, caches).updateFlowControls(&proxyv1alpha1.RateLimitCondition{
		Spec: proxyv1alpha1.RateLimitSpec{LimitItemConfigurations: items}})
}

// VerifFreezeMeter stops the cache's meter goroutines; VerifSetMeter sets its readings.
func VerifFreezeMeter(c FlowControlCache) { c.(*flowControlCache).meter.VerifFreeze() }
func VerifSetMeter(c FlowControlCache, maxInflight int32, rate float64) {
	c.(*flowControlCache).meter.VerifSet(maxInflight, rate)
}

// VerifInner returns the limiter underneath the remote wrapper's global-count wrapper (nil if there is none).
func VerifInner(c FlowControlCache) flowcontrol.FlowControl {
	r := c.(*flowControlCache).remote
	if r == nil || r.GlobalCounterFlowControl == nil {
		return nil
	}
	switch w := r.GlobalCounterFlowControl.(type) {
	case *maxInflightWrapper:
		return w.FlowControl
	case *tokenBucketWrapper:
		return w.FlowControl
	case *emptyGlobalWrapper:
		return w.FlowControl
	}
	return nil
}

// VerifDump is the remote wrapper's state, field by field.
type VerifDump struct {
	HasRemote     bool
	HasLimiter    bool
	Wrapper       int // 0 none, 1 emptyGlobalWrapper, 2 maxInflightWrapper, 3 tokenBucketWrapper
	Unavailable   bool
	Max           int32
	Reserve       int32
	LastAcquire   int64
	Acquired      int32
	OverLimited   int32
	WaitInflight  int32
	Tokens        int32
	TokenBatch    int32
	TokenInflight int32
	QPS           uint32
	Burst         uint32
	RemoteConfig  proxyv1alpha1.RateLimitItemConfiguration
	Str           string
}

func VerifDumpRemote(c FlowControlCache) VerifDump {
	var d VerifDump
	r := c.(*flowControlCache).remote
	if r == nil {
		return d
	}
	d.HasRemote = true
	d.RemoteConfig = r.remoteConfig
	if r.GlobalCounterFlowControl == nil {
		return d
	}
	d.HasLimiter = true
	d.Str = r.GlobalCounterFlowControl.String()
	switch w := r.GlobalCounterFlowControl.(type) {
	case *emptyGlobalWrapper:
		d.Wrapper = 1
	case *maxInflightWrapper:
		d.Wrapper = 2
		d.Unavailable = w.serverUnavailable == 1
		d.Max, d.Reserve, d.LastAcquire = w.max, w.reserve, w.lastAcquireTime
		d.Acquired, d.OverLimited, d.WaitInflight = w.acquiredMaxInflight, w.overLimited, w.waitInflight
	case *tokenBucketWrapper:
		d.Wrapper = 3
		d.Unavailable = w.serverUnavailable == 1
		d.Reserve, d.LastAcquire = w.reserve, w.lastAcquireTime
		d.Tokens, d.TokenBatch, d.TokenInflight = w.tokens, w.tokenBatch, w.tokenInflight
		d.QPS, d.Burst = w.qps, w.burst
	}
	return d
}
