//go:build verif

// Export shim for the C09 harness (injected with `go build -overlay`, never present in /repo).
package remote

import (
	"context"
	"runtime"
	"sync"
	"sync/atomic"
	"time"

	proxyv1alpha1 "github.com/kubewharf/kubegateway/pkg/apis/proxy/v1alpha1"
	"github.com/kubewharf/kubegateway/pkg/flowcontrols/flowcontrol"
)

// A refused TryAcquire of the max-in-flight count wrapper waits for the next acquire answer for at most
// waitAcquireTimeout (300 ms). Capacity probes end with one refused TryAcquire; nothing answers in the harness.
func init() { waitAcquireTimeout = 20 * time.Microsecond }

// VerifAcquireResult builds the (unexported-field) AcquireResult that globalCounterManager.doAcquire / resetCheck build.
func VerifAcquireResult(name string, hasRequest bool, tokens int32, accept bool, limit int32, errMsg string, requestTime int64) *AcquireResult {
	r := &AcquireResult{
		result:      &proxyv1alpha1.RateLimitAcquireResult{FlowControl: name, Accept: accept, Limit: limit, Error: errMsg},
		requestTime: requestTime,
	}
	if hasRequest {
		r.request = &proxyv1alpha1.RateLimitAcquireRequest{FlowControl: name, Tokens: tokens}
	}
	return r
}

func verifReconcile(cluster string, caches map[string]FlowControlCache) *reconcile {
	m := NewFlowControlsMap()
	for k, v := range caches {
		m.Store(k, v)
	}
	return &reconcile{ctx: context.Background(), cluster: cluster, flowControls: m}
}

// VerifUpdateGlobalCount runs the real reconcile.updateGlobalCuntFlowControls over the given caches.
func VerifUpdateGlobalCount(cluster string, caches map[string]FlowControlCache) {
	verifReconcile(cluster, caches).updateGlobalCuntFlowControls()
}

// VerifUpdateFlowControls runs the real reconcile.updateFlowControls with the limiter server's answer.
func VerifUpdateFlowControls(cluster string, caches map[string]FlowControlCache, items []proxyv1alpha1.RateLimitItemConfiguration) {
	verifReconcile(cluster, caches).updateFlowControls(&proxyv1alpha1.RateLimitCondition{
		Spec: proxyv1alpha1.RateLimitSpec{LimitItemConfigurations: items}})
}

// VerifFreezeMeter stops the cache's meter goroutines; VerifSetMeter sets its readings.
func VerifFreezeMeter(c FlowControlCache) { c.(*flowControlCache).meter.VerifFreeze() }
func VerifSetMeter(c FlowControlCache, maxInflight int32, rate float64) {
	c.(*flowControlCache).meter.VerifSet(maxInflight, rate)
}

// VerifInner returns the limiter underneath the remote wrapper's global-count wrapper (nil if there is none).
func VerifInner(c FlowControlCache) flowcontrol.FlowControl {
	r := c.(*flowControlCache).remote
	if r == nil || r.GlobalCounterFlowControl == nil {
		return nil
	}
	switch w := r.GlobalCounterFlowControl.(type) {
	case *maxInflightWrapper:
		return w.FlowControl
	case *tokenBucketWrapper:
		return w.FlowControl
	case *emptyGlobalWrapper:
		return w.FlowControl
	}
	return nil
}

// VerifDump is the remote wrapper's state, field by field.
type VerifDump struct {
	HasRemote     bool
	HasLimiter    bool
	Wrapper       int // 0 none, 1 emptyGlobalWrapper, 2 maxInflightWrapper, 3 tokenBucketWrapper
	Unavailable   bool
	Max           int32
	Reserve       int32
	LastAcquire   int64
	Acquired      int32
	OverLimited   int32
	WaitInflight  int32
	Tokens        int32
	TokenBatch    int32
	TokenInflight int32
	QPS           uint32
	Burst         uint32
	RemoteConfig  proxyv1alpha1.RateLimitItemConfiguration
	Str           string
}

func VerifDumpRemote(c FlowControlCache) VerifDump {
	var d VerifDump
	r := c.(*flowControlCache).remote
	if r == nil {
		return d
	}
	d.HasRemote = true
	d.RemoteConfig = r.remoteConfig
	if r.GlobalCounterFlowControl == nil {
		return d
	}
	d.HasLimiter = true
	d.Str = r.GlobalCounterFlowControl.String()
	switch w := r.GlobalCounterFlowControl.(type) {
	case *emptyGlobalWrapper:
		d.Wrapper = 1
	case *maxInflightWrapper:
		d.Wrapper = 2
		d.Unavailable = w.serverUnavailable == 1
		d.Max, d.Reserve, d.LastAcquire = w.max, w.reserve, w.lastAcquireTime
		d.Acquired, d.OverLimited, d.WaitInflight = w.acquiredMaxInflight, w.overLimited, w.waitInflight
	case *tokenBucketWrapper:
		d.Wrapper = 3
		d.Unavailable = w.serverUnavailable == 1
		d.Reserve, d.LastAcquire = w.reserve, w.lastAcquireTime
		d.Tokens, d.TokenBatch, d.TokenInflight = w.tokens, w.tokenBatch, w.tokenInflight
		d.QPS, d.Burst = w.qps, w.burst
	}
	return d
}

// ---------------------------------------------------------------------------------------------------------------
// the request side: globalCounterManager / globalCounter

// VerifLastSyncMark is what the harness leaves in globalCounter.lastSyncTime between operations: any other value
// found there afterwards was written by the real code (resetCheck at creation, send after an answer).
const VerifLastSyncMark = int64(-7777777)

var verifQuiesced sync.Map // *globalCounter -> true

func verifCounter(c FlowControlCache) *globalCounter {
	fc := c.(*flowControlCache)
	g, ok := fc.globalCounter.(*globalCounterManager)
	if !ok {
		return nil
	}
	g.lock.Lock()
	defer g.lock.Unlock()
	return g.counterMap[fc.name]
}

// VerifSettleCounter waits for the asynchronous removal of the counter after the remote wrapper was stopped
// (Add's goroutine calls Stop(name) when remoteWrapper.Done() is closed).
func VerifSettleCounter(c FlowControlCache) {
	fc := c.(*flowControlCache)
	if fc.remote != nil {
		return
	}
	for i := 0; i < 3000 && verifCounter(c) != nil; i++ {
		runtime.Gosched()
		if i > 1000 {
			time.Sleep(10 * time.Microsecond)
		}
	}
}

// VerifCounter: does the counter exist, is it new (never seen by the harness before), is an event pending, and what
// is in lastSyncTime. A new counter's resetCheck goroutine (wall-clock ticker; it injects a "timeout" reply after 4 s
// without an answer) is stopped here — after it has stored the creation time — by closing the channel it selects on;
// the counter gets a fresh stopCh for the real Stop(name) to close later.
func VerifCounter(c FlowControlCache) (exists, isNew, event bool, lastSync int64) {
	cn := verifCounter(c)
	if cn == nil {
		return false, false, false, 0
	}
	if _, seen := verifQuiesced.LoadOrStore(cn, true); !seen {
		isNew = true
		for i := 0; atomic.LoadInt64(&cn.lastSyncTime) == 0 && i < 2000000; i++ {
			runtime.Gosched()
		}
		g := c.(*flowControlCache).globalCounter.(*globalCounterManager)
		g.lock.Lock()
		old := cn.stopCh
		cn.stopCh = make(chan struct{})
		func() {
			defer func() { recover() }() // already closed by a Stop(name) that raced with us: resetCheck is gone anyway
			close(old)
		}()
		g.lock.Unlock()
	}
	return true, isNew, len(cn.eventCh) > 0, atomic.LoadInt64(&cn.lastSyncTime)
}

func VerifSetLastSync(c FlowControlCache, v int64) {
	if cn := verifCounter(c); cn != nil {
		atomic.StoreInt64(&cn.lastSyncTime, v)
	}
}

// VerifRaiseEvent is what a request through the count wrapper does: globalCounter.Count.
func VerifRaiseEvent(c FlowControlCache) {
	if cn := verifCounter(c); cn != nil {
		cn.Count(0)
	}
}

// VerifSetEvent makes the event flag what it was before the harness's capacity probes (they call Count too).
func VerifSetEvent(c FlowControlCache, pending bool) {
	cn := verifCounter(c)
	if cn == nil {
		return
	}
	select {
	case <-cn.eventCh:
	default:
	}
	if pending {
		select {
		case cn.eventCh <- struct{}{}:
		default:
		}
	}
}

// VerifAcquireRequest runs the real globalCounterManager.acquireRequest as of the virtual time vnow (ns):
// lastSyncTime is set so that time.Now().Unix() - lastSyncTime equals sinceSyncS, and a token-bucket wrapper's
// lastAcquireTime (a virtual time) is moved into the real clock's frame for the duration of the call.
// Returns whether a request for the flow control was built, its Tokens, and whether the wall clock's second changed
// during the call (the caller then discards the case).
func VerifAcquireRequest(c FlowControlCache, vnow int64, sinceSyncS int64) (sent bool, tokens int32, req *proxyv1alpha1.RateLimitAcquireRequest, unreliable bool) {
	fc := c.(*flowControlCache)
	g := fc.globalCounter.(*globalCounterManager)
	cn := verifCounter(c)
	for time.Now().Nanosecond() > 990000000 {
		time.Sleep(time.Millisecond)
	}
	sec := time.Now().Unix()
	if cn != nil {
		atomic.StoreInt64(&cn.lastSyncTime, sec-sinceSyncS)
	}
	var tb *tokenBucketWrapper
	var saved int64
	if fc.remote != nil {
		if w, ok := fc.remote.GlobalCounterFlowControl.(*tokenBucketWrapper); ok {
			tb = w
			saved = atomic.LoadInt64(&w.lastAcquireTime)
			atomic.StoreInt64(&w.lastAcquireTime, time.Now().UnixNano()-(vnow-saved))
		}
	}
	_, m := g.acquireRequest(vnow)
	if tb != nil {
		atomic.StoreInt64(&tb.lastAcquireTime, saved)
	}
	if cn != nil {
		atomic.StoreInt64(&cn.lastSyncTime, VerifLastSyncMark)
	}
	unreliable = time.Now().Unix() != sec
	if r := m[fc.name]; r != nil {
		return true, r.Tokens, r, unreliable
	}
	return false, 0, nil, unreliable
}

// VerifSend delivers the limiter server's result for a request the way doAcquire does: globalCounter.send.
func VerifSend(c FlowControlCache, req *proxyv1alpha1.RateLimitAcquireRequest, accept bool, limit int32, errMsg string, requestTime int64) {
	cn := verifCounter(c)
	if cn == nil {
		return
	}
	fc := c.(*flowControlCache)
	cn.send(&AcquireResult{
		request:     req,
		result:      &proxyv1alpha1.RateLimitAcquireResult{FlowControl: fc.name, Accept: accept, Limit: limit, Error: errMsg},
		requestTime: requestTime,
	})
}

// VerifHasRemote: does the cache hold a remote wrapper?
func VerifHasRemote(c FlowControlCache) bool { return c.(*flowControlCache).remote != nil }

// VerifLoopAlive: would the reconcile loop still run a round? It has been started and not stopped (cancel != nil) and
// the context it was derived from is alive. (No timing: the loop's rounds are wall-clock driven, the harness performs a
// round — the two halves of reconcile() — itself, but only while the real loop is alive.)
func VerifLoopAlive(rc Reconcile) bool {
	r := rc.(*reconcile)
	r.lock.Lock()
	defer r.lock.Unlock()
	return r.cancel != nil && r.ctx.Err() == nil
}
