//go:build verif

// Export shim for the C09 harness (injected with `go build -overlay`, never present in /repo):
// a clientSets value without its three background goroutines (sync, cleanup, heartbeat), and the real
// setLeaderStatus driven with a shifted clock.
package clientsets

import "time"

// VerifNewBare returns the real clientSets struct with nothing running: no endpoints, no leader, no client.
// ClientFor fails ("shard count not synced" / "has no leader"), IsReady reads leaderReady as in production.
func VerifNewBare(runID string) ClientSets {
	return &clientSets{runId: runID}
}

// VerifSetShardCount does what sync() does with the server's answer.
func VerifSetShardCount(c ClientSets, n int) { c.(*clientSets).shardCount = n }

// VerifHeartbeat calls the real setLeaderStatus(shard, server, ready) as if `elapsed` had passed since the previous
// heartbeat of that shard: setLeaderStatus only ever compares time.Now() with status.lastChange, so moving
// lastChange back by `elapsed` is the same as moving the clock forward.
func VerifHeartbeat(c ClientSets, shard int, ready bool, elapsed time.Duration) {
	cs := c.(*clientSets)
	if hs, ok := cs.leaderReady.Load(shard); ok {
		st := hs.(*heartbeatStatus)
		if !st.lastChange.IsZero() {
			st.lastChange = st.lastChange.Add(-elapsed)
		}
	}
	cs.setLeaderStatus(shard, "verif", ready)
}

// VerifStatus reads the heartbeat status of a shard: exists, lastState, ready.
func VerifStatus(c ClientSets, shard int) (bool, bool, bool) {
	hs, ok := c.(*clientSets).leaderReady.Load(shard)
	if !ok {
		return false, false, false
	}
	st := hs.(*heartbeatStatus)
	return true, st.lastState, st.ready
}
