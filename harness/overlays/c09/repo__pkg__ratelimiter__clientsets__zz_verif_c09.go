//go:build verif

// Export shim for the C09 harness (injected with `go build -overlay`, never present in /repo):
// a clientSets value without its three background goroutines (sync, cleanup, heartbeat), and the real
// setLeaderStatus driven with a shifted clock.
package clientsets

import (
	"time"

	"k8s.io/client-go/rest"
)

// VerifNewBare returns the real clientSets struct with nothing running: no endpoints, no leader, no client.
// IsReady reads leaderReady as in production. serverInfoURL is what lookupFunc answers: the (scripted) limiter
// service that sync() asks for /ratelimit/endpoints.
func VerifNewBare(runID, serverInfoURL string) ClientSets {
	return &clientSets{
		runId:      runID,
		service:    "verif",
		lookupFunc: func(string) []string { return []string{serverInfoURL} },
		restConfig: &rest.Config{},
		insecure:   true,
	}
}

// VerifSetShardCount does what sync() does with the server's answer.
func VerifSetShardCount(c ClientSets, n int) { c.(*clientSets).shardCount = n }

// VerifAdvance moves the clock forward by d for everything setLeaderStatus compares with: it only ever compares
// time.Now() with status.lastChange, so moving every lastChange back by d is the same as moving the clock forward.
func VerifAdvance(c ClientSets, d time.Duration) {
	c.(*clientSets).leaderReady.Range(func(_, v interface{}) bool {
		st := v.(*heartbeatStatus)
		if !st.lastChange.IsZero() {
			st.lastChange = st.lastChange.Add(-d)
		}
		return true
	})
}

// VerifHeartbeat calls the real setLeaderStatus(shard, server, ready): one heartbeat outcome.
func VerifHeartbeat(c ClientSets, shard int, ready bool) {
	c.(*clientSets).setLeaderStatus(shard, "verif", ready)
}

// VerifSync runs the real sync() once (it fetches the server info from serverInfoURL).
func VerifSync(c ClientSets) { c.(*clientSets).sync() }

// VerifLeader is leaderEndpoints[shard] ("" when none).
func VerifLeader(c ClientSets, shard int) string {
	v, ok := c.(*clientSets).leaderEndpoints.Load(shard)
	if !ok {
		return ""
	}
	return v.(string)
}

// VerifStatus reads the heartbeat status of a shard: exists, lastState, ready.
func VerifStatus(c ClientSets, shard int) (bool, bool, bool) {
	hs, ok := c.(*clientSets).leaderReady.Load(shard)
	if !ok {
		return false, false, false
	}
	st := hs.(*heartbeatStatus)
	return true, st.lastState, st.ready
}
