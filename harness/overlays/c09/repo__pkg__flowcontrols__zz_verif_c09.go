//go:build verif

package flowcontrols

import "github.com/kubewharf/kubegateway/pkg/flowcontrols/remote"

// VerifReconcile: the reconcile loop's controller of this limiter
func VerifReconcile(u UpstreamLimiter) remote.Reconcile {
	return u.(*upstreamLimiter).reconcile
}
