//go:build verif

// Export shim for the C03 / C14 harnesses (injected with `go build -overlay`, never present in /repo).
// Read-only accessors for unexported state of ClusterInfo / EndpointInfo / endpointPickStrategy, plus a
// constructor that is CreateClusterInfo with the health-check ticker interval chosen by the caller (the
// production value is 5 s, which would make probe timing part of every history).
package clusters

import (
	"reflect"
	"sync"
	"sync/atomic"
	"time"
	"unsafe"

	proxyv1alpha1 "github.com/kubewharf/kubegateway/pkg/apis/proxy/v1alpha1"
)

// VerifCreateClusterInfo mirrors CreateClusterInfo statement by statement; the only addition is the
// assignment of healthCheckInterval between NewEmptyClusterInfo and the first Sync.
func VerifCreateClusterInfo(cluster *proxyv1alpha1.UpstreamCluster, healthCheck EndpointHealthCheck, interval time.Duration) (*ClusterInfo, error) {
	restconfig, err := buildClusterRESTConfig(cluster)
	if err != nil {
		return nil, err
	}
	info := NewEmptyClusterInfo(cluster.Name, restconfig, healthCheck, "", nil)
	info.healthCheckInterval = interval
	err = info.Sync(cluster)
	if err != nil {
		return nil, err
	}
	return info, nil
}

// VerifSetHealthCheckInterval changes the ticker interval used by health checks started from now on.
func VerifSetHealthCheckInterval(c *ClusterInfo, d time.Duration) { c.healthCheckInterval = d }

// The round-robin cursors are reached by ROLE, not by representation: "the field of ClusterInfo named loadbalancer is one
// shared table string -> counter". Today it is a sync.Map of *uint64; a mutex-guarded map[string]uint64 (or *uint64) inside a
// small struct is read and written just as well. If the table cannot be recognised the accessors say so (ok = false) and the
// harness goes on without the cursor comparisons instead of not building.

func verifCursorTable(c *ClusterInfo) (table reflect.Value, lock sync.Locker, ok bool) {
	f := reflect.ValueOf(c).Elem().FieldByName("loadbalancer")
	if !f.IsValid() || !f.CanAddr() {
		return reflect.Value{}, nil, false
	}
	f = reflect.NewAt(f.Type(), unsafe.Pointer(f.UnsafeAddr())).Elem() // drop the read-only flag of an unexported field
	for f.Kind() == reflect.Ptr {
		if f.IsNil() {
			return reflect.Value{}, nil, false
		}
		f = f.Elem()
	}
	if f.Type() == reflect.TypeOf(sync.Map{}) {
		return f, nil, true
	}
	if f.Kind() != reflect.Struct {
		return reflect.Value{}, nil, false
	}
	for i := 0; i < f.NumField(); i++ {
		x := reflect.NewAt(f.Field(i).Type(), unsafe.Pointer(f.Field(i).UnsafeAddr())).Elem()
		if l, isLock := x.Addr().Interface().(sync.Locker); isLock && lock == nil {
			lock = l
		}
		if x.Kind() == reflect.Map && x.Type().Key().Kind() == reflect.String {
			if e := x.Type().Elem(); e.Kind() == reflect.Uint64 || (e.Kind() == reflect.Ptr && e.Elem().Kind() == reflect.Uint64) {
				table = x
			}
		}
	}
	return table, lock, table.IsValid()
}

// VerifLoadbalancer is a snapshot of the round-robin cursors: key (scope + fmt "%v" of the ready []*EndpointInfo) -> value.
func VerifLoadbalancer(c *ClusterInfo) (map[string]uint64, bool) {
	t, lock, ok := verifCursorTable(c)
	if !ok {
		return nil, false
	}
	res := map[string]uint64{}
	if m, isSyncMap := t.Addr().Interface().(*sync.Map); isSyncMap {
		m.Range(func(k, v interface{}) bool {
			ks, ok1 := k.(string)
			p, ok2 := v.(*uint64)
			if !ok1 || !ok2 {
				ok = false
				return false
			}
			res[ks] = atomic.LoadUint64(p)
			return true
		})
		return res, ok
	}
	if lock != nil {
		lock.Lock()
		defer lock.Unlock()
	}
	for it := t.MapRange(); it.Next(); {
		v := it.Value()
		if v.Kind() == reflect.Ptr {
			if v.IsNil() {
				continue
			}
			v = v.Elem()
		}
		res[it.Key().String()] = v.Uint()
	}
	return res, true
}

// VerifSetCursor stores a cursor value under a key (used to start round-robin runs from arbitrary cursors).
func VerifSetCursor(c *ClusterInfo, key string, v uint64) bool {
	t, lock, ok := verifCursorTable(c)
	if !ok {
		return false
	}
	x := v
	if m, isSyncMap := t.Addr().Interface().(*sync.Map); isSyncMap {
		m.Store(key, &x)
		return true
	}
	if lock != nil {
		lock.Lock()
		defer lock.Unlock()
	}
	if t.IsNil() {
		t.Set(reflect.MakeMap(t.Type()))
	}
	if t.Type().Elem().Kind() == reflect.Ptr {
		t.SetMapIndex(reflect.ValueOf(key), reflect.ValueOf(&x))
	} else {
		t.SetMapIndex(reflect.ValueOf(key), reflect.ValueOf(x))
	}
	return true
}

// VerifEndpointState reads the status and health-check bookkeeping of one endpoint.
type VerifEndpointState struct {
	Disabled, Healthy bool
	UnhealthyCount    int
	Probing           bool // a health-check worker has been started and not cancelled (cancelHealthCheck != nil)
	ChanLen           int  // tokens waiting in healthCheckCh
}

func VerifEndpointStatus(e *EndpointInfo) VerifEndpointState {
	e.status.mux.RLock()
	s := VerifEndpointState{Disabled: e.status.Disabled, Healthy: e.status.Healthy, UnhealthyCount: e.status.UnhealthyCount}
	e.status.mux.RUnlock()
	e.Lock()
	s.Probing = e.cancelHealthCheck != nil
	e.Unlock()
	if e.healthCheckCh != nil {
		s.ChanLen = len(e.healthCheckCh)
	}
	return s
}

// VerifPickerUpstreams is the list Pop() will walk (the policy's subset, or AllEndpoints() as returned to MatchAttributes).
func VerifPickerUpstreams(p EndpointPicker) []string {
	if s, ok := p.(*endpointPickStrategy); ok {
		return append([]string{}, s.upstreams...)
	}
	return nil
}

// VerifNewPicker builds a picker over an explicit upstream list (what MatchAttributes does for a policy with that subset).
func VerifNewPicker(c *ClusterInfo, upstreams []string) EndpointPicker {
	return &endpointPickStrategy{cluster: c, upstreams: upstreams}
}
