//go:build verif

// Export shim for the C04 harness (injected with `go build -overlay`, never part of /repo):
// the real, unexported handler-chain builder of the proxy server.
package app

import (
	"net/http"

	genericapiserver "k8s.io/apiserver/pkg/server"

	"github.com/kubewharf/kubegateway/pkg/clusters"
)

// VerifBuildProxyHandlerChain is buildProxyHandlerChainFunc with the options a harness can set.
func VerifBuildProxyHandlerChain(m clusters.Manager, enableAccessLog bool) func(apiHandler http.Handler, c *genericapiserver.Config) http.Handler {
	return buildProxyHandlerChainFunc(&proxyHandlerOptions{clusterManager: m, enableAccessLog: enableAccessLog})
}
