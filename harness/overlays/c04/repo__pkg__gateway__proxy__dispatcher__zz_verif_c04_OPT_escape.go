//go:build verif

// Optional export shim for the C04 harness (injected with `go build -overlay`, never part of /repo): the unexported
// escapeInvalidPathBytes of dispatcher.go (fix 85b204e), for the URL stream. When the function is gone the harness is
// rebuilt without this file and with the tag no_escape (see ./check, optional shims).
package dispatcher

// VerifEscapeInvalidPathBytes is escapeInvalidPathBytes.
func VerifEscapeInvalidPathBytes(rawPath string) string { return escapeInvalidPathBytes(rawPath) }
