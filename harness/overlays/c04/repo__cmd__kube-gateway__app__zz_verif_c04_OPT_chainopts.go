//go:build verif

// Optional export shim for the C04 harness (injected with `go build -overlay`, never part of /repo): the real, unexported
// handler-chain builder of the proxy server with EVERY option that changes the shape of the chain (the flags
// --enable-proxy-tracing, --enable-proxy-access-log, --proxy-goaway-chance and its three thresholds). When the option struct
// changes the harness is rebuilt without this file and with the tag no_chainopts: the options stream is skipped, the rest runs.
package app

import (
	"net/http"

	genericapiserver "k8s.io/apiserver/pkg/server"

	"github.com/kubewharf/kubegateway/pkg/clusters"
)

// VerifChainOptions are the flags of the proxy server that reach buildProxyHandlerChainFunc.
type VerifChainOptions struct {
	Tracing, AccessLog                                     bool
	InflightThreshold, QPSThreshold, ThroughputMBThreshold int32
	GoawayChance                                           float64
}

// VerifBuildProxyHandlerChainWith is buildProxyHandlerChainFunc with those flags.
func VerifBuildProxyHandlerChainWith(m clusters.Manager, o VerifChainOptions) func(apiHandler http.Handler, c *genericapiserver.Config) http.Handler {
	return buildProxyHandlerChainFunc(&proxyHandlerOptions{clusterManager: m, enableProxyTracing: o.Tracing, enableAccessLog: o.AccessLog,
		maxInflightThreshold: o.InflightThreshold, maxQPSThreshold: o.QPSThreshold, maxThroughputMBThreshold: o.ThroughputMBThreshold,
		goawayChance: o.GoawayChance})
}
