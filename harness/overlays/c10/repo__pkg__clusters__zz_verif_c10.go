//go:build verif

// Export shim for the C10 correspondence harness: the raw key set of the manager's sync.Map.
package clusters

// VerifC10Keys lists the keys currently stored in a manager created by NewManager (nil for other managers).
func VerifC10Keys(m Manager) []string {
	mm, ok := m.(*manager)
	if !ok {
		return nil
	}
	keys := []string{}
	mm.clusters.Range(func(k, _ interface{}) bool {
		keys = append(keys, k.(string))
		return true
	})
	return keys
}

// VerifC10Raw is sync.Map.Load without the lower-casing of Get.
func VerifC10Raw(m Manager, key string) (*ClusterInfo, bool) {
	mm, ok := m.(*manager)
	if !ok {
		return nil, false
	}
	v, ok := mm.clusters.Load(key)
	if !ok {
		return nil, false
	}
	return v.(*ClusterInfo), true
}
