//go:build verif

// Export shim for the C10 correspondence harness: the real admission plug-in reading a caller-owned lister.
package upstreamclusteradmission

import (
	"k8s.io/apiserver/pkg/admission"

	proxylisters "github.com/kubewharf/kubegateway/pkg/client/listers/proxy/v1alpha1"
)

// VerifC10NewPlugin returns the plug-in with its lister set (no informer factory; ready at once).
func VerifC10NewPlugin(l proxylisters.UpstreamClusterLister) admission.ValidationInterface {
	return &upstreamclusterPlugin{
		Handler: admission.NewHandler(admission.Create, admission.Update),
		lister:  l,
	}
}
