//go:build verif

// Export shim for the C10 correspondence harness (injected with `go build -overlay`, never part of /repo).
// The controller is always built by the public NewUpstreamClusterController; the shim only forwards to what has
// no exported access: the queue handler, and the controller's queue (handler wrapping, length).
package controllers

import (
	"k8s.io/client-go/util/workqueue"

	"github.com/kubewharf/kubegateway/pkg/syncqueue"
)

// VerifC10Sync is the queue handler (syncUpstreamCluster).
func (m *UpstreamClusterController) VerifC10Sync(obj interface{}) (syncqueue.Result, error) {
	return m.syncUpstreamCluster(obj)
}

// VerifC10WrapHandler wraps the handler of the controller's queue (to be called before Run): the harness counts
// handler invocations (quiescence of the real worker loop, number of invocations in flight at once) and turns a
// panic into a result.
func (m *UpstreamClusterController) VerifC10WrapHandler(wrap func(syncqueue.SyncHandler) syncqueue.SyncHandler) {
	m.queue.VerifC10WrapHandler(wrap)
}

// VerifC10QueueLen is the number of items waiting in the controller's work queue.
func (m *UpstreamClusterController) VerifC10QueueLen() int { return m.queue.Queue().Len() }

// VerifC10WrapQueue decorates the work queue inside the controller's SyncQueue (to be called before Run).
func (m *UpstreamClusterController) VerifC10WrapQueue(wrap func(workqueue.RateLimitingInterface) workqueue.RateLimitingInterface) {
	m.queue.VerifC10WrapQueue(wrap)
}
