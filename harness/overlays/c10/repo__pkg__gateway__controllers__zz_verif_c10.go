//go:build verif

// Export shim for the C10 correspondence harness (injected with `go build -overlay`, never part of /repo):
// an UpstreamClusterController built around a caller-owned indexer (instead of a watch connection) and the
// real clusters.NewManager(), and access to the real, unexported queue handler.
package controllers

import (
	"context"

	"k8s.io/client-go/tools/cache"

	proxylisters "github.com/kubewharf/kubegateway/pkg/client/listers/proxy/v1alpha1"
	"github.com/kubewharf/kubegateway/pkg/clusters"
	"github.com/kubewharf/kubegateway/pkg/syncqueue"
)

// VerifC10NewController returns a controller whose lister reads the given indexer and whose embedded
// clusters.Manager is mgr (the harness hands in clusters.NewManager() behind a recording wrapper, so that it can
// look at the manager after every single write the handler performs).
func VerifC10NewController(indexer cache.Indexer, mgr clusters.Manager) *UpstreamClusterController {
	ctx, cancel := context.WithCancel(context.Background())
	return &UpstreamClusterController{
		ctx:     ctx,
		cancel:  cancel,
		lister:  proxylisters.NewUpstreamClusterLister(indexer),
		synced:  func() bool { return true },
		Manager: mgr,
	}
}

// VerifC10Sync is the queue handler (syncUpstreamCluster).
func (m *UpstreamClusterController) VerifC10Sync(obj interface{}) (syncqueue.Result, error) {
	return m.syncUpstreamCluster(obj)
}

// VerifC10Stop cancels the controller context and stops every ClusterInfo still registered.
func (m *UpstreamClusterController) VerifC10Stop() {
	m.cancel()
	m.DeleteAll()
}

// VerifC10WrapHandler wraps the handler of the queue of a controller built by the public
// NewUpstreamClusterController (to be called before Run): the harness counts handler invocations (quiescence of
// the real worker loop, number of invocations in flight at once) and turns a panic into a result.
func (m *UpstreamClusterController) VerifC10WrapHandler(wrap func(syncqueue.SyncHandler) syncqueue.SyncHandler) {
	m.queue.VerifC10WrapHandler(wrap)
}

// VerifC10QueueLen is the number of items waiting in the controller's work queue.
func (m *UpstreamClusterController) VerifC10QueueLen() int { return m.queue.Queue().Len() }
