//go:build verif

// Export shim for the C10 correspondence harness (injected with `go build -overlay`, never part of /repo).
package syncqueue

// VerifC10WrapHandler wraps the queue's sync handler (to be called before Run).
func (sq *SyncQueue) VerifC10WrapHandler(wrap func(SyncHandler) SyncHandler) {
	sq.syncHandler = wrap(sq.syncHandler)
}
