//go:build verif

// Export shim for the C10 correspondence harness (injected with `go build -overlay`, never part of /repo).
package syncqueue

import "k8s.io/client-go/util/workqueue"

// VerifC10WrapHandler wraps the queue's sync handler (to be called before Run).
func (sq *SyncQueue) VerifC10WrapHandler(wrap func(SyncHandler) SyncHandler) {
	sq.syncHandler = wrap(sq.syncHandler)
}

// VerifC10WrapQueue puts a decorator around the queue's work queue (to be called before Run): the harness records
// which objects are scheduled again (Add / AddAfter / AddRateLimited) before an item is marked Done.
func (sq *SyncQueue) VerifC10WrapQueue(wrap func(workqueue.RateLimitingInterface) workqueue.RateLimitingInterface) {
	sq.queue = wrap(sq.queue)
}
