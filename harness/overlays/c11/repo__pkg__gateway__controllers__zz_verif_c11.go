//go:build verif

// Export shim for the C11 correspondence harness (injected with `go build -overlay`, never part of /repo).
package controllers

import (
	"k8s.io/client-go/tools/cache"

	proxylisters "github.com/kubewharf/kubegateway/pkg/client/listers/proxy/v1alpha1"
	"github.com/kubewharf/kubegateway/pkg/clusters"
)

// VerifC11NewController builds an UpstreamClusterController around a lister backed by the given indexer and a
// real clusters.Manager; the informer (watch connection) and the work queue are left out: the harness writes
// to the indexer and calls the sync handler in the order a queue would.
func VerifC11NewController(indexer cache.Indexer, rateLimiter string) *UpstreamClusterController {
	return &UpstreamClusterController{
		lister:      proxylisters.NewUpstreamClusterLister(indexer),
		Manager:     clusters.NewManager(),
		rateLimiter: rateLimiter,
	}
}

// VerifC11Sync runs the real sync handler on one queue item and tells whether the queue would deliver it again.
func (m *UpstreamClusterController) VerifC11Sync(obj interface{}) (requeue bool, err error) {
	res, err := m.syncUpstreamCluster(obj)
	return res.Requeue || res.RequeueAfter > 0, err
}
