//go:build verif

// Export shim for the C11 correspondence harness (injected with `go build -overlay`, never part of /repo).
package controllers

import (
	"k8s.io/client-go/tools/cache"
	"k8s.io/client-go/util/workqueue"

	proxylisters "github.com/kubewharf/kubegateway/pkg/client/listers/proxy/v1alpha1"
	"github.com/kubewharf/kubegateway/pkg/clusters"
	"github.com/kubewharf/kubegateway/pkg/syncqueue"
)

// VerifC11NewController builds an UpstreamClusterController around a lister backed by the given indexer and a
// real clusters.Manager; the informer (watch connection) and the work queue are left out: the harness writes
// to the indexer and calls the sync handler in the order a queue would.
func VerifC11NewController(indexer cache.Indexer, rateLimiter string) *UpstreamClusterController {
	return &UpstreamClusterController{
		lister:      proxylisters.NewUpstreamClusterLister(indexer),
		Manager:     clusters.NewManager(),
		rateLimiter: rateLimiter,
	}
}

// VerifC11Sync runs the real sync handler on one queue item and tells whether the queue would deliver it again.
func (m *UpstreamClusterController) VerifC11Sync(obj interface{}) (requeue bool, err error) {
	res, err := m.syncUpstreamCluster(obj)
	return res.Requeue || res.RequeueAfter > 0, err
}

// VerifC11Instrument prepares a controller built by the public NewUpstreamClusterController for being driven through
// its real Run loop: the lister is replaced by wrapLister(lister) (the harness holds one Get back once, i.e. pins a
// descheduling point between lister.Get and ClusterInfo.Sync) and the queue's handler by wrapHandler(handler).
// Must be called before Run.
func (m *UpstreamClusterController) VerifC11Instrument(wrapLister func(proxylisters.UpstreamClusterLister) proxylisters.UpstreamClusterLister,
	wrapHandler func(syncqueue.SyncHandler) syncqueue.SyncHandler) {
	m.lister = wrapLister(m.lister)
	m.queue.VerifC11WrapHandler(wrapHandler)
}

// VerifC11QueueLen is the number of items waiting in the controller's work queue.
func (m *UpstreamClusterController) VerifC11QueueLen() int { return m.queue.Queue().Len() }

// VerifC11WrapQueue wraps the work queue under the controller's SyncQueue (before Run).
func (m *UpstreamClusterController) VerifC11WrapQueue(wrap func(workqueue.RateLimitingInterface) workqueue.RateLimitingInterface) {
	m.queue.VerifC11WrapQueue(wrap)
}
