//go:build verif

// Export shim for the C11 correspondence harness (injected with `go build -overlay`, never part of /repo).
package syncqueue

import "k8s.io/client-go/util/workqueue"

// VerifC11WrapHandler wraps the queue's sync handler (to be called before Run): the harness counts handler
// invocations to know when the real worker loop is quiescent, and turns a panic of the handler into a result.
func (sq *SyncQueue) VerifC11WrapHandler(wrap func(SyncHandler) SyncHandler) {
	sq.syncHandler = wrap(sq.syncHandler)
}

// VerifC11WrapQueue wraps the underlying work queue (to be called before Run): the harness records, without any
// timing, whether an item whose handler asked for a requeue was scheduled again, and shortens the requeue delay.
func (sq *SyncQueue) VerifC11WrapQueue(wrap func(workqueue.RateLimitingInterface) workqueue.RateLimitingInterface) {
	sq.queue = wrap(sq.queue)
}
