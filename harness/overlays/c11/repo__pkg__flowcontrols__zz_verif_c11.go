//go:build verif

// Export shim for the C11 correspondence harness (injected with `go build -overlay`, never part of /repo).
package flowcontrols

// VerifC11Mode returns the limiter mode ("local" / "remote") an UpstreamLimiter is in.
func VerifC11Mode(u UpstreamLimiter) string {
	if l, ok := u.(*upstreamLimiter); ok {
		return l.rateLimiter
	}
	return "?"
}
