//go:build verif

// Export shim for the C11 correspondence harness (injected with `go build -overlay`, never part of /repo).
// Everything else the harness reads of a ClusterInfo it reads through public accessors or by reflection (cmd/c11/peek.go).
package clusters

import (
	"k8s.io/client-go/rest"

	proxyv1alpha1 "github.com/kubewharf/kubegateway/pkg/apis/proxy/v1alpha1"
)

// VerifC11BuildRESTConfig is buildClusterRESTConfig: CreateClusterInfo is this, NewEmptyClusterInfo and Sync.
func VerifC11BuildRESTConfig(cluster *proxyv1alpha1.UpstreamCluster) (*rest.Config, error) {
	return buildClusterRESTConfig(cluster)
}
