//go:build verif

// Export shim for the C11 correspondence harness (injected with `go build -overlay`, never part of /repo).
package clusters

import (
	"k8s.io/client-go/rest"

	proxyv1alpha1 "github.com/kubewharf/kubegateway/pkg/apis/proxy/v1alpha1"
	gatewayflowcontrol "github.com/kubewharf/kubegateway/pkg/flowcontrols"
)

// VerifC11Policies returns the dispatch policies currently in force (currentDispatchPolicies).
func VerifC11Policies(c *ClusterInfo) []proxyv1alpha1.DispatchPolicy { return c.loadDispatchPolicies() }

// VerifC11Logging returns the logging configuration currently in force.
func VerifC11Logging(c *ClusterInfo) proxyv1alpha1.LoggingConfig { return c.loadLoggingConfig() }

// VerifC11Limiter returns the cluster's upstream limiter.
func VerifC11Limiter(c *ClusterInfo) gatewayflowcontrol.UpstreamLimiter { return c.flowcontrol }

// VerifC11PickerUpstreams returns the endpoints a picker returned by MatchAttributes chooses from.
func VerifC11PickerUpstreams(p EndpointPicker) []string {
	if s, ok := p.(*endpointPickStrategy); ok {
		return s.upstreams
	}
	return nil
}

// VerifC11BuildRESTConfig is buildClusterRESTConfig: CreateClusterInfo is this, NewEmptyClusterInfo and Sync.
func VerifC11BuildRESTConfig(cluster *proxyv1alpha1.UpstreamCluster) (*rest.Config, error) {
	return buildClusterRESTConfig(cluster)
}
