//go:build verif

// Export shim for the C02 harness (injected with `go build -overlay`, never present in /repo).
package transport

// VerifHeaderKeyEscape is headerKeyEscape.
func VerifHeaderKeyEscape(key string) string { return headerKeyEscape(key) }

// VerifLegalHeaderByte is legalHeaderByte.
func VerifLegalHeaderByte(b byte) bool { return legalHeaderByte(b) }
