//go:build verif

// Export shim for the C02 harness (injected with `go build -overlay`, never present in /repo):
// gives access to the real proxy handler chain builder of cmd/kube-gateway/app/proxy.go.
package app

import (
	"net/http"

	genericapiserver "k8s.io/apiserver/pkg/server"

	"github.com/kubewharf/kubegateway/pkg/clusters"
)

// VerifBuildProxyHandlerChain returns buildProxyHandlerChainFunc(o)(apiHandler, c) for a cluster manager.
func VerifBuildProxyHandlerChain(m clusters.Manager, apiHandler http.Handler, c *genericapiserver.Config) http.Handler {
	return buildProxyHandlerChainFunc(&proxyHandlerOptions{clusterManager: m})(apiHandler, c)
}
