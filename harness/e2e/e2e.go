// Package e2e is a small, reusable, in-process end-to-end rig for kubegateway's proxy path.
//
// It runs the REAL gateway handler chain (the filters of cmd/kube-gateway/app/proxy.go around the real
// dispatcher) on a loop-back HTTP/1.1 listener, in front of scripted raw upstreams registered as the endpoints
// of real clusters.ClusterInfo objects (clusters.CreateClusterInfo, which also installs the real transports:
// client-go wrappers + the dynamic impersonating round tripper).
//
// API (keep it small):
//
//	up := e2e.NewUpstream(func(s *e2e.Seen) e2e.Reply {...})   // scripted raw HTTP/1.1 upstream, records what it receives
//	g  := e2e.New(e2e.Config{Chain: ...})                      // gateway; Chain == nil uses DefaultChain
//	g.AddCluster(e2e.Cluster("name.local", up.URL()), e2e.AlwaysReady)
//	resp, err := g.RoundTrip(rawRequestBytes, "GET", timeout)  // raw bytes on a kept-alive TCP connection, one response parsed
//	g.Close(); up.Close()
//
// Nothing here judges anything: a harness compares Seen / Response values itself.
//
// Notes for users
//   - requests are written byte for byte (no client library touches the request target or the header lines);
//   - the client address the gateway sees is 127.0.0.1 (X-Forwarded-For);
//   - the health check is the caller's function (AlwaysReady / NeverReady mark an endpoint without any network traffic),
//     so an upstream only ever sees forwarded requests;
//   - klog is silenced by Quiet().
package e2e

import (
	"bufio"
	"bytes"
	"flag"
	"fmt"
	"io"
	"log"
	"net"
	"net/http"
	"net/http/httptest"
	"os"
	"strings"
	"sync"
	"sync/atomic"
	"time"

	metav1 "k8s.io/apimachinery/pkg/apis/meta/v1"
	"k8s.io/apimachinery/pkg/util/sets"
	utilwaitgroup "k8s.io/apimachinery/pkg/util/waitgroup"
	"k8s.io/apiserver/pkg/authentication/authenticator"
	"k8s.io/apiserver/pkg/authentication/user"
	"k8s.io/apiserver/pkg/authorization/authorizer"
	genericapifilters "k8s.io/apiserver/pkg/endpoints/filters"
	genericapirequest "k8s.io/apiserver/pkg/endpoints/request"
	genericapiserver "k8s.io/apiserver/pkg/server"
	genericfilters "k8s.io/apiserver/pkg/server/filters"
	"k8s.io/client-go/kubernetes/scheme"
	"k8s.io/klog"

	proxyv1alpha1 "github.com/kubewharf/kubegateway/pkg/apis/proxy/v1alpha1"
	"github.com/kubewharf/kubegateway/pkg/clusters"
	gatewayfilters "github.com/kubewharf/kubegateway/pkg/gateway/endpoints/filters"
	"github.com/kubewharf/kubegateway/pkg/gateway/endpoints/monitor"
	gatewayrequest "github.com/kubewharf/kubegateway/pkg/gateway/endpoints/request"
	proxydispatcher "github.com/kubewharf/kubegateway/pkg/gateway/proxy/dispatcher"
)

// Quiet silences klog and the standard logger (the real code logs every termination and proxy error).
func Quiet() {
	fs := flag.NewFlagSet("klog", flag.ContinueOnError)
	klog.InitFlags(fs)
	_ = fs.Set("logtostderr", "false")
	_ = fs.Set("alsologtostderr", "false")
	_ = fs.Set("stderrthreshold", "FATAL")
	klog.SetOutput(io.Discard)
	log.SetOutput(io.Discard)
}

// ChainFunc has the type of genericapiserver.Config.BuildHandlerChainFunc.
type ChainFunc func(apiHandler http.Handler, c *genericapiserver.Config) http.Handler

// Config configures a gateway.
type Config struct {
	// Chain builds the handler chain. nil = DefaultChain(manager). A harness that can reach the unexported
	// buildProxyHandlerChainFunc through an overlay shim passes ChainWith(manager) -> that function here.
	Chain func(m clusters.Manager) ChainFunc
	// Authenticator; nil = TokenAuthenticator(nil) (every request is refused).
	Authenticator authenticator.Request
	// Authorizer consulted by the impersonation filter; nil = allow everything.
	Authorizer authorizer.Authorizer
	// APIHandler serves requests that are not proxied (IP-literal Host); nil answers 404 with header X-E2e-Not-Proxied: 1.
	APIHandler http.Handler
}

// Gateway is a running gateway handler chain.
type Gateway struct {
	Manager clusters.Manager
	Server  *httptest.Server
	mu      sync.Mutex
	infos   []*clusters.ClusterInfo
	idle    []*clientConn
}

// LongRunning is the long-running check of the real proxy server.
var LongRunning = genericfilters.BasicLongRunningRequestCheck(
	sets.NewString("watch", "proxy"),
	sets.NewString("attach", "exec", "proxy", "log", "portforward"),
)

// GenericConfig returns the part of genericapiserver.Config that buildProxyHandlerChainFunc reads.
func GenericConfig(authn authenticator.Request, authz authorizer.Authorizer) *genericapiserver.Config {
	c := &genericapiserver.Config{}
	c.Serializer = scheme.Codecs
	c.LongRunningFunc = LongRunning
	c.RequestInfoResolver = &genericapirequest.RequestInfoFactory{
		APIPrefixes:          sets.NewString("api", "apis"),
		GrouplessAPIPrefixes: sets.NewString("api"),
	}
	c.HandlerChainWaitGroup = new(utilwaitgroup.SafeWaitGroup)
	c.Authentication.Authenticator = authn
	c.Authorization.Authorizer = authz
	return c
}

// DefaultChain assembles the filters by hand in the order of buildProxyHandlerChainFunc (cmd/kube-gateway/app/proxy.go);
// audit, CORS, goaway and trace log are the identity in the configuration used here and are left out.
func DefaultChain(m clusters.Manager) ChainFunc {
	return func(apiHandler http.Handler, c *genericapiserver.Config) http.Handler {
		handler := gatewayfilters.WithDispatcher(apiHandler, proxydispatcher.NewDispatcher(m, false))
		handler = gatewayfilters.WithNoLoggingImpersonation(handler, c.Authorization.Authorizer, c.Serializer)
		handler = gatewayfilters.WithImpersonator(handler)
		failed := genericapifilters.Unauthorized(c.Serializer, c.Authentication.SupportsBasicAuth)
		handler = genericapifilters.WithAuthentication(handler, c.Authentication.Authenticator, failed, c.Authentication.APIAudiences)
		handler = genericfilters.WithWaitGroup(handler, c.LongRunningFunc, c.HandlerChainWaitGroup)
		handler = gatewayfilters.WithRequestReaderWriterWrapper(handler, monitor.NewThroughputMonitor())
		handler = gatewayfilters.WithRequestRate(handler, c.LongRunningFunc, monitor.NewRateMonitor())
		handler = gatewayfilters.WithPreProcessingMetrics(handler)
		handler = gatewayfilters.WithUpstreamInfo(handler, m, c.Serializer)
		handler = gatewayfilters.WithExtraRequestInfo(handler, &gatewayrequest.ExtraRequestInfoFactory{LongRunningFunc: c.LongRunningFunc}, c.Serializer)
		handler = gatewayfilters.WithTerminationMetrics(handler)
		handler = withRequestInfo(handler, c) // requestinfo.go
		handler = genericapifilters.WithCacheControl(handler)
		handler = gatewayfilters.WithNoLoggingPanicRecovery(handler)
		return handler
	}
}

// TokenAuthenticator authenticates "Authorization: Bearer <token>" against the map; anything else is refused (401).
func TokenAuthenticator(tokens map[string]user.Info) authenticator.Request {
	return authenticator.RequestFunc(func(req *http.Request) (*authenticator.Response, bool, error) {
		a := req.Header.Get("Authorization")
		if !strings.HasPrefix(a, "Bearer ") {
			return nil, false, nil
		}
		u, ok := tokens[strings.TrimPrefix(a, "Bearer ")]
		if !ok {
			return nil, false, nil
		}
		return &authenticator.Response{User: u}, true, nil
	})
}

// AllowAll authorizes everything.
var AllowAll = authorizer.AuthorizerFunc(func(a authorizer.Attributes) (authorizer.Decision, string, error) {
	return authorizer.DecisionAllow, "", nil
})

// New starts a gateway.
func New(cfg Config) *Gateway {
	m := clusters.NewManager()
	authn := cfg.Authenticator
	if authn == nil {
		authn = TokenAuthenticator(nil)
	}
	authz := cfg.Authorizer
	if authz == nil {
		authz = AllowAll
	}
	api := cfg.APIHandler
	if api == nil {
		api = http.HandlerFunc(func(w http.ResponseWriter, r *http.Request) {
			w.Header().Set("X-E2e-Not-Proxied", "1")
			w.WriteHeader(http.StatusNotFound)
		})
	}
	chain := DefaultChain
	if cfg.Chain != nil {
		chain = cfg.Chain
	}
	h := chain(m)(api, GenericConfig(authn, authz))
	srv := httptest.NewUnstartedServer(h)
	srv.Config.ErrorLog = log.New(io.Discard, "", 0)
	srv.Start()
	return &Gateway{Manager: m, Server: srv}
}

// Addr is the gateway's listen address (host:port).
func (g *Gateway) Addr() string { return g.Server.Listener.Addr().String() }

// CloseIdle closes the kept-alive client connections, so that the next RoundTrip dials a fresh one.
func (g *Gateway) CloseIdle() {
	g.mu.Lock()
	for _, cc := range g.idle {
		cc.c.Close()
	}
	g.idle = nil
	g.mu.Unlock()
}

// Close stops the gateway and every cluster added to it.
func (g *Gateway) Close() {
	g.mu.Lock()
	for _, cc := range g.idle {
		cc.c.Close()
	}
	g.idle = nil
	g.mu.Unlock()
	g.Server.Close()
	g.mu.Lock()
	defer g.mu.Unlock()
	for _, ci := range g.infos {
		ci.Stop()
	}
}

// AlwaysReady / NeverReady are health checks that decide without network traffic.
func AlwaysReady(e *clusters.EndpointInfo) bool {
	if !e.IsReady() {
		e.UpdateStatus(true, "", "")
	}
	return false
}
func NeverReady(e *clusters.EndpointInfo) bool {
	e.UpdateStatus(false, "Scripted", "never ready")
	return false
}

// MatchAll is a dispatch rule that matches every request.
var MatchAll = proxyv1alpha1.DispatchPolicyRule{Verbs: []string{"*"}, APIGroups: []string{"*"}, Resources: []string{"*"}, NonResourceURLs: []string{"*"}}

// Cluster returns an UpstreamCluster with the given endpoints and one match-all dispatch policy; edit it before AddCluster.
func Cluster(name string, endpoints ...string) *proxyv1alpha1.UpstreamCluster {
	uc := &proxyv1alpha1.UpstreamCluster{ObjectMeta: metav1.ObjectMeta{Name: name}}
	for _, e := range endpoints {
		uc.Spec.Servers = append(uc.Spec.Servers, proxyv1alpha1.UpstreamClusterServer{Endpoint: e})
	}
	uc.Spec.ClientConfig.BearerToken = []byte("gateway-token")
	uc.Spec.DispatchPolicies = []proxyv1alpha1.DispatchPolicy{{Rules: []proxyv1alpha1.DispatchPolicyRule{MatchAll}}}
	return uc
}

// AddCluster creates the real ClusterInfo, waits until the health check has run once for every endpoint and
// registers the cluster with the manager. wantReady says what to wait for (true with AlwaysReady, false with NeverReady).
func (g *Gateway) AddCluster(uc *proxyv1alpha1.UpstreamCluster, health clusters.EndpointHealthCheck, wantReady bool) (*clusters.ClusterInfo, error) {
	ci, err := clusters.CreateClusterInfo(uc, health, "", nil)
	if err != nil {
		return nil, err
	}
	deadline := time.Now().Add(10 * time.Second)
	for _, s := range uc.Spec.Servers {
		for {
			ep, ok := ci.Endpoints.Load(s.Endpoint)
			if ok && wantReady && ep.IsReady() {
				break
			}
			// not ready: wait until the scripted health check has reported once (or the endpoint is disabled)
			if ok && !wantReady && !ep.IsReady() && (strings.Contains(ep.UnreadyReason(), "Scripted") || strings.Contains(ep.UnreadyReason(), "disabled")) {
				break
			}
			if time.Now().After(deadline) {
				ci.Stop()
				return nil, fmt.Errorf("endpoint %s never reached ready=%v", s.Endpoint, wantReady)
			}
			time.Sleep(2 * time.Millisecond)
		}
	}
	g.Manager.Add(ci)
	g.mu.Lock()
	g.infos = append(g.infos, ci)
	g.mu.Unlock()
	return ci, nil
}

// Response is what a raw client read from the gateway.
type Response struct {
	StatusCode       int
	Proto            string
	Header           http.Header // canonical keys, as parsed by net/http (Transfer-Encoding moved out, as usual)
	TransferEncoding []string
	ContentLength    int64
	Close            bool
	Body             []byte
	Trailer          http.Header
	BodyErr          string // non-empty when the body could not be read to its end
}

type clientConn struct {
	c  net.Conn
	br *bufio.Reader
}

func (g *Gateway) getConn() (*clientConn, bool, error) {
	g.mu.Lock()
	if n := len(g.idle); n > 0 {
		cc := g.idle[n-1]
		g.idle = g.idle[:n-1]
		g.mu.Unlock()
		return cc, true, nil
	}
	g.mu.Unlock()
	c, err := net.Dial("tcp", g.Addr())
	if err != nil {
		return nil, false, err
	}
	return &clientConn{c: c, br: bufio.NewReaderSize(c, 64<<10)}, false, nil
}

// RoundTrip writes raw to the gateway and parses one response. Connections are kept alive and reused (a run of tens of
// thousands of round trips must not exhaust the ephemeral ports); a connection is reused only after a response was read
// to its end, the request was written completely and neither side asked to close. A request that finds its reused
// connection dead before the first response byte is sent once more on a fresh one. method is needed only to know whether
// a body follows (HEAD).
func (g *Gateway) RoundTrip(raw []byte, method string, timeout time.Duration) (*Response, error) {
	for attempt := 0; ; attempt++ {
		cc, reused, err := g.getConn()
		if err != nil {
			return nil, err
		}
		resp, reusable, gotBytes, err := g.roundTripOn(cc, raw, method, timeout)
		if err != nil && reused && !gotBytes && attempt == 0 {
			if debugClose {
				fmt.Fprintf(os.Stderr, "e2e: client re-sends on a fresh connection after %v on a reused one (%s)\n", err, cc.c.LocalAddr())
			}
			cc.c.Close()
			continue // stale kept-alive connection
		}
		if err == nil && reusable {
			g.mu.Lock()
			g.idle = append(g.idle, cc)
			g.mu.Unlock()
		} else {
			cc.c.Close()
		}
		return resp, err
	}
}

func (g *Gateway) roundTripOn(cc *clientConn, raw []byte, method string, timeout time.Duration) (out *Response, reusable, gotBytes bool, err error) {
	_ = cc.c.SetDeadline(time.Now().Add(timeout))
	werr := make(chan error, 1)
	go func() { _, e := cc.c.Write(raw); werr <- e }()
	if _, perr := cc.br.Peek(1); perr != nil {
		return nil, false, false, perr
	}
	resp, err := http.ReadResponse(cc.br, &http.Request{Method: method})
	if err != nil {
		return nil, false, true, err
	}
	out = &Response{StatusCode: resp.StatusCode, Proto: resp.Proto, Header: resp.Header, TransferEncoding: resp.TransferEncoding,
		ContentLength: resp.ContentLength, Close: resp.Close}
	b, berr := io.ReadAll(resp.Body)
	resp.Body.Close()
	out.Body = b
	if berr != nil {
		out.BodyErr = berr.Error()
	}
	out.Trailer = resp.Trailer
	// reusable only if the whole request went out and nobody asked to close
	select {
	case e := <-werr:
		reusable = e == nil && berr == nil && !resp.Close && cc.br.Buffered() == 0
	case <-time.After(50 * time.Millisecond):
		reusable = false // the gateway answered without reading the request to its end; let the writer die with the connection
		if debugClose {
			fmt.Fprintf(os.Stderr, "e2e: client writer still busy 50 ms after the response (%s)\n", cc.c.LocalAddr())
		}
	}
	return out, reusable, true, nil
}

// Dial opens a raw connection to the gateway (upgrade round trips).
func (g *Gateway) Dial(timeout time.Duration) (net.Conn, error) {
	c, err := net.DialTimeout("tcp", g.Addr(), timeout)
	if err == nil {
		_ = c.SetDeadline(time.Now().Add(timeout))
	}
	return c, err
}

// ---------------------------------------------------------------------------------------------------------------
// scripted upstream

// Seen is one request as an upstream received it.
type Seen struct {
	Method           string
	RequestURI       string // the request target, byte for byte
	Proto            string
	Host             string
	Header           http.Header // canonical keys as parsed by net/http (Host and Transfer-Encoding moved out)
	TransferEncoding []string
	ContentLength    int64
	Body             []byte
	Trailer          http.Header
	BodyErr          string
	Conn             net.Conn // for upgrade scripts (Reply.Hijack)
	Reader           *bufio.Reader
}

// Reply is what a script answers. Raw, if non-nil, is written verbatim; otherwise a response is assembled from the fields.
type Reply struct {
	Raw        []byte
	Status     int
	Header     [][2]string // written in this order, names and values verbatim
	Body       []byte
	Chunked    bool // Transfer-Encoding: chunked (in pieces of ChunkSize, default 4096) instead of Content-Length
	ChunkSize  int
	Trailer    [][2]string     // only with Chunked
	NoLength   bool            // neither Content-Length nor chunking: body delimited by closing the connection
	CloseAfter bool            // close the connection after the reply
	Wait       <-chan struct{} // if non-nil the reply is delayed until the channel is closed
	Hijack     func(s *Seen)   // if non-nil: called instead of writing anything (the script owns Conn); the connection is closed after it returns
	OmitBody   bool            // write the headers (incl. Content-Length of Body) but no body (HEAD, 204, 304)
	Delays     *Delays         // if non-nil the reply is written in pieces with pauses (WriteTimed)
}

// Delays scripts WHEN an upstream writes its reply, counted from the moment it has read the whole request.
type Delays struct {
	BeforeStatus time.Duration   // before the status line and the header
	BeforeBody   time.Duration   // between the blank line after the header and the first body byte
	Between      []time.Duration // Between[i]: between piece i and piece i+1 of the body (chunked: the chunks; otherwise the body is cut into len(Between)+1 pieces)
}

// Pieces renders the reply as head (status line, header, blank line), the pieces of the body and a tail (the last-chunk
// marker and trailers of a chunked body); Bytes() is their concatenation.
func (r Reply) Pieces(cuts int) (head []byte, pieces [][]byte, tail []byte) {
	if r.Raw != nil {
		return r.Raw, nil, nil
	}
	var b bytes.Buffer
	text := http.StatusText(r.Status)
	if text == "" {
		text = "Status"
	}
	fmt.Fprintf(&b, "HTTP/1.1 %d %s\r\n", r.Status, text)
	for _, h := range r.Header {
		b.WriteString(h[0] + ": " + h[1] + "\r\n")
	}
	switch {
	case r.Chunked:
		b.WriteString("Transfer-Encoding: chunked\r\n\r\n")
		if r.OmitBody {
			return b.Bytes(), nil, nil
		}
		n := r.ChunkSize
		if n <= 0 {
			n = 4096
		}
		for off := 0; off < len(r.Body); off += n {
			end := off + n
			if end > len(r.Body) {
				end = len(r.Body)
			}
			var p bytes.Buffer
			fmt.Fprintf(&p, "%x\r\n", end-off)
			p.Write(r.Body[off:end])
			p.WriteString("\r\n")
			pieces = append(pieces, p.Bytes())
		}
		var t bytes.Buffer
		t.WriteString("0\r\n")
		for _, tr := range r.Trailer {
			t.WriteString(tr[0] + ": " + tr[1] + "\r\n")
		}
		t.WriteString("\r\n")
		return b.Bytes(), pieces, t.Bytes()
	case r.NoLength:
		b.WriteString("\r\n")
	default:
		fmt.Fprintf(&b, "Content-Length: %d\r\n\r\n", len(r.Body))
	}
	if r.OmitBody || len(r.Body) == 0 {
		return b.Bytes(), nil, nil
	}
	k := cuts + 1
	if k > len(r.Body) {
		k = len(r.Body)
	}
	for i := 0; i < k; i++ {
		pieces = append(pieces, r.Body[i*len(r.Body)/k:(i+1)*len(r.Body)/k])
	}
	return b.Bytes(), pieces, nil
}

// WriteTimed writes the reply with the scripted pauses.
func (r Reply) WriteTimed(c net.Conn) error {
	d := r.Delays
	head, pieces, tail := r.Pieces(len(d.Between))
	time.Sleep(d.BeforeStatus)
	if _, err := c.Write(head); err != nil {
		return err
	}
	if len(pieces) > 0 || len(tail) > 0 {
		time.Sleep(d.BeforeBody)
	}
	for i, p := range pieces {
		if i > 0 && i-1 < len(d.Between) {
			time.Sleep(d.Between[i-1])
		}
		if _, err := c.Write(p); err != nil {
			return err
		}
	}
	if len(tail) > 0 {
		if _, err := c.Write(tail); err != nil {
			return err
		}
	}
	return nil
}

// Bytes renders the reply.
func (r Reply) Bytes() []byte {
	if r.Raw != nil {
		return r.Raw
	}
	var b bytes.Buffer
	text := http.StatusText(r.Status)
	if text == "" {
		text = "Status"
	}
	fmt.Fprintf(&b, "HTTP/1.1 %d %s\r\n", r.Status, text)
	for _, h := range r.Header {
		b.WriteString(h[0] + ": " + h[1] + "\r\n")
	}
	switch {
	case r.Chunked:
		b.WriteString("Transfer-Encoding: chunked\r\n\r\n")
		if r.OmitBody {
			return b.Bytes()
		}
		n := r.ChunkSize
		if n <= 0 {
			n = 4096
		}
		for off := 0; off < len(r.Body); off += n {
			end := off + n
			if end > len(r.Body) {
				end = len(r.Body)
			}
			fmt.Fprintf(&b, "%x\r\n", end-off)
			b.Write(r.Body[off:end])
			b.WriteString("\r\n")
		}
		b.WriteString("0\r\n")
		for _, t := range r.Trailer {
			b.WriteString(t[0] + ": " + t[1] + "\r\n")
		}
		b.WriteString("\r\n")
	case r.NoLength:
		b.WriteString("\r\n")
		if !r.OmitBody {
			b.Write(r.Body)
		}
	default:
		fmt.Fprintf(&b, "Content-Length: %d\r\n\r\n", len(r.Body))
		if !r.OmitBody {
			b.Write(r.Body)
		}
	}
	return b.Bytes()
}

// Upstream is a scripted raw HTTP/1.1 server.
type Upstream struct {
	ln       net.Listener
	script   func(*Seen) Reply
	requests int64 // request heads parsed
	bytes    int64 // bytes read from all connections
	conns    int64
	wg       sync.WaitGroup
	mu       sync.Mutex
	open     map[net.Conn]struct{}
	closed   bool
}

// NewUpstream starts an upstream; script runs once per request received (concurrently across connections).
func NewUpstream(script func(*Seen) Reply) *Upstream {
	ln, err := net.Listen("tcp", "127.0.0.1:0")
	if err != nil {
		panic(err)
	}
	u := &Upstream{ln: ln, script: script, open: map[net.Conn]struct{}{}}
	u.wg.Add(1)
	go u.accept()
	return u
}

// URL is the endpoint string to put into an UpstreamCluster.
func (u *Upstream) URL() string { return "http://" + u.ln.Addr().String() }

// Requests / BytesRead / Conns are monotone counters over the upstream's whole life.
func (u *Upstream) Requests() int64  { return atomic.LoadInt64(&u.requests) }
func (u *Upstream) BytesRead() int64 { return atomic.LoadInt64(&u.bytes) }
func (u *Upstream) Conns() int64     { return atomic.LoadInt64(&u.conns) }

func (u *Upstream) Close() {
	u.mu.Lock()
	u.closed = true
	for c := range u.open {
		c.Close()
	}
	u.mu.Unlock()
	u.ln.Close()
	u.wg.Wait()
}

type countingConn struct {
	net.Conn
	n *int64
}

func (c countingConn) Read(p []byte) (int, error) {
	n, err := c.Conn.Read(p)
	atomic.AddInt64(c.n, int64(n))
	return n, err
}

func (u *Upstream) accept() {
	defer u.wg.Done()
	for {
		c, err := u.ln.Accept()
		if err != nil {
			return
		}
		u.mu.Lock()
		if u.closed {
			u.mu.Unlock()
			c.Close()
			return
		}
		u.open[c] = struct{}{}
		u.mu.Unlock()
		atomic.AddInt64(&u.conns, 1)
		u.wg.Add(1)
		go u.serve(c)
	}
}

var debugClose = os.Getenv("E2E_DEBUG") != ""

// closeGracefully ends a connection without a reset: closing a socket that still has unread bytes in its receive queue
// makes the kernel send RST, and a reset can destroy response bytes the peer has not read yet (the relayed body is then
// cut short although the stub wrote all of it). So: half-close the sending side, drain what the peer still sends for a
// moment, then close.
func closeGracefully(c net.Conn) {
	if tc, ok := c.(*net.TCPConn); ok {
		_ = tc.CloseWrite()
		_ = tc.SetReadDeadline(time.Now().Add(200 * time.Millisecond))
		_, _ = io.Copy(io.Discard, tc)
	}
	c.Close()
}

func (u *Upstream) serve(c net.Conn) {
	defer u.wg.Done()
	defer func() {
		u.mu.Lock()
		closed := u.closed
		delete(u.open, c)
		u.mu.Unlock()
		if closed {
			c.Close()
		} else {
			closeGracefully(c)
		}
	}()
	cc := countingConn{c, &u.bytes}
	br := bufio.NewReaderSize(cc, 64<<10)
	for {
		req, err := http.ReadRequest(br)
		if err != nil {
			if debugClose && err != io.EOF {
				fmt.Fprintf(os.Stderr, "e2e: upstream %s closes %s: ReadRequest: %v (buffered %d)\n", u.ln.Addr(), c.RemoteAddr(), err, br.Buffered())
			}
			return
		}
		atomic.AddInt64(&u.requests, 1)
		s := &Seen{Method: req.Method, RequestURI: req.RequestURI, Proto: req.Proto, Host: req.Host, Header: req.Header,
			TransferEncoding: req.TransferEncoding, ContentLength: req.ContentLength, Conn: c, Reader: br}
		upgrade := req.Header.Get("Upgrade") != ""
		if !upgrade {
			b, berr := io.ReadAll(req.Body)
			s.Body = b
			if berr != nil {
				s.BodyErr = berr.Error()
			}
			s.Trailer = req.Trailer
		}
		rep := u.script(s)
		if rep.Wait != nil {
			<-rep.Wait
		}
		if rep.Hijack != nil {
			rep.Hijack(s)
			return
		}
		var werr error
		if rep.Delays != nil && rep.Raw == nil {
			werr = rep.WriteTimed(c)
		} else {
			_, werr = c.Write(rep.Bytes())
		}
		if err := werr; err != nil {
			if debugClose {
				fmt.Fprintf(os.Stderr, "e2e: upstream %s closes %s: Write: %v\n", u.ln.Addr(), c.RemoteAddr(), err)
			}
			return
		}
		if rep.CloseAfter || rep.NoLength || s.BodyErr != "" {
			if debugClose && s.BodyErr != "" {
				fmt.Fprintf(os.Stderr, "e2e: upstream %s closes %s: request body: %s\n", u.ln.Addr(), c.RemoteAddr(), s.BodyErr)
			}
			return
		}
	}
}
