package e2e

import (
	"net/http"
	"reflect"

	genericapiserver "k8s.io/apiserver/pkg/server"

	gatewayfilters "github.com/kubewharf/kubegateway/pkg/gateway/endpoints/filters"
)

// withRequestInfo is the WithRequestInfo line of buildProxyHandlerChainFunc:
//
//	handler = gatewayfilters.WithRequestInfo(handler, c.RequestInfoResolver, c.Serializer)
//
// called through reflection so that this package also compiles against a tree in which WithRequestInfo has its former
// two-argument shape (before /repo bd02b39: an alias of the generic filter). A check must be able to RUN on such a tree
// to show what it does, instead of stopping at "the harness no longer builds".
func withRequestInfo(handler http.Handler, c *genericapiserver.Config) http.Handler {
	f := reflect.ValueOf(gatewayfilters.WithRequestInfo)
	args := []reflect.Value{reflect.ValueOf(&handler).Elem(), reflect.ValueOf(&c.RequestInfoResolver).Elem()}
	if f.Type().NumIn() == 3 {
		args = append(args, reflect.ValueOf(&c.Serializer).Elem())
	}
	return f.Call(args)[0].Interface().(http.Handler)
}
