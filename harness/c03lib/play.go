package c03lib

import (
	"fmt"
	"time"

	"github.com/kubewharf/kubegateway/pkg/clusters"

	"verifharness/rig"
)

// SetupMismatch is returned by Play when the real cluster did not behave as the model during the set-up but the set-up
// itself went through: the caller may go on (the property is judged on what the real code does) and report the difference
// if nothing worse is found.
type SetupMismatch struct{ What string }

func (e *SetupMismatch) Error() string { return e.What }

type planReply struct {
	Steps []Step `json:"steps"`
}

// Play runs harness ops on the real code with quiescence after each (the probes the model expects have happened and the
// health-check workers match the spec). It is the set-up part of the C14 cases; the C03 harness has its own, more
// inquisitive loop. It returns the last observed state.
func Play(c *rig.Ctx, w *World, ops []Op) (*Step, error) {
	var plan planReply
	planOps := make([]Op, len(ops))
	copy(planOps, ops)
	for i := range planOps {
		planOps[i].Order = nil
	}
	if err := c.Model("C03.run", map[string]interface{}{"ops": planOps, "policy_scopes": PolicyScopes()}, &plan); err != nil {
		return nil, fmt.Errorf("model error %v", err)
	}
	if len(plan.Steps) != len(ops) {
		return nil, fmt.Errorf("model answered %d steps for %d ops", len(plan.Steps), len(ops))
	}
	var last *Step
	var mismatch *SetupMismatch
	for i := range ops {
		op := &ops[i]
		workers := -1
		var opErr error
		msg, panicked := rig.Recover(func() {
			switch op.Op {
			case "sync":
				w.SetUp(op.Up)
				opErr = w.SyncX(op.Servers, op.Policies, op.Extra)
				workers = w.EnabledInSpec()
			case "status":
				if e, ok := w.Load(op.N); ok {
					if op.H {
						e.UpdateStatus(true, "", "")
					} else {
						e.UpdateStatus(false, "Failure", "scripted")
					}
				}
			case "trigger":
				w.SetUp(op.Up)
				if e, ok := w.Load(op.N); ok {
					e.TriggerHealthCheck()
				}
			case "ensure":
				w.SetUp(op.Up)
				if e, ok := w.Load(op.N); ok {
					clusters.EnsureGatewayHealthCheck(e, time.Hour, e.Context())
				}
			default:
				opErr = fmt.Errorf("op %q is not a set-up op", op.Op)
			}
		})
		if panicked {
			return nil, fmt.Errorf("op %d (%s) panicked: %s", i, op.Op, msg)
		}
		if opErr != nil {
			return nil, fmt.Errorf("op %d (%s): %v", i, op.Op, opErr)
		}
		want := map[Ident]int{}
		for _, e := range plan.Steps[i].Eps {
			want[Ident{N: e.N, Gen: e.Gen}] = e.Probes
		}
		if bad := w.Quiesce(want, workers); bad != "" {
			if mismatch == nil {
				mismatch = &SetupMismatch{fmt.Sprintf("after op %d (%s): %s", i, op.Op, bad)}
			}
			// settle without the model: the workers are those of the enabled servers and nothing is pending; from now on
			// the model's probe counts are not waited for any longer than a moment
			w.Timeout = 300 * time.Millisecond
			w.Quiesce(map[Ident]int{}, workers)
			time.Sleep(2 * time.Millisecond)
		}
		w.DrainFired()
		eps, lb, err := w.Snapshot()
		if err != nil {
			return nil, err
		}
		if a, b := CanonEps(plan.Steps[i].Eps), CanonEps(eps); a != b && mismatch == nil {
			mismatch = &SetupMismatch{fmt.Sprintf("after op %d (%s): endpoints: model [%s], code [%s]", i, op.Op, a, b)}
		}
		last = &Step{Eps: eps, Lb: lb}
	}
	if mismatch != nil {
		return last, mismatch
	}
	return last, nil
}

// ReadyObjects is the ordered ready list Pop() would build for an upstream list right now.
func (w *World) ReadyObjects(upstreams []string) []*clusters.EndpointInfo {
	var res []*clusters.EndpointInfo
	for _, u := range upstreams {
		if e, ok := w.CI.Endpoints.Load(u); ok && e.IsReady() {
			res = append(res, e)
		}
	}
	return res
}

func (w *World) Idents(l []*clusters.EndpointInfo) []Ident {
	res := make([]Ident, len(l))
	for i, e := range l {
		res[i] = w.ident(e)
	}
	return res
}
