// Package c03lib drives the real endpoint bookkeeping of pkg/clusters (ClusterInfo.Sync, EndpointInfo status and
// health-check goroutines, MatchAttributes(...).Pop()) for the C03 and C14 harnesses and observes it in the
// vocabulary of the Lean model KG.Model.Endpoints.
package c03lib

import (
	"encoding/json"
	"errors"
	"os"
	"path/filepath"
	"flag"
	"fmt"
	"io"
	"runtime"
	"sort"
	"strings"
	"sync"
	"sync/atomic"
	"time"

	apierrors "k8s.io/apimachinery/pkg/api/errors"
	metav1 "k8s.io/apimachinery/pkg/apis/meta/v1"
	"k8s.io/apiserver/pkg/authentication/user"
	"k8s.io/apiserver/pkg/authorization/authorizer"
	"k8s.io/klog"

	proxyv1alpha1 "github.com/kubewharf/kubegateway/pkg/apis/proxy/v1alpha1"
	"github.com/kubewharf/kubegateway/pkg/clusters"

	"verifharness/rig"
)

// ---------------------------------------------------------------------------------------------------------
// wire format (shared with lean/KG/Driver/C03.lean); endpoint names travel as hex

type Server struct {
	Ep  string `json:"ep"`
	Dis bool   `json:"dis"`
}

// UpEnt is one entry of the scripted health table. With Code set it carries what the upstream answers to GET /healthz
// (HTTP status; -1 hang until the client times out, -2 connection closed, -3 connection refused; BodyOK false: a body other
// than "ok") and the Lean model decides whether that is healthy (gatewayHealthCheck); H is then the model's decision, cached.
type UpEnt struct {
	N      string `json:"n"`
	H      bool   `json:"h"`
	Code   *int   `json:"code,omitempty"`
	BodyOK *bool  `json:"body_ok,omitempty"`
}

// Op is one harness op: "sync" | "status" | "trigger" | "ensure" | "match" | "pop".
type Op struct {
	Op       string     `json:"op"`
	Servers  []Server   `json:"servers"`
	Policies [][]string `json:"policies"`
	Up       []UpEnt    `json:"up"`
	N        string     `json:"n"`
	H        bool       `json:"h"`
	Policy   int        `json:"policy"`
	Picker   int        `json:"picker"`
	Order    []string   `json:"order"` // match without subset: what AllEndpoints() returned (observed, then given to the model)
	Extra    int        `json:"extra"` // sync: which unrelated part of the UpstreamCluster object differs (ExtraKinds); the model ignores it
}

// ExtraKinds is the number of variants of ClusterOfX's `extra`.
const ExtraKinds = 7

// ExtraLimitOne is the `extra` of a spec whose policies all use a flow-control schema with maxRequestsInflight = 1.
const ExtraLimitOne = 100

type EPState struct {
	N       string `json:"n"`
	Gen     int    `json:"gen"`
	Dis     bool   `json:"dis"`
	Healthy bool   `json:"healthy"`
	UC      int    `json:"uc"`
	Probing bool   `json:"probing"`
	Chan    int    `json:"chan"`
	Blocked int    `json:"blocked"`
	Probes  int    `json:"probes"`
}

type Ident struct {
	N   string `json:"n"`
	Gen int    `json:"gen"`
}

type Fired struct {
	N      string `json:"n"`
	Gen    int    `json:"gen"`
	H      bool   `json:"h"`
	Code   *int   `json:"code,omitempty"` // the answer the probe got (end-to-end stream); the model decides what it means
	BodyOK *bool  `json:"body_ok,omitempty"`
}

type LbEnt struct {
	Key   []Ident `json:"key"`
	C     uint64  `json:"c"`
	Scope string  `json:"scope,omitempty"` // prefix of the real key in front of the "[…]" object list (a cursor scope such as "pickone:")
	Policy *int   `json:"policy,omitempty"` // cursor presets: the policy whose cursor it is
}

// OutJ is the output of one op: match -> Ok []string (hex) | Err; pop -> Ok Ident | Err.
type OutJ struct {
	Ok  interface{} `json:"ok,omitempty"`
	Err string      `json:"err,omitempty"`
}

type Step struct {
	Out   *OutJ     `json:"out"`
	Fired []Fired   `json:"fired"`
	Eps   []EPState `json:"eps"`
	Lb    []LbEnt   `json:"lb"`
}

func (e EPState) observable() string {
	return fmt.Sprintf("%s/%d dis=%v healthy=%v uc=%d probing=%v chan=%d probes=%d", rig.UnHex(e.N), e.Gen, e.Dis, e.Healthy, e.UC, e.Probing, e.Chan, e.Probes)
}

func CanonEps(l []EPState) string {
	s := make([]string, len(l))
	for i, e := range l {
		s[i] = e.observable()
	}
	sort.Strings(s)
	return strings.Join(s, "; ")
}

func CanonLb(l []LbEnt) string {
	s := make([]string, len(l))
	for i, e := range l {
		k := make([]string, len(e.Key))
		for j, id := range e.Key {
			k[j] = fmt.Sprintf("%s/%d", rig.UnHex(id.N), id.Gen)
		}
		s[i] = fmt.Sprintf("%s[%s]=%d", e.Scope, strings.Join(k, " "), e.C)
	}
	sort.Strings(s)
	return strings.Join(s, "; ")
}

func CanonFired(l []Fired) string {
	s := make([]string, len(l))
	for i, f := range l {
		s[i] = fmt.Sprintf("%s/%d->%v", rig.UnHex(f.N), f.Gen, f.H)
	}
	sort.Strings(s)
	return strings.Join(s, "; ")
}

func CanonOut(o *OutJ) string {
	if o == nil {
		return "-"
	}
	if o.Err != "" {
		return "err:" + o.Err
	}
	// round trip, so that a struct and a decoded map render alike (sorted keys)
	b, _ := json.Marshal(o.Ok)
	var v interface{}
	json.Unmarshal(b, &v)
	return "ok:" + rig.Canon(v)
}

// ---------------------------------------------------------------------------------------------------------

// KnownClasses reads the failure classes registered as `finding:` lines for a property in known_findings.txt: a harness
// records such a failure once and goes on exploring instead of stopping at it.
func KnownClasses(property string) map[string]bool {
	res := map[string]bool{}
	b, err := os.ReadFile(filepath.Join(os.Getenv("VERIF_DIR"), "known_findings.txt"))
	if err != nil {
		return res
	}
	for _, line := range strings.Split(string(b), "\n") {
		line = strings.TrimSpace(line)
		if !strings.HasPrefix(line, "finding:") || !strings.Contains(line, "property="+property+" ") {
			continue
		}
		for _, f := range strings.Fields(line) {
			if strings.HasPrefix(f, "matcher=") {
				res[strings.TrimPrefix(f, "matcher=")] = true
			}
		}
	}
	return res
}

func SilenceKlog() {
	fs := flag.NewFlagSet("klog", flag.ContinueOnError)
	klog.InitFlags(fs)
	fs.Set("logtostderr", "false")
	fs.Set("alsologtostderr", "false")
	fs.Set("stderrthreshold", "FATAL")
	klog.SetOutput(io.Discard)
}

// HealthGoroutines counts the live goroutines started by clusters.startGatewayHealthCheck in this process:
// tickers (its first closure) and workers (its second closure).
func HealthGoroutines() (tickers, workers int) {
	buf := make([]runtime.StackRecord, 512)
	n, ok := runtime.GoroutineProfile(buf)
	for !ok {
		buf = make([]runtime.StackRecord, 2*len(buf))
		n, ok = runtime.GoroutineProfile(buf)
	}
	for _, r := range buf[:n] {
		frames := runtime.CallersFrames(r.Stack())
		for {
			f, more := frames.Next()
			if strings.HasSuffix(f.Function, "clusters.startGatewayHealthCheck.func1") {
				tickers++
				break
			}
			if strings.HasSuffix(f.Function, "clusters.startGatewayHealthCheck.func2") {
				workers++
				break
			}
			if !more {
				break
			}
		}
	}
	return
}

type epRec struct {
	name   string // endpoint URL
	gen    int
	ptr    *clusters.EndpointInfo
	probes int
}

// World is one real ClusterInfo plus what the harness knows about it.
type World struct {
	CI      *clusters.ClusterInfo
	mu      sync.Mutex
	byPtr   map[*clusters.EndpointInfo]*epRec
	byAddr  map[string]*epRec // "%p" of the pointer
	up      map[string]bool
	answer  map[string]UpEnt // the scripted answer behind `up`, when there is one
	// DecisionViol: a real probe marked an endpoint healthy although the answer it got is not the healthy answer
	DecisionViol []string
	noCursors    bool
	// BlockNext: when set to 1 the next scripted probe announces itself on Entered and waits for Release before it reports
	blockNext int32
	Entered   chan struct{}
	Release   chan struct{}
	specDis map[string]bool // spec of the last Sync: endpoint -> marked disabled by some entry
	specIn  map[string]bool
	fired   []Fired
	Viol    []string // violations seen inside the probe callback (probe of a disabled / removed endpoint)
	syncNo  int      // number of Syncs issued so far (the one in progress has number syncNo-1)
	Pickers []clusters.EndpointPicker
	Timeout time.Duration
	// HealthFn, when set, is the real probe (controllers.GatewayHealthCheck) run instead of reporting the scripted health directly
	HealthFn clusters.EndpointHealthCheck
	// Inconclusive is set when a real probe did not report what the stub was scripted to answer (a timeout under load):
	// the history then proves nothing either way and is dropped.
	Inconclusive bool
}

func NewWorld() *World {
	return &World{byPtr: map[*clusters.EndpointInfo]*epRec{}, byAddr: map[string]*epRec{}, up: map[string]bool{}, answer: map[string]UpEnt{},
		specDis: map[string]bool{}, specIn: map[string]bool{}, Timeout: 20 * time.Second,
		Entered: make(chan struct{}, 8), Release: make(chan struct{}, 8)}
}

func (w *World) recLocked(e *clusters.EndpointInfo) *epRec {
	r := w.byPtr[e]
	if r == nil {
		r = &epRec{name: e.Endpoint, gen: w.syncNo - 1, ptr: e}
		w.byPtr[e] = r
		w.byAddr[fmt.Sprintf("%p", e)] = r
	}
	return r
}

// healthCheck is the injected EndpointHealthCheck: it reports the scripted health of the endpoint exactly as
// controllers.GatewayHealthCheck reports the outcome of GET /healthz, and logs the probe.
func (w *World) healthCheck(e *clusters.EndpointInfo) bool {
	w.mu.Lock()
	r := w.recLocked(e)
	nth := r.probes + 1
	h := w.up[e.Endpoint]
	if !w.specIn[e.Endpoint] {
		w.Viol = append(w.Viol, fmt.Sprintf("health probe sent to %s which is not in the current server list", e.Endpoint))
	} else if w.specDis[e.Endpoint] {
		w.Viol = append(w.Viol, fmt.Sprintf("health probe sent to %s while it is marked disabled", e.Endpoint))
	}
	w.mu.Unlock()
	if atomic.CompareAndSwapInt32(&w.blockNext, 1, 0) {
		w.Entered <- struct{}{}
		<-w.Release
	}
	w.mu.Lock()
	ans, hasAns := w.answer[e.Endpoint]
	w.mu.Unlock()
	if w.HealthFn != nil {
		w.HealthFn(e)
		if actual := clusters.VerifEndpointStatus(e).Healthy; actual != h {
			w.mu.Lock()
			if actual {
				// load can make a probe fail, never succeed: the real health check accepted an answer the model rejects
				what := "an unhealthy answer"
				if hasAns && ans.Code != nil {
					what = DescribeAnswer(ans)
				}
				w.DecisionViol = append(w.DecisionViol, fmt.Sprintf("the probe of %s was answered %s and the endpoint was marked healthy", e.Endpoint, what))
			} else {
				w.Inconclusive = true
			}
			w.mu.Unlock()
		}
	} else if h {
		// reason and message of a status are free text (the injected function may report anything, e.g. a latency): they
		// differ from probe to probe here, and nothing but logs and the unready reason of a 503 may depend on them
		e.UpdateStatus(true, "", fmt.Sprintf("scripted ok, probe %d of this endpoint", nth))
	} else {
		e.UpdateStatus(false, "NotReady", fmt.Sprintf("scripted failure, probe %d of this endpoint", nth))
	}
	w.mu.Lock()
	r.probes++
	f := Fired{N: rig.Hex(r.name), Gen: r.gen, H: h}
	if hasAns {
		f.Code, f.BodyOK = ans.Code, ans.BodyOK
	}
	w.fired = append(w.fired, f)
	w.mu.Unlock()
	return false
}

func (w *World) SetUp(up []UpEnt) {
	w.mu.Lock()
	for _, u := range up {
		w.up[rig.UnHex(u.N)] = u.H
		if u.Code != nil {
			w.answer[rig.UnHex(u.N)] = u
		} else {
			delete(w.answer, rig.UnHex(u.N))
		}
	}
	w.mu.Unlock()
}

// ClusterOf builds the UpstreamCluster object of a sync op: policy i matches exactly the requests for resource "r<i>".
func ClusterOf(servers []Server, policies [][]string) *proxyv1alpha1.UpstreamCluster {
	return ClusterOfX(servers, policies, 0)
}

// ClusterOfX is ClusterOf with something unrelated to servers and subsets changed: 1/2 cluster logging mode on/off,
// 3 every policy's logMode, 4 a flow-control schema nobody references, 5 an annotation, 6 client QPS/burst; 0 nothing.
func ClusterOfX(servers []Server, policies [][]string, extra int) *proxyv1alpha1.UpstreamCluster {
	uc := &proxyv1alpha1.UpstreamCluster{ObjectMeta: metav1.ObjectMeta{Name: "c"}}
	switch extra {
	case 1:
		uc.Spec.Logging.Mode = proxyv1alpha1.LogOn
	case 2:
		uc.Spec.Logging.Mode = proxyv1alpha1.LogOff
	case 4:
		uc.Spec.FlowControl.Schemas = []proxyv1alpha1.FlowControlSchema{{Name: "verif-unused",
			FlowControlSchemaConfiguration: proxyv1alpha1.FlowControlSchemaConfiguration{MaxRequestsInflight: &proxyv1alpha1.MaxRequestsInflightFlowControlSchema{Max: 1000}}}}
	case 5:
		uc.Annotations = map[string]string{"verif.example/unrelated": "x"}
	case 6:
		uc.Spec.ClientConfig.QPS, uc.Spec.ClientConfig.Burst = 50, 100
	case ExtraLimitOne: // not among the "unrelated" variants: every policy is limited to ONE request in flight
		uc.Spec.FlowControl.Schemas = []proxyv1alpha1.FlowControlSchema{{Name: "verif-limit-one",
			FlowControlSchemaConfiguration: proxyv1alpha1.FlowControlSchemaConfiguration{MaxRequestsInflight: &proxyv1alpha1.MaxRequestsInflightFlowControlSchema{Max: 1}}}}
	}
	for _, s := range servers {
		srv := proxyv1alpha1.UpstreamClusterServer{Endpoint: rig.UnHex(s.Ep)}
		if s.Dis {
			t := true
			srv.Disabled = &t
		}
		uc.Spec.Servers = append(uc.Spec.Servers, srv)
	}
	for i, p := range policies {
		dp := proxyv1alpha1.DispatchPolicy{Strategy: proxyv1alpha1.RoundRobin,
			Rules: []proxyv1alpha1.DispatchPolicyRule{{Verbs: []string{"get"}, APIGroups: []string{"*"}, Resources: []string{fmt.Sprintf("r%d", i)}}}}
		for _, u := range p {
			dp.UpstreamSubset = append(dp.UpstreamSubset, rig.UnHex(u))
		}
		if extra == 3 {
			dp.LogMode = proxyv1alpha1.LogOn
		}
		if extra == ExtraLimitOne {
			dp.FlowControlSchemaName = "verif-limit-one"
		}
		uc.Spec.DispatchPolicies = append(uc.Spec.DispatchPolicies, dp)
	}
	return uc
}

// AttrsFor is a request that only policy number i matches.
func AttrsFor(i int) authorizer.Attributes {
	return authorizer.AttributesRecord{User: &user.DefaultInfo{Name: "u"}, Verb: "get", Resource: fmt.Sprintf("r%d", i), ResourceRequest: true}
}

// Sync applies a spec through the real code (the first one creates the ClusterInfo).
func (w *World) Sync(servers []Server, policies [][]string) error { return w.SyncX(servers, policies, 0) }

// SyncX is Sync with an unrelated part of the object changed (ClusterOfX).
func (w *World) SyncX(servers []Server, policies [][]string, extra int) error {
	uc := ClusterOfX(servers, policies, extra)
	w.mu.Lock()
	w.specDis, w.specIn = map[string]bool{}, map[string]bool{}
	for _, s := range uc.Spec.Servers {
		w.specIn[s.Endpoint] = true
		if s.Disabled != nil && *s.Disabled {
			w.specDis[s.Endpoint] = true
		}
	}
	w.syncNo++
	w.mu.Unlock()
	var err error
	if w.CI == nil {
		w.CI, err = clusters.VerifCreateClusterInfo(uc, w.healthCheck, time.Hour)
	} else {
		err = w.CI.Sync(uc)
	}
	if err != nil {
		return err
	}
	w.mu.Lock()
	w.CI.Endpoints.Range(func(name string, e *clusters.EndpointInfo) bool {
		w.recLocked(e)
		return true
	})
	w.mu.Unlock()
	return nil
}

func (w *World) Stop() {
	if w.CI != nil {
		w.CI.Stop()
	}
}

// EnabledInSpec is the number of distinct servers of the last spec not marked disabled.
func (w *World) EnabledInSpec() int {
	w.mu.Lock()
	defer w.mu.Unlock()
	n := 0
	for ep := range w.specIn {
		if !w.specDis[ep] {
			n++
		}
	}
	return n
}

// Ident is the (name, generation) identity of an endpoint object.
func (w *World) Ident(e *clusters.EndpointInfo) Ident { return w.ident(e) }

func (w *World) ident(e *clusters.EndpointInfo) Ident {
	w.mu.Lock()
	defer w.mu.Unlock()
	if r := w.byPtr[e]; r != nil {
		return Ident{N: rig.Hex(r.name), Gen: r.gen}
	}
	return Ident{N: rig.Hex(e.Endpoint), Gen: -1}
}

// Snapshot reads the observable state of the real cluster.
func (w *World) Snapshot() ([]EPState, []LbEnt, error) {
	eps := []EPState{}
	lb := []LbEnt{}
	if w.CI == nil {
		return eps, lb, nil
	}
	var err error
	w.CI.Endpoints.Range(func(name string, e *clusters.EndpointInfo) bool {
		st := clusters.VerifEndpointStatus(e)
		w.mu.Lock()
		r := w.recLocked(e)
		probes := r.probes
		gen := r.gen
		w.mu.Unlock()
		if name != e.Endpoint {
			err = fmt.Errorf("Endpoints[%q] holds the object of %q", name, e.Endpoint)
		}
		eps = append(eps, EPState{N: rig.Hex(name), Gen: gen, Dis: st.Disabled, Healthy: st.Healthy, UC: st.UnhealthyCount,
			Probing: st.Probing, Chan: st.ChanLen, Probes: probes})
		return true
	})
	sort.Slice(eps, func(i, j int) bool { return eps[i].N < eps[j].N })
	raw, visible := clusters.VerifLoadbalancer(w.CI)
	if !visible {
		w.mu.Lock()
		w.noCursors = true
		w.mu.Unlock()
	}
	for k, v := range raw {
		ent := LbEnt{C: v, Key: []Ident{}}
		list := k
		if i := strings.Index(k, "["); i > 0 {
			ent.Scope, list = k[:i], k[i:]
		}
		for _, addr := range strings.Fields(strings.Trim(list, "[]")) {
			w.mu.Lock()
			r := w.byAddr[addr]
			w.mu.Unlock()
			if r == nil {
				err = fmt.Errorf("load-balancer key %q names an unknown endpoint object", k)
				ent.Key = append(ent.Key, Ident{N: rig.Hex(addr), Gen: -1})
			} else {
				ent.Key = append(ent.Key, Ident{N: rig.Hex(r.name), Gen: r.gen})
			}
		}
		lb = append(lb, ent)
	}
	return eps, lb, err
}

// KeyString renders the object list of a snapshot entry the way the real code prints it ("[0x… 0x…]").
func (w *World) KeyString(ent LbEnt) string {
	w.mu.Lock()
	defer w.mu.Unlock()
	parts := make([]string, len(ent.Key))
	for i, id := range ent.Key {
		for addr, r := range w.byAddr {
			if rig.Hex(r.name) == id.N && r.gen == id.Gen {
				parts[i] = addr
			}
		}
	}
	return "[" + strings.Join(parts, " ") + "]"
}

// PopError maps a Pop / PickOne error to the wire vocabulary.
func (w *World) PopError(err error) *OutJ {
	if errors.Is(err, clusters.ErrNoReadyEndpoints) {
		return &OutJ{Err: "noready"}
	}
	return &OutJ{Err: "other:" + err.Error()}
}

// RawCursors is the load-balancer map as it is (key strings of the real code -> cursor), for "nothing moved" comparisons.
func (w *World) RawCursors() map[string]uint64 {
	if w.CI == nil {
		return map[string]uint64{}
	}
	raw, visible := clusters.VerifLoadbalancer(w.CI)
	if !visible {
		w.mu.Lock()
		w.noCursors = true
		w.mu.Unlock()
		return map[string]uint64{}
	}
	return raw
}

// CursorsVisible says whether the shim recognises the representation of the round-robin cursors (one shared table
// string -> counter in ClusterInfo.loadbalancer). When it does not, cursor comparisons, cursor presets and everything that is
// read off a cursor are skipped; the streams that observe picks and forwarded traffic go on.
func (w *World) CursorsVisible() bool {
	if w.CI != nil {
		if _, visible := clusters.VerifLoadbalancer(w.CI); !visible {
			return false
		}
	}
	w.mu.Lock()
	defer w.mu.Unlock()
	return !w.noCursors
}

// ProbesOf is the number of probes an endpoint object has received so far.
func (w *World) ProbesOf(e *clusters.EndpointInfo) int {
	w.mu.Lock()
	defer w.mu.Unlock()
	if r := w.byPtr[e]; r != nil {
		return r.probes
	}
	return 0
}

// KeyOf renders the load-balancer key the real code uses for an ordered list of endpoint objects.
func KeyOf(l []*clusters.EndpointInfo) string { return fmt.Sprintf("%v", l) }

func (w *World) probesOf() map[Ident]int {
	res := map[Ident]int{}
	w.mu.Lock()
	for _, r := range w.byPtr {
		res[Ident{N: rig.Hex(r.name), Gen: r.gen}] = r.probes
	}
	w.mu.Unlock()
	return res
}

// workerCountUsable says whether HealthGoroutines recognises the health-check goroutines of this build (CalibrateWorkers).
var workerCountUsable = true

// CalibrateWorkers starts one real health-checked endpoint and verifies that HealthGoroutines sees exactly its ticker and
// worker goroutines, and none after Stop. If the runtime names the closures differently the worker-count observation is
// switched off (and reported) instead of producing verdicts.
func CalibrateWorkers() bool {
	if !WaitNoHealthGoroutines(5 * time.Second) {
		workerCountUsable = false
		return false
	}
	w := NewWorld()
	ep := rig.Hex("http://127.0.0.1:19999")
	w.SetUp([]UpEnt{{N: ep, H: true}})
	if err := w.Sync([]Server{{Ep: ep}}, [][]string{{}}); err != nil {
		workerCountUsable = false
		return false
	}
	deadline := time.Now().Add(5 * time.Second)
	ok := false
	for time.Now().Before(deadline) {
		if t, wk := HealthGoroutines(); t == 1 && wk == 1 {
			ok = true
			break
		}
		time.Sleep(100 * time.Microsecond)
	}
	w.Stop()
	if ok {
		ok = WaitNoHealthGoroutines(5 * time.Second)
	}
	workerCountUsable = ok
	return ok
}

var (
	policyScopesOnce sync.Once
	policyScopes     bool
)

// PolicyScopes says whether the real MatchAttributes gives every dispatch policy a cursor scope of its own: observed once,
// on the key of the cursor a policy's first pick creates ("policy/<i>:[…]" instead of "[…]"). The model is told
// (`policy_scopes`), so that it keys its cursors the same way; false when the cursors are not visible.
func PolicyScopes() bool {
	policyScopesOnce.Do(func() {
		w := NewWorld()
		defer func() {
			w.Stop()
			WaitNoHealthGoroutines(5 * time.Second)
		}()
		a, b := rig.Hex("http://127.0.0.1:19991"), rig.Hex("http://127.0.0.1:19992")
		w.SetUp([]UpEnt{{N: a, H: true}, {N: b, H: true}})
		if err := w.Sync([]Server{{Ep: a}, {Ep: b}}, [][]string{{a, b}}); err != nil {
			return
		}
		deadline := time.Now().Add(5 * time.Second)
		for time.Now().Before(deadline) {
			ea, ok1 := w.Load(a)
			eb, ok2 := w.Load(b)
			if ok1 && ok2 && ea.IsReady() && eb.IsReady() {
				break
			}
			time.Sleep(100 * time.Microsecond)
		}
		p, err := w.CI.MatchAttributes(AttrsFor(0))
		if err != nil {
			return
		}
		p.Pop() //nolint
		for k := range w.RawCursors() {
			if strings.HasPrefix(k, "policy/") {
				policyScopes = true
			}
		}
	})
	return policyScopes
}

// PolicyScopePrefix is the prefix of the real cursor keys of policy i ("" when policies have no scopes of their own).
func PolicyScopePrefix(i int) string {
	if PolicyScopes() {
		return fmt.Sprintf("policy/%d:", i)
	}
	return ""
}

// CheckRealConstructor runs the exported clusters.CreateClusterInfo (production interval) on a spec and compares the
// endpoint set and disabled flags it produces with the spec; the histories themselves use the shim constructor, which is
// the same code with a one-hour ticker.
func CheckRealConstructor(servers []Server, policies [][]string) error {
	uc := ClusterOf(servers, policies)
	ci, err := clusters.CreateClusterInfo(uc, func(*clusters.EndpointInfo) bool { return false }, "", nil)
	if err != nil {
		return fmt.Errorf("CreateClusterInfo: %v", err)
	}
	defer ci.Stop()
	want := map[string]bool{}
	for _, s := range uc.Spec.Servers {
		want[s.Endpoint] = want[s.Endpoint] || (s.Disabled != nil && *s.Disabled)
	}
	got := ci.AllEndpoints()
	if len(got) != len(want) {
		return fmt.Errorf("CreateClusterInfo: endpoints %v for servers %v", got, want)
	}
	for _, n := range got {
		dis, ok := want[n]
		e, _ := ci.Endpoints.Load(n)
		if !ok || e == nil || e.IstDisabled() != dis {
			return fmt.Errorf("CreateClusterInfo: endpoint %s present=%v disabled differs from the spec (%v)", n, ok, dis)
		}
	}
	return nil
}

func (w *World) IsInconclusive() bool {
	w.mu.Lock()
	defer w.mu.Unlock()
	return w.Inconclusive
}

// Quiesce waits until every endpoint object has been probed exactly as often as `want` says (objects not named must
// stay at their count) and, if workers >= 0, until exactly that many health-check worker goroutines are alive.
// It returns "" or what did not settle within the timeout.
func (w *World) Quiesce(want map[Ident]int, workers int) string {
	deadline := time.Now().Add(w.Timeout)
	spins := 0
	for {
		bad := ""
		got := w.probesOf()
		for id, n := range want {
			if got[id] != n {
				bad = fmt.Sprintf("endpoint %s/%d probed %d times, expected %d", rig.UnHex(id.N), id.Gen, got[id], n)
				if got[id] > n {
					return bad
				}
			}
		}
		if bad == "" && workers >= 0 && workerCountUsable {
			_, live := HealthGoroutines()
			if live != workers {
				bad = fmt.Sprintf("workers: %d health-check worker goroutines alive, expected %d", live, workers)
			}
		}
		if bad == "" {
			return ""
		}
		if time.Now().After(deadline) {
			return bad
		}
		spins++
		if spins < 50 {
			runtime.Gosched()
		} else {
			time.Sleep(50 * time.Microsecond)
		}
	}
}

func (w *World) DrainFired() []Fired {
	w.mu.Lock()
	f := w.fired
	w.fired = nil
	w.mu.Unlock()
	if f == nil {
		f = []Fired{}
	}
	return f
}

// EndpointPending says whether a tick waits in the channel of an endpoint whose health check is running.
func EndpointPending(e *clusters.EndpointInfo) bool {
	st := clusters.VerifEndpointStatus(e)
	return st.Probing && st.ChanLen > 0
}

// BlockNextProbe makes the next scripted probe stop at its start (after the "may this endpoint be probed" check) until Release.
func (w *World) BlockNextProbe() { atomic.StoreInt32(&w.blockNext, 1) }

// DescribeAnswer renders a scripted /healthz answer.
func DescribeAnswer(u UpEnt) string {
	if u.Code == nil {
		return fmt.Sprintf("healthy=%v", u.H)
	}
	switch c := *u.Code; {
	case c == -1:
		return "no answer (hang until the client's timeout)"
	case c == -2:
		return "connection closed without answer"
	case c == -4:
		return "HTTP 200 headers, then the body never arrives (client timeout while reading the body)"
	case c == -3:
		return "connection refused"
	case u.BodyOK != nil && !*u.BodyOK:
		return fmt.Sprintf("HTTP %d with body \"not ok\"", c)
	default:
		return fmt.Sprintf("HTTP %d", c)
	}
}

func (w *World) DrainDecisionViol() []string {
	w.mu.Lock()
	v := w.DecisionViol
	w.DecisionViol = nil
	w.mu.Unlock()
	return v
}

func (w *World) DrainViol() []string {
	w.mu.Lock()
	v := w.Viol
	w.Viol = nil
	w.mu.Unlock()
	return v
}

// Match runs MatchAttributes for a request of policy i; the picker is remembered (nil when no policy matches).
func (w *World) Match(i int) (*OutJ, []string) {
	p, err := w.CI.MatchAttributes(AttrsFor(i))
	if err != nil {
		w.Pickers = append(w.Pickers, nil)
		if errors.Is(err, clusters.ErrNoRouterRuleMatches) {
			return &OutJ{Err: "norule"}, nil
		}
		return &OutJ{Err: "other:" + err.Error()}, nil
	}
	w.Pickers = append(w.Pickers, p)
	us := rig.HexList(clusters.VerifPickerUpstreams(p))
	return &OutJ{Ok: us}, us
}

// PopErrorStatus is the HTTP status the dispatcher's error helper gives a Pop error (dispatcher.go: errors.NewServiceUnavailable(err.Error())).
func PopErrorStatus(err error) int32 { return apierrors.NewServiceUnavailable(err.Error()).Status().Code }

func (w *World) PopPicker(p clusters.EndpointPicker) *OutJ {
	e, err := p.Pop()
	if err != nil {
		if errors.Is(err, clusters.ErrNoReadyEndpoints) {
			if code := PopErrorStatus(err); code != 503 {
				return &OutJ{Err: fmt.Sprintf("status:%d", code)}
			}
			return &OutJ{Err: "noready"}
		}
		return &OutJ{Err: "other:" + err.Error()}
	}
	if e == nil {
		return &OutJ{Err: "other:nil endpoint without error"}
	}
	id := w.ident(e)
	return &OutJ{Ok: id}
}

func (w *World) Pop(j int) *OutJ {
	if j < 0 || j >= len(w.Pickers) || w.Pickers[j] == nil {
		return &OutJ{Err: "nopicker"}
	}
	return w.PopPicker(w.Pickers[j])
}

func (w *World) Load(hexName string) (*clusters.EndpointInfo, bool) {
	if w.CI == nil {
		return nil, false
	}
	return w.CI.Endpoints.Load(rig.UnHex(hexName))
}

// WaitNoHealthGoroutines waits for the goroutines of stopped clusters to exit.
func WaitNoHealthGoroutines(timeout time.Duration) bool {
	deadline := time.Now().Add(timeout)
	for {
		t, wk := HealthGoroutines()
		if t == 0 && wk == 0 {
			return true
		}
		if time.Now().After(deadline) {
			return false
		}
		time.Sleep(100 * time.Microsecond)
	}
}
