package main

import (
	"math/rand"

	"verifharness/rig"
)

func renumber(l []COp) []COp { return l }

func runCtl(c *rig.Ctx, cs Case) verdict { return pass }

func genCtl(r *rand.Rand, raw bool) (Case, []string) { return Case{Mode: "ctl"}, nil }
