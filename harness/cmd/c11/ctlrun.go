package main

// Controller level: a script of API writes / deletes and queue deliveries (in any order, failed deliveries stay
// pending and are delivered again later) for up to three clusters with overlapping server names, run through the
// REAL UpstreamClusterController.syncUpstreamCluster (overlay shim) around a real cache.Indexer/lister and a real
// clusters.Manager. After every op
//   - diff:    handler result, pending items, host resolution and every served cluster's observation vs the Lean model
//              (KG.Model.ClusterSync.Ctl.step),
//   - judge 1: every cluster with nothing pending is exactly what the lister's current object prescribes
//              (KG.Spec.ClusterSync.expected), or is not served when the object is gone,
//   - judge 2: (direct) a freshly started controller given only the latest objects serves that cluster identically,
//   - judge 3: the hosts resolving to a settled cluster are exactly its latest object's server names.

import (
	"fmt"
	"math/rand"
	"sort"
	"strings"

	"k8s.io/client-go/tools/cache"

	proxyv1alpha1 "github.com/kubewharf/kubegateway/pkg/apis/proxy/v1alpha1"
	"github.com/kubewharf/kubegateway/pkg/clusters"
	"github.com/kubewharf/kubegateway/pkg/gateway/controllers"

	"verifharness/rig"
)

var (
	ctlClusters = []string{"c.example", "b.example", "other"}
	ctlHosts    = []string{"c.example", "b.example", "other", "alias.example", "x.y", "C.Example", "unknown.example"}
)

func renumber(l []COp) []COp { return l }

type ctlObs struct {
	Result  string
	Pending []string
	Resolve []string          // "host -> cluster"
	Served  map[string]*Obs   // cluster name -> observation (nil = not served under its own name)
	Ord     []string          // oracle for the model (deliver ops)
}

type realCtl struct {
	ctl     *controllers.UpstreamClusterController
	indexer cache.Indexer
	pending []*proxyv1alpha1.UpstreamCluster
	seen    map[*clusters.ClusterInfo]bool
	st      *stamper
}

func newRealCtl(global string) *realCtl { return newRealCtlStamped(global, false) }

func newRealCtlStamped(global string, stamp bool) *realCtl {
	indexer := cache.NewIndexer(cache.MetaNamespaceKeyFunc, cache.Indexers{})
	return &realCtl{ctl: controllers.VerifC11NewController(indexer, global), indexer: indexer, seen: map[*clusters.ClusterInfo]bool{}, st: newStamper(stamp)}
}

func (r *realCtl) track() {
	for _, h := range ctlHosts {
		if ci, ok := r.ctl.Get(h); ok {
			r.seen[ci] = true
		}
	}
}

func (r *realCtl) stop() {
	r.track()
	for ci := range r.seen {
		stopCluster(ci)
	}
}

func (r *realCtl) write(o WObj) (WObj, *proxyv1alpha1.UpstreamCluster) {
	e, obj := r.st.write(o)
	defer func() { r.pending = append(r.pending, obj) }()
	if _, exists, _ := r.indexer.GetByKey(o.Name); exists {
		r.indexer.Update(obj) //nolint
	} else {
		r.indexer.Add(obj) //nolint
	}
	return e, obj
}

func (r *realCtl) delete(name string) {
	r.st.forget(name)
	if old, exists, _ := r.indexer.GetByKey(name); exists {
		r.indexer.Delete(old) //nolint
		r.pending = append(r.pending, old.(*proxyv1alpha1.UpstreamCluster))
		return
	}
	r.pending = append(r.pending, (&WObj{Name: name}).Real("0"))
}

// deliver hands pending item i to the real sync handler.
func (r *realCtl) deliver(i int) string {
	if i < 0 || i >= len(r.pending) {
		return "skip"
	}
	r.track()
	var requeue bool
	var err error
	_, panicked := rig.Recover(func() { requeue, err = r.ctl.VerifC11Sync(r.pending[i]) })
	switch {
	case panicked:
		return "crash"
	case err != nil:
		return "error:" + err.Error()
	case requeue:
		return "requeue"
	}
	r.pending = append(append([]*proxyv1alpha1.UpstreamCluster{}, r.pending[:i]...), r.pending[i+1:]...)
	return "done"
}

func (r *realCtl) observe(u Universe) ctlObs {
	o := ctlObs{Pending: []string{}, Resolve: []string{}, Served: map[string]*Obs{}}
	for _, p := range r.pending {
		o.Pending = append(o.Pending, p.Name)
	}
	for _, h := range ctlHosts {
		if ci, ok := r.ctl.Get(h); ok {
			o.Resolve = append(o.Resolve, h+" -> "+ci.Cluster)
		} else {
			o.Resolve = append(o.Resolve, h+" -> -")
		}
	}
	for _, n := range ctlClusters {
		if ci, ok := r.ctl.Get(n); ok && ci.Cluster == strings.ToLower(n) {
			ob := observeReal(ci, u)
			o.Served[n] = &ob
		}
	}
	r.track()
	return o
}

type mCtlStep struct {
	Result string `json:"result"`
	State  *struct {
		Pending  []string    `json:"pending"`
		Resolve  [][]*string `json:"resolve"`
		Clusters []struct {
			Name     string `json:"name"`
			Pending  bool   `json:"pending"`
			Served   *mObs  `json:"served"`
			Expected *mObs  `json:"expected"`
		} `json:"clusters"`
	} `json:"state"`
}

func contains(l []string, s string) bool {
	for _, x := range l {
		if x == s {
			return true
		}
	}
	return false
}

func runCtl(c *rig.Ctx, cs Case) verdict {
	var objs []WObj
	for _, op := range cs.Ops {
		if op.Op == "write" && op.Obj != nil {
			objs = append(objs, *op.Obj)
		}
	}
	u := universeOf(objs, cs.Probes)
	real := newRealCtlStamped(cs.Global, cs.Stamp)
	defer real.stop()
	latest := map[string]WObj{}
	latestObj := map[string]*proxyv1alpha1.UpstreamCluster{}
	effOps := map[int]WObj{}
	var steps []ctlObs
	var lateJudge *verdict
	for k, op := range cs.Ops {
		res := "ok"
		var ord []string
		switch op.Op {
		case "write":
			e, obj := real.write(*op.Obj)
			latest[op.Obj.Name], latestObj[op.Obj.Name], effOps[k] = e, obj, e
		case "delete":
			real.delete(op.Name)
			delete(latest, op.Name)
			delete(latestObj, op.Name)
		case "deliver":
			name := ""
			if op.Item >= 0 && op.Item < len(real.pending) {
				name = real.pending[op.Item].Name
			}
			res = real.deliver(op.Item)
			if strings.HasPrefix(res, "error:") {
				return verdict{kind: "diff", class: "c11.ctl.handler-error", what: fmt.Sprintf("op %d: the sync handler returned an error: %s", k+1, res)}
			}
			if lo, ok := latest[name]; ok && res == "requeue" {
				// iteration-order oracle for a Sync that failed while adding endpoints
				tmp := real.observe(u)
				if s := tmp.Served[name]; s != nil {
					ord = rangeOracle(lo, *s)
				}
			}
		}
		if countOutcomes && op.Op == "deliver" {
			c.Count("ctl-deliver:" + res)
		}
		if res == "crash" {
			steps = append(steps, ctlObs{Result: res})
			break
		}
		st := real.observe(u)
		st.Result, st.Ord = res, ord
		steps = append(steps, st)

		// judges 2 and 3 on the real controller alone, for every settled cluster
		if lateJudge == nil {
			for _, n := range ctlClusters {
				if contains(st.Pending, n) {
					continue
				}
				lo, exists := latest[n]
				served := st.Served[n]
				if !exists {
					continue // judge 1 covers "deleted => not served"
				}
				if served == nil {
					continue // judge 1 reports it
				}
				// judge 3: names
				want := map[string]bool{strings.ToLower(n): true}
				for _, s := range lo.SS.Names {
					want[strings.ToLower(s)] = true
				}
				var got, exp []string
				for _, h := range ctlHosts {
					lh := strings.ToLower(h)
					if ci, ok := real.ctl.Get(h); ok && ci.Cluster == strings.ToLower(n) {
						got = append(got, lh)
					}
					if want[lh] {
						exp = append(exp, lh)
					}
				}
				if strings.Join(got, ",") != strings.Join(exp, ",") {
					v := verdict{kind: "judge", class: "c11.ctl.names", impl: map[string]interface{}{"resolving": got, "latest-object-names": exp},
						what: fmt.Sprintf("after op %d nothing is pending for cluster %s, but the hosts resolving to it are %v while its latest object names %v", k+1, n, got, exp)}
					lateJudge = &v
					break
				}
				// judge 2: fresh controller given only the latest objects, this cluster delivered first
				if op.Op == "deliver" {
					fresh := newRealCtl(cs.Global)
					var item *proxyv1alpha1.UpstreamCluster
					for _, m := range ctlClusters {
						if o, ok := latestObj[m]; ok {
							obj := o.DeepCopy()
							fresh.indexer.Add(obj) //nolint
							if m == n {
								item = obj
							}
						}
					}
					fresh.pending = []*proxyv1alpha1.UpstreamCluster{item}
					fres := fresh.deliver(0)
					fo := fresh.observe(u)
					fresh.stop()
					if fres != "done" || fo.Served[n] == nil {
						v := verdict{kind: "judge", class: "c11.ctl.fresh-fails", impl: fres,
							what: fmt.Sprintf("after op %d cluster %s is settled and served, but a fresh controller given the latest objects answers %s for it", k+1, n, fres)}
						lateJudge = &v
						break
					}
					if d := obsDiff(*served, *fo.Served[n], true); len(d) > 0 {
						v := verdict{kind: "judge", class: "c11.ctl.fresh-differs." + d[0], impl: map[string]interface{}{"long-lived": served, "fresh": fo.Served[n]},
							what: fmt.Sprintf("after op %d cluster %s (nothing pending) differs from the same cluster in a fresh controller given only the latest objects in: %s", k+1, n, strings.Join(d, ", "))}
						lateJudge = &v
						break
					}
				}
			}
		}
	}

	// the model
	ops := []map[string]interface{}{}
	for k, op := range cs.Ops {
		switch op.Op {
		case "write":
			mo := *op.Obj
			if e, ok := effOps[k]; ok {
				mo = e
			}
			ops = append(ops, map[string]interface{}{"op": "write", "obj": mo.Model()})
		case "delete":
			ops = append(ops, map[string]interface{}{"op": "delete", "name": rig.Hex(op.Name)})
		default:
			d := map[string]interface{}{"op": "deliver", "item": op.Item}
			if k < len(steps) && steps[k].Ord != nil {
				d["ord"] = rig.HexList(steps[k].Ord)
			}
			if op.Item < 0 {
				d["item"] = 1 << 30
			}
			ops = append(ops, d)
		}
	}
	probes := []map[string]interface{}{}
	for _, a := range cs.Probes {
		probes = append(probes, a.JSON())
	}
	req := map[string]interface{}{"env": modelEnv(), "conn": map[string]interface{}{"global": rig.Hex(cs.Global), "skip": false},
		"ops": ops, "eps": rig.HexList(u.Eps), "names": rig.HexList(u.Names), "probes": probes,
		"hosts": rig.HexList(ctlHosts), "cnames": rig.HexList(ctlClusters)}
	var ms []mCtlStep
	if err := c.Model("C11.ctl", req, &ms); err != nil {
		return verdict{kind: "diff", class: "c11.model-error", what: "model error: " + err.Error()}
	}
	// judge 1 first (it only needs the lister's objects and the real state), so that a violation is reported as
	// such even when model and code disagree as well
	for k, st := range steps {
		m := ms[k]
		if st.Result == "crash" || m.State == nil {
			break
		}
		for _, mc := range m.State.Clusters {
			n := rig.UnHex(mc.Name)
			served := st.Served[n]
			if !contains(st.Pending, n) {
				switch {
				case mc.Expected == nil && served != nil:
					return verdict{kind: "judge", class: "c11.ctl.deleted-still-served", impl: served,
						what: fmt.Sprintf("after op %d nothing is pending for cluster %s and its object is gone, but it is still served", k+1, n)}
				case mc.Expected != nil && served == nil:
					return verdict{kind: "judge", class: "c11.ctl.settled-not-served",
						what: fmt.Sprintf("after op %d nothing is pending for cluster %s and its object exists, but it is not served", k+1, n)}
				case mc.Expected != nil:
					if d := obsDiff(*served, mc.Expected.Obs(), false); len(d) > 0 {
						return verdict{kind: "judge", class: "c11.ctl.settled-differs." + d[0], impl: served, model: mc.Expected.Obs(),
							what: fmt.Sprintf("after op %d nothing is pending for cluster %s, but its state is not what the lister's current object prescribes in: %s", k+1, n, strings.Join(d, ", "))}
					}
				}
			}
		}
	}
	if lateJudge != nil {
		return *lateJudge
	}
	for k, st := range steps {
		m := ms[k]
		if m.Result != st.Result {
			return verdict{kind: "diff", class: "c11.diff.ctl-result", impl: st.Result, model: m.Result,
				what: fmt.Sprintf("op %d (%s): the handler answers %s, the model %s", k+1, cs.Ops[k].Op, st.Result, m.Result)}
		}
		if st.Result == "crash" {
			break
		}
		var mp []string
		for _, p := range m.State.Pending {
			mp = append(mp, rig.UnHex(p))
		}
		if strings.Join(mp, ",") != strings.Join(st.Pending, ",") {
			return verdict{kind: "diff", class: "c11.diff.ctl-pending", impl: st.Pending, model: mp, what: fmt.Sprintf("op %d: pending items differ", k+1)}
		}
		var mr []string
		for _, r := range m.State.Resolve {
			t := "-"
			if r[1] != nil {
				t = rig.UnHex(*r[1])
			}
			mr = append(mr, rig.UnHex(*r[0])+" -> "+t)
		}
		if strings.Join(mr, ";") != strings.Join(st.Resolve, ";") {
			return verdict{kind: "diff", class: "c11.diff.ctl-resolve", impl: st.Resolve, model: mr, what: fmt.Sprintf("op %d: host resolution differs", k+1)}
		}
		for _, mc := range m.State.Clusters {
			n := rig.UnHex(mc.Name)
			served := st.Served[n]
			if (served == nil) != (mc.Served == nil) {
				return verdict{kind: "diff", class: "c11.diff.ctl-served", impl: served != nil, model: mc.Served != nil,
					what: fmt.Sprintf("op %d: cluster %s served: code %v, model %v", k+1, n, served != nil, mc.Served != nil)}
			}
			if served != nil {
				if d := obsDiff(*served, mc.Served.Obs(), true); len(d) > 0 {
					return verdict{kind: "diff", class: "c11.diff.ctl-obs." + d[0], impl: served, model: mc.Served.Obs(),
						what: fmt.Sprintf("op %d: cluster %s: real ClusterInfo and model differ in: %s", k+1, n, strings.Join(d, ", "))}
				}
			}
		}
	}
	if lateJudge != nil {
		return *lateJudge
	}
	return pass
}

// genCtl: a script for the controller.
func genCtl(r *rand.Rand, raw bool) (Case, []string) {
	cs := Case{Mode: "ctl", Global: rig.Pick(r, []string{"", "remote"}), Probes: genProbes(r)[:5], Stamp: r.Intn(4) != 0}
	labels := []string{}
	cur := map[string]*WObj{}
	var history []WObj
	nPending := 0
	n := 8 + r.Intn(24)
	small := func(o *WObj) {
		if len(o.Schemas) > 2 {
			o.Schemas = o.Schemas[:2]
		}
		if len(o.Policies) > 2 {
			o.Policies = o.Policies[:2]
		}
		// aliases from the host universe, so that clusters collide
		o.SS.Names = nil
		for _, h := range []string{"alias.example", "x.y", "b.example", "C.Example", "other"} {
			if r.Intn(6) == 0 && strings.ToLower(h) != o.Name {
				o.SS.Names = append(o.SS.Names, h)
			}
		}
	}
	for i := 0; i < n; i++ {
		x := r.Intn(100)
		switch {
		case x < 38 || nPending == 0 && x < 70:
			name := ctlClusters[r.Intn(2+r.Intn(2))]
			var o WObj
			if p := cur[name]; p != nil && r.Intn(4) != 0 {
				o = p.clone()
				for k, m := 0, 1+r.Intn(2); k < m; k++ {
					if r.Intn(3) == 0 {
						labels = append(labels, mutateFine(r, &o, raw))
					} else {
						labels = append(labels, mutate(r, &o, r.Intn(nFields), history, raw))
					}
				}
				o.Name = name
				o.Via = ""
				if r.Intn(3) == 0 {
					small(&o)
					labels = append(labels, "ctl-aliases-changed")
				}
				if r.Intn(7) == 0 {
					// status write: stored spec kept, annotations replaced, generation not bumped
					o = p.clone()
					o.Ann = genAnn(r)
					o.Via = "status"
					labels = append(labels, "ctl-status-write-changes-annotations")
				}
			} else {
				o = genObj(r, name, raw)
				small(&o)
				labels = append(labels, "ctl-created")
			}
			if len(o.Schemas) > 2 {
				o.Schemas = o.Schemas[:2]
			}
			v := o.clone()
			if r.Intn(9) == 0 {
				labels = append(labels, "ctl-"+spoil(r, &v))
			}
			cur[name] = &o
			history = append(history, v)
			cs.Ops = append(cs.Ops, COp{Op: "write", Obj: &v})
			nPending++
		case x < 46:
			name := ctlClusters[r.Intn(3)]
			delete(cur, name)
			cs.Ops = append(cs.Ops, COp{Op: "delete", Name: name})
			labels = append(labels, "ctl-deleted")
			nPending++
		default:
			item := 0
			if r.Intn(3) == 0 {
				item = r.Intn(4)
				labels = append(labels, "ctl-out-of-order-delivery")
			}
			cs.Ops = append(cs.Ops, COp{Op: "deliver", Item: item})
			if nPending > 0 {
				nPending--
			}
		}
	}
	// drain what is pending (permanently failing items stay where they are, so rotate over the first positions)
	for i := 0; i < 10; i++ {
		cs.Ops = append(cs.Ops, COp{Op: "deliver", Item: i % 4 / 2 * (i % 3)})
	}
	sort.Strings(labels)
	return cs, labels
}
