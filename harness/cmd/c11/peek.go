package main

// Read-only access to the few pieces of unexported state the observation needs (stored policy list, logging mode,
// the upstream limiter and its mode, a picker's upstream list) by ROLE — reflection over the real structs, looking for
// values of the right TYPE wherever they are stored — instead of export shims that name fields and helper methods.
// A harmless change of representation (two atomic.Values merged into one, a renamed field) then does not break the
// build of the harness. A start-up self-test on a known ClusterInfo decides what can be observed; what cannot is
// left out of every comparison (real, model, expected) — routing stays observed through the MatchAttributes probes.

import (
	"reflect"
	"sync/atomic"
	"unsafe"

	metav1 "k8s.io/apimachinery/pkg/apis/meta/v1"

	proxyv1alpha1 "github.com/kubewharf/kubegateway/pkg/apis/proxy/v1alpha1"
	"github.com/kubewharf/kubegateway/pkg/clusters"
	gatewayflowcontrol "github.com/kubewharf/kubegateway/pkg/flowcontrols"
)

var (
	havePolicies, haveLogging, haveLimiter, haveMode, haveUpstreams bool

	typPolicies = reflect.TypeOf([]proxyv1alpha1.DispatchPolicy(nil))
	typLogging  = reflect.TypeOf(proxyv1alpha1.LoggingConfig{})
	typAtomic   = reflect.TypeOf(atomic.Value{})
	typLimiter  = reflect.TypeOf((*gatewayflowcontrol.UpstreamLimiter)(nil)).Elem()
	typStrings  = reflect.TypeOf([]string(nil))
)

// open makes an unexported (but addressable) field readable.
func open(v reflect.Value) reflect.Value {
	if v.CanInterface() || !v.CanAddr() {
		return v
	}
	return reflect.NewAt(v.Type(), unsafe.Pointer(v.UnsafeAddr())).Elem()
}

// findTyped walks pointers, interfaces, structs and atomic.Values (at most `depth` levels) and returns the first value
// of type `want`.
func findTyped(v reflect.Value, want reflect.Type, depth int) (reflect.Value, bool) {
	if !v.IsValid() || depth < 0 {
		return reflect.Value{}, false
	}
	if v.Type() == want {
		return v, true
	}
	switch v.Kind() {
	case reflect.Ptr, reflect.Interface:
		if v.IsNil() {
			return reflect.Value{}, false
		}
		return findTyped(v.Elem(), want, depth-1)
	case reflect.Struct:
		if v.Type() == typAtomic {
			if !v.CanAddr() {
				return reflect.Value{}, false
			}
			av := (*atomic.Value)(unsafe.Pointer(v.UnsafeAddr()))
			x := av.Load()
			if x == nil {
				return reflect.Value{}, false
			}
			xv := reflect.ValueOf(x)
			if xv.Kind() != reflect.Ptr {
				// make the loaded value addressable so that unexported fields below it can be opened
				p := reflect.New(xv.Type())
				p.Elem().Set(xv)
				xv = p.Elem()
			}
			return findTyped(xv, want, depth-1)
		}
		for i := 0; i < v.NumField(); i++ {
			if r, ok := findTyped(open(v.Field(i)), want, depth-1); ok {
				return r, true
			}
		}
	}
	return reflect.Value{}, false
}

// clusterFields: the top-level fields of a ClusterInfo, opened.
func clusterFields(ci *clusters.ClusterInfo) []reflect.Value {
	v := reflect.ValueOf(ci).Elem()
	var l []reflect.Value
	for i := 0; i < v.NumField(); i++ {
		l = append(l, open(v.Field(i)))
	}
	return l
}

// peekPolicies: the dispatch policies currently stored (nil when none were stored yet).
func peekPolicies(ci *clusters.ClusterInfo) []proxyv1alpha1.DispatchPolicy {
	for _, f := range clusterFields(ci) {
		if f.Type() != typAtomic {
			continue
		}
		if r, ok := findTyped(f, typPolicies, 3); ok {
			return r.Interface().([]proxyv1alpha1.DispatchPolicy)
		}
	}
	return nil
}

// peekLogging: the logging configuration currently stored.
func peekLogging(ci *clusters.ClusterInfo) proxyv1alpha1.LoggingConfig {
	for _, f := range clusterFields(ci) {
		if f.Type() != typAtomic {
			continue
		}
		if r, ok := findTyped(f, typLogging, 3); ok {
			return r.Interface().(proxyv1alpha1.LoggingConfig)
		}
	}
	return proxyv1alpha1.LoggingConfig{}
}

// peekLimiter: the cluster's UpstreamLimiter (the field of that interface type).
func peekLimiter(ci *clusters.ClusterInfo) gatewayflowcontrol.UpstreamLimiter {
	for _, f := range clusterFields(ci) {
		if f.Type() == typLimiter && !f.IsNil() {
			return f.Interface().(gatewayflowcontrol.UpstreamLimiter)
		}
	}
	return nil
}

// peekMode: the limiter mode ("local"/"remote"): the string field named rateLimiter of the limiter's struct.
func peekMode(l gatewayflowcontrol.UpstreamLimiter) (string, bool) {
	if l == nil {
		return "", false
	}
	v := reflect.ValueOf(l)
	if v.Kind() != reflect.Ptr || v.Elem().Kind() != reflect.Struct {
		return "", false
	}
	f := v.Elem().FieldByName("rateLimiter")
	if !f.IsValid() || f.Kind() != reflect.String {
		return "", false
	}
	return f.String(), true
}

// peekUpstreams: the endpoints a picker chooses from: the only []string field of its struct.
func peekUpstreams(p clusters.EndpointPicker) ([]string, bool) {
	v := reflect.ValueOf(p)
	if v.Kind() != reflect.Ptr || v.IsNil() || v.Elem().Kind() != reflect.Struct {
		return nil, false
	}
	var found []reflect.Value
	for i := 0; i < v.Elem().NumField(); i++ {
		if f := open(v.Elem().Field(i)); f.Type() == typStrings {
			found = append(found, f)
		}
	}
	if len(found) != 1 {
		return nil, false
	}
	return append([]string{}, found[0].Interface().([]string)...), true
}

// peekSelfTest decides, on a ClusterInfo whose content is known, which of the above can be observed on this tree.
func peekSelfTest() {
	uc := &proxyv1alpha1.UpstreamCluster{ObjectMeta: metav1.ObjectMeta{Name: "selftest.example"}}
	uc.Spec.Servers = []proxyv1alpha1.UpstreamClusterServer{{Endpoint: "http://127.0.0.1:1"}}
	uc.Spec.Logging.Mode = "selftest-mode"
	uc.Spec.DispatchPolicies = []proxyv1alpha1.DispatchPolicy{{FlowControlSchemaName: "selftest-fc",
		Rules: []proxyv1alpha1.DispatchPolicyRule{{Verbs: []string{"*"}, APIGroups: []string{"*"}, Resources: []string{"*"}, NonResourceURLs: []string{"*"}}}}}
	ci, err := clusters.CreateClusterInfo(uc, nil, "", nil)
	if err != nil || ci == nil {
		return
	}
	defer ci.Stop()
	if p := peekPolicies(ci); len(p) == 1 && p[0].FlowControlSchemaName == "selftest-fc" {
		havePolicies = true
	}
	haveLogging = string(peekLogging(ci).Mode) == "selftest-mode"
	lim := peekLimiter(ci)
	haveLimiter = lim != nil
	if m, ok := peekMode(lim); ok && m == "local" {
		haveMode = true
	}
	if picker, err := ci.MatchAttributes(mgAttrs{Verb: "get", User: "u", IsResource: true, Resource: "pods"}.Record()); err == nil {
		if ups, ok := peekUpstreams(picker); ok && len(ups) == 1 && ups[0] == "http://127.0.0.1:1" {
			haveUpstreams = true
		}
	}
}
