package main

// COp is one step of a controller-level case (see ctlrun.go).
type COp struct {
	Op   string `json:"op"`            // "write" | "delete" | "deliver"
	Obj  *WObj  `json:"obj,omitempty"` // write: the new version
	Name string `json:"name,omitempty"`
	Item int    `json:"item,omitempty"` // deliver: index of the pending queue item
}

// --- temporary stubs (replaced by ctlrun.go)
