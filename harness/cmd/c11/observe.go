package main

// The observation of a cluster (what C11 lists), taken from the REAL ClusterInfo through its public accessors
// (plus three read-only shims for unexported state), and the same record decoded from the model's answer.

import (
	"regexp"
	"crypto/x509"
	"encoding/json"
	"fmt"
	"sort"
	"strings"

	"k8s.io/component-base/featuregate"

	proxyv1alpha1 "github.com/kubewharf/kubegateway/pkg/apis/proxy/v1alpha1"
	"github.com/kubewharf/kubegateway/pkg/clusters"
	"github.com/kubewharf/kubegateway/pkg/clusters/features"

	mg "verifharness/matchgen"
	"verifharness/rig"
)

// Obs: every field is canonical (sorted where the source is a map/set), so that == on the JSON is meaningful.
type Obs struct {
	Policies    []string `json:"policies"`    // canonical JSON of each dispatch policy, in order
	Logging     string   `json:"logging"`     // logging mode
	Endpoints   []string `json:"endpoints"`   // "endpoint disabled=bool", sorted
	Schemas     []string `json:"schemas"`     // "name => String()" for every name of the universe
	Has         []string `json:"has"`         // "name => bool": flowcontrol.Load finds it
	Mode        string   `json:"mode"`        // limiter mode
	Gates       []string `json:"gates"`       // "gate=bool", sorted
	TLS         string   `json:"tls"`         // LoadTLSConfig
	Verify      string   `json:"verify"`      // LoadVerifyOptions
	ServerNames []string `json:"serverNames"` // LoadServerNames
	Probes      []string `json:"probes"`      // MatchAttributes on the probe requests
}

type Universe struct {
	Eps    []string
	Names  []string
	Probes []mg.Attrs
}

var gateNames = []featuregate.Feature{"CloseConnectionWhenIdle", "DenyAllRequests", "GlobalRateLimiter", "Tracing", "AllAlpha", "AllBeta"}

func canonPolicy(p proxyv1alpha1.DispatchPolicy) string {
	rules := []map[string]interface{}{}
	for _, r := range p.Rules {
		rules = append(rules, mg.RuleJSON(r))
	}
	return rig.Canon(policyJSON(rules, string(p.Strategy), p.UpstreamSubset, p.FlowControlSchemaName, string(p.LogMode)))
}

func fcStr(fc interface{ String() string }) (s string) {
	defer func() {
		if r := recover(); r != nil {
			s = "<nil limiter>"
		}
	}()
	return fc.String()
}

func observeReal(ci *clusters.ClusterInfo, u Universe) Obs {
	o := Obs{Policies: []string{}, Endpoints: []string{}, Schemas: []string{}, Has: []string{}, Gates: []string{}, Probes: []string{}}
	for _, p := range peekPolicies(ci) {
		o.Policies = append(o.Policies, canonPolicy(p))
	}
	o.Logging = string(peekLogging(ci).Mode)
	for _, ep := range ci.AllEndpoints() {
		info, ok := ci.Endpoints.Load(ep)
		if !ok {
			o.Endpoints = append(o.Endpoints, ep+" listed-but-not-loadable")
			continue
		}
		o.Endpoints = append(o.Endpoints, fmt.Sprintf("%s disabled=%v", ep, info.IstDisabled()))
	}
	sort.Strings(o.Endpoints)
	lim := peekLimiter(ci)
	for _, n := range u.Names {
		o.Schemas = append(o.Schemas, n+" => "+fcStr(ci.GetFlowSchema(n)))
		if lim != nil {
			_, ok := lim.Load(n)
			o.Has = append(o.Has, fmt.Sprintf("%s => %v", n, ok))
		}
	}
	o.Mode, _ = peekMode(lim)
	for _, g := range gateNames {
		o.Gates = append(o.Gates, fmt.Sprintf("%s=%v", g, ci.FeatureEnabled(g)))
	}
	sort.Strings(o.Gates)
	if cfg, ok := ci.LoadTLSConfig(); ok {
		o.TLS = "ca=" + poolID(cfg.ClientCAs) + " certs=" + certsID(cfg.Certificates)
	} else {
		o.TLS = "none"
	}
	if vo, ok := ci.LoadVerifyOptions(); ok {
		o.Verify = poolID(vo.Roots)
		if len(vo.KeyUsages) != 1 || vo.KeyUsages[0] != x509.ExtKeyUsageClientAuth {
			o.Verify += fmt.Sprintf(" usages=%v", vo.KeyUsages)
		}
	} else {
		o.Verify = "none"
	}
	o.ServerNames = append([]string{}, ci.LoadServerNames()...)
	for _, a := range u.Probes {
		picker, err := ci.MatchAttributes(a.Record())
		if err != nil {
			o.Probes = append(o.Probes, "no-match")
			continue
		}
		ups, _ := peekUpstreams(picker)
		sort.Strings(ups)
		o.Probes = append(o.Probes, fmt.Sprintf("fcName=%s fc=%s upstreams=%s log=%v", picker.FlowControlName(), fcStr(picker.FlowControl()),
			strings.Join(ups, ","), picker.EnableLog()))
	}
	return o
}

// ---- the model's answer

type mObs struct {
	Policies    []json.RawMessage `json:"policies"`
	Logging     string            `json:"logging"`
	Endpoints   [][]interface{}   `json:"endpoints"`
	Schemas     [][]*string       `json:"schemas"`
	Has         [][]interface{}   `json:"has"`
	Mode        string            `json:"mode"`
	Gates       [][]interface{}   `json:"gates"`
	TLS         *[]*string        `json:"tls"`
	Verify      *string           `json:"verify"`
	ServerNames []string          `json:"serverNames"`
	Probes      []*struct {
		FcName    string   `json:"fcName"`
		Fc        *string  `json:"fc"`
		Upstreams []string `json:"upstreams"`
		Log       bool     `json:"log"`
	} `json:"probes"`
}

func optTok(s *string) string {
	if s == nil {
		return "-"
	}
	return rig.UnHex(*s)
}

func (m mObs) Obs() Obs {
	o := Obs{Policies: []string{}, Endpoints: []string{}, Schemas: []string{}, Has: []string{}, Gates: []string{}, Probes: []string{}}
	for _, p := range m.Policies {
		var v interface{}
		json.Unmarshal(p, &v) //nolint
		o.Policies = append(o.Policies, rig.Canon(v))
	}
	o.Logging = rig.UnHex(m.Logging)
	for _, e := range m.Endpoints {
		o.Endpoints = append(o.Endpoints, fmt.Sprintf("%s disabled=%v", rig.UnHex(e[0].(string)), e[1].(bool)))
	}
	sort.Strings(o.Endpoints)
	for _, s := range m.Schemas {
		v := "<nil limiter>"
		if s[1] != nil {
			v = rig.UnHex(*s[1])
		}
		o.Schemas = append(o.Schemas, rig.UnHex(*s[0])+" => "+v)
	}
	for _, h := range m.Has {
		o.Has = append(o.Has, fmt.Sprintf("%s => %v", rig.UnHex(h[0].(string)), h[1].(bool)))
	}
	o.Mode = rig.UnHex(m.Mode)
	for _, g := range m.Gates {
		o.Gates = append(o.Gates, fmt.Sprintf("%s=%v", rig.UnHex(g[0].(string)), g[1].(bool)))
	}
	sort.Strings(o.Gates)
	if m.TLS == nil {
		o.TLS = "none"
	} else {
		o.TLS = "ca=" + optTok((*m.TLS)[0]) + " certs=" + optTok((*m.TLS)[1])
	}
	if m.Verify == nil {
		o.Verify = "none"
	} else {
		o.Verify = rig.UnHex(*m.Verify)
	}
	o.ServerNames = []string{}
	for _, n := range m.ServerNames {
		o.ServerNames = append(o.ServerNames, rig.UnHex(n))
	}
	for _, p := range m.Probes {
		if p == nil {
			o.Probes = append(o.Probes, "no-match")
			continue
		}
		ups := []string{}
		for _, x := range p.Upstreams {
			ups = append(ups, rig.UnHex(x))
		}
		sort.Strings(ups)
		fc := "<nil limiter>"
		if p.Fc != nil {
			fc = rig.UnHex(*p.Fc)
		}
		o.Probes = append(o.Probes, fmt.Sprintf("fcName=%s fc=%s upstreams=%s log=%v", rig.UnHex(p.FcName), fc, strings.Join(ups, ","), p.Log))
	}
	return o
}

// obsDiff returns the names of the fields in which two observations differ (withProbes=false ignores Probes).
func obsDiff(a, b Obs, withProbes bool) []string {
	var d []string
	cmp := func(name string, x, y interface{}) {
		if rig.Canon(x) != rig.Canon(y) {
			d = append(d, name)
		}
	}
	if havePolicies {
		cmp("policies", a.Policies, b.Policies)
	}
	if haveLogging {
		cmp("logging", a.Logging, b.Logging)
	}
	cmp("endpoints", a.Endpoints, b.Endpoints)
	cmp("schemas", a.Schemas, b.Schemas)
	if haveLimiter {
		cmp("has-schema", a.Has, b.Has)
	}
	if haveMode {
		cmp("limiter-mode", a.Mode, b.Mode)
	}
	cmp("gates", a.Gates, b.Gates)
	cmp("tls", a.TLS, b.TLS)
	cmp("verify-options", a.Verify, b.Verify)
	cmp("server-names", a.ServerNames, b.ServerNames)
	if withProbes {
		if haveUpstreams {
			cmp("routing-probes", a.Probes, b.Probes)
		} else {
			cmp("routing-probes", stripUpstreams(a.Probes), stripUpstreams(b.Probes))
		}
	}
	return d
}

type mgAttrs = mg.Attrs

// realGates: DefaultMutableFeatureGate.DeepCopy().Set(v) and Enabled of every gate ("error" when refused).
func realGates(v string) string {
	g := featuresDefaultCopy()
	if err := g.Set(v); err != nil {
		return "error"
	}
	var l []string
	for _, n := range gateNames {
		l = append(l, fmt.Sprintf("%s=%v", n, g.Enabled(n)))
	}
	sort.Strings(l)
	return strings.Join(l, ",")
}

func featuresDefaultCopy() featuregate.MutableFeatureGate {
	return features.DefaultMutableFeatureGate.DeepCopy()
}

var reUpstreams = regexp.MustCompile(` upstreams=[^ ]*`)

// stripUpstreams removes the candidate-endpoint list from probe renderings (when it cannot be observed).
func stripUpstreams(l []string) []string {
	r := make([]string, len(l))
	for i, s := range l {
		r[i] = reUpstreams.ReplaceAllString(s, "")
	}
	return r
}
