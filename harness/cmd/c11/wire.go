package main

// Wire format of a case (self-contained JSON; plain ASCII strings, PEM blobs as tokens, rules as matchgen JSON)
// and its two translations: to the real API objects and to the Lean driver's request.

import (
	"encoding/json"

	metav1 "k8s.io/apimachinery/pkg/apis/meta/v1"

	proxyv1alpha1 "github.com/kubewharf/kubegateway/pkg/apis/proxy/v1alpha1"

	mg "verifharness/matchgen"
	"verifharness/rig"
)

type WServer struct {
	Ep  string `json:"ep"`
	Dis *bool  `json:"dis"`
}

type WSS struct {
	Key   string   `json:"key"`
	Cert  string   `json:"cert"`
	CA    string   `json:"ca"`
	Names []string `json:"names"`
}

type WSchema struct {
	Name     string    `json:"name"`
	Exempt   bool      `json:"exempt"`
	Max      *int32    `json:"max"`
	TB       *[2]int32 `json:"tb"`
	GMax     *int32    `json:"gmax"`
	GTB      *[2]int32 `json:"gtb"`
	Strategy string    `json:"strategy"`
}

type WPolicy struct {
	Rules    []map[string]interface{} `json:"rules"` // matchgen.RuleJSON (hex inside)
	Strategy string                   `json:"strategy"`
	Subset   []string                 `json:"subset"`
	FC       string                   `json:"fc"`
	Log      string                   `json:"log"`
}

// WClient: client connection settings. They are fixed when a ClusterInfo is created and are NOT part of the model
// or of the observation; they vary so that "excepted" is exercised.
type WClient struct {
	Insecure bool   `json:"insecure"`
	Token    string `json:"token"`
	QPS      int32  `json:"qps"`
	Burst    int32  `json:"burst"`
}

type WObj struct {
	Name     string       `json:"name"`
	Ann      *[][2]string `json:"ann"` // nil = nil map
	Servers  []WServer    `json:"servers"`
	SS       WSS          `json:"ss"`
	Schemas  []WSchema    `json:"schemas"`
	Policies []WPolicy    `json:"policies"`
	Logging  string       `json:"logging"`
	Client   WClient      `json:"client"`
	// Via: how this version is written (see stamp.go): "" main resource, "status" status subresource, "recreate" delete + create
	Via string `json:"via,omitempty"`
}

func (o WObj) clone() WObj {
	b, _ := json.Marshal(o)
	var r WObj
	json.Unmarshal(b, &r) //nolint
	return r
}

func ruleOf(m map[string]interface{}) proxyv1alpha1.DispatchPolicyRule {
	b, _ := json.Marshal(m)
	var w mg.RuleWire
	json.Unmarshal(b, &w) //nolint
	return w.Rule()
}

// Real builds the API object.
func (o WObj) Real(rv string) *proxyv1alpha1.UpstreamCluster {
	uc := &proxyv1alpha1.UpstreamCluster{ObjectMeta: metav1.ObjectMeta{Name: o.Name, ResourceVersion: rv}}
	if o.Ann != nil {
		uc.Annotations = map[string]string{}
		for _, kv := range *o.Ann {
			uc.Annotations[kv[0]] = kv[1]
		}
	}
	for _, s := range o.Servers {
		srv := proxyv1alpha1.UpstreamClusterServer{Endpoint: s.Ep}
		if s.Dis != nil {
			d := *s.Dis
			srv.Disabled = &d
		}
		uc.Spec.Servers = append(uc.Spec.Servers, srv)
	}
	uc.Spec.SecureServing = proxyv1alpha1.SecureServing{KeyData: pemOf[o.SS.Key], CertData: pemOf[o.SS.Cert],
		ClientCAData: pemOf[o.SS.CA], ServerNames: append([]string(nil), o.SS.Names...)}
	for _, s := range o.Schemas {
		fs := proxyv1alpha1.FlowControlSchema{Name: s.Name, Strategy: proxyv1alpha1.LimitStrategy(s.Strategy)}
		if s.Exempt {
			fs.Exempt = &proxyv1alpha1.ExemptFlowControlSchema{}
		}
		if s.Max != nil {
			fs.MaxRequestsInflight = &proxyv1alpha1.MaxRequestsInflightFlowControlSchema{Max: *s.Max}
		}
		if s.TB != nil {
			fs.TokenBucket = &proxyv1alpha1.TokenBucketFlowControlSchema{QPS: s.TB[0], Burst: s.TB[1]}
		}
		if s.GMax != nil {
			fs.GlobalMaxRequestsInflight = &proxyv1alpha1.MaxRequestsInflightFlowControlSchema{Max: *s.GMax}
		}
		if s.GTB != nil {
			fs.GlobalTokenBucket = &proxyv1alpha1.TokenBucketFlowControlSchema{QPS: s.GTB[0], Burst: s.GTB[1]}
		}
		uc.Spec.FlowControl.Schemas = append(uc.Spec.FlowControl.Schemas, fs)
	}
	for _, p := range o.Policies {
		dp := proxyv1alpha1.DispatchPolicy{Strategy: proxyv1alpha1.Strategy(p.Strategy), UpstreamSubset: append([]string(nil), p.Subset...),
			FlowControlSchemaName: p.FC, LogMode: proxyv1alpha1.LogMode(p.Log)}
		for _, r := range p.Rules {
			dp.Rules = append(dp.Rules, ruleOf(r))
		}
		uc.Spec.DispatchPolicies = append(uc.Spec.DispatchPolicies, dp)
	}
	uc.Spec.Logging.Mode = proxyv1alpha1.LogMode(o.Logging)
	uc.Spec.ClientConfig = proxyv1alpha1.ClientConfig{Insecure: o.Client.Insecure, BearerToken: []byte(o.Client.Token),
		QPS: o.Client.QPS, Burst: o.Client.Burst}
	return uc
}

func policyJSON(rules []map[string]interface{}, strategy string, subset []string, fc, log string) map[string]interface{} {
	if rules == nil {
		rules = []map[string]interface{}{}
	}
	return map[string]interface{}{"rules": rules, "strategy": rig.Hex(strategy), "subset": rig.HexList(subset),
		"fc": rig.Hex(fc), "log": rig.Hex(log)}
}

// Model builds the driver's rendering of the object (every byte string hex).
func (o WObj) Model() map[string]interface{} {
	var ann interface{}
	if o.Ann != nil {
		l := [][]string{}
		for _, kv := range *o.Ann {
			l = append(l, []string{rig.Hex(kv[0]), rig.Hex(kv[1])})
		}
		ann = l
	}
	servers := []map[string]interface{}{}
	for _, s := range o.Servers {
		servers = append(servers, map[string]interface{}{"ep": rig.Hex(s.Ep), "dis": s.Dis})
	}
	schemas := []map[string]interface{}{}
	for _, s := range o.Schemas {
		schemas = append(schemas, map[string]interface{}{"name": rig.Hex(s.Name), "exempt": s.Exempt, "max": s.Max, "tb": s.TB,
			"gmax": s.GMax, "gtb": s.GTB, "strategy": rig.Hex(s.Strategy)})
	}
	policies := []map[string]interface{}{}
	for _, p := range o.Policies {
		policies = append(policies, policyJSON(p.Rules, p.Strategy, p.Subset, p.FC, p.Log))
	}
	return map[string]interface{}{
		"name": rig.Hex(o.Name), "ann": ann, "servers": servers,
		"ss":      map[string]interface{}{"key": rig.Hex(o.SS.Key), "cert": rig.Hex(o.SS.Cert), "ca": rig.Hex(o.SS.CA), "names": rig.HexList(o.SS.Names)},
		"schemas": schemas, "policies": policies, "logging": rig.Hex(o.Logging),
	}
}

// endpoints that cannot be given a transport/clientset (rest.RESTClientFor refuses the host); by construction.
var badEndpoints = []string{"http://%zz", "http://a b", "http://"}

func isBadEndpoint(e string) bool {
	for _, b := range badEndpoints {
		if b == e {
			return true
		}
	}
	return false
}

func modelEnv() map[string]interface{} {
	pairs := [][]string{}
	for _, p := range pairOKTok {
		pairs = append(pairs, []string{rig.Hex(p[0]), rig.Hex(p[1])})
	}
	return map[string]interface{}{"caOK": rig.HexList(caOKToks), "pairOK": pairs, "badEps": rig.HexList(badEndpoints)}
}
