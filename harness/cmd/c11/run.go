package main

// ClusterInfo level: one history of object versions of one cluster is applied to a long-lived real ClusterInfo
// (NewEmptyClusterInfo + Sync per version = what CreateClusterInfo and the controller do), and after every version
//   - diff:   outcome and observation are compared with the Lean model's (KG.Model.ClusterSync.sync),
//   - judge1: after a successful Sync the observation must equal KG.Spec.ClusterSync.expected (the Lean judge the
//             theorems are about), evaluated by the driver for that object,
//   - judge2: (direct) a second, fresh real CreateClusterInfo(version) must succeed and observe equal.

import (
	"fmt"
	"sort"
	"strings"

	proxyv1alpha1 "github.com/kubewharf/kubegateway/pkg/apis/proxy/v1alpha1"
	"github.com/kubewharf/kubegateway/pkg/clusters"

	mg "verifharness/matchgen"
	"verifharness/rig"
)

type Case struct {
	Mode    string     `json:"mode"`   // "ci" | "ctl" | "run"
	Global  string     `json:"global"` // --rate-limiter of the gateway: "", "local", "remote"
	Stamp   bool       `json:"stamp,omitempty"` // versions carry the generation/uid the real REST strategies stamp (stamp.go)
	Skip    bool       `json:"skip,omitempty"` // ci: ClusterInfo built with neither rest config nor health check (skipSyncEndpoints)
	History []WObj     `json:"history,omitempty"`
	Ops     []COp      `json:"ops,omitempty"`
	Run     *RunScript `json:"run,omitempty"`
	Probes  []mg.Attrs `json:"probes"`
}

func cheapHealthCheck(*clusters.EndpointInfo) bool { return false }

// stopCluster releases everything a ClusterInfo started: meters of its flow-control schemas, health checks.
func stopCluster(ci *clusters.ClusterInfo) {
	if ci == nil {
		return
	}
	rig.Recover(func() {
		if lim := peekLimiter(ci); lim != nil {
			for _, fc := range lim.AllFlowControls() {
				fc.Stop()
			}
		} else {
			// no handle on the limiter: an object without schemas makes Sync delete (and stop) every schema
			ci.Sync(WObj{Name: ci.Cluster}.Real("0")) //nolint
		}
	})
	ci.Stop()
}

func errKind(err error) string {
	if err == nil {
		return "ok"
	}
	m := err.Error()
	switch {
	case strings.HasPrefix(m, "unable to load client CA"):
		return "fail:clientCA"
	case strings.HasPrefix(m, "invalid serving cert keypair"):
		return "fail:keyPair"
	case strings.Contains(m, "feature gate") || strings.HasPrefix(m, "missing bool value") || strings.HasPrefix(m, "invalid value of"):
		return "fail:featureGate"
	}
	return "fail:endpoint"
}

func universeOf(objs []WObj, probes []mg.Attrs) Universe {
	u := Universe{Probes: probes}
	seenE, seenN := map[string]bool{}, map[string]bool{}
	addN := func(n string) {
		if !seenN[n] {
			seenN[n] = true
			u.Names = append(u.Names, n)
		}
	}
	for _, n := range []string{"", "system-default", "zz-absent"} {
		addN(n)
	}
	for _, o := range objs {
		for _, s := range o.Servers {
			if !seenE[s.Ep] {
				seenE[s.Ep] = true
				u.Eps = append(u.Eps, s.Ep)
			}
		}
		for _, s := range o.Schemas {
			addN(s.Name)
		}
		for _, p := range o.Policies {
			addN(p.FC)
		}
	}
	sort.Strings(u.Eps)
	sort.Strings(u.Names)
	return u
}

// stepReal is what the real code did with one version.
type stepReal struct {
	Outcome string
	Obs     Obs
	Ord     []string // the map-iteration order oracle handed to the model (reconstructed from the result)
}

// rangeOracle reconstructs an iteration order of syncEndpoints' wanted set that explains the real result of a
// Sync that failed while adding endpoints: first every wanted endpoint that is in its "processed" state, then the
// failing ones, then the rest. (Go ranges over a map there; the model takes the order as an argument.)
func rangeOracle(o WObj, after Obs) []string {
	state := map[string]string{}
	for _, e := range after.Endpoints {
		i := strings.LastIndex(e, " disabled=")
		state[e[:i]] = e[i+len(" disabled="):]
	}
	dis := map[string]bool{}
	for _, s := range o.Servers {
		if s.Dis != nil && *s.Dis {
			dis[s.Ep] = true
		}
	}
	var done, bad, rest []string
	seen := map[string]bool{}
	for _, s := range o.Servers {
		if seen[s.Ep] {
			continue
		}
		seen[s.Ep] = true
		switch {
		case isBadEndpoint(s.Ep):
			bad = append(bad, s.Ep)
		case state[s.Ep] == fmt.Sprint(dis[s.Ep]):
			done = append(done, s.Ep)
		default:
			rest = append(rest, s.Ep)
		}
	}
	return append(append(done, bad...), rest...)
}

type mStep struct {
	Step struct {
		Outcome string `json:"outcome"`
		Obs     *mObs  `json:"obs"`
	} `json:"step"`
	Expected *mObs `json:"expected"`
	Fresh    struct {
		Outcome string `json:"outcome"`
		Obs     *mObs  `json:"obs"`
	} `json:"fresh"`
	Outcome string `json:"outcome"` // "dead" records
}

type verdict struct {
	ok    bool
	kind  string
	class string
	what  string
	impl  interface{}
	model interface{}
}

var pass = verdict{ok: true}

// countOutcomes: outcome histograms are taken on the first run of a case only (not while shrinking)
var countOutcomes = true

// runCI executes one ClusterInfo-level case. It never records; the caller does (after shrinking).
func runCI(c *rig.Ctx, cs Case) verdict {
	if len(cs.History) == 0 {
		return pass
	}
	// what is stored / delivered for every version (written in order through the real REST strategies when cs.Stamp)
	st := newStamper(cs.Stamp)
	effs := make([]WObj, 0, len(cs.History))
	objs := make([]*proxyv1alpha1.UpstreamCluster, 0, len(cs.History))
	for _, o := range cs.History {
		e, obj := st.write(o)
		effs, objs = append(effs, e), append(objs, obj)
	}
	u := universeOf(effs, cs.Probes)
	first := effs[0]
	// rest config of the long-lived instance: from the first version (good endpoints only, so that it can be built)
	cfgObj := first.clone()
	cfgObj.Servers = nil
	for _, s := range first.Servers {
		if !isBadEndpoint(s.Ep) {
			cfgObj.Servers = append(cfgObj.Servers, s)
		}
	}
	restCfg, err := clusters.VerifC11BuildRESTConfig(cfgObj.Real("0"))
	if err != nil {
		return verdict{kind: "diff", class: "c11.harness.restconfig", what: "cannot build the rest config of the first version: " + err.Error()}
	}
	long := clusters.NewEmptyClusterInfo(first.Name, restCfg, cheapHealthCheck, cs.Global, nil)
	if cs.Skip {
		long = clusters.NewEmptyClusterInfo(first.Name, nil, nil, cs.Global, nil)
	}
	defer stopCluster(long)

	reals := make([]stepReal, 0, len(cs.History))
	type freshReal struct {
		Outcome string
		Obs     Obs
	}
	freshes := make([]freshReal, 0, len(cs.History))
	crashed := false
	for i, o := range effs {
		if crashed {
			break
		}
		obj := objs[i].DeepCopy()
		var serr error
		msg, panicked := rig.Recover(func() { serr = long.Sync(obj) })
		sr := stepReal{}
		if panicked {
			sr.Outcome = "crash"
			crashed = true
			_ = msg
		} else {
			sr.Outcome = errKind(serr)
			sr.Obs = observeReal(long, u)
			if sr.Outcome == "fail:endpoint" {
				sr.Ord = rangeOracle(o, sr.Obs)
			}
		}
		reals = append(reals, sr)
		if countOutcomes {
			c.Count("ci-sync:" + sr.Outcome)
		}
		// the fresh gateway given only this version. When the long-lived instance applied the version this is the
		// public CreateClusterInfo (the direct judge); otherwise its body (buildClusterRESTConfig, NewEmptyClusterInfo,
		// Sync) is run step by step, because a failing CreateClusterInfo returns nil and what it started could not be stopped.
		fr := freshReal{}
		var fci *clusters.ClusterInfo
		var ferr error
		var fp bool
		if cs.Skip {
			fobj := objs[i].DeepCopy()
			fci = clusters.NewEmptyClusterInfo(fobj.Name, nil, nil, cs.Global, nil)
			_, fp = rig.Recover(func() { ferr = fci.Sync(fobj) })
		} else if sr.Outcome == "ok" {
			_, fp = rig.Recover(func() { fci, ferr = clusters.CreateClusterInfo(objs[i].DeepCopy(), cheapHealthCheck, cs.Global, nil) })
		} else {
			fobj := objs[i].DeepCopy()
			cfg, cerr := clusters.VerifC11BuildRESTConfig(fobj)
			if cerr != nil {
				ferr = cerr
			} else {
				fci = clusters.NewEmptyClusterInfo(fobj.Name, cfg, cheapHealthCheck, cs.Global, nil)
				_, fp = rig.Recover(func() { ferr = fci.Sync(fobj) })
			}
		}
		switch {
		case fp:
			fr.Outcome = "crash"
		case ferr != nil:
			fr.Outcome = "fail"
		default:
			fr.Outcome = "ok"
			fr.Obs = observeReal(fci, u)
		}
		stopCluster(fci)
		freshes = append(freshes, fr)
	}

	// judge 2 (direct, no model involved): long-lived after a successful Sync == fresh instance of that version
	for i, sr := range reals {
		if sr.Outcome != "ok" {
			continue
		}
		fr := freshes[i]
		if fr.Outcome != "ok" {
			return verdict{kind: "judge", class: "c11.fresh-fails", impl: map[string]interface{}{"long-lived": sr.Obs, "fresh": fr.Outcome},
				what: fmt.Sprintf("version %d of %d was applied by the long-lived ClusterInfo, but a fresh CreateClusterInfo of it answers %s", i+1, len(cs.History), fr.Outcome)}
		}
		if d := obsDiff(sr.Obs, fr.Obs, true); len(d) > 0 {
			return verdict{kind: "judge", class: "c11.fresh-differs." + d[0], impl: map[string]interface{}{"long-lived": sr.Obs, "fresh": fr.Obs},
				what: fmt.Sprintf("after version %d of %d the long-lived ClusterInfo differs from a fresh one given only that version in: %s", i+1, len(cs.History), strings.Join(d, ", "))}
		}
	}

	// the model
	hist := []map[string]interface{}{}
	for i, o := range effs {
		d := map[string]interface{}{"obj": o.Model()}
		if i < len(reals) && reals[i].Ord != nil {
			d["ord"] = rig.HexList(reals[i].Ord)
		}
		hist = append(hist, d)
	}
	probes := []map[string]interface{}{}
	for _, a := range cs.Probes {
		probes = append(probes, a.JSON())
	}
	req := map[string]interface{}{"env": modelEnv(), "conn": map[string]interface{}{"global": rig.Hex(cs.Global), "skip": cs.Skip},
		"history": hist, "eps": rig.HexList(u.Eps), "names": rig.HexList(u.Names), "probes": probes}
	var ms []mStep
	if err := c.Model("C11.run", req, &ms); err != nil {
		return verdict{kind: "diff", class: "c11.model-error", what: "model error: " + err.Error()}
	}
	// judge 1 (the Lean judge on the implementation's output) before any model/code comparison
	for i, sr := range reals {
		if sr.Outcome != "ok" || ms[i].Expected == nil {
			continue
		}
		exp := ms[i].Expected.Obs()
		if d := obsDiff(sr.Obs, exp, false); len(d) > 0 {
			return verdict{kind: "judge", class: "c11.expected-differs." + d[0], impl: sr.Obs, model: exp,
				what: fmt.Sprintf("after version %d of %d the ClusterInfo is not what that version prescribes (KG.Spec.ClusterSync.expected) in: %s", i+1, len(cs.History), strings.Join(d, ", "))}
		}
	}
	for i, sr := range reals {
		m := ms[i]
		if m.Outcome == "dead" {
			return verdict{kind: "diff", class: "c11.diff.outcome", what: fmt.Sprintf("version %d: the model crashed earlier, the code did not", i+1)}
		}
		if m.Step.Outcome != sr.Outcome {
			return verdict{kind: "diff", class: "c11.diff.outcome", impl: sr.Outcome, model: m.Step.Outcome,
				what: fmt.Sprintf("version %d: Sync answers %s, the model %s", i+1, sr.Outcome, m.Step.Outcome)}
		}
		if sr.Outcome == "crash" {
			break
		}
		mo := m.Step.Obs.Obs()
		if d := obsDiff(sr.Obs, mo, true); len(d) > 0 {
			return verdict{kind: "diff", class: "c11.diff.obs." + d[0], impl: sr.Obs, model: mo,
				what: fmt.Sprintf("version %d (%s): observation of the real ClusterInfo and of the model differ in: %s", i+1, sr.Outcome, strings.Join(d, ", "))}
		}
		// fresh: model vs code
		fo := freshes[i]
		mf := m.Fresh.Outcome
		if strings.HasPrefix(mf, "fail") {
			mf = "fail"
		}
		if mf != fo.Outcome {
			return verdict{kind: "diff", class: "c11.diff.fresh-outcome", impl: fo.Outcome, model: m.Fresh.Outcome,
				what: fmt.Sprintf("version %d: fresh CreateClusterInfo answers %s, the model %s", i+1, fo.Outcome, m.Fresh.Outcome)}
		}
		if fo.Outcome == "ok" {
			if d := obsDiff(fo.Obs, m.Fresh.Obs.Obs(), true); len(d) > 0 {
				return verdict{kind: "diff", class: "c11.diff.fresh-obs." + d[0], impl: fo.Obs, model: m.Fresh.Obs.Obs(),
					what: fmt.Sprintf("version %d: fresh ClusterInfo and fresh model differ in: %s", i+1, strings.Join(d, ", "))}
			}
		}
	}
	return pass
}
