package main

import (
	"os"
	"runtime/pprof"
)

func dumpGoroutines() {
	if os.Getenv("C11_DEBUG_GOROUTINES") != "" {
		pprof.Lookup("goroutine").WriteTo(os.Stderr, 1) //nolint
	}
}
