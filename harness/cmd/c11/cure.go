package main

// Run-loop level, retry budget: a cluster whose latest object is refused (server-name conflict) is retried by the real
// queue until ANOTHER object cures the failure (the owner releases the name, or is deleted) — after a varied number of
// failed attempts. The real queue sits behind a recording wrapper (shim): requeue delays are shortened, and for every
// handler answer that asks for a requeue it is recorded whether the queue scheduled the item again before marking it
// done. That is an event-order fact, not a timing one: "asked for a requeue, was not scheduled again" = the queue gave
// the item up. Verdict: violation only when the item was GIVEN UP and the cluster is not what its latest object
// prescribes after the cure was applied; every wall-clock wait that runs out makes the case inconclusive.

import (
	"context"
	"fmt"
	"math/rand"
	"strings"
	"sync"
	"sync/atomic"
	"time"

	metav1 "k8s.io/apimachinery/pkg/apis/meta/v1"
	"k8s.io/client-go/util/workqueue"

	proxyv1alpha1 "github.com/kubewharf/kubegateway/pkg/apis/proxy/v1alpha1"
	"github.com/kubewharf/kubegateway/pkg/clusters"

	"verifharness/rig"
)

type CureScript struct {
	Owner    WObj   `json:"owner"`    // holds the contested server name
	Released WObj   `json:"released"` // the owner's next version, without the name (used when Cure == "update")
	Before   *WObj  `json:"before"`   // the claiming cluster's earlier version (nil: the claim creates the cluster)
	Claim    WObj   `json:"claim"`    // the claiming cluster's latest version: wants the contested name
	Attempts int    `json:"attempts"` // failed deliveries of the claim before the cure
	Cure     string `json:"cure"`     // "update" | "delete" (of the owner)
}

type recQueue struct {
	workqueue.RateLimitingInterface
	mu        sync.Mutex
	scheduled map[interface{}]bool
	asked     map[interface{}]bool
	givenUp   map[string]int // cluster name -> items given up
	attempts  map[string]int // cluster name -> handler answers asking for a requeue
}

func nameOf(item interface{}) string {
	if uc, ok := item.(*proxyv1alpha1.UpstreamCluster); ok {
		return uc.Name
	}
	return "?"
}

func (q *recQueue) Get() (interface{}, bool) {
	item, quit := q.RateLimitingInterface.Get()
	q.mu.Lock()
	q.scheduled[item] = false
	q.mu.Unlock()
	return item, quit
}
func (q *recQueue) mark(item interface{}) { q.mu.Lock(); q.scheduled[item] = true; q.mu.Unlock() }
func (q *recQueue) Add(item interface{})  { q.mark(item); q.RateLimitingInterface.Add(item) }
func (q *recQueue) AddRateLimited(item interface{}) {
	q.mark(item)
	q.RateLimitingInterface.AddAfter(item, 10*time.Millisecond)
}
func (q *recQueue) AddAfter(item interface{}, d time.Duration) {
	q.mark(item)
	if d > 15*time.Millisecond {
		d = 15 * time.Millisecond // the controller's 5 s, shortened; the retry budget is untouched
	}
	q.RateLimitingInterface.AddAfter(item, d)
}
func (q *recQueue) Done(item interface{}) {
	q.mu.Lock()
	if q.asked[item] && !q.scheduled[item] {
		q.givenUp[nameOf(item)]++
	}
	delete(q.asked, item)
	q.mu.Unlock()
	q.RateLimitingInterface.Done(item)
}
func (q *recQueue) askedRequeue(item interface{}) {
	q.mu.Lock()
	q.asked[item] = true
	q.attempts[nameOf(item)]++
	q.mu.Unlock()
}
func (q *recQueue) stats(name string) (attempts, givenUp int) {
	q.mu.Lock()
	defer q.mu.Unlock()
	return q.attempts[name], q.givenUp[name]
}

func runCure(c *rig.Ctx, cs Case) verdict {
	sc := cs.Run.Cure
	inconclusive := func(why string) verdict {
		c.Count("cure-inconclusive:" + why)
		return pass
	}
	st := newStamper(cs.Stamp)
	_, ownerObj := st.write(sc.Owner)
	var beforeObj *proxyv1alpha1.UpstreamCluster
	if sc.Before != nil {
		_, beforeObj = st.write(*sc.Before)
	}
	claimEff, claimObj := st.write(sc.Claim)
	var releasedObj *proxyv1alpha1.UpstreamCluster
	if sc.Cure == "update" {
		_, releasedObj = st.write(sc.Released)
	}
	all := []WObj{sc.Owner, sc.Released, sc.Claim}
	if sc.Before != nil {
		all = append(all, *sc.Before)
	}
	u := universeOf(all, cs.Probes)
	name := sc.Claim.Name
	hosts := []string{name, sc.Owner.Name}
	for _, o := range all {
		hosts = append(hosts, o.SS.Names...)
	}

	// the fresh gateway given only the claim (delivered first)
	var fci *clusters.ClusterInfo
	var ferr error
	_, fp := rig.Recover(func() { fci, ferr = clusters.CreateClusterInfo(claimObj.DeepCopy(), cheapHealthCheck, cs.Global, nil) })
	if fp || ferr != nil {
		stopCluster(fci)
		return inconclusive("claim-not-applicable")
	}
	freshObs := observeReal(fci, u)
	stopCluster(fci)

	var q *recQueue
	g := startRunGatewayWith(cs.Global, func(inner workqueue.RateLimitingInterface) workqueue.RateLimitingInterface {
		q = &recQueue{RateLimitingInterface: inner, scheduled: map[interface{}]bool{}, asked: map[interface{}]bool{},
			givenUp: map[string]int{}, attempts: map[string]int{}}
		return q
	}, func(item interface{}) { q.askedRequeue(item) })
	defer g.shutdown(hosts)
	api := g.client.ProxyV1alpha1().UpstreamClusters()
	ctx := context.TODO()
	handled := func(n int64) bool {
		return waitFor(func() bool { return atomic.LoadInt64(&g.finished) >= n }, 20*time.Second)
	}
	if _, err := api.Create(ctx, ownerObj.DeepCopy(), metav1.CreateOptions{}); err != nil {
		return inconclusive("fake-clientset")
	}
	n := int64(1)
	if beforeObj != nil {
		if _, err := api.Create(ctx, beforeObj.DeepCopy(), metav1.CreateOptions{}); err != nil {
			return inconclusive("fake-clientset")
		}
		n++
	}
	if !handled(n) {
		return inconclusive("first-versions-never-handled")
	}
	var err error
	if beforeObj != nil {
		_, err = api.Update(ctx, claimObj.DeepCopy(), metav1.UpdateOptions{})
	} else {
		_, err = api.Create(ctx, claimObj.DeepCopy(), metav1.CreateOptions{})
	}
	if err != nil {
		return inconclusive("fake-clientset")
	}
	// the claim is refused again and again
	if !waitFor(func() bool { a, gu := q.stats(name); return a >= sc.Attempts || gu > 0 }, 20*time.Second) {
		return inconclusive("attempts-not-reached")
	}
	before := atomic.LoadInt64(&g.finished)
	// the cure comes from the OTHER object
	if sc.Cure == "delete" {
		err = api.Delete(ctx, sc.Owner.Name, metav1.DeleteOptions{})
	} else {
		_, err = api.Update(ctx, releasedObj.DeepCopy(), metav1.UpdateOptions{})
	}
	if err != nil {
		return inconclusive("fake-clientset")
	}
	converged := func() bool {
		ci, ok := g.ctl.Get(name)
		if !ok || ci.Cluster != strings.ToLower(name) {
			return false
		}
		g.seen[ci] = true
		if len(obsDiff(observeReal(ci, u), freshObs, true)) > 0 {
			return false
		}
		for _, h := range claimEff.SS.Names {
			if x, ok := g.ctl.Get(h); !ok || x.Cluster != strings.ToLower(name) {
				return false
			}
		}
		return true
	}
	cureApplied := func() bool {
		// the owner's event was handled (some handler finished after the cure was written) and the contested names
		// no longer resolve to the owner
		if atomic.LoadInt64(&g.finished) <= before {
			return false
		}
		for _, h := range claimEff.SS.Names {
			if x, ok := g.ctl.Get(h); ok && x.Cluster == strings.ToLower(sc.Owner.Name) {
				return false
			}
		}
		return true
	}
	ok := waitFor(func() bool {
		if converged() {
			return true
		}
		_, gu := q.stats(name)
		return gu > 0 && cureApplied()
	}, 20*time.Second)
	attempts, gaveUp := q.stats(name)
	if countOutcomes {
		c.Count(fmt.Sprintf("cure-attempts-before-cure>=%d", sc.Attempts))
	}
	if !ok {
		return inconclusive("neither-converged-nor-given-up")
	}
	if converged() {
		return pass
	}
	if gaveUp > 0 && cureApplied() {
		return verdict{kind: "judge", class: "c11.run.requeue-given-up", impl: map[string]interface{}{"refused-deliveries": attempts, "items-given-up": gaveUp},
			what: fmt.Sprintf("real Run loop: the latest object of %s (claims %v held by %s) was refused %d times; the queue then stopped re-delivering it (the handler asked for a requeue, the item was not scheduled again); %s of %s cured the conflict, nothing is pending, and %s is still not what its latest object prescribes",
				name, claimEff.SS.Names, sc.Owner.Name, attempts, sc.Cure, sc.Owner.Name, name)}
	}
	return inconclusive("state-moved-while-judging")
}

// genCure: who owns the name, whether the claiming cluster exists before, how many refusals precede the cure and
// whether the cure is an update or the deletion of the owner are varied.
func genCure(r *rand.Rand) (Case, []string) {
	cs := Case{Mode: "run", Global: rig.Pick(r, []string{"", "remote"}), Probes: genProbes(r)[:5], Stamp: true}
	alias := rig.Pick(r, []string{"alias.example", "X.Y", "shared.example"})
	owner := genObj(r, "other", false)
	owner.SS.Names = []string{alias}
	released := owner.clone()
	released.SS.Names = nil
	released.Logging = "on"
	claim := genObj(r, "c.example", false)
	claim.SS.Names = []string{strings.ToLower(alias)}
	for _, o := range []*WObj{&owner, &released, &claim} {
		if len(o.Servers) == 0 {
			o.Servers = []WServer{{Ep: goodEndpoints[0]}}
		}
	}
	sc := &CureScript{Owner: owner, Released: released, Claim: claim, Attempts: rig.Pick(r, []int{1, 2, 3, 4, 5, 6, 8, 12}),
		Cure: rig.Pick(r, []string{"update", "update", "delete"})}
	if r.Intn(2) == 0 {
		b := genObj(r, "c.example", false)
		b.SS.Names = nil
		if len(b.Servers) == 0 {
			b.Servers = []WServer{{Ep: goodEndpoints[1]}}
		}
		sc.Before = &b
	}
	cs.Run = &RunScript{Hold: -1, Cure: sc}
	return cs, []string{"run-cure-by-other-object", "run-cure-" + sc.Cure}
}
