// C11 harness: hot reload converges to the latest object.
//
// Real entry points driven: clusters.NewEmptyClusterInfo / ClusterInfo.Sync / clusters.CreateClusterInfo (and, at
// controller level, UpstreamClusterController.syncUpstreamCluster through an overlay shim); observed through the public
// accessors FeatureEnabled, LoadTLSConfig, LoadVerifyOptions, LoadServerNames, AllEndpoints, Endpoints.Load().IstDisabled,
// GetFlowSchema().String(), MatchAttributes (+ the picker's FlowControlName/FlowControl/EnableLog) and read-only shims
// for the stored policy list, logging mode, limiter mode and the picker's upstream list.
// Model: KG.Model.ClusterSync (driver method C11.run / C11.ctl); judge: KG.Spec.ClusterSync.expected.
package main

import (
	"encoding/json"
	"flag"
	"fmt"
	"io"
	"os"
	"path/filepath"
	"runtime"
	"sort"
	"strings"

	"k8s.io/klog"

	"verifharness/rig"
)

func silenceKlog() {
	fs := flag.NewFlagSet("klog", flag.ContinueOnError)
	klog.InitFlags(fs)
	fs.Set("logtostderr", "false")     //nolint
	fs.Set("alsologtostderr", "false") //nolint
	fs.Set("stderrthreshold", "FATAL") //nolint
	klog.SetOutput(io.Discard)
}

func runCase(c *rig.Ctx, cs Case) verdict {
	switch cs.Mode {
	case "ctl":
		return runCtl(c, cs)
	case "run":
		return runLoop(c, cs)
	}
	return runCI(c, cs)
}

var (
	recorded      = map[string]int{}
	judgeRecorded = 0
	diffRecorded  = 0
)

// keepGoing: generation stops after three distinct classes of judge failures. Model/code differences never stop it
// (at most three distinct classes of them are recorded): when the tie breaks, the search for an input on which the
// implementation itself violates the property must go on.
func keepGoing() bool { return judgeRecorded < 3 }

// record keeps one failure per class (the check's verdict needs one replay per class).
func record(c *rig.Ctx, cs Case, v verdict) {
	recorded[v.class]++
	if recorded[v.class] > 1 {
		c.Count("failure-again:" + v.class)
		return
	}
	if v.kind == "judge" {
		judgeRecorded++
	} else {
		diffRecorded++
		if diffRecorded > 3 {
			c.Count("diff-not-recorded:" + v.class)
			return
		}
	}
	c.Fail(rig.Failure{Kind: v.kind, Class: v.class, What: v.what, Case: cs, Impl: v.impl, Model: v.model})
}

// shrink: drop versions (the last one stays), then blank field groups of the remaining ones, as long as the
// same class of failure is still produced.
func shrink(c *rig.Ctx, cs Case, v verdict) (Case, verdict) {
	countOutcomes = false
	defer func() { countOutcomes = true }()
	same := func(x Case) (verdict, bool) {
		w := runCase(c, x)
		return w, !w.ok && w.class == v.class
	}
	if cs.Mode == "run" {
		return cs, v // wall-clock bound: replayed as found
	}
	if cs.Mode == "ctl" {
		ops := rig.ShrinkList(cs.Ops, func(l []COp) bool {
			x := cs
			x.Ops = renumber(l)
			_, s := same(x)
			return s
		})
		cs.Ops = renumber(ops)
		w, _ := same(cs)
		if !w.ok {
			v = w
		}
		return cs, v
	}
	if n := len(cs.History); n > 1 {
		last := cs.History[n-1]
		pre := rig.ShrinkList(cs.History[:n-1], func(l []WObj) bool {
			x := cs
			x.History = append(append([]WObj{}, l...), last)
			_, s := same(x)
			return s
		})
		cs.History = append(append([]WObj{}, pre...), last)
		// maybe the last one is not needed either
		if len(cs.History) > 1 {
			x := cs
			x.History = cs.History[:len(cs.History)-1]
			if _, s := same(x); s {
				cs = x
			}
		}
	}
	for i := range cs.History {
		for f := 0; f < nFields+1; f++ {
			x := cs
			x.History = append([]WObj{}, cs.History...)
			o := x.History[i].clone()
			switch f {
			case 0:
				o.Ann = nil
			case 1:
				o.Servers = nil
			case 2:
				o.SS.Key, o.SS.Cert = "", ""
			case 3:
				o.SS.CA = ""
			case 4:
				o.SS.Names = nil
			case 5:
				o.Schemas = nil
			case 6:
				o.Policies = nil
			case 7:
				o.Logging = ""
			case 8:
				o.Client = WClient{}
			}
			x.History[i] = o
			if _, s := same(x); s {
				cs = x
			}
		}
	}
	cs.Probes = rig.ShrinkList(cs.Probes, func(l []mgAttrs) bool {
		x := cs
		x.Probes = l
		_, s := same(x)
		return s
	})
	w, _ := same(cs)
	if !w.ok {
		v = w
	}
	return cs, v
}

func sig(cs Case) string { return rig.Canon(cs) }

func histBuckets(c *rig.Ctx, labels []string) {
	seen := map[string]bool{}
	for _, l := range labels {
		if !seen[l] {
			seen[l] = true
			c.Count("varied:" + l)
		}
	}
}

func main() {
	silenceKlog()
	initPEM()
	peekSelfTest()
	rig.Main("C11", func(c *rig.Ctx) {
		c.SetRule("a case is a history of 1-12 versions of one UpstreamCluster applied to one long-lived real ClusterInfo (ci), or a script of " +
			"writes/deletes/deliveries/re-deliveries for 1-3 clusters through the real syncUpstreamCluster (ctl); versions vary annotations (nil/added/" +
			"changed/removed, gates added and dropped, malformed), servers (added/removed/disabled/duplicated/unusable), serving key/cert/client CA " +
			"(replaced, cleared, half-cleared, corrupted, mismatching; real throw-away certificates), server names, flow-control schemas (resized, " +
			"retyped, removed, restored, duplicated, out-of-range), dispatch policies and logging; distinct = distinct canonical case; non-trivial = " +
			"at least two versions, i.e. some state is carried from one object to the next")
		c.SetExtra("observable_by_reflection", map[string]bool{"policies": havePolicies, "logging": haveLogging, "limiter": haveLimiter,
			"limiter-mode": haveMode, "picker-upstreams": haveUpstreams})
		if !(havePolicies && haveLogging && haveLimiter && haveMode && haveUpstreams) {
			c.Note("representation changed: not observable by role any more (left out of every comparison; routing stays observed through MatchAttributes): policies=%v logging=%v limiter=%v mode=%v upstreams=%v",
				havePolicies, haveLogging, haveLimiter, haveMode, haveUpstreams)
		}
		if c.Replay != "" {
			var cs Case
			if err := c.LoadReplay(&cs); err != nil {
				fmt.Fprintln(os.Stderr, err)
				os.Exit(2)
			}
			c.Case(sig(cs), true, "replay", func() interface{} { return cs })
			c.Trace()
			if v := runCase(c, cs); !v.ok {
				record(c, cs, v)
			}
			return
		}
		// corpus of past failures first
		files, _ := filepath.Glob(filepath.Join(os.Getenv("VERIF_DIR"), "harness", "corpus", "C11", "*.json"))
		if os.Getenv("C11_NO_CORPUS") != "" { // development only: measure what the generators find on their own
			files = nil
		}
		sort.Strings(files)
		for _, f := range files {
			b, err := os.ReadFile(f)
			if err != nil {
				continue
			}
			var env struct {
				Case Case `json:"case"`
			}
			if json.Unmarshal(b, &env) != nil {
				c.Note("corpus file %s does not decode", f)
				continue
			}
			c.Case(sig(env.Case), true, "corpus", nil)
			c.Trace()
			if v := runCase(c, env.Case); !v.ok {
				v.what = "corpus " + filepath.Base(f) + ": " + v.what
				record(c, env.Case, v)
			}
		}
		// the real Run loop (first: later streams leave goroutines of the real controller's failed creations behind)
		c.SetExtra("goroutines_before_run_loop_cases", runtime.NumGoroutine())
		k := c.Budget(15, 120)
		for i := 0; i < k && keepGoing(); i++ {
			cs, labels := genRun(c.Rng, i%2 == 0)
			if i%3 == 2 {
				cs, labels = genCure(c.Rng)
			}
			c.Case(sig(cs), true, fmt.Sprintf("run versions=%d hold=%v cure=%v", len(cs.Run.Versions), cs.Run.Hold >= 0, cs.Run.Cure != nil), func() interface{} {
				return map[string]interface{}{"mode": "run", "versions": len(cs.Run.Versions), "hold": cs.Run.Hold, "cure": cs.Run.Cure != nil}
			})
			histBuckets(c, labels)
			c.Trace()
			if v := runCase(c, cs); !v.ok {
				record(c, cs, v)
			}
		}
		// ClusterInfo level
		n := c.Budget(700, 14000)
		maxLen := 12
		for i := 0; i < n && keepGoing(); i++ {
			raw := i%5 == 4
			hist, labels := genHistory(c.Rng, "c.example", maxLen, raw)
			cs := Case{Mode: "ci", Global: rig.Pick(c.Rng, []string{"", "local", "remote", "remote"}), History: hist, Probes: genProbes(c.Rng)}
			stream := "ci-valid"
			if raw {
				stream = "ci-raw"
			}
			// three quarters of the histories carry the generation/uid the real REST strategies stamp
			cs.Stamp = i%4 != 1
			if cs.Stamp {
				stream += "-stamped"
			}
			if i%10 == 7 {
				cs.Skip = true
				stream = "ci-skip-endpoints"
			}
			c.Case(sig(cs), len(hist) >= 2, fmt.Sprintf("%s len=%02d", stream, len(hist)), func() interface{} {
				return map[string]interface{}{"mode": "ci", "versions": len(hist), "varied": labels}
			})
			histBuckets(c, labels)
			c.Trace()
			if v := runCase(c, cs); !v.ok {
				if recorded[v.class] > 0 {
					record(c, cs, v)
				} else {
					scs, sv := shrink(c, cs, v)
					record(c, scs, sv)
				}
			}
		}
		// controller level
		m := c.Budget(300, 5000)
		for i := 0; i < m && keepGoing(); i++ {
			cs, labels := genCtl(c.Rng, i%5 == 4)
			c.Case(sig(cs), true, fmt.Sprintf("ctl ops=%02d", len(cs.Ops)/4*4), func() interface{} {
				return map[string]interface{}{"mode": "ctl", "ops": len(cs.Ops), "varied": labels}
			})
			histBuckets(c, labels)
			c.Trace()
			if v := runCase(c, cs); !v.ok {
				if recorded[v.class] > 0 {
					record(c, cs, v)
				} else {
					scs, sv := shrink(c, cs, v)
					record(c, scs, sv)
				}
			}
		}
		gateTie(c)
		dumpGoroutines()
		c.SetExtra("goroutines_at_end", runtime.NumGoroutine())
		if g := runtime.NumGoroutine(); g > 2000 {
			c.Note("goroutines at end: %d (ClusterInfos are stopped after every case; expected a few hundred at most)", g)
		}
	})
}

// gateTie: the driver's executable featuregate.Set against the real one on the whole annotation universe
// (the model takes featuregate.Set as a parameter; this keeps the executable instance honest).
func gateTie(c *rig.Ctx) {
	vals := append(append([]string{}, goodGateVals...), badGateVals...)
	vals = append(vals, "AllAlpha=true,AllBeta=true", "AllBeta=false,Tracing=true", "\tTracing=true", "Tracing=TRUE", "Tracing=tRUE", "DenyAllRequests=0")
	for _, v := range vals {
		real := realGates(v)
		var m [][]interface{}
		if err := c.Model("C11.gates", map[string]interface{}{"v": rig.Hex(v)}, &m); err != nil {
			c.Fail(rig.Failure{Kind: "diff", Class: "c11.model-error", What: err.Error(), Case: v})
			return
		}
		model := "error"
		if m != nil {
			var l []string
			for _, g := range m {
				l = append(l, fmt.Sprintf("%s=%v", rig.UnHex(g[0].(string)), g[1].(bool)))
			}
			sort.Strings(l)
			model = strings.Join(l, ",")
		}
		c.Case("gates:"+v, false, "gate-annotation", nil)
		if real != model {
			c.Fail(rig.Failure{Kind: "diff", Class: "c11.diff.featuregate-set", Case: map[string]string{"annotation": v}, Impl: real, Model: model,
				What: fmt.Sprintf("featuregate.Set(%q) on a copy of the defaults: code %s, executable model %s", v, real, model)})
		}
	}
}
