package main

import (
	"fmt"

	metav1 "k8s.io/apimachinery/pkg/apis/meta/v1"

	proxyv1alpha1 "github.com/kubewharf/kubegateway/pkg/apis/proxy/v1alpha1"
	"github.com/kubewharf/kubegateway/pkg/clusters"
)

func main() {
	for _, ep := range []string{"http://127.0.0.1:1", "https://127.0.0.1:1", "http://%zz", "https://%zz", "://x", "http://a b", "", "127.0.0.1:1", "http://127.0.0.1:1/path", "http://[::1", "ftp://x", "http://"} {
		uc := &proxyv1alpha1.UpstreamCluster{ObjectMeta: metav1.ObjectMeta{Name: "c"},
			Spec: proxyv1alpha1.UpstreamClusterSpec{Servers: []proxyv1alpha1.UpstreamClusterServer{{Endpoint: "http://127.0.0.1:9"}}}}
		ci, err := clusters.CreateClusterInfo(uc, func(*clusters.EndpointInfo) bool { return false }, "", nil)
		if err != nil {
			fmt.Println("create", err)
			continue
		}
		uc2 := uc.DeepCopy()
		uc2.Spec.Servers = append(uc2.Spec.Servers, proxyv1alpha1.UpstreamClusterServer{Endpoint: ep})
		err = ci.Sync(uc2)
		fmt.Printf("%q sync err=%v eps=%v\n", ep, err, ci.AllEndpoints())
		uc3 := uc.DeepCopy()
		uc3.Spec.Servers = []proxyv1alpha1.UpstreamClusterServer{{Endpoint: ep}}
		_, err = clusters.CreateClusterInfo(uc3, nil, "", nil)
		fmt.Printf("%q create err=%v\n", ep, err)
		ci.Stop()
	}
}
