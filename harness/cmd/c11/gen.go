package main

// Generators: histories of versions of one UpstreamCluster. Every field the property lists is varied
// (added / changed / removed / restored from an earlier version), values come from small universes built to
// collide, and a share of the versions cannot be applied (bad gate annotation, corrupted or mismatching PEM,
// endpoint without a usable host) so that failed, partially applied syncs sit in the middle of histories.

import (
	"math/rand"

	mg "verifharness/matchgen"
	"verifharness/rig"
)

var (
	goodEndpoints = []string{"http://127.0.0.1:1", "http://127.0.0.1:2", "http://127.0.0.1:3", "https://127.0.0.1:4"}
	gateKey       = "proxy.kubegateway.io/feature-gates"
	goodGateVals  = []string{"", "DenyAllRequests=true", "Tracing=true", "DenyAllRequests=true,Tracing=true", "GlobalRateLimiter=true",
		"GlobalRateLimiter=true,Tracing=true", "CloseConnectionWhenIdle=true,DenyAllRequests=false", "AllAlpha=true", "AllAlpha=true,Tracing=false",
		"AllAlpha=false,GlobalRateLimiter=true", "AllBeta=true", " Tracing = true ", "Tracing=T,DenyAllRequests=1", "Tracing=true,,", "Tracing=true,Tracing=false",
		"GlobalRateLimiter=false"}
	badGateVals = []string{"Bogus=true", "Tracing", "Tracing=maybe", "DenyAllRequests=true,Bogus=false", "=true", "tracing=true", "Tracing=true;DenyAllRequests=true"}
	schemaNames = []string{"a", "b", "c", "system-default"}
	serverNames = []string{"alias.example", "Alias.Example", "b.example", "c.example", "X.Y"}
	logModes    = []string{"", "on", "off", "verbose"}
	strategies  = []string{"", "local", "globalAllocate", "globalCount"}
)

func i32(v int32) *int32 { return &v }
func bp(b bool) *bool    { return &b }

func genSchema(r *rand.Rand, name string, raw bool) WSchema {
	s := WSchema{Name: name, Strategy: rig.Pick(r, strategies)}
	switch r.Intn(3) {
	case 0:
		s.Exempt = true
	case 1:
		s.Max = i32(rig.Pick(r, []int32{0, 1, 5, 100}))
		if r.Intn(3) == 0 {
			s.GMax = i32(*s.Max + int32(r.Intn(3))*100)
		}
	default:
		tb := rig.Pick(r, [][2]int32{{1, 1}, {5, 10}, {100, 200}})
		s.TB = &tb
		if r.Intn(3) == 0 {
			g := [2]int32{tb[0] * 2, tb[1] * 2}
			s.GTB = &g
		}
	}
	if raw {
		// outside validation, but nothing Sync cannot digest: several members at once, negative / huge limits,
		// an anonymous schema
		switch r.Intn(6) {
		case 0:
			s.Exempt = true
			s.Max = i32(7)
		case 1:
			s.Max = i32(rig.Pick(r, []int32{-1, -300, 2147483647}))
			s.Exempt, s.TB, s.GTB = false, nil, nil
		case 2:
			tb := [2]int32{rig.Pick(r, []int32{-5, 0, 3}), rig.Pick(r, []int32{-1, 0, 9})}
			s.TB = &tb
			s.Exempt, s.Max, s.GMax = false, nil, nil
		case 3:
			s.Max, s.TB = i32(3), &[2]int32{2, 4}
			s.Exempt = false
		case 4:
			s.Name = ""
		case 5:
			s = WSchema{Name: ""} // the zero schema
		}
	}
	return s
}

// crasher: a schema whose limiter type is guessed from a global member while the local one is nil
// (NewFlowControl dereferences nil). Validation rejects it; the model answers `crash`.
func genCrasher(r *rand.Rand) WSchema {
	if r.Intn(2) == 0 {
		return WSchema{Name: rig.Pick(r, schemaNames), GMax: i32(5)}
	}
	return WSchema{Name: rig.Pick(r, schemaNames), GTB: &[2]int32{5, 5}}
}

func genSchemas(r *rand.Rand, raw bool) []WSchema {
	var l []WSchema
	for _, n := range schemaNames {
		if r.Intn(2) == 0 {
			l = append(l, genSchema(r, n, raw && r.Intn(3) == 0))
		}
	}
	if raw && r.Intn(3) == 0 && len(l) > 0 {
		// duplicate name: the later entry wins
		l = append(l, genSchema(r, l[r.Intn(len(l))].Name, false))
	}
	r.Shuffle(len(l), func(i, j int) { l[i], l[j] = l[j], l[i] })
	return l
}

func genServers(r *rand.Rand, raw bool) []WServer {
	var l []WServer
	for _, e := range goodEndpoints {
		if r.Intn(2) == 0 {
			s := WServer{Ep: e}
			switch r.Intn(4) {
			case 0:
				s.Dis = bp(true)
			case 1:
				s.Dis = bp(false)
			}
			l = append(l, s)
		}
	}
	if raw && r.Intn(3) == 0 && len(l) > 0 {
		// the same endpoint listed twice with different flags
		d := l[r.Intn(len(l))]
		d.Dis = bp(r.Intn(2) == 0)
		l = append(l, d)
	}
	r.Shuffle(len(l), func(i, j int) { l[i], l[j] = l[j], l[i] })
	return l
}

func genAnn(r *rand.Rand) *[][2]string {
	switch r.Intn(6) {
	case 0:
		return nil
	case 1:
		return &[][2]string{}
	case 2:
		return &[][2]string{{"other", "x"}}
	case 3:
		return &[][2]string{{gateKey, ""}}
	default:
		a := [][2]string{{gateKey, rig.Pick(r, goodGateVals)}}
		if r.Intn(3) == 0 {
			a = append(a, [2]string{"other", "DenyAllRequests=true"})
		}
		return &a
	}
}

func genSS(r *rand.Rand) WSS {
	ss := WSS{}
	switch r.Intn(5) {
	case 0: // nothing
	case 1, 2:
		p := rig.Pick(r, pairOKTok)
		ss.Cert, ss.Key = p[0], p[1]
	case 3: // half
		if r.Intn(2) == 0 {
			ss.Cert = rig.Pick(r, []string{"C1", "C2", "BADC"})
		} else {
			ss.Key = rig.Pick(r, []string{"K1", "K2", "BADK"})
		}
	case 4:
		ss.Cert, ss.Key = "C1", "K1"
	}
	if r.Intn(2) == 0 {
		ss.CA = rig.Pick(r, caOKToks)
	}
	for _, n := range serverNames {
		if r.Intn(4) == 0 {
			ss.Names = append(ss.Names, n)
		}
	}
	return ss
}

func genPolicy(r *rand.Rand, raw bool) WPolicy {
	p := WPolicy{Strategy: rig.Pick(r, []string{"RoundRobin", ""}), FC: rig.Pick(r, append([]string{"", "zz-absent"}, schemaNames...)),
		Log: rig.Pick(r, logModes)}
	for i, n := 0, 1+r.Intn(2); i < n; i++ {
		if r.Intn(2) == 0 {
			// a rule keyed on the verb only, so that the probes tell policies apart
			p.Rules = append(p.Rules, mg.RuleJSON(mg.Rule(rand.New(rand.NewSource(0)), false)))
			p.Rules[len(p.Rules)-1] = map[string]interface{}{"verbs": rig.HexList([]string{rig.Pick(r, []string{"get", "list", "watch", "*"})}),
				"apiGroups": rig.HexList([]string{"*"}), "resources": rig.HexList([]string{"*"}), "resourceNames": []string{}, "users": []string{},
				"serviceAccounts": []map[string]string{}, "userGroups": []string{}, "nonResourceURLs": rig.HexList([]string{"*"})}
		} else {
			p.Rules = append(p.Rules, mg.RuleJSON(mg.Rule(r, raw)))
		}
	}
	for _, e := range goodEndpoints {
		if r.Intn(4) == 0 {
			p.Subset = append(p.Subset, e)
		}
	}
	return p
}

func genPolicies(r *rand.Rand, raw bool) []WPolicy {
	var l []WPolicy
	for i, n := 0, r.Intn(4); i < n; i++ {
		l = append(l, genPolicy(r, raw))
	}
	return l
}

func genClient(r *rand.Rand) WClient {
	c := WClient{Insecure: r.Intn(2) == 0, Token: rig.Pick(r, []string{"", "t1", "t2"})}
	if r.Intn(3) == 0 {
		c.QPS, c.Burst = 5, 10
	}
	return c
}

func genObj(r *rand.Rand, name string, raw bool) WObj {
	return WObj{Name: name, Ann: genAnn(r), Servers: genServers(r, raw), SS: genSS(r), Schemas: genSchemas(r, raw),
		Policies: genPolicies(r, raw), Logging: rig.Pick(r, logModes), Client: genClient(r)}
}

// field groups of an object
const nFields = 8

// mutate changes field group f of o: a new random value, the empty value, or the value an earlier version had.
func mutate(r *rand.Rand, o *WObj, f int, earlier []WObj, raw bool) string {
	var src *WObj
	how := r.Intn(4)
	switch {
	case how == 0:
		z := WObj{Name: o.Name}
		src = &z
	case how == 1 && len(earlier) > 0:
		e := earlier[r.Intn(len(earlier))].clone()
		src = &e
	default:
		g := genObj(r, o.Name, raw)
		src = &g
	}
	tag := []string{"new", "cleared", "restored"}[map[bool]int{true: 1, false: 0}[how == 0]+map[bool]int{true: 2, false: 0}[how == 1 && len(earlier) > 0]]
	switch f {
	case 0:
		o.Ann = src.Ann
		return "annotations-" + tag
	case 1:
		o.Servers = src.Servers
		return "servers-" + tag
	case 2:
		o.SS.Key, o.SS.Cert = src.SS.Key, src.SS.Cert
		return "keycert-" + tag
	case 3:
		o.SS.CA = src.SS.CA
		return "clientca-" + tag
	case 4:
		o.SS.Names = src.SS.Names
		return "servernames-" + tag
	case 5:
		o.Schemas = src.Schemas
		return "schemas-" + tag
	case 6:
		o.Policies = src.Policies
		return "policies-" + tag
	default:
		o.Logging = src.Logging
		o.Client = src.Client
		return "logging-" + tag
	}
}

// finer mutations inside one field: one schema resized / retyped / removed, one server toggled / removed / added,
// one gate dropped.
func mutateFine(r *rand.Rand, o *WObj, raw bool) string {
	switch r.Intn(5) {
	case 0:
		if len(o.Schemas) > 0 {
			i := r.Intn(len(o.Schemas))
			old := o.Schemas[i]
			o.Schemas[i] = genSchema(r, old.Name, raw && r.Intn(4) == 0)
			if (old.Exempt != o.Schemas[i].Exempt) || ((old.Max == nil) != (o.Schemas[i].Max == nil)) {
				return "schema-retyped"
			}
			return "schema-resized"
		}
	case 1:
		if len(o.Schemas) > 0 {
			i := r.Intn(len(o.Schemas))
			o.Schemas = append(append([]WSchema{}, o.Schemas[:i]...), o.Schemas[i+1:]...)
			return "schema-removed"
		}
	case 2:
		if len(o.Servers) > 0 {
			i := r.Intn(len(o.Servers))
			switch r.Intn(3) {
			case 0:
				o.Servers[i].Dis = bp(true)
				return "server-disabled"
			case 1:
				o.Servers[i].Dis = nil
				return "server-enabled"
			default:
				o.Servers = append(append([]WServer{}, o.Servers[:i]...), o.Servers[i+1:]...)
				return "server-removed"
			}
		}
	case 3:
		o.Servers = append(o.Servers, WServer{Ep: rig.Pick(r, goodEndpoints)})
		return "server-added"
	case 4:
		if o.Ann != nil && len(*o.Ann) > 0 {
			a := (*o.Ann)[1:]
			o.Ann = &a
			return "annotation-entry-dropped"
		}
	}
	o.Logging = rig.Pick(r, logModes)
	return "logging-new"
}

// spoil makes a version inapplicable.
func spoil(r *rand.Rand, o *WObj) string {
	switch r.Intn(5) {
	case 0:
		a := [][2]string{{gateKey, rig.Pick(r, badGateVals)}}
		o.Ann = &a
		return "bad-gates"
	case 1:
		o.SS.CA = rig.Pick(r, []string{"BADCA", "TXT", "K1", "BADC"})
		return "bad-ca"
	case 2:
		o.SS.Cert, o.SS.Key = rig.Pick(r, []string{"BADC", "C1", "TXT", "K1"}), rig.Pick(r, []string{"BADK", "K2", "TXT", "C1"})
		return "bad-keypair"
	default:
		o.Servers = append(o.Servers, WServer{Ep: rig.Pick(r, badEndpoints)})
		r.Shuffle(len(o.Servers), func(i, j int) { o.Servers[i], o.Servers[j] = o.Servers[j], o.Servers[i] })
		return "bad-endpoint"
	}
}

func genProbes(r *rand.Rand) []mg.Attrs {
	ps := []mg.Attrs{}
	for _, v := range []string{"get", "list", "watch", "delete"} {
		ps = append(ps, mg.Attrs{Verb: v, User: "u", IsResource: true, APIGroup: "", Resource: "pods", Name: "p"})
	}
	ps = append(ps, mg.Attrs{Verb: "get", User: "u", Path: "/healthz"})
	for i := 0; i < 3; i++ {
		ps = append(ps, mg.GenAttrs(r, false))
	}
	return ps
}

// genHistory returns a history and the labels of what was varied (for the histogram).
func genHistory(r *rand.Rand, name string, maxLen int, raw bool) ([]WObj, []string) {
	n := 1 + r.Intn(maxLen)
	var hist []WObj
	var labels []string
	cur := genObj(r, name, raw)
	for i := 0; i < n; i++ {
		if i > 0 {
			next := cur.clone()
			switch r.Intn(13) {
			case 0: // an unrelated new object
				next = genObj(r, name, raw)
				labels = append(labels, "replaced")
			case 1: // identical re-delivery
				labels = append(labels, "identical")
			case 10, 11: // a write through the status subresource: only the annotations (the feature gates) change,
				// the spec stays, the real status strategy does not bump metadata.generation
				next.Ann = genAnn(r)
				next.Via = "status"
				labels = append(labels, "status-write-changes-annotations")
			case 12: // deleted and created again under the same name before the gateway looked: generation 1 again
				next = genObj(r, name, raw)
				next.Via = "recreate"
				labels = append(labels, "recreated-under-same-name")
			default:
				next.Via = ""
				for k, m := 0, 1+r.Intn(3); k < m; k++ {
					if r.Intn(3) == 0 {
						labels = append(labels, mutateFine(r, &next, raw))
					} else {
						labels = append(labels, mutate(r, &next, r.Intn(nFields), hist, raw))
					}
				}
			}
			cur = next
		}
		v := cur.clone()
		last := i == n-1
		if (!last && r.Intn(5) == 0) || (last && r.Intn(8) == 0) {
			labels = append(labels, spoil(r, &v))
			if last {
				labels = append(labels, "last-fails")
			}
			// the spoiled version is delivered; the next one derives from the unspoiled state half of the time
			if r.Intn(2) == 0 {
				cur = v.clone()
			}
		}
		hist = append(hist, v)
	}
	if raw && r.Intn(6) == 0 {
		// a version that makes the process panic ends the history
		v := cur.clone()
		v.Schemas = append(v.Schemas, genCrasher(r))
		hist = append(hist, v)
		labels = append(labels, "crasher")
	}
	return hist, labels
}
