package main

// Run-loop level: the REAL UpstreamClusterController built by the public NewUpstreamClusterController around a fake
// clientset and the generated informer, driven through its real Run() (real syncqueue, the real number of workers).
// A burst of versions of one cluster is written back to back; optionally ONE handler invocation is held back once,
// right after lister.Get returned (a goroutine descheduled between reading the object and applying it) until the
// remaining versions were written. When the loop is quiescent the existing judges are applied:
//   state of the cluster == fresh CreateClusterInfo(latest version), == KG.Spec.ClusterSync.expected(latest version),
//   hosts resolving to it == its latest server names.
// With the single worker the sequential controller model (and c11_controller) is about, the outcome is the same for
// every scheduling; with more workers an overtaken worker applies a superseded version last.
// Every wait is one-sided: a time-out makes the case inconclusive (counted, never a failure).

import (
	"context"
	"fmt"
	"strings"
	"sync"
	"sync/atomic"
	"time"

	metav1 "k8s.io/apimachinery/pkg/apis/meta/v1"
	"k8s.io/client-go/util/workqueue"

	proxyv1alpha1 "github.com/kubewharf/kubegateway/pkg/apis/proxy/v1alpha1"
	"github.com/kubewharf/kubegateway/pkg/client/informers"
	"github.com/kubewharf/kubegateway/pkg/client/kubernetes/fake"
	proxylisters "github.com/kubewharf/kubegateway/pkg/client/listers/proxy/v1alpha1"
	"github.com/kubewharf/kubegateway/pkg/clusters"
	"github.com/kubewharf/kubegateway/pkg/gateway/controllers"
	proxyoptions "github.com/kubewharf/kubegateway/pkg/gateway/proxy/options"
	"github.com/kubewharf/kubegateway/pkg/syncqueue"

	"math/rand"

	"verifharness/rig"
)

type RunScript struct {
	Versions []WObj `json:"versions"`
	Hold     int    `json:"hold"` // index (>= 1) of the version whose handler is held back once after lister.Get; -1: none
	Cure     *CureScript `json:"cure,omitempty"` // retry-budget scenario (cure.go) instead of a burst
}

type holdLister struct {
	proxylisters.UpstreamClusterLister
	mu      sync.Mutex
	armed   bool
	fetched chan struct{}
	release chan struct{}
}

func (l *holdLister) Get(name string) (*proxyv1alpha1.UpstreamCluster, error) {
	obj, err := l.UpstreamClusterLister.Get(name)
	l.mu.Lock()
	hold := l.armed
	if hold {
		l.armed = false
	}
	l.mu.Unlock()
	if hold {
		close(l.fetched)
		select {
		case <-l.release:
		case <-time.After(20 * time.Second):
		}
	}
	return obj, err
}

type runGateway struct {
	client   *fake.Clientset
	ctl      *controllers.UpstreamClusterController
	lister   *holdLister
	stop     chan struct{}
	started  int64
	finished int64
	panicMsg atomic.Value
	seen     map[*clusters.ClusterInfo]bool
}

func startRunGateway(global string) *runGateway { return startRunGatewayWith(global, nil, nil) }

// startRunGatewayWith: optionally the work queue is wrapped and every handler answer asking for a requeue is reported.
func startRunGatewayWith(global string, wrapQueue func(workqueue.RateLimitingInterface) workqueue.RateLimitingInterface, askedRequeue func(item interface{})) *runGateway {
	g := &runGateway{client: fake.NewSimpleClientset(), stop: make(chan struct{}), seen: map[*clusters.ClusterInfo]bool{}}
	factory := informers.NewSharedInformerFactory(g.client, 0)
	if global == "" {
		global = "local"
	}
	g.ctl = controllers.NewUpstreamClusterController(factory.Proxy().V1alpha1().UpstreamClusters(), &proxyoptions.RateLimiterOptions{RateLimiter: global})
	g.ctl.VerifC11Instrument(func(l proxylisters.UpstreamClusterLister) proxylisters.UpstreamClusterLister {
		g.lister = &holdLister{UpstreamClusterLister: l, fetched: make(chan struct{}), release: make(chan struct{})}
		return g.lister
	}, func(h syncqueue.SyncHandler) syncqueue.SyncHandler {
		return func(obj interface{}) (res syncqueue.Result, err error) {
			atomic.AddInt64(&g.started, 1)
			defer atomic.AddInt64(&g.finished, 1)
			defer func() {
				if r := recover(); r != nil {
					g.panicMsg.Store(fmt.Sprint(r))
					res, err = syncqueue.Result{}, nil
				}
			}()
			res, err = h(obj)
			if askedRequeue != nil && err == nil && (res.Requeue || res.RequeueAfter > 0) {
				askedRequeue(obj)
			}
			return res, err
		}
	})
	if wrapQueue != nil {
		g.ctl.VerifC11WrapQueue(wrapQueue)
	}
	factory.Start(g.stop)
	go g.ctl.Run(g.stop)
	return g
}

func (g *runGateway) track(hosts []string) {
	for _, h := range hosts {
		if ci, ok := g.ctl.Get(h); ok {
			g.seen[ci] = true
		}
	}
}

func (g *runGateway) shutdown(hosts []string) {
	g.track(hosts)
	close(g.stop)
	for ci := range g.seen {
		stopCluster(ci)
	}
}

func waitFor(cond func() bool, timeout time.Duration) bool {
	deadline := time.Now().Add(timeout)
	for {
		if cond() {
			return true
		}
		if time.Now().After(deadline) {
			return false
		}
		time.Sleep(2 * time.Millisecond)
	}
}

func runLoop(c *rig.Ctx, cs Case) verdict {
	if cs.Run != nil && cs.Run.Cure != nil {
		return runCure(c, cs)
	}
	if cs.Run == nil || len(cs.Run.Versions) == 0 {
		return pass
	}
	st := newStamper(cs.Stamp)
	var vs []WObj
	var objs []*proxyv1alpha1.UpstreamCluster
	for _, o := range cs.Run.Versions {
		e, obj := st.write(o)
		vs, objs = append(vs, e), append(objs, obj)
	}
	name := vs[0].Name
	latest := vs[len(vs)-1]
	u := universeOf(vs, cs.Probes)
	hosts := []string{name}
	seenH := map[string]bool{strings.ToLower(name): true}
	for _, v := range vs {
		for _, s := range v.SS.Names {
			if !seenH[strings.ToLower(s)] {
				seenH[strings.ToLower(s)] = true
				hosts = append(hosts, s)
			}
		}
	}
	inconclusive := func(why string) verdict {
		c.Count("run-inconclusive:" + why)
		return pass
	}

	// what a fresh gateway makes of the latest version
	var fci *clusters.ClusterInfo
	var ferr error
	_, fp := rig.Recover(func() { fci, ferr = clusters.CreateClusterInfo(objs[len(objs)-1].DeepCopy(), cheapHealthCheck, cs.Global, nil) })
	if fp || ferr != nil {
		stopCluster(fci)
		return inconclusive("latest-version-not-applicable")
	}
	freshObs := observeReal(fci, u)
	stopCluster(fci)

	g := startRunGateway(cs.Global)
	defer g.shutdown(hosts)
	api := g.client.ProxyV1alpha1().UpstreamClusters()
	ctx := context.TODO()
	served := func() *Obs {
		ci, ok := g.ctl.Get(name)
		if !ok || ci.Cluster != strings.ToLower(name) {
			return nil
		}
		g.seen[ci] = true
		o := observeReal(ci, u)
		return &o
	}

	if _, err := api.Create(ctx, objs[0].DeepCopy(), metav1.CreateOptions{}); err != nil {
		return inconclusive("fake-clientset-create")
	}
	if !waitFor(func() bool { return atomic.LoadInt64(&g.finished) >= 1 }, 20*time.Second) {
		return inconclusive("first-version-never-handled")
	}
	held := false
	for i := 1; i < len(vs); i++ {
		if i == cs.Run.Hold {
			g.lister.mu.Lock()
			g.lister.armed = true
			g.lister.mu.Unlock()
		}
		if _, err := api.Update(ctx, objs[i].DeepCopy(), metav1.UpdateOptions{}); err != nil {
			return inconclusive("fake-clientset-update")
		}
		if i == cs.Run.Hold {
			select {
			case <-g.lister.fetched:
				held = true
			case <-time.After(20 * time.Second):
				close(g.lister.release)
				return inconclusive("held-version-never-picked-up")
			}
		}
	}
	if held {
		// give another worker (if there is one) the time to apply the later versions while this one is held back
		if cs.Run.Hold < len(vs)-1 {
			overtaken := waitFor(func() bool {
				s := served()
				return s != nil && len(obsDiff(*s, freshObs, true)) == 0
			}, 700*time.Millisecond)
			if overtaken && countOutcomes {
				c.Count("run-held-worker-overtaken")
			}
		}
		close(g.lister.release)
	}
	// quiescence: every event was handled, nothing is queued, and it stays so
	quiet := func() bool {
		return atomic.LoadInt64(&g.finished) >= int64(len(vs)) && atomic.LoadInt64(&g.started) == atomic.LoadInt64(&g.finished) && g.ctl.VerifC11QueueLen() == 0
	}
	if !waitFor(quiet, 40*time.Second) {
		return inconclusive("never-quiescent")
	}
	time.Sleep(60 * time.Millisecond)
	if !quiet() {
		if !waitFor(quiet, 20*time.Second) {
			return inconclusive("never-quiescent")
		}
		time.Sleep(60 * time.Millisecond)
	}
	if countOutcomes {
		c.Count(fmt.Sprintf("run-handler-invocations=%d-for-%d-versions", atomic.LoadInt64(&g.finished), len(vs)))
	}
	if m := g.panicMsg.Load(); m != nil {
		return verdict{kind: "judge", class: "c11.run.handler-panic", impl: m,
			what: "the sync handler panicked inside the real Run loop: " + fmt.Sprint(m)}
	}

	got := served()
	if got == nil {
		return verdict{kind: "judge", class: "c11.run.not-served",
			what: fmt.Sprintf("after %d versions written back to back and quiescence of the real Run loop, cluster %s is not served", len(vs), name)}
	}
	if d := obsDiff(*got, freshObs, true); len(d) > 0 {
		return verdict{kind: "judge", class: "c11.run.fresh-differs." + d[0], impl: map[string]interface{}{"long-lived": got, "fresh": freshObs},
			what: fmt.Sprintf("real Run loop, %d versions of %s written back to back (handler of version %d held once after lister.Get): when everything is quiet the cluster differs from a fresh ClusterInfo given only the latest version in: %s",
				len(vs), name, cs.Run.Hold+1, strings.Join(d, ", "))}
	}
	want := map[string]bool{strings.ToLower(name): true}
	for _, s := range latest.SS.Names {
		want[strings.ToLower(s)] = true
	}
	var res, exp []string
	for _, h := range hosts {
		lh := strings.ToLower(h)
		if ci, ok := g.ctl.Get(h); ok && ci.Cluster == strings.ToLower(name) {
			res = append(res, lh)
		}
		if want[lh] {
			exp = append(exp, lh)
		}
	}
	if strings.Join(res, ",") != strings.Join(exp, ",") {
		return verdict{kind: "judge", class: "c11.run.names", impl: map[string]interface{}{"resolving": res, "latest-object-names": exp},
			what: fmt.Sprintf("real Run loop: when everything is quiet the hosts resolving to %s are %v while its latest object names %v", name, res, exp)}
	}
	// the Lean judge on the implementation's state
	probes := []map[string]interface{}{}
	for _, a := range cs.Probes {
		probes = append(probes, a.JSON())
	}
	req := map[string]interface{}{"env": modelEnv(), "conn": map[string]interface{}{"global": rig.Hex(cs.Global), "skip": false},
		"history": []map[string]interface{}{{"obj": latest.Model()}}, "eps": rig.HexList(u.Eps), "names": rig.HexList(u.Names), "probes": probes}
	var ms []mStep
	if err := c.Model("C11.run", req, &ms); err != nil || len(ms) != 1 || ms[0].Expected == nil {
		return verdict{kind: "diff", class: "c11.model-error", what: fmt.Sprintf("model error: %v", err)}
	}
	if d := obsDiff(*got, ms[0].Expected.Obs(), false); len(d) > 0 {
		return verdict{kind: "judge", class: "c11.run.expected-differs." + d[0], impl: got, model: ms[0].Expected.Obs(),
			what: fmt.Sprintf("real Run loop: when everything is quiet cluster %s is not what its latest version prescribes in: %s", name, strings.Join(d, ", "))}
	}
	return pass
}

// genRun: a burst of applicable versions of one cluster. Pinned cases hold the handler of one middle version;
// natural cases make a middle version heavy (many endpoints) and leave the rest to the scheduler.
func genRun(r *rand.Rand, pinned bool) (Case, []string) {
	cs := Case{Mode: "run", Global: rig.Pick(r, []string{"", "remote"}), Probes: genProbes(r)[:5], Stamp: true}
	n := 3 + r.Intn(3)
	var vs []WObj
	cur := genObj(r, "c.example", false)
	for i := 0; i < n; i++ {
		if i > 0 {
			next := cur.clone()
			for k, m := 0, 2+r.Intn(3); k < m; k++ {
				mutate(r, &next, r.Intn(nFields), vs, false)
			}
			// consecutive versions differ visibly in several facets
			next.Logging = []string{"on", "off", ""}[i%3]
			next.SS.Names = []string{fmt.Sprintf("v%d.example", i)}
			cur = next
		}
		if len(cur.Servers) == 0 {
			cur.Servers = []WServer{{Ep: goodEndpoints[i%len(goodEndpoints)]}}
		}
		vs = append(vs, cur.clone())
	}
	labels := []string{"run-natural"}
	hold := -1
	if pinned {
		hold = 1 + r.Intn(n-2)
		labels = []string{"run-pinned"}
	} else {
		h := 1 + r.Intn(n-2)
		for k := 0; k < 120; k++ {
			vs[h].Servers = append(vs[h].Servers, WServer{Ep: fmt.Sprintf("http://127.0.%d.%d:1", 1+k/200, 1+k%200)})
		}
	}
	cs.Run = &RunScript{Versions: vs, Hold: hold}
	return cs, labels
}
