package main

// Objects as the shipped control plane stores them: metadata.generation (and uid) are stamped by the REAL REST strategies
// of the registry (registry.DefaultRESTStrategy.PrepareForCreate / PrepareForUpdate, DefaultStatusRESTStrategy.PrepareForUpdate),
// applied in the order the versions are written. A version is written through the main resource (""), through the
// status subresource ("status": the stored spec is kept, the request's annotations — the feature gates! — are stored,
// the generation is not bumped) or after a delete under the same name ("recreate": generation 1 again).

import (
	"context"
	"fmt"

	"k8s.io/apimachinery/pkg/types"

	"github.com/kubewharf/apiserver-runtime/pkg/registry"

	proxyv1alpha1 "github.com/kubewharf/kubegateway/pkg/apis/proxy/v1alpha1"
)

var (
	mainStrategy   = registry.NewDefaultRESTStrategy(false, true)
	statusStrategy = registry.NewDefaultStatusRESTStrategy(false)
)

type stamper struct {
	on     bool
	stored map[string]*proxyv1alpha1.UpstreamCluster
	eff    map[string]WObj // the effective content of the stored object, as the model is told
	n      int
}

func newStamper(on bool) *stamper {
	return &stamper{on: on, stored: map[string]*proxyv1alpha1.UpstreamCluster{}, eff: map[string]WObj{}}
}

// effective: what is stored when version o is written (a status write keeps the stored spec).
func (s *stamper) effective(o WObj) WObj {
	if prev, ok := s.eff[o.Name]; ok && s.on && o.Via == "status" {
		e := prev.clone()
		e.Ann = o.clone().Ann
		e.Via = o.Via
		return e
	}
	return o
}

// write stamps version o and returns the effective wire object and the API object that is stored/delivered.
func (s *stamper) write(o WObj) (WObj, *proxyv1alpha1.UpstreamCluster) {
	s.n++
	e := s.effective(o)
	obj := e.Real(fmt.Sprint(s.n))
	if s.on {
		old := s.stored[o.Name]
		ctx := context.TODO()
		switch {
		case old == nil || o.Via == "recreate":
			mainStrategy.PrepareForCreate(ctx, obj)
			obj.UID = types.UID(fmt.Sprintf("uid-%d", s.n))
		case o.Via == "status":
			obj.Generation, obj.UID = old.Generation, old.UID
			statusStrategy.PrepareForUpdate(ctx, obj, old)
		default:
			obj.Generation, obj.UID = old.Generation, old.UID
			mainStrategy.PrepareForUpdate(ctx, obj, old)
		}
	}
	s.stored[o.Name] = obj.DeepCopy()
	s.eff[o.Name] = e
	return e, obj
}

func (s *stamper) forget(name string) {
	delete(s.stored, name)
	delete(s.eff, name)
}
