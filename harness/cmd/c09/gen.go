package main

import (
	"math"

	"verifharness/rig"
)

func p64(v int64) *int64 { return &v }

const (
	minI32 = int64(math.MinInt32)
	maxI32 = int64(math.MaxInt32)
	sec    = int64(1e9)
)

type gen struct {
	c *rig.Ctx
	// the schema in force (for choosing interesting limits)
	cur    Schema
	kindMI bool
	rt     int64 // last fresh request time handed out
	now    int64 // heartbeat clock
	// mirror of the heartbeat status, only used to keep the clock away from the 5 s threshold (real time adds µs)
	hbState   bool
	hbChanged int64
	hbAny     bool
	leader    int // the leader the clientSets knows for the cluster's shard (0: none)
	nextID    int
	issued    []int
}

func (g *gen) acquire() Op {
	g.nextID++
	g.issued = append(g.issued, g.nextID)
	return Op{Op: "acquire", ID: g.nextID}
}

func (g *gen) release() Op {
	if len(g.issued) == 0 {
		return Op{Op: "release", ID: 1 + g.n(3)}
	}
	k := g.n(len(g.issued))
	id := g.issued[k]
	g.issued = append(g.issued[:k], g.issued[k+1:]...)
	return Op{Op: "release", ID: id}
}

// tickOp: one round of the counter manager; the server answers the request (if one is sent) with accept mostly
func (g *gen) tickOp(acceptPercent int) Op {
	// never within (95 ms, 100 ms) of the previous answer: the wrapper compares the wall clock with 100 ms
	// the judge demands a request at the latest resyncBound = 10 s after the last contact (the code's period is 2 s)
	g.now += rig.Pick(g.c.Rng, []int64{sec / 20, sec / 5, 9 * sec / 10, 9 * sec / 10, sec, 3 * sec, 5 * sec, 12 * sec, 12 * sec, 25 * sec})
	op := Op{Op: "tick", Now: g.now}
	switch x := g.n(100); {
	case x < acceptPercent:
		op.Ans = &TickAns{Accept: true, Limit: g.limit()}
	case x < acceptPercent+(100-acceptPercent)/3:
		op.Ans = &TickAns{Accept: false, Limit: g.limit()}
	case x < acceptPercent+2*(100-acceptPercent)/3:
		op.Ans = &TickAns{Err: rig.Pick(g.c.Rng, []string{"timeout", "limiter server unavailable", "RequestIDTooOld"})}
	}
	return op
}

// syncOp: one server-info sync: unreachable, no endpoint for the shard, the known leader again (most), or a new one
func (g *gen) syncOp(n int) Op {
	op := Op{Op: "sync", N: n, OtherLeader: g.n(3)}
	g.now += rig.Pick(g.c.Rng, []int64{sec / 10, sec, 2 * sec, 2 * sec, 3 * sec})
	op.Now = g.now
	switch x := g.n(100); {
	case x < 12:
		op.Fail = true
	case x < 22:
	case x < 80 && g.leader > 0:
		op.Leader = g.leader
	default:
		op.Leader = 1 + (g.leader+g.n(2))%3
	}
	if g.n(12) == 0 {
		op.N = 0
	}
	if !op.Fail && op.Leader > 0 && op.Leader != g.leader {
		// a changed leader is a success for setLeaderStatus
		g.leader = op.Leader
		g.hbState, g.hbChanged, g.hbAny = true, op.Now, true
	}
	return op
}

func (g *gen) n(k int) int { return g.c.Rng.Intn(k) }

func (g *gen) strategy() string {
	switch x := g.n(100); {
	case x < 40:
		return "globalCount"
	case x < 80:
		return "globalAllocate"
	case x < 88:
		return "local"
	case x < 96:
		return ""
	}
	return "bogus"
}

func (g *gen) schema(kindMI bool) Schema {
	s := Schema{Strategy: g.strategy()}
	if kindMI {
		local := rig.Pick(g.c.Rng, []int64{0, 1, 2, 5, 10, 50, 50, 120})
		var global int64
		switch x := g.n(20); {
		case x < 14:
			global = local + rig.Pick(g.c.Rng, []int64{0, 1, 5, 50, 90, 250})
		case x < 16:
			global = maxI32
		case x < 18:
			global = 100000
		default:
			global = local + int64(g.n(300))
		}
		s.MI, s.GMI = p64(local), p64(global)
	} else {
		q := rig.Pick(g.c.Rng, []int64{1, 2, 10, 50, 50, 400})
		b := q + rig.Pick(g.c.Rng, []int64{0, 0, 1, 10, 50})
		gq := q + rig.Pick(g.c.Rng, []int64{0, 1, 50, 90, 950})
		gb := b + rig.Pick(g.c.Rng, []int64{0, 0, 1, 100, 1000})
		if g.n(12) == 0 {
			gq, gb = maxI32, maxI32
		}
		s.TB, s.GTB = &[2]int64{q, b}, &[2]int64{gq, gb}
	}
	return s
}

// limits around everything the code compares with
func (g *gen) limit() int64 {
	var local, global int64 = 10, 100
	if g.cur.MI != nil {
		local, global = *g.cur.MI, *g.cur.GMI
	} else if g.cur.TB != nil {
		local, global = g.cur.TB[0], g.cur.GTB[0]
		if g.n(2) == 0 {
			local, global = g.cur.TB[1], g.cur.GTB[1]
		}
	}
	reserve := global * 2 / 100
	if !g.kindMI {
		reserve = global * 5 / 100
	}
	if reserve < 1 {
		reserve = 1
	}
	set := []int64{minI32, -300, -1, 0, 1, reserve, reserve + 1, local, global - 1, global, global + 1, maxI32, 2, 3}
	switch x := g.n(10); {
	case x < 7:
		v := rig.Pick(g.c.Rng, set)
		if v > maxI32 {
			v = maxI32
		}
		if v < minI32 {
			v = minI32
		}
		return v
	case x < 9:
		if global <= 0 || global > 1000000 {
			return int64(g.n(500))
		}
		return int64(g.n(int(2*global) + 2))
	}
	return int64(int32(g.c.Rng.Uint32()))
}

func (g *gen) item() *Item {
	it := &Item{Strategy: g.cur.Strategy}
	if g.n(8) == 0 {
		it.Strategy = g.strategy()
	}
	sameKind := g.kindMI
	switch x := g.n(40); {
	case x < 32: // the schema's type
	case x < 35:
		sameKind = !sameKind
	case x < 38: // both
		it.MI = p64(g.limit())
		it.TB = &[2]int64{g.limit(), g.limit()}
		return it
	default: // no quota
		return it
	}
	if sameKind {
		it.MI = p64(g.limit())
	} else {
		it.TB = &[2]int64{g.limit(), g.limit()}
	}
	return it
}

func (g *gen) reply() Op {
	op := Op{Op: "setlimit", Accept: g.n(2) == 0, Limit: g.limit(), HasReq: g.n(2) == 0}
	if op.HasReq {
		op.Tokens = rig.Pick(g.c.Rng, []int64{0, 1, 5, -1, 100, maxI32, minI32})
	}
	switch x := g.n(100); {
	case x < 58:
	case x < 66:
		op.Err = "RequestIDTooOld"
	case x < 80:
		op.Err = "timeout"
	default:
		op.Err = "limiter server unavailable"
	}
	switch x := g.n(100); {
	case x < 68:
		g.rt += int64(1 + g.n(1000))
		op.RT = g.rt
	case x < 78:
		op.RT = 0 // what resetCheck sends
	case x < 94:
		op.RT = g.rt - int64(g.n(3))*int64(g.n(1000)) // stale or equal
	default:
		op.RT = -int64(g.n(1000)) - 1
	}
	return op
}

func (g *gen) hb() Op { return g.hbp(50) }

// hbp: a heartbeat that succeeds with probability okPercent
func (g *gen) hbp(okPercent int) Op {
	op := Op{Op: "hb", OK: g.n(100) < okPercent}
	if g.n(10) == 0 {
		op.Other = true
		op.OK = g.n(2) == 0
		return op
	}
	dt := rig.Pick(g.c.Rng, []int64{sec / 10, sec, sec, 5 * sec / 2, 4 * sec, 49 * sec / 10, 5 * sec, 51 * sec / 10, 6 * sec, 20 * sec})
	// keep the decisive comparison `now > lastChange + 5s` at least 50 ms away from equality: the real clock adds
	// the few microseconds that pass between two calls
	now := g.now + dt
	if g.hbAny && !op.OK && !g.hbState {
		if d := now - g.hbChanged - 5*sec; d > -sec/20 && d <= sec/20 {
			now += sec / 10
		}
	}
	g.now = now
	op.Now = now
	if !g.hbAny || g.hbState != op.OK {
		g.hbState, g.hbChanged = op.OK, now
	}
	g.hbAny = true
	return op
}

func (g *gen) meter() Op {
	op := Op{Op: "meter", Max: g.limit(), RateDen: rig.Pick(g.c.Rng, []int64{1, 1, 2, 4})}
	r := g.limit()
	if r < 0 {
		r = -r % 5000
	}
	op.RateNum = r*op.RateDen + int64(g.n(int(op.RateDen)))
	return op
}

// genScenario builds a case from a scripted skeleton with random parameters: the sequences the property is about
// (outage, reconfiguration during it, recovery; repeated answers around a lowered limit; heartbeat flaps around the
// time-out) that a uniform op mix reaches only rarely.
func genScenario(c *rig.Ctx, i int) Case {
	g := &gen{c: c, rt: 1000, now: 10 * sec}
	cs := Case{Shards: 1 + g.n(3), Cfg: Cfg{RateLimiter: "remote", HasCS: true}}
	g.kindMI = g.n(100) < 60
	maxGlobal := int64(0)
	note := func(s Schema) {
		if s.GMI != nil && *s.GMI > maxGlobal {
			maxGlobal = *s.GMI
		}
	}
	sch := func(strategy string) Op {
		s := g.schema(g.kindMI)
		s.Strategy = strategy
		g.cur = s
		note(s)
		return Op{Op: "schema", Schema: &s}
	}
	fresh := func(op Op) Op { g.rt += int64(1 + g.n(50)); op.RT = g.rt; return op }
	var ops []Op
	ready := func() {
		if g.n(2) == 0 {
			// everything is learnt from the server info: shard count and leader (a new leader is ready at once)
			op := g.syncOp(cs.Shards)
			op.Fail, op.N, op.Leader = false, cs.Shards, 1
			g.leader = 1
			g.hbState, g.hbChanged, g.hbAny = true, op.Now, true
			ops = append(ops, op)
			return
		}
		ops = append(ops, Op{Op: "shards", N: cs.Shards})
		h := g.hb()
		h.OK, h.Other = true, false
		g.hbState, g.hbChanged = true, h.Now
		ops = append(ops, h)
	}
	maybe := func(p int, f func()) {
		if g.n(100) < p {
			f()
		}
	}
	errReply := func() Op {
		return fresh(Op{Op: "setlimit", Err: rig.Pick(g.c.Rng, []string{"timeout", "limiter server unavailable"}), Accept: g.n(2) == 0, Limit: g.limit()})
	}
	switch g.n(14) {
	case 12, 13: // the limiter mode is switched away and back while the server is not ready (the reconcile loop's SECOND start),
		// then the limits change: the restarted loop must still apply them
		strat := rig.Pick(g.c.Rng, []string{"globalCount", "globalAllocate", "globalAllocate"})
		grant := func() {
			if strat == "globalCount" {
				ops = append(ops, Op{Op: "reconcile"})
				maybe(80, func() {
					ops = append(ops, fresh(Op{Op: "setlimit", Accept: true, Limit: rig.Pick(g.c.Rng, []int64{maxI32, 100000, g.limit()})}))
				})
			} else {
				it := g.item()
				it.Strategy = strat
				ops = append(ops, Op{Op: "answer", Named: true, Item: it})
			}
		}
		maybe(30, func() { ops = append(ops, Op{Op: "restart"}) }) // before anything is known: not ready
		ops = append(ops, sch(strat))
		ready()
		maybe(80, grant)
		for k := 0; k < 1+g.n(2); k++ {
			ops = append(ops, Op{Op: "shards", N: 0}, Op{Op: "restart"})
			maybe(30, func() { ops = append(ops, Op{Op: "restart"}) })
			ops = append(ops, Op{Op: "shards", N: cs.Shards})
			for j := 0; j < 1+g.n(3); j++ {
				ops = append(ops, sch(strat)) // new limits, often a lowered global one
				grant()
				maybe(40, func() { ops = append(ops, errReply()) })
			}
		}
	case 9: // the global strategy is switched off and on again before the goroutines of the stopped wrapper get to run
		cs.LateStops = true
		g.kindMI = true
		ops = append(ops, sch("globalCount"))
		ready()
		ops = append(ops, Op{Op: "reconcile"})
		for k := 0; k < g.n(3); k++ { // each rebuild inside the wrapper leaves one more goroutine waiting for its stop
			ops = append(ops, sch("globalAllocate"), Op{Op: "answer", Named: true, Item: &Item{Strategy: "globalAllocate", MI: p64(g.limit())}})
			ops = append(ops, sch("globalCount"), Op{Op: "reconcile"})
		}
		for k := 0; k < 1+g.n(2); k++ {
			ops = append(ops, sch(rig.Pick(g.c.Rng, []string{"local", ""})))
			ops = append(ops, sch("globalCount"), Op{Op: "reconcile"})
			for j := 0; j < 1+g.n(3); j++ {
				maybe(50, func() { ops = append(ops, Op{Op: "event"}) })
				ops = append(ops, g.tickOp(70))
			}
		}
	case 10: // the schema's TYPE changes while a remote limiter exists: error replies, answers and requests in the window
		cs.KindChange = true
		strat := rig.Pick(g.c.Rng, []string{"globalCount", "globalCount", "globalAllocate"})
		sync := func() {
			if strat == "globalCount" {
				ops = append(ops, Op{Op: "reconcile"})
			} else {
				ops = append(ops, Op{Op: "answer", Named: true, Item: g.item()})
			}
		}
		ops = append(ops, sch(strat))
		ready()
		sync()
		maybe(50, func() { ops = append(ops, fresh(Op{Op: "setlimit", Accept: true, Limit: g.limit()})) })
		for k := 0; k < 1+g.n(3); k++ {
			g.kindMI = !g.kindMI
			maybe(30, func() { strat = rig.Pick(g.c.Rng, []string{"globalCount", "globalAllocate"}) })
			ops = append(ops, sch(strat))
			maybe(70, func() { ops = append(ops, errReply()) })
			maybe(40, func() { ops = append(ops, g.tickOp(30)) })
			sync()
			maybe(60, func() { ops = append(ops, errReply()) })
			maybe(50, func() { ops = append(ops, fresh(Op{Op: "setlimit", Accept: true, Limit: g.limit()})) })
		}
	case 11: // requests in flight while the item's strategy changes (answered by the server, or the schema's own)
		g.kindMI = true
		strat := rig.Pick(g.c.Rng, []string{"globalCount", "globalAllocate", "globalAllocate"})
		ops = append(ops, sch(strat))
		ready()
		grant := func() {
			if strat == "globalCount" {
				ops = append(ops, Op{Op: "reconcile"})
				maybe(85, func() {
					ops = append(ops, fresh(Op{Op: "setlimit", Accept: true, Limit: rig.Pick(g.c.Rng, []int64{maxI32, *g.cur.GMI, g.limit()})}))
				})
			} else {
				st := rig.Pick(g.c.Rng, []string{"globalAllocate", "globalAllocate", "", "local", "globalCount", "bogus"})
				ops = append(ops, Op{Op: "answer", Named: true, Item: &Item{Strategy: st, MI: p64(rig.Pick(g.c.Rng, []int64{maxI32, *g.cur.GMI, g.limit()}))}})
			}
		}
		grant()
		for k := 0; k < 2+g.n(4); k++ {
			for j := 0; j < 1+g.n(6); j++ {
				ops = append(ops, g.acquire())
				maybe(25, func() { ops = append(ops, g.release()) })
			}
			maybe(35, func() {
				strat = rig.Pick(g.c.Rng, []string{"globalCount", "globalAllocate"})
				s := g.cur
				s.Strategy = strat
				g.cur = s
				ops = append(ops, Op{Op: "schema", Schema: &s})
			})
			grant()
		}
	case 6, 7: // requests in flight across a change of the global limit (resize in place must keep counting them)
		g.kindMI = true
		strat := rig.Pick(g.c.Rng, []string{"globalCount", "globalCount", "globalAllocate"})
		ops = append(ops, sch(strat))
		ready()
		sync := func() {
			if strat == "globalCount" {
				ops = append(ops, Op{Op: "reconcile"})
				// the server grants (up to) the whole limit
				maybe(85, func() {
					ops = append(ops, fresh(Op{Op: "setlimit", Accept: true, Limit: rig.Pick(g.c.Rng, []int64{maxI32, *g.cur.GMI, g.limit()})}))
				})
			} else {
				it := &Item{Strategy: strat, MI: p64(rig.Pick(g.c.Rng, []int64{maxI32, *g.cur.GMI, g.limit()}))}
				ops = append(ops, Op{Op: "answer", Named: true, Item: it})
			}
		}
		sync()
		for k := 0; k < 2+g.n(14); k++ {
			ops = append(ops, g.acquire())
		}
		maybe(40, func() { ops = append(ops, g.release()) })
		for r := 0; r < 1+g.n(3); r++ {
			// the limit changes (any other value), the strategy does not
			s := g.schema(true)
			s.Strategy = strat
			if g.n(2) == 0 {
				s.MI = g.cur.MI
				if *s.GMI < *s.MI {
					s.GMI = s.MI
				}
			}
			g.cur = s
			note(s)
			ops = append(ops, Op{Op: "schema", Schema: &s})
			sync()
			for k := 0; k < 1+g.n(6); k++ {
				ops = append(ops, g.acquire())
			}
			maybe(50, func() { ops = append(ops, g.release(), g.acquire()) })
			maybe(20, func() { ops = append(ops, errReply()) })
		}
	case 8: // failed or refused acquire requests that carried tokens, then recovery: the tokens must not stay accounted
		g.kindMI = false
		s := g.schema(false)
		s.Strategy = "globalCount"
		gq := rig.Pick(g.c.Rng, []int64{20, 39, 45, 60, 100})
		s.TB, s.GTB = &[2]int64{1, 5}, &[2]int64{gq, gq + 100}
		g.cur = s
		ops = append(ops, Op{Op: "schema", Schema: &s})
		ready()
		ops = append(ops, Op{Op: "reconcile"})
		// the requests fail (an error), are refused (no error, not accepted), or a mix of both
		mode := g.n(3)
		for k := 0; k < 2+g.n(5); k++ {
			ops = append(ops, Op{Op: "event"})
			op := g.tickOp(0)
			if mode == 0 || (mode == 2 && g.n(2) == 0) {
				op.Ans = &TickAns{Err: rig.Pick(g.c.Rng, []string{"timeout", "limiter server unavailable"})}
			} else {
				op.Ans = &TickAns{Accept: false, Limit: rig.Pick(g.c.Rng, []int64{0, 0, -1, 1, 1000})}
			}
			ops = append(ops, op)
		}
		// the server is back; it grants nothing at first, so the reserve stays empty and there is room to ask
		for k := 0; k < 2+g.n(3); k++ {
			maybe(60, func() { ops = append(ops, Op{Op: "event"}) })
			op := g.tickOp(100)
			op.Ans = &TickAns{Accept: true, Limit: rig.Pick(g.c.Rng, []int64{0, 0, -1, 1})}
			ops = append(ops, op)
		}
		for k := 0; k < 2+g.n(3); k++ {
			ops = append(ops, Op{Op: "event"})
			op := g.tickOp(100)
			op.Ans = &TickAns{Accept: true, Limit: rig.Pick(g.c.Rng, []int64{0, 1, 1000})}
			ops = append(ops, op)
		}
	case 4, 5: // global count, request side: the counter manager's rounds — fill, fail while idle, recover
		ops = append(ops, sch("globalCount"))
		ready()
		ops = append(ops, Op{Op: "reconcile"})
		grant := func() Op {
			op := g.tickOp(100)
			// a grant of at least the reserve fills it: nothing left to ask for (ExpectToken() == 0)
			op.Ans = &TickAns{Accept: true, Limit: rig.Pick(g.c.Rng, []int64{maxI32, 100000, g.limit()})}
			return op
		}
		maybe(70, func() { ops = append(ops, Op{Op: "event"}) })
		for k := 0; k < 1+g.n(3); k++ {
			ops = append(ops, grant())
		}
		maybe(50, func() { ops = append(ops, g.meter()) })
		// the outage: the reset check's time-out, an error answer, or unanswered rounds
		switch g.n(3) {
		case 0:
			ops = append(ops, Op{Op: "setlimit", Err: "timeout"})
		case 1:
			op := g.tickOp(0)
			op.Ans = &TickAns{Err: "limiter server unavailable"}
			ops = append(ops, op, Op{Op: "setlimit", Err: "timeout"})
		default:
			for k := 0; k < 2; k++ {
				op := g.tickOp(0)
				op.Ans = nil
				ops = append(ops, op)
			}
			ops = append(ops, Op{Op: "setlimit", Err: "timeout"})
		}
		maybe(25, func() { ops = append(ops, Op{Op: "event"}) })
		// the server is back: every request is answered with accept
		for k := 0; k < 3+g.n(5); k++ {
			ops = append(ops, grant())
			maybe(10, func() { ops = append(ops, Op{Op: "event"}) })
		}
	case 0, 1: // global count: outage, reconfiguration during the outage, recovery
		ops = append(ops, sch("globalCount"))
		ready()
		ops = append(ops, Op{Op: "reconcile"})
		maybe(60, func() { ops = append(ops, fresh(Op{Op: "setlimit", Accept: g.n(3) != 0, Limit: g.limit()})) })
		maybe(70, func() { ops = append(ops, g.meter()) })
		ops = append(ops, errReply())
		maybe(40, func() { ops = append(ops, errReply()) })
		maybe(70, func() { ops = append(ops, sch("globalCount"), Op{Op: "reconcile"}) })
		maybe(40, func() {
			ops = append(ops, Op{Op: "setlimit", Accept: true, Limit: g.limit(), RT: g.rt - int64(g.n(3))})
		}) // stale
		maybe(30, func() {
			ops = append(ops, fresh(Op{Op: "setlimit", Err: "RequestIDTooOld", Accept: true, Limit: g.limit()}))
		})
		ops = append(ops, fresh(Op{Op: "setlimit", Accept: g.n(4) != 0, Limit: g.limit()}))
		maybe(50, func() { ops = append(ops, sch("globalCount"), Op{Op: "reconcile"}) })
		maybe(50, func() { ops = append(ops, fresh(Op{Op: "setlimit", Accept: true, Limit: g.limit()})) })
		maybe(30, func() {
			ops = append(ops, errReply(), Op{Op: "reconcile"}, fresh(Op{Op: "setlimit", Accept: true, Limit: g.limit()}))
		})
	case 2: // global allocate: answers around a limit that is lowered and raised, the same answer repeated
		ops = append(ops, sch("globalAllocate"))
		ready()
		it := g.item()
		it.Strategy = "globalAllocate"
		ops = append(ops, Op{Op: "answer", Named: true, Item: it})
		for k := 0; k < 2+g.n(4); k++ {
			maybe(60, func() { ops = append(ops, sch("globalAllocate")) })
			if g.n(2) == 0 {
				ops = append(ops, Op{Op: "answer", Named: true, Item: it}) // the server repeats itself
			} else {
				it = g.item()
				if g.n(4) != 0 {
					it.Strategy = "globalAllocate"
				}
				ops = append(ops, Op{Op: "answer", Named: true, Item: it})
			}
		}
	default: // readiness: heartbeats around the time-out while a remote limiter exists
		ops = append(ops, sch(rig.Pick(g.c.Rng, []string{"globalCount", "globalAllocate"})))
		ready()
		if g.cur.Strategy == "globalCount" {
			ops = append(ops, Op{Op: "reconcile"})
		} else {
			it := g.item()
			it.Strategy = "globalAllocate"
			if g.kindMI {
				it.MI, it.TB = p64(g.limit()), nil
			} else {
				it.MI, it.TB = nil, &[2]int64{g.limit(), g.limit()}
			}
			ops = append(ops, Op{Op: "answer", Named: true, Item: it})
		}
		for k := 0; k < 4+g.n(8); k++ {
			h := g.hbp(25) // mostly failures, so that runs of failures get long enough
			ops = append(ops, h)
			// the partial failure: the server info stays reachable and keeps publishing the failing leader
			maybe(45, func() { ops = append(ops, g.syncOp(cs.Shards)) })
			maybe(15, func() { ops = append(ops, Op{Op: "shards", N: rig.Pick(g.c.Rng, []int{0, cs.Shards})}) })
		}
	}
	cs.Ops = ops
	p := maxGlobal + 2
	if p > 400 {
		p = 400
	}
	if p < 8 {
		p = 8
	}
	cs.Probe = int(p)
	return cs
}

func genCase(c *rig.Ctx, i int) Case {
	if i%8 == 5 {
		return genScenario(c, i)
	}
	g := &gen{c: c, rt: 1000, now: 10 * sec}
	cs := Case{Shards: 1 + g.n(3)}
	switch x := g.n(100); {
	case x < 80:
		cs.Cfg.RateLimiter = "remote"
	case x < 88:
		cs.Cfg.RateLimiter = "local"
	case x < 94:
		cs.Cfg.RateLimiter = ""
	default:
		cs.Cfg.RateLimiter = "bogus"
	}
	cs.Cfg.HasCS = g.n(12) != 0
	g.kindMI = g.n(100) < 62
	g.cur = g.schema(g.kindMI)
	maxGlobal := int64(0)
	noteGlobal := func(s Schema) {
		if s.GMI != nil && *s.GMI > maxGlobal {
			maxGlobal = *s.GMI
		}
	}
	noteGlobal(g.cur)

	var ops []Op
	// preamble: most cases start configured, known and ready
	if g.n(20) != 0 {
		s := g.cur
		ops = append(ops, Op{Op: "schema", Schema: &s})
	}
	if g.n(8) != 0 {
		ops = append(ops, Op{Op: "shards", N: cs.Shards})
	}
	if g.n(4) == 0 {
		ops = append(ops, g.syncOp(cs.Shards))
	}
	if g.n(6) != 0 {
		h := g.hb()
		h.OK, h.Other = true, false
		g.hbState, g.hbChanged = true, h.Now
		ops = append(ops, h)
	}
	if g.n(3) != 0 {
		if g.cur.Strategy == "globalCount" {
			ops = append(ops, Op{Op: "reconcile"})
		} else {
			ops = append(ops, Op{Op: "answer", Named: true, Item: g.item()})
		}
	}
	n := 6 + g.n(14)
	kindChange := i%25 == 24
	for k := 0; k < n; k++ {
		switch x := g.n(100); {
		case x < 14:
			ops = append(ops, Op{Op: "reconcile"})
			if g.n(3) != 0 { // the full reconcile(): the server answered
				ops = append(ops, Op{Op: "answer", Named: true, Item: g.item()})
			}
		case x < 34:
			ops = append(ops, Op{Op: "answer", Named: g.n(20) != 0, Item: g.item()})
		case x < 64:
			ops = append(ops, g.reply())
		case x < 78:
			ops = append(ops, g.hb())
		case x < 86:
			ops = append(ops, g.meter())
		case x < 96:
			kind := g.kindMI
			if kindChange && g.n(2) == 0 {
				kind = !kind
				cs.KindChange = true
			}
			s := g.schema(kind)
			if g.n(3) == 0 { // only the strategy or only the limits change
				s.Strategy = g.cur.Strategy
			}
			g.cur, g.kindMI = s, kind
			noteGlobal(s)
			ops = append(ops, Op{Op: "schema", Schema: &s})
		default:
			if g.n(2) == 0 {
				ops = append(ops, Op{Op: "shards", N: 0})
				if g.n(3) == 0 { // the mode is switched away and back while the shard count is unknown
					ops = append(ops, Op{Op: "restart"})
				}
			} else {
				ops = append(ops, Op{Op: "shards", N: cs.Shards})
			}
		}
		if g.n(100) < 9 {
			ops = append(ops, g.syncOp(cs.Shards))
		}
		if g.n(100) < 14 {
			ops = append(ops, g.tickOp(60))
		}
		if g.n(100) < 5 {
			ops = append(ops, Op{Op: "event"})
		}
		if g.kindMI {
			for k := g.n(100); k < 30; k += 12 {
				ops = append(ops, g.acquire())
			}
			if g.n(100) < 10 {
				ops = append(ops, g.release())
			}
		}
	}
	cs.Ops = ops
	p := maxGlobal + 2
	if p > 400 {
		p = 400
	}
	if p < 8 {
		p = 8
	}
	cs.Probe = int(p)
	return cs
}
