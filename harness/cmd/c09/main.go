// C09 harness: the gateway side of the global limiter.
//
// The real flowcontrols.NewUpstreamLimiter (with the real clientsets.clientSets struct, goroutine-less, as its
// ClientSets) is driven through operation lists: schema syncs, heartbeats (real setLeaderStatus on a shifted clock),
// the two halves of reconcile() (real updateGlobalCuntFlowControls / updateFlowControls with generated answers),
// acquire results (real remoteWrapper.SetLimit) and meter readings. After every operation the harness reads back which
// limiter GetOrDefault(name) hands out, its String(), a capacity probe by TryAcquire, and the wrapper's fields.
// The same list goes to the Lean model (diff) and the implementation's observations go to the Lean judge.
package main

import (
	"context"
	"encoding/json"
	"flag"
	"fmt"
	"io"
	"net/http"
	"net/http/httptest"
	"os"
	"path/filepath"
	"regexp"
	"runtime"
	"sort"
	"strconv"
	"strings"
	"sync"
	"time"

	"k8s.io/klog"

	gatewayclientset "github.com/kubewharf/kubegateway/pkg/client/kubernetes"

	proxyv1alpha1 "github.com/kubewharf/kubegateway/pkg/apis/proxy/v1alpha1"
	"github.com/kubewharf/kubegateway/pkg/flowcontrols"
	"github.com/kubewharf/kubegateway/pkg/flowcontrols/flowcontrol"
	"github.com/kubewharf/kubegateway/pkg/flowcontrols/remote"
	"github.com/kubewharf/kubegateway/pkg/ratelimiter/clientsets"
	limitutil "github.com/kubewharf/kubegateway/pkg/ratelimiter/util"

	"verifharness/rig"
)

const (
	cluster = "cluster-a"
	fcName  = "fc"
)

// ---------------------------------------------------------------------------------------------------------------
// case format (shared with lean/KG/Driver/C09.lean)

type Schema struct {
	Strategy string    `json:"strategy"`
	Exempt   bool      `json:"exempt"`
	MI       *int64    `json:"mi"`
	TB       *[2]int64 `json:"tb"`
	GMI      *int64    `json:"gmi"`
	GTB      *[2]int64 `json:"gtb"`
}

type Item struct {
	Strategy string    `json:"strategy"`
	MI       *int64    `json:"mi"`
	TB       *[2]int64 `json:"tb"`
}

type Op struct {
	Op string `json:"op"`
	// schema
	Schema *Schema `json:"schema,omitempty"`
	// shards
	N int `json:"n,omitempty"`
	// hb
	OK    bool  `json:"ok,omitempty"`
	Now   int64 `json:"now,omitempty"`
	Other bool  `json:"other,omitempty"`
	// sync: server info fetched (or not: fail) at time now; n shards; leader k (0: none published) for the cluster's
	// shard, otherLeader for another shard (noise)
	Fail        bool `json:"fail,omitempty"`
	Leader      int  `json:"leader,omitempty"`
	OtherLeader int  `json:"otherLeader,omitempty"`
	// acquire / release: the request named id asks the limiter GetOrDefault hands out / finishes
	ID int `json:"id,omitempty"`
	// tick: one doAcquire round at time now; ans: the server's result for the request (nil: none)
	Ans *TickAns `json:"ans,omitempty"`
	// answer
	Named bool  `json:"named,omitempty"`
	Item  *Item `json:"item,omitempty"`
	// meter
	Max     int64 `json:"max,omitempty"`
	RateNum int64 `json:"rateNum,omitempty"`
	RateDen int64 `json:"rateDen,omitempty"`
	// setlimit
	HasReq bool   `json:"hasReq,omitempty"`
	Tokens int64  `json:"tokens,omitempty"`
	Accept bool   `json:"accept,omitempty"`
	Limit  int64  `json:"limit,omitempty"`
	Err    string `json:"err,omitempty"`
	RT     int64  `json:"rt,omitempty"`
}

type TickAns struct {
	Accept bool   `json:"accept"`
	Limit  int64  `json:"limit"`
	Err    string `json:"err"`
}

// the driver wants every field of an op present
func (o Op) MarshalJSON() ([]byte, error) {
	m := map[string]interface{}{"op": o.Op}
	switch o.Op {
	case "schema":
		m["schema"] = o.Schema
	case "shards":
		m["n"] = o.N
	case "hb":
		m["ok"], m["now"], m["other"] = o.OK, o.Now, o.Other
	case "sync":
		m["fail"], m["n"], m["leader"], m["otherLeader"], m["now"] = o.Fail, o.N, o.Leader, o.OtherLeader, o.Now
	case "tick":
		m["now"], m["ans"] = o.Now, o.Ans
	case "acquire", "release":
		m["id"] = o.ID
	case "answer":
		m["named"], m["item"] = o.Named, o.Item
	case "meter":
		m["max"], m["rateNum"], m["rateDen"] = o.Max, o.RateNum, o.RateDen
	case "setlimit":
		m["hasReq"], m["tokens"], m["accept"], m["limit"], m["err"], m["rt"] = o.HasReq, o.Tokens, o.Accept, o.Limit, o.Err, o.RT
	}
	return json.Marshal(m)
}

type Cfg struct {
	RateLimiter string `json:"rateLimiter"`
	HasCS       bool   `json:"hasCS"`
}

type Case struct {
	Cfg    Cfg  `json:"cfg"`
	Shards int  `json:"shards"` // the shard count the limiter server reports when it is known (op "shards" n>0)
	Probe  int  `json:"probe"`  // capacity probes stop after this many admissions
	Ops    []Op `json:"ops"`
	// KindChange marks cases whose schema TYPE changes (requests are not held in them: a token bucket is involved);
	// they are judged like every other case
	KindChange bool `json:"kindChange,omitempty"`
	// LateStops: the case runs on one P without the harness ever blocking between a stop of the remote wrapper and the
	// next creation of a counter, so the goroutines the stopped wrapper left behind run AFTER that creation (a legal
	// schedule: they are runnable, nothing orders them before it)
	LateStops bool `json:"lateStops,omitempty"`
}

type Lim struct {
	Kind  string `json:"kind"`
	Size  *int64 `json:"size,omitempty"`
	QPS   *int64 `json:"qps,omitempty"`
	Burst *int64 `json:"burst,omitempty"`
}

type Obs struct {
	Choice        string `json:"choice"`
	Lim           *Lim   `json:"lim"`
	RLim          *Lim   `json:"rlim"`
	WKind         int    `json:"wkind"`
	Unavail       bool   `json:"unavail"`
	WMax          int64  `json:"wmax"`
	WReserve      int64  `json:"wreserve"`
	LastAcq       int64  `json:"lastAcq"`
	Acquired      int64  `json:"acquired"`
	OverLimited   int64  `json:"overLimited"`
	Tokens        int64  `json:"tokens"`
	TokenBatch    int64  `json:"tokenBatch"`
	TokenInflight int64  `json:"tokenInflight"`
	WQPS          int64  `json:"wqps"`
	WBurst        int64  `json:"wburst"`
	Ready         bool   `json:"ready"`
	Ret           bool   `json:"ret"`
	RemoteConfig  *Item  `json:"remoteConfig"`
	Leader        int    `json:"leader"`
	Event         bool   `json:"event"`
	LastSync      int64  `json:"lastSync"`
	Req           *int64 `json:"req"`
	Admitted      *bool  `json:"admitted"`
}

// implementation-only readings
type Extra struct {
	Probe     int    `json:"probe"`     // admissions by TryAcquire from empty through the limiter handed out (-1: not probed)
	ProbeVia  string `json:"probeVia"`  // "handed" | "inner"
	RProbe    int    `json:"rprobe"`    // the same on the remote limiter when it is not the one handed out (-1: not probed)
	ZeroQPS   int    `json:"zeroQps"`   // admissions of 300 back-to-back TryAcquire on a token bucket with qps 0 (-1: n/a)
	TBAdmit   int    `json:"tbAdmit"`   // admissions of burst+20 back-to-back TryAcquire on the token bucket handed out (-1: not probed)
	TBAllowed int    `json:"tbAllowed"` // what the bucket printed by String() can have admitted in that time: burst + qps*elapsed + 2
	Str       string `json:"str"`       // String() of the limiter handed out
	WaitInfl  int64  `json:"waitInflight"`
	// a count wrapper is in force but no counter is registered for it (nobody will ever ask the server for it)
	NoCounter bool `json:"noCounter,omitempty"`
	// after an admission through the remote max-in-flight limiter: the unfinished requests admitted through this same
	// remote wrapper as max-in-flight, this one included (0: not an admission of that kind)
	HeldRemote int `json:"heldRemote,omitempty"`
	// the unfinished requests (of this case) that were admitted by the very limiter object handed out now, resp. by the
	// remote wrapper in force now: the harness's own book-keeping of the IMPLEMENTATION's admissions, not the model's
	HeldOnHanded int   `json:"heldOnHanded"`
	HeldOnRemote int   `json:"heldOnRemote"`
	CurrToken    int64 `json:"currentToken"`
}

// ---------------------------------------------------------------------------------------------------------------
// conversions

func i32(v int64) int32 { return int32(v) }

func (s *Schema) api() proxyv1alpha1.FlowControlSchema {
	r := proxyv1alpha1.FlowControlSchema{Name: fcName, Strategy: proxyv1alpha1.LimitStrategy(s.Strategy)}
	if s.Exempt {
		r.Exempt = &proxyv1alpha1.ExemptFlowControlSchema{}
	}
	if s.MI != nil {
		r.MaxRequestsInflight = &proxyv1alpha1.MaxRequestsInflightFlowControlSchema{Max: i32(*s.MI)}
	}
	if s.GMI != nil {
		r.GlobalMaxRequestsInflight = &proxyv1alpha1.MaxRequestsInflightFlowControlSchema{Max: i32(*s.GMI)}
	}
	if s.TB != nil {
		r.TokenBucket = &proxyv1alpha1.TokenBucketFlowControlSchema{QPS: i32(s.TB[0]), Burst: i32(s.TB[1])}
	}
	if s.GTB != nil {
		r.GlobalTokenBucket = &proxyv1alpha1.TokenBucketFlowControlSchema{QPS: i32(s.GTB[0]), Burst: i32(s.GTB[1])}
	}
	return r
}

func (it *Item) api(name string) proxyv1alpha1.RateLimitItemConfiguration {
	r := proxyv1alpha1.RateLimitItemConfiguration{Name: name, Strategy: proxyv1alpha1.LimitStrategy(it.Strategy)}
	if it.MI != nil {
		r.MaxRequestsInflight = &proxyv1alpha1.MaxRequestsInflightFlowControlSchema{Max: i32(*it.MI)}
	}
	if it.TB != nil {
		r.TokenBucket = &proxyv1alpha1.TokenBucketFlowControlSchema{QPS: i32(it.TB[0]), Burst: i32(it.TB[1])}
	}
	return r
}

func canonStrategy(s proxyv1alpha1.LimitStrategy) string {
	switch s {
	case "", proxyv1alpha1.LocalLimit, proxyv1alpha1.GlobalAllocateLimit, proxyv1alpha1.GlobalCountLimit:
		return string(s)
	}
	return "other"
}

func itemOf(c proxyv1alpha1.RateLimitItemConfiguration) *Item {
	it := &Item{Strategy: canonStrategy(c.Strategy)}
	if c.MaxRequestsInflight != nil {
		v := int64(c.MaxRequestsInflight.Max)
		it.MI = &v
	}
	if c.TokenBucket != nil {
		it.TB = &[2]int64{int64(c.TokenBucket.QPS), int64(c.TokenBucket.Burst)}
	}
	return it
}

var reStr = regexp.MustCompile(`^name=([^,]*),type=(\w+),(?:size=(\d+)|qps=(\d+),burst=(\d+))$`)

func parseLim(s string) *Lim {
	m := reStr.FindStringSubmatch(s)
	if m == nil {
		return &Lim{Kind: "unparsed:" + s}
	}
	l := &Lim{Kind: m[2]}
	if m[3] != "" {
		v, _ := strconv.ParseInt(m[3], 10, 64)
		l.Size = &v
	} else {
		q, _ := strconv.ParseInt(m[4], 10, 64)
		b, _ := strconv.ParseInt(m[5], 10, 64)
		l.QPS, l.Burst = &q, &b
	}
	return l
}

// ---------------------------------------------------------------------------------------------------------------
// running a case on the real code

type runResult struct {
	Obs   []Obs   `json:"obs"`
	Extra []Extra `json:"extra"`
	Panic string  `json:"panic,omitempty"`
	// the wall clock's second changed inside an acquireRequest call: the virtual unix-second arithmetic is off by one
	Unreliable bool `json:"-"`
}

type acquirer interface {
	TryAcquire() bool
	Release()
}

func probe(fc acquirer, limit int) int {
	n := 0
	for n < limit && fc.TryAcquire() {
		n++
	}
	for i := 0; i < n; i++ {
		fc.Release()
	}
	return n
}

// normalize drops what cannot happen: without a client set nothing reconciles and no acquire result arrives
// (reconcile.EnsureReconcile refuses to start; the counter worker would dereference the nil client set).
func normalize(cs Case) Case {
	if cs.Shards <= 0 {
		cs.Shards = 1
	}
	if cs.Probe <= 0 {
		cs.Probe = 64
	}
	if !cs.Cfg.HasCS {
		var ops []Op
		for _, o := range cs.Ops {
			if o.Op == "reconcile" || o.Op == "answer" || o.Op == "setlimit" || o.Op == "tick" || o.Op == "event" {
				continue
			}
			ops = append(ops, o)
		}
		cs.Ops = ops
	}
	// the reconcile loop only runs in mode "remote" with a client set (EnsureReconcile): no rounds, no restarts otherwise
	if cs.Cfg.RateLimiter != "remote" || !cs.Cfg.HasCS {
		var ops []Op
		for _, o := range cs.Ops {
			if o.Op == "reconcile" || o.Op == "answer" || o.Op == "restart" {
				continue
			}
			ops = append(ops, o)
		}
		cs.Ops = ops
	}
	// a token bucket's admissions depend on the wall clock: requests are held only in max-in-flight cases
	tbCase := cs.KindChange
	for _, o := range cs.Ops {
		if o.Op == "schema" && o.Schema != nil && o.Schema.TB != nil {
			tbCase = true
		}
	}
	if tbCase {
		var ops []Op
		for _, o := range cs.Ops {
			if o.Op == "acquire" || o.Op == "release" {
				continue
			}
			ops = append(ops, o)
		}
		cs.Ops = ops
	}
	if cs.Ops == nil {
		cs.Ops = []Op{}
	}
	// the clock of heartbeats and server-info syncs never runs backwards (hand-written or shrunk cases)
	ops := append([]Op{}, cs.Ops...)
	var clock int64
	for i, o := range ops {
		if (o.Op == "hb" && !o.Other) || o.Op == "sync" || o.Op == "tick" {
			if o.Now < clock {
				ops[i].Now = clock
			}
			clock = ops[i].Now
		}
	}
	cs.Ops = ops
	return cs
}

// The scripted limiter service: what GET /apis/proxy.kubegateway.io/v1alpha1/ratelimit/endpoints answers to the real
// clientSets.sync().
var (
	infoMu   sync.Mutex
	infoFail bool
	infoBody proxyv1alpha1.RateLimitServerInfo
	infoSrv  *httptest.Server
)

func startInfoServer() {
	infoSrv = httptest.NewServer(http.HandlerFunc(func(w http.ResponseWriter, r *http.Request) {
		infoMu.Lock()
		defer infoMu.Unlock()
		if r.URL.Path != clientsets.ServerInfoUrl || infoFail {
			http.Error(w, "unavailable", http.StatusServiceUnavailable)
			return
		}
		w.Header().Set("Content-Type", "application/json")
		json.NewEncoder(w).Encode(infoBody)
	}))
}

func leaderURL(k int) string { return fmt.Sprintf("http://leader-%d.verif.invalid", k) }

func leaderIndex(u string) int {
	var k int
	if _, err := fmt.Sscanf(u, "http://leader-%d.verif.invalid", &k); err != nil {
		if u == "" {
			return 0
		}
		return -1
	}
	return k
}

// gatedClientSets is what the upstreamLimiter gets: readiness, shard and id come from the real clientSets, but no
// client is ever handed out — the global counter's background worker would otherwise send real acquire requests to
// the published leader as soon as sync() has stored one, and feed their errors into SetLimit behind the harness.
type gatedClientSets struct{ real clientsets.ClientSets }

func (g gatedClientSets) GetAllClients() []gatewayclientset.Interface { return nil }
func (g gatedClientSets) ClientFor(cluster string) (gatewayclientset.Interface, error) {
	return nil, fmt.Errorf("verif: no client")
}

// ShardIDFor is asked by the real reconcile loop only (waitForReady, after IsReady): it never gets an answer, so the
// loop started by ResetLimiter("remote") stays alive, polling, and never runs a wall-clock round behind the harness —
// the rounds are the ops "reconcile"/"answer", performed only while that loop is alive.
func (g gatedClientSets) ShardIDFor(cluster string) (int, error) {
	return 0, fmt.Errorf("verif: rounds are scripted")
}
func (g gatedClientSets) IsReady(cluster string) bool { return g.real.IsReady(cluster) }
func (g gatedClientSets) ClientID() string            { return g.real.ClientID() }

// wrapperProbeBudget bounds, per process, the probes that go through the max-in-flight count wrapper's waiting path
// (each waiting TryAcquire leaks one goroutine inside waitAcquire, in the real code too).
var wrapperProbeBudget = 40000

type counterState struct{ exists, event bool }

func runImpl(c *rig.Ctx, cs Case, rnd func(int) int) (res runResult) {
	ctx, cancel := context.WithCancel(context.Background())
	defer cancel()
	if cs.LateStops {
		defer runtime.GOMAXPROCS(runtime.GOMAXPROCS(1))
	}
	bare := clientsets.VerifNewBare("gw-verif-1", infoSrv.URL)
	var csArg clientsets.ClientSets
	if cs.Cfg.HasCS {
		csArg = gatedClientSets{bare}
	}
	shard := limitutil.GetShardID(cluster, cs.Shards)
	var ul flowcontrols.UpstreamLimiter
	var cache remote.FlowControlCache
	frozen := false
	pendingMax, pendingRate := int32(0), float64(0)
	lastRet := false
	// the shifted clock shared by heartbeats and server-info syncs
	var clock int64
	clockSet := false
	advance := func(now int64) {
		if clockSet && now > clock {
			clientsets.VerifAdvance(bare, time.Duration(now-clock))
		}
		if !clockSet || now > clock {
			clock, clockSet = now, true
		}
	}

	// the virtual unix second of the last real write to the counter's lastSyncTime, and the request of the last tick
	var lastSyncV int64
	var lastReq *int64
	hadRemote := false
	var lastRemote remote.RemoteFlowControlWrapper // the last remote wrapper seen, possibly stopped by now
	// requests in flight keep the limiter they were handed
	handles := map[int]flowcontrol.FlowControl{}
	heldMI := map[int]bool{} // admitted by a remote limiter of type max-in-flight
	heldRemote := 0
	var lastAdmit *bool
	unixS := func(ns int64) int64 {
		if ns >= 0 {
			return ns / 1e9
		}
		return -((-ns + 1e9 - 1) / 1e9)
	}

	msg, panicked := rig.Recover(func() {
		// as a deployment does (pkg/clusters): constructed with "", the mode is set by ResetLimiter — which starts the
		// real reconcile loop for "remote". The loop polls IsReady every 500 ms before its first round and the harness
		// performs the rounds itself (deterministically), but only while the real loop is ALIVE.
		ul = flowcontrols.NewUpstreamLimiter(ctx, cluster, "", csArg)
		ul.ResetLimiter(cs.Cfg.RateLimiter)
		loopAlive := func() bool { return remote.VerifLoopAlive(flowcontrols.VerifReconcile(ul)) }
		for _, op := range cs.Ops {
			heldRemote = 0
			switch op.Op {
			case "schema":
				ul.Sync(proxyv1alpha1.FlowControl{Schemas: []proxyv1alpha1.FlowControlSchema{op.Schema.api()}})
				if cache == nil {
					cache = ul.AllFlowControls()[fcName]
				}
				if cache != nil && !frozen {
					remote.VerifFreezeMeter(cache)
					remote.VerifSetMeter(cache, pendingMax, pendingRate)
					frozen = true
				}
			case "shards":
				clientsets.VerifSetShardCount(bare, op.N)
			case "hb":
				if op.Other {
					clientsets.VerifHeartbeat(bare, shard+1, op.OK)
				} else {
					advance(op.Now)
					clientsets.VerifHeartbeat(bare, shard, op.OK)
				}
			case "sync":
				advance(op.Now)
				infoMu.Lock()
				infoFail = op.Fail
				infoBody = proxyv1alpha1.RateLimitServerInfo{Server: "verif", ShardCount: int32(op.N)}
				if op.Leader > 0 {
					infoBody.Endpoints = append(infoBody.Endpoints, proxyv1alpha1.EndpointInfo{Leader: leaderURL(op.Leader), ShardID: int32(shard)})
				}
				if op.OtherLeader > 0 {
					infoBody.Endpoints = append(infoBody.Endpoints, proxyv1alpha1.EndpointInfo{Leader: leaderURL(op.OtherLeader), ShardID: int32(shard + 1)})
				}
				infoMu.Unlock()
				clientsets.VerifSync(bare)
			case "restart":
				// the mode is switched away and back on the live limiter: the reconcile loop's SECOND start
				ul.ResetLimiter("local")
				ul.ResetLimiter(cs.Cfg.RateLimiter)
			case "reconcile":
				if loopAlive() {
					remote.VerifUpdateGlobalCount(cluster, ul.AllFlowControls())
				}
			case "answer":
				name := fcName
				if !op.Named {
					name = "some-other-schema"
				}
				if loopAlive() {
					remote.VerifUpdateFlowControls(cluster, ul.AllFlowControls(), []proxyv1alpha1.RateLimitItemConfiguration{op.Item.api(name)})
				}
			case "meter":
				pendingMax, pendingRate = i32(op.Max), float64(op.RateNum)/float64(op.RateDen)
				if cache != nil {
					remote.VerifSetMeter(cache, pendingMax, pendingRate)
				}
			case "setlimit":
				if cache != nil {
					if rf := cache.FlowControl(); rf != nil {
						lastRet = rf.SetLimit(remote.VerifAcquireResult(fcName, op.HasReq, i32(op.Tokens), op.Accept, i32(op.Limit), op.Err, op.RT))
					} else if lastRemote != nil {
						// A LATE reply: the request was sent under a wrapper that has been stopped meanwhile (global strategy
						// off, or the schema's type changed). The counter manager's reply goroutine and resetCheck still hold
						// that wrapper and deliver to it. Nothing observable may change — and nothing may panic, whatever
						// the local configuration is by now.
						lastRemote.SetLimit(remote.VerifAcquireResult(fcName, op.HasReq, i32(op.Tokens), op.Accept, i32(op.Limit), op.Err, op.RT))
					}
				}
			case "event":
				if cache != nil {
					remote.VerifRaiseEvent(cache)
				}
			case "acquire":
				if _, held := handles[op.ID]; !held {
					fc := ul.GetOrDefault(fcName)
					ok := fc.TryAcquire()
					lastAdmit = &ok
					if ok {
						handles[op.ID] = fc
						if cache != nil && cache.FlowControl() != nil && fc == flowcontrol.FlowControl(cache.FlowControl()) &&
							fc.Type() == proxyv1alpha1.MaxRequestsInflight {
							heldMI[op.ID] = true
							for id, h := range handles {
								if h == fc && heldMI[id] {
									heldRemote++
								}
							}
						}
					}
				}
			case "release":
				if fc, held := handles[op.ID]; held {
					fc.Release()
					delete(handles, op.ID)
					delete(heldMI, op.ID)
				}
			case "tick":
				advance(op.Now)
				lastReq = nil
				if cache != nil {
					sent, tokens, req, unrel := remote.VerifAcquireRequest(cache, op.Now, unixS(op.Now)-lastSyncV)
					if unrel {
						res.Unreliable = true
					}
					if sent {
						t := int64(tokens)
						lastReq = &t
						if op.Ans != nil {
							remote.VerifSend(cache, req, op.Ans.Accept, i32(op.Ans.Limit), op.Ans.Err, op.Now)
						}
					}
				}
			default:
				panic("harness: unknown op " + op.Op)
			}
			cnt := counterState{}
			noCounter := false
			if cache != nil {
				if hadRemote && !remote.VerifHasRemote(cache) {
					// The remote wrapper was stopped: every globalCounterManager.Add made under it left a goroutine that now
					// calls Stop(name) — by name, asynchronously: run late it would stop the counter of a LATER wrapper.
					// They were made runnable by the close; give them a millisecond. (If one still comes late, the count
					// wrapper is found without its counter below and the case is run again.)
					// A LateStops case deliberately does not: there they run when the harness first yields after the NEXT
					// counter was registered (VerifCounter waits for its resetCheck goroutine).
					if !cs.LateStops {
						remote.VerifSettleCounter(cache)
						time.Sleep(time.Millisecond)
					}
				}
				hadRemote = remote.VerifHasRemote(cache)
				if rf := cache.FlowControl(); rf != nil {
					lastRemote = rf
				}
				exists, isNew, ev, ls := remote.VerifCounter(cache)
				if cs.LateStops && isNew {
					time.Sleep(time.Millisecond) // whatever was left over has run now
					exists, _, ev, ls = remote.VerifCounter(cache)
				}
				if w := remote.VerifDumpRemote(cache).Wrapper; (w == 2 || w == 3) && !exists {
					noCounter = true // a stale Stop(name) removed the counter of the wrapper in force
				}
				_ = isNew
				if exists && (isNew || ls != remote.VerifLastSyncMark) {
					// the real code wrote the current time: resetCheck when the counter was created, send after an answer
					lastSyncV = unixS(clock)
					remote.VerifSetLastSync(cache, remote.VerifLastSyncMark)
				}
				cnt = counterState{exists: exists, event: ev}
			}
			o, x := observe(cs, ul, cache, bare, lastRet, rnd)
			x.NoCounter, x.HeldRemote = noCounter, heldRemote
			handedNow := ul.GetOrDefault(fcName)
			for _, h := range handles {
				if h == handedNow {
					x.HeldOnHanded++
				}
				if cache != nil && cache.FlowControl() != nil && h == flowcontrol.FlowControl(cache.FlowControl()) {
					x.HeldOnRemote++
				}
			}
			if cnt.exists {
				remote.VerifSetEvent(cache, cnt.event) // the probes went through Count too
				if o.WKind == 2 || o.WKind == 3 {
					o.Event, o.LastSync = cnt.event, lastSyncV
				}
			}
			o.Req = lastReq
			if lastAdmit != nil {
				v := *lastAdmit
				o.Admitted = &v
			}
			o.Leader = leaderIndex(clientsets.VerifLeader(bare, shard))
			res.Obs = append(res.Obs, o)
			res.Extra = append(res.Extra, x)
		}
	})
	if panicked {
		res.Panic = msg
	}
	if res.Obs == nil {
		res.Obs, res.Extra = []Obs{}, []Extra{}
	}
	return res
}

func observe(cs Case, ul flowcontrols.UpstreamLimiter, cache remote.FlowControlCache, bare clientsets.ClientSets, lastRet bool, rnd func(int) int) (Obs, Extra) {
	o := Obs{Ret: lastRet, Ready: bare.IsReady(cluster)}
	x := Extra{Probe: -1, RProbe: -1, ZeroQPS: -1, TBAdmit: -1}
	fc := ul.GetOrDefault(fcName)
	var rf flowcontrol.FlowControl
	if cache != nil {
		if r := cache.FlowControl(); r != nil {
			rf = r
		}
	}
	switch {
	case fc == flowcontrol.DefaultFlowControl:
		o.Choice = "default"
	case cache != nil && rf != nil && fc == rf:
		o.Choice = "remote"
	case cache != nil && fc == cache.LocalFlowControl().Current():
		o.Choice = "local"
	default:
		o.Choice = "unknown"
	}
	var d remote.VerifDump
	if cache != nil {
		d = remote.VerifDumpRemote(cache)
	}
	if d.HasLimiter {
		o.RLim = parseLim(d.Str)
		o.WKind = d.Wrapper
		o.Unavail = d.Unavailable
		o.WMax, o.WReserve, o.LastAcq = int64(d.Max), int64(d.Reserve), d.LastAcquire
		o.Acquired, o.OverLimited = int64(d.Acquired), int64(d.OverLimited)
		o.Tokens, o.TokenBatch, o.TokenInflight = int64(d.Tokens), int64(d.TokenBatch), int64(d.TokenInflight)
		o.WQPS, o.WBurst = int64(d.QPS), int64(d.Burst)
		x.WaitInfl = int64(d.WaitInflight)
	}
	if d.HasRemote && d.RemoteConfig.Name != "" {
		o.RemoteConfig = itemOf(d.RemoteConfig)
	}
	if o.Choice != "default" {
		if o.Choice == "remote" && !d.HasLimiter {
			// a remote wrapper that was never filled: String() would dereference nil
			o.Lim = nil
		} else {
			x.Str = fc.String()
			o.Lim = parseLim(x.Str)
		}
	}
	if rf != nil && d.HasLimiter {
		x.CurrToken = int64(cache.FlowControl().CurrentToken())
	}

	// capacity probes (max-in-flight only: a token bucket's admissions depend on the wall clock)
	probeRemote := func(handed bool) int {
		// cheap iff the count wrapper never takes its waiting path: degraded, over the limit, or not a count wrapper
		cheap := d.Wrapper != 2 || d.Unavailable || d.OverLimited > 0
		size := int64(-1)
		if o.RLim != nil && o.RLim.Size != nil {
			size = *o.RLim.Size
		}
		if !cheap && d.Wrapper == 2 && int64(d.Acquired) >= size && size == int64(d.Max) {
			cheap = true
		}
		through := cheap
		if !cheap && size >= 0 && size <= 8 && wrapperProbeBudget > 0 && rnd(4) == 0 {
			through = true
			wrapperProbeBudget -= int(size) + 1
		}
		if through {
			if handed {
				x.ProbeVia = "handed"
			}
			return probe(rf, cs.Probe)
		}
		if handed {
			x.ProbeVia = "inner"
		}
		if in := remote.VerifInner(cache); in != nil {
			return probe(in, cs.Probe)
		}
		return -1
	}
	if o.Lim != nil && o.Lim.Kind == "MaxRequestsInflight" {
		if o.Choice == "remote" {
			x.Probe = probeRemote(true)
		} else {
			x.ProbeVia = "handed"
			x.Probe = probe(fc, cs.Probe)
		}
	}
	if o.Choice != "remote" && o.RLim != nil && o.RLim.Kind == "MaxRequestsInflight" && rnd(3) == 0 {
		x.RProbe = probeRemote(false)
	}
	// a token bucket whose qps is 0 must not admit more than its burst
	if o.Lim != nil && o.Lim.Kind == "TokenBucket" && o.Lim.QPS != nil && *o.Lim.QPS == 0 {
		n := 0
		for i := 0; i < 300; i++ {
			if fc.TryAcquire() {
				n++
				fc.Release() // nothing for a token bucket, but the meter counts the request as finished
			}
		}
		x.ZeroQPS = n
	} else if o.RLim != nil && o.RLim.Kind == "TokenBucket" && o.RLim.QPS != nil && *o.RLim.QPS == 0 && rf != nil {
		n := 0
		for i := 0; i < 300; i++ {
			if rf.TryAcquire() {
				n++
				rf.Release()
			}
		}
		x.ZeroQPS = n
	}
	// one-sided real-time probe of a token bucket handed to requests: whatever its state, in a window of length d it
	// cannot admit more than burst + qps*d (+2 of slack). Not through the token-bucket count wrapper while the server
	// is available (its TryAcquire waits for tokens from the limiter server and leaks a goroutine per wait).
	if o.Lim != nil && o.Lim.Kind == "TokenBucket" && *o.Lim.QPS > 0 && *o.Lim.QPS <= 5000 && *o.Lim.Burst <= 300 &&
		(o.Choice != "remote" || d.Wrapper == 1 || d.Unavailable) && rnd(4) == 0 {
		attempts := int(*o.Lim.Burst) + 20
		t0 := time.Now()
		n := 0
		for i := 0; i < attempts; i++ {
			if fc.TryAcquire() {
				n++
				fc.Release()
			}
		}
		el := time.Since(t0)
		x.TBAdmit = n
		x.TBAllowed = int(*o.Lim.Burst) + int(float64(*o.Lim.QPS)*el.Seconds()) + 2
	}
	return o, x
}

// ---------------------------------------------------------------------------------------------------------------
// one case: real code, model, diff, judge

type modelReply struct {
	Model        []Obs      `json:"model"`
	Panic        *string    `json:"panic"`
	Counts       [][2]int64 `json:"counts"`
	VerdictModel [][]string `json:"verdictModel"`
	VerdictImpl  [][]string `json:"verdictImpl"`
}

type failure struct {
	kind, class, what string
	step              int
	impl, model       interface{}
}

// evaluate returns the first failure of the case (nil: fine) and some facts for the statistics.
func evaluate(c *rig.Ctx, cs Case, rnd func(int) int) (*failure, runResult) {
	cs = normalize(cs)
	var res runResult
	for attempt := 0; ; attempt++ {
		t0 := time.Now()
		res = runImpl(c, cs, rnd)
		// Wall-clock residue: globalCounter.send raises an event 200 ms after an answer that wants more tokens, and
		// the second of the wall clock may change inside acquireRequest. A case that took that long (machine stalled)
		// or hit the second boundary is run again; if it stays slow it is skipped, never judged.
		if time.Since(t0) < 120*time.Millisecond && !res.Unreliable {
			break
		}
		if attempt >= 5 {
			c.Count("case:skipped-slow")
			return nil, runResult{Obs: []Obs{}, Extra: []Extra{}}
		}
	}
	var m modelReply
	if err := c.Model("C09.case", map[string]interface{}{"cfg": cs.Cfg, "ops": cs.Ops, "obs": res.Obs}, &m); err != nil {
		return &failure{kind: "diff", class: "c09.model-error", what: "model error: " + err.Error()}, res
	}
	// judge first: the property on the implementation's own output (every clause on every case: a change of the
	// schema's TYPE stops the remote wrapper, so it is an ordinary reconfiguration)
	// a panic of the real code: in production it is in the counter manager's reply goroutine, resetCheck, or the
	// controller's Sync — nothing recovers it, the gateway process dies
	if res.Panic != "" && !strings.HasPrefix(res.Panic, "harness:") {
		i := len(res.Obs)
		opStr := ""
		if i < len(cs.Ops) {
			opStr = rig.Canon(cs.Ops[i])
		}
		return &failure{kind: "judge", class: "c09.panics", step: i, impl: res.Panic,
			what: fmt.Sprintf("op %d (%s) panics in the real code: %s", i, opStr, firstLine(res.Panic))}, res
	}
	// harness-side clauses on the implementation's output that the Lean judge does not have (yet)
	schemaKind := ""
	for i, x := range res.Extra {
		o := res.Obs[i]
		if op := cs.Ops[i]; op.Op == "schema" && op.Schema != nil {
			switch {
			case op.Schema.Exempt:
				schemaKind = "Exempt"
			case op.Schema.MI != nil || op.Schema.GMI != nil:
				schemaKind = "MaxRequestsInflight"
			default:
				schemaKind = "TokenBucket"
			}
		}
		if o.Choice == "remote" && o.Lim != nil && schemaKind != "" && o.Lim.Kind != schemaKind {
			return &failure{kind: "judge", class: "c09.old-type-limiter-handed-out", step: i, impl: o,
				what: fmt.Sprintf("after op %d (%s) the schema in force is of type %s but requests are handed the remote limiter %q: nothing the schema configures is enforced",
					i, rig.Canon(cs.Ops[i]), schemaKind, x.Str)}, res
		}
		if x.NoCounter {
			return &failure{kind: "judge", class: "c09.count-wrapper-without-counter", step: i, impl: o,
				what: fmt.Sprintf("after op %d (%s) the count wrapper in force (%s) has no counter registered: a Stop(name) left over from an earlier wrapper removed it; the instance never asks the limiter server for this flow control again, no quota and no error fallback can reach it",
					i, rig.Canon(cs.Ops[i]), x.Str)}, res
		}
		if x.HeldRemote > 0 && o.RLim != nil && o.RLim.Size != nil && int64(x.HeldRemote) > *o.RLim.Size {
			return &failure{kind: "judge", class: "c09.inflight-lost-by-rebuild", step: i, impl: o,
				what: fmt.Sprintf("op %d (%s) was admitted by the remote max-in-flight limiter of size %d although %d requests admitted through the same remote wrapper are unfinished (this one included): a rebuilt limiter forgot them",
					i, rig.Canon(cs.Ops[i]), *o.RLim.Size, x.HeldRemote)}, res
		}
	}
	for i, v := range m.VerdictImpl {
		if len(v) > 0 {
			return &failure{kind: "judge", class: v[0], step: i, impl: res.Obs[i],
				what: fmt.Sprintf("after op %d (%s): %s; implementation observed %s", i, rig.Canon(cs.Ops[i]), strings.Join(v, ","), rig.Canon(res.Obs[i]))}, res
		}
	}
	for i, x := range res.Extra {
		o := res.Obs[i]
		// a capacity probe sees the bucket's size minus the requests in flight in it: the unfinished requests the
		// IMPLEMENTATION admitted through that very object (the harness's own count; the model's counts are compared by the
		// correspondence check only — a stricter implementation that admits fewer must not be blamed for the model's count)
		lcount, rcount := int64(x.HeldOnHanded), int64(x.HeldOnRemote)
		room := func(size, count int64) int {
			r := size - count
			if r < 0 {
				r = 0
			}
			return int(min64(r, int64(cs.Probe)))
		}
		if x.Probe >= 0 && o.Lim != nil && o.Lim.Size != nil {
			cnt := lcount
			want := room(*o.Lim.Size, cnt)
			if x.Probe > want {
				return &failure{kind: "judge", class: "c09.admits-more-than-size", step: i, impl: x,
					what: fmt.Sprintf("after op %d the limiter handed out says %q and %d requests it admitted are unfinished, but it admitted %d more (probe via %s): %d in flight exceed its size", i, x.Str, cnt, x.Probe, x.ProbeVia, cnt+int64(x.Probe))}, res
			}
			if x.Probe < want {
				return &failure{kind: "diff", class: "c09.probe-below-size", step: i, impl: x,
					what: fmt.Sprintf("after op %d the limiter handed out says %q but admitted only %d concurrent requests (probe via %s)", i, x.Str, x.Probe, x.ProbeVia)}, res
			}
		}
		if x.RProbe >= 0 && o.RLim != nil && o.RLim.Size != nil {
			want := room(*o.RLim.Size, rcount)
			if x.RProbe > want {
				return &failure{kind: "judge", class: "c09.admits-more-than-size", step: i, impl: x,
					what: fmt.Sprintf("after op %d the remote limiter says size %d and %d requests it admitted are unfinished, but it admitted %d more: %d in flight exceed its size", i, *o.RLim.Size, rcount, x.RProbe, rcount+int64(x.RProbe))}, res
			}
		}
		if x.TBAdmit > x.TBAllowed {
			return &failure{kind: "judge", class: "c09.tb-admits-more-than-bucket", step: i, impl: x,
				what: fmt.Sprintf("after op %d the token bucket handed out says %q but admitted %d back-to-back requests where at most %d are possible", i, x.Str, x.TBAdmit, x.TBAllowed)}, res
		}
		if x.ZeroQPS >= 0 {
			b := int64(0)
			if o.Lim != nil && o.Lim.Burst != nil && o.Lim.QPS != nil && *o.Lim.QPS == 0 {
				b = *o.Lim.Burst
			} else if o.RLim != nil && o.RLim.Burst != nil {
				b = *o.RLim.Burst
			}
			if int64(x.ZeroQPS) > b {
				return &failure{kind: "judge", class: "c09.tb-zero-qps-unlimited", step: i, impl: x,
					what: fmt.Sprintf("after op %d (%s) a token bucket with qps 0, burst %d admitted %d of 300 back-to-back requests", i, rig.Canon(cs.Ops[i]), b, x.ZeroQPS)}, res
			}
		}
	}
	// correspondence
	mp := ""
	if m.Panic != nil {
		mp = *m.Panic
	}
	if (res.Panic != "") != (mp != "") || len(res.Obs) != len(m.Model) {
		return &failure{kind: "diff", class: "c09.panic", step: len(res.Obs), impl: res.Panic, model: mp,
			what: fmt.Sprintf("implementation ran %d ops (panic %q), model ran %d ops (panic %q)", len(res.Obs), res.Panic, len(m.Model), mp)}, res
	}
	for i := range res.Obs {
		// the model's in-flight counts against the implementation's admissions (the harness's own book-keeping)
		if i < len(m.Counts) && i < len(res.Extra) {
			x, o := res.Extra[i], res.Obs[i]
			if o.Choice == "local" && m.Counts[i][0] != int64(x.HeldOnHanded) {
				return &failure{kind: "diff", class: "c09.inflight-count", step: i, impl: x.HeldOnHanded, model: m.Counts[i][0],
					what: fmt.Sprintf("after op %d (%s): %d unfinished requests were admitted by the local limiter in force, the model counts %d", i, rig.Canon(cs.Ops[i]), x.HeldOnHanded, m.Counts[i][0])}, res
			}
			if o.RLim != nil && o.RLim.Size != nil && m.Counts[i][1] != int64(x.HeldOnRemote) {
				return &failure{kind: "diff", class: "c09.inflight-count", step: i, impl: x.HeldOnRemote, model: m.Counts[i][1],
					what: fmt.Sprintf("after op %d (%s): %d unfinished requests were admitted by the remote limiter in force, the model counts %d", i, rig.Canon(cs.Ops[i]), x.HeldOnRemote, m.Counts[i][1])}, res
			}
		}
		if a, b := rig.Canon(res.Obs[i]), rig.Canon(m.Model[i]); a != b {
			return &failure{kind: "diff", class: "c09.obs", step: i, impl: res.Obs[i], model: m.Model[i],
				what: fmt.Sprintf("after op %d (%s): implementation %s, model %s", i, rig.Canon(cs.Ops[i]), a, b)}, res
		}
	}
	// the judge on the model's own observations must be silent too (the theorem, sampled)
	for i, v := range m.VerdictModel {
		if len(v) > 0 {
			return &failure{kind: "diff", class: "c09.model-judge", step: i, model: m.Model[i],
				what: fmt.Sprintf("the judge rejects the MODEL's observation after op %d: %s", i, strings.Join(v, ","))}, res
		}
	}
	return nil, res
}

func firstLine(s string) string {
	if i := strings.IndexByte(s, '\n'); i >= 0 {
		return s[:i]
	}
	return s
}

func min64(a, b int64) int64 {
	if a < b {
		return a
	}
	return b
}

func report(c *rig.Ctx, cs Case, f *failure) {
	c.Fail(rig.Failure{Kind: f.kind, Class: f.class, What: f.what, Case: cs, Impl: f.impl, Model: f.model})
}

func shrink(c *rig.Ctx, cs Case, f *failure) (Case, *failure) {
	det := func(int) int { return 0 }
	same := func(x Case) *failure {
		g, _ := evaluate(c, x, det)
		if g != nil && g.kind == f.kind && g.class == f.class {
			return g
		}
		return nil
	}
	if same(cs) == nil {
		return cs, f // not reproducible with the deterministic probe policy: keep as is
	}
	cs.Ops = rig.ShrinkList(cs.Ops, func(l []Op) bool { x := cs; x.Ops = l; return same(x) != nil })
	if g := same(cs); g != nil {
		f = g
	}
	return cs, f
}

func runOne(c *rig.Ctx, cs Case, record bool) bool {
	f, _ := evaluate(c, cs, c.Rng.Intn)
	if f == nil {
		return true
	}
	if record {
		small, g := shrink(c, cs, f)
		report(c, small, g)
	}
	return false
}

// ---------------------------------------------------------------------------------------------------------------

func silenceKlog() {
	fs := flag.NewFlagSet("klog", flag.ContinueOnError)
	klog.InitFlags(fs)
	fs.Set("logtostderr", "false")
	fs.Set("alsologtostderr", "false")
	fs.Set("stderrthreshold", "FATAL")
	klog.SetOutput(io.Discard)
}

func main() {
	silenceKlog()
	startInfoServer()
	for _, e := range []string{"GLOBAL_MAXINFLIGHT_BURST_PERCENT", "GLOBAL_TOKENBUCKET_BURST_PERCENT"} {
		if os.Getenv(e) != "" {
			fmt.Fprintln(os.Stderr, "c09: "+e+" is set: the burst percents would differ from the source values the theorems are checked against")
			os.Exit(2)
		}
	}
	rig.Main("C09", func(c *rig.Ctx) {
		c.SetRule("a case = (rateLimiter, client set present, shard count) + 8-22 operations on the real upstreamLimiter: schema syncs (valid schemas, 0<=local<=global, limits and strategy change, type fixed), heartbeats and server-info syncs (real clientSets.sync() against a scripted /ratelimit/endpoints: unreachable, no endpoint, same leader, changed leader) on a shifted clock, reconcile halves with answered items (limits from {-2^31,-300,-1,0,1,reserve,local,global-1,global,global+1,2^31-1} and random, all item types and strategies), acquire results (accept/refuse, same limits, errors, RequestIDTooOld, stale/zero/negative request times), rounds of the counter manager (real acquireRequest + globalCounter.send with scripted answers: accept/refuse/error/none) and counter events, meter readings; distinct = distinct canonical case; non-trivial = the remote limiter is handed to requests at some step")
		if c.Replay != "" {
			var cs Case
			if err := c.LoadReplay(&cs); err != nil {
				fmt.Fprintln(os.Stderr, err)
				os.Exit(2)
			}
			c.Case(rig.Canon(cs), true, "replay", func() interface{} { return cs })
			c.Trace()
			f, _ := evaluate(c, cs, func(int) int { return 0 })
			if f != nil {
				report(c, cs, f)
			}
			return
		}
		// corpus of past failures first
		files, _ := filepath.Glob(filepath.Join(os.Getenv("VERIF_DIR"), "harness", "corpus", "C09", "*.json"))
		sort.Strings(files)
		for _, fn := range files {
			b, _ := os.ReadFile(fn)
			var env struct{ Case *Case }
			if json.Unmarshal(b, &env) != nil || env.Case == nil {
				c.Note("corpus file %s does not decode", filepath.Base(fn))
				continue
			}
			c.Case(rig.Canon(*env.Case), true, "corpus", nil)
			c.Trace()
			if f, _ := evaluate(c, *env.Case, func(int) int { return 0 }); f != nil {
				f.what = "corpus " + filepath.Base(fn) + ": " + f.what
				report(c, *env.Case, f)
			}
		}
		n := c.Budget(2500, 250000)
		t0 := time.Now()
		// a correspondence difference does not end the run: the search goes on for an input on which the property
		// itself fails (at most 3 differences and 3 judge failures are recorded)
		nJudge, nDiff := 0, 0
		for i := 0; i < n && nJudge < 3; i++ {
			cs := genCase(c, i)
			f, res := evaluate(c, cs, c.Rng.Intn)
			account(c, cs, res)
			c.Trace()
			if f != nil {
				if f.kind == "judge" {
					nJudge++
				} else {
					nDiff++
					if nDiff > 3 {
						continue
					}
				}
				small, g := shrink(c, cs, f)
				report(c, small, g)
			}
			if c.Thorough() && time.Since(t0) > 14*time.Minute {
				c.Note("thorough budget cut at %d of %d cases after %v", i+1, n, time.Since(t0).Round(time.Second))
				break
			}
		}
	})
}

var npanicNotes int

func account(c *rig.Ctx, cs Case, res runResult) {
	remoteHanded, outage, recovered := false, false, false
	for i, o := range res.Obs {
		if o.Choice == "remote" {
			remoteHanded = true
		}
		if o.Unavail {
			outage = true
		}
		if outage && !o.Unavail && i > 0 && res.Obs[i-1].Unavail {
			recovered = true
		}
		c.Count("choice:" + o.Choice)
		if o.RLim != nil {
			c.Count(fmt.Sprintf("remote:%s:wrapper%d", o.RLim.Kind, o.WKind))
		}
		if res.Extra[i].Probe >= 0 {
			c.Count("probe:" + res.Extra[i].ProbeVia)
		}
		if res.Extra[i].TBAdmit >= 0 {
			c.Count("probe:token-bucket-rate")
		}
		if res.Extra[i].ZeroQPS >= 0 {
			c.Count("probe:zero-qps")
		}
	}
	for _, op := range cs.Ops {
		k := "op:" + op.Op
		switch op.Op {
		case "setlimit":
			switch {
			case op.Err == "":
				k += fmt.Sprintf(":accept=%v", op.Accept)
			case op.Err == "RequestIDTooOld":
				k += ":tooOld"
			default:
				k += ":error"
			}
		case "hb":
			k += fmt.Sprintf(":ok=%v", op.OK)
		case "tick":
			if op.Ans == nil {
				k += ":unanswered"
			} else if op.Ans.Err != "" {
				k += ":error"
			} else {
				k += fmt.Sprintf(":accept=%v", op.Ans.Accept)
			}
		case "sync":
			switch {
			case op.Fail:
				k += ":fail"
			case op.Leader == 0:
				k += ":no-endpoint"
			default:
				k += ":leader"
			}
		}
		c.Count(k)
	}
	kind := "none"
	strat := "-"
	for _, op := range cs.Ops {
		if op.Op == "schema" {
			if op.Schema.MI != nil {
				kind = "mi"
			} else if op.Schema.TB != nil {
				kind = "tb"
			}
			strat = op.Schema.Strategy
			break
		}
	}
	bucket := fmt.Sprintf("case:%s:%s:rl=%s", kind, strat, cs.Cfg.RateLimiter)
	if outage {
		c.Count("case:outage")
	}
	if recovered {
		c.Count("case:recovered")
	}
	if res.Panic != "" {
		c.Count("case:panic")
		if npanicNotes < 4 {
			npanicNotes++
			c.Note("panic (model agrees) after %d ops: %s; case %s", len(res.Obs), res.Panic, rig.Canon(cs))
		}
	}
	if cs.KindChange {
		c.Count("case:kind-change(diff only)")
	}
	c.Case(rig.Canon(cs), remoteHanded, bucket, func() interface{} { return cs })
}
