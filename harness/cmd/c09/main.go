package main

import (
	"context"
	"fmt"
	"time"

	proxyv1alpha1 "github.com/kubewharf/kubegateway/pkg/apis/proxy/v1alpha1"
	"github.com/kubewharf/kubegateway/pkg/flowcontrols/remote"
)

func main() {
	ctx, cancel := context.WithCancel(context.Background())
	defer cancel()
	g := remote.NewGlobalCounterProvider(ctx, "c", nil, "id")
	cache := remote.NewFlowControlCache("c", "fc", "id", g)
	cache.LocalFlowControl().Sync(proxyv1alpha1.FlowControlSchema{Name: "fc", Strategy: proxyv1alpha1.GlobalAllocateLimit,
		FlowControlSchemaConfiguration: proxyv1alpha1.FlowControlSchemaConfiguration{
			TokenBucket:       &proxyv1alpha1.TokenBucketFlowControlSchema{QPS: 10, Burst: 20},
			GlobalTokenBucket: &proxyv1alpha1.TokenBucketFlowControlSchema{QPS: 100, Burst: 200}}})
	cache.EnableRemoteFlowControl()
	for _, a := range [][2]int32{{50, 100}, {0, 100}, {-5, 3}, {0, 1}, {0, 0}, {1, 1}} {
		cache.FlowControl().Sync(proxyv1alpha1.RateLimitItemConfiguration{Name: "fc", Strategy: proxyv1alpha1.GlobalAllocateLimit,
			LimitItemDetail: proxyv1alpha1.LimitItemDetail{TokenBucket: &proxyv1alpha1.TokenBucketFlowControlSchema{QPS: a[0], Burst: a[1]}}})
		fc := cache.FlowControl()
		t0 := time.Now()
		n := 0
		for i := 0; i < 100000; i++ {
			if fc.TryAcquire() {
				n++
			}
		}
		fmt.Printf("answer qps=%d burst=%d -> %s admitted %d of 100000 in %v\n", a[0], a[1], fc.String(), n, time.Since(t0))
	}
}
