//go:build !no_fc

package main

import (
	"fmt"

	"github.com/kubewharf/kubegateway/pkg/ratelimiter/store/flowcontrol"
)

const reqIDObservable = true

type fcView struct {
	IsMif             bool
	Max, Burst, Count int64
	States            map[string][2]int64
}

// inspectFC reads a global flow control through the optional shim (fields), cross-checked by the caller with DebugInfo().
func inspectFC(fc flowcontrol.GlobalFlowControl) (fcView, error) {
	v, ok := flowcontrol.VerifC18Inspect(fc)
	if !ok {
		return fcView{}, fmt.Errorf("unknown flow control implementation %T", fc)
	}
	return fcView{IsMif: v.IsMif, Max: int64(v.Max), Burst: int64(v.Burst), Count: int64(v.Count), States: v.States}, nil
}
