package main

import (
	"fmt"
	"regexp"
	"runtime"
	"strconv"
	"strings"
	"sync"
	"sync/atomic"
	"time"

	apierrors "k8s.io/apimachinery/pkg/api/errors"
	"k8s.io/apimachinery/pkg/labels"
	metav1 "k8s.io/apimachinery/pkg/apis/meta/v1"

	proxyv1alpha1 "github.com/kubewharf/kubegateway/pkg/apis/proxy/v1alpha1"
	"github.com/kubewharf/kubegateway/pkg/ratelimiter/limiter"
	"github.com/kubewharf/kubegateway/pkg/ratelimiter/store/flowcontrol"
	"github.com/kubewharf/kubegateway/pkg/ratelimiter/util"

	"verifharness/rig"
)

const slackMs = 1000 // one-sided margin of the scripted clock against real time elapsing during a pass

// Impl is the real rateLimiter (built by the overlay shim) driven by a history.
type Impl struct {
	g      *limiter.VerifC18Rig
	lim    limiter.RateLimiter
	shards int
	api    *apiSim // API-backed store mode only
	w      *wire   // wire mode only
	ups    map[string]bool // every upstream name a `list` op of the history has named (cluster keys can only be these)
	fcs    map[string]bool // every flow-control schema name a `list` op has named
}

func newImpl(shards int, store string, wireMode bool) *Impl {
	var im *Impl
	if store == "k8s" {
		api := newAPISim()
		g := limiter.VerifC18NewWith("verif-limiter", shards, "k8s", api.client())
		im = &Impl{g: g, lim: g.VerifC18Limiter(), shards: shards, api: api}
	} else {
		g := limiter.VerifC18New("verif-limiter", shards)
		im = &Impl{g: g, lim: g.VerifC18Limiter(), shards: shards}
	}
	im.ups, im.fcs = map[string]bool{}, map[string]bool{"nope": true}
	if wireMode {
		w, err := newWire(im.lim)
		if err != nil {
			panic(err)
		}
		im.w = w
	}
	return im
}

// doAcquire / doReport: the limiter's method, or the same request over the wire.
func (im *Impl) doAcquire(u string, acq *proxyv1alpha1.RateLimitAcquire) (*proxyv1alpha1.RateLimitAcquire, error) {
	if im.w != nil {
		return im.w.acquire(u, acq)
	}
	return im.lim.DoAcquire(u, acq)
}

func (im *Impl) errClass(e error) string {
	if im.w != nil {
		return classifyWire(e)
	}
	return classify(e)
}

func i64(v int32) *int64 { x := int64(v); return &x }

func schemaOf(s SchemaJ) proxyv1alpha1.FlowControlSchema {
	sc := proxyv1alpha1.FlowControlSchema{Name: rig.UnHex(s.Name), Strategy: proxyv1alpha1.GlobalAllocateLimit}
	if s.Gmif != nil {
		sc.GlobalMaxRequestsInflight = &proxyv1alpha1.MaxRequestsInflightFlowControlSchema{Max: int32(*s.Gmif)}
	}
	if s.Gtb != nil {
		sc.GlobalTokenBucket = &proxyv1alpha1.TokenBucketFlowControlSchema{QPS: int32(s.Gtb[0]), Burst: int32(s.Gtb[1])}
	}
	return sc
}

func schemaJ(sc proxyv1alpha1.FlowControlSchema) SchemaJ {
	r := SchemaJ{Name: rig.Hex(sc.Name)}
	if sc.GlobalMaxRequestsInflight != nil {
		r.Gmif = i64(sc.GlobalMaxRequestsInflight.Max)
	}
	if sc.GlobalTokenBucket != nil {
		r.Gtb = &[2]int64{int64(sc.GlobalTokenBucket.QPS), int64(sc.GlobalTokenBucket.Burst)}
	}
	return r
}

func detailJ(name string, d proxyv1alpha1.LimitItemDetail) ItemJ {
	r := ItemJ{Name: rig.Hex(name)}
	if d.MaxRequestsInflight != nil {
		r.Mif = i64(d.MaxRequestsInflight.Max)
	}
	if d.TokenBucket != nil {
		r.Tb = &[2]int64{int64(d.TokenBucket.QPS), int64(d.TokenBucket.Burst)}
	}
	return r
}

// schemaKind of an upstream's flow control, as the state condition will carry it.
func (im *Impl) schemaKind(u, fc string) string {
	for _, c := range im.g.VerifC18Listed() {
		if c.Name != u {
			continue
		}
		k := ""
		for _, sc := range c.Spec.FlowControl.Schemas {
			if sc.Name == fc {
				switch {
				case sc.GlobalMaxRequestsInflight != nil:
					k = "mif"
				case sc.GlobalTokenBucket != nil:
					k = "tb"
				default:
					k = "none"
				}
			}
		}
		return k
	}
	return ""
}

// errAmbiguous: the reduced observation (public strings only) cannot take a DebugInfo() string apart for these ids.
var errAmbiguous = fmt.Errorf("ambiguous DebugInfo")

var debugRe = regexp.MustCompile(`(?s)^name=(.*) max=(-?\d+) count=(-?\d+) total=(-?\d+) details=(.*)$`)

// observe reads the whole recorded state of the real limiter: heartbeat table (AllClients), leadership, every
// store of limitStoreMap (List/ListUpstream content through the local-store dump), every global flow control
// (struct fields, cross-checked with the public DebugInfo() string), and the lister.
func (im *Impl) observe() (StateJ, error) {
	var s StateJ
	for c, t := range im.g.VerifC18Heartbeats() {
		s.Hb = append(s.Hb, HbEntry{I: rig.Hex(c), T: t})
	}
	s.Leaders = im.g.VerifC18Leaders()
	for sh, st := range im.g.VerifC18Stores() {
		s.Shards = append(s.Shards, sh)
		// conditions: the store's own List (an API-backed store answers from its cache: what the limiter sees)
		perUpstream := map[string]int{}
		for _, c := range st.List(labels.Everything()) {
			perUpstream[c.Spec.UpstreamCluster]++
			cj := CondJ{Sh: sh, Name: rig.Hex(c.Name), U: rig.Hex(c.Spec.UpstreamCluster), I: rig.Hex(c.Spec.Instance)}
			if l, ok := c.Labels[limiter.RateLimitConditionInstanceLabel]; ok {
				h := rig.Hex(l)
				cj.Label = &h
			}
			for _, it := range c.Spec.LimitItemConfigurations {
				cj.Items = append(cj.Items, detailJ(it.Name, it.LimitItemDetail))
			}
			if c.Name == c.Spec.UpstreamCluster+".state" {
				for _, it := range c.Status.LimitItemStatuses {
					cj.Status = append(cj.Status, detailJ(it.Name, it.LimitItemDetail))
				}
			}
			s.Conds = append(s.Conds, cj)
		}
		for u := range im.ups {
			// every condition is stored under the cluster key its Spec.UpstreamCluster names
			if n := len(st.ListUpstream(u)); n != perUpstream[u] {
				return s, fmt.Errorf("ListUpstream(%q) answers %d conditions, List() holds %d of that upstream", u, n, perUpstream[u])
			}
			delete(perUpstream, u)
			if specObservable {
				spec, ok := clusterSpec(st, u)
				if !ok {
					return s, fmt.Errorf("store of shard %d is neither the local nor the API-backed store", sh)
				}
				if len(spec) > 0 {
					s.Clusters = append(s.Clusters, ClusterJ{Sh: sh, U: rig.Hex(u), Spec: spec})
				}
			}
			// flow controls: GetFlowControl over every schema name the history has ever listed
			for name := range im.fcs {
				fc, e := st.GetFlowControl(u, name)
				if e != nil {
					continue
				}
				v, e := inspectFC(fc)
				if e != nil {
					return s, e
				}
				fj := FCJ{Sh: sh, U: rig.Hex(u), Name: rig.Hex(name), Mif: v.IsMif, Max: v.Max, Burst: v.Burst, Count: v.Count}
				var total int64
				for i, st := range v.States {
					fj.States = append(fj.States, StEntry{I: rig.Hex(i), Count: st[0], ReqID: st[1]})
					total += st[0]
				}
				if v.IsMif {
					// the public observable must say the same
					m := debugRe.FindStringSubmatch(fc.DebugInfo())
					if m == nil {
						return s, fmt.Errorf("DebugInfo() of %q has an unexpected shape: %q", name, fc.DebugInfo())
					}
					mx, _ := strconv.ParseInt(m[2], 10, 64)
					cnt, _ := strconv.ParseInt(m[3], 10, 64)
					tot, _ := strconv.ParseInt(m[4], 10, 64)
					if mx != fj.Max || cnt != fj.Count || int32(tot) != int32(total) || (len(v.States) == 0) != (m[5] == "") {
						return s, fmt.Errorf("DebugInfo() %q disagrees with the flow control's fields (max %d count %d total %d)", fc.DebugInfo(), fj.Max, fj.Count, total)
					}
				}
				s.Fcs = append(s.Fcs, fj)
			}
		}
		for u, n := range perUpstream {
			if n > 0 {
				return s, fmt.Errorf("%d conditions of upstream %q, which no history op ever listed", n, u)
			}
		}
	}
	for _, c := range im.g.VerifC18Listed() {
		lj := ListedJ{U: rig.Hex(c.Name)}
		for _, sc := range c.Spec.FlowControl.Schemas {
			lj.Schemas = append(lj.Schemas, schemaJ(sc))
		}
		s.Listed = append(s.Listed, lj)
	}
	for _, u := range im.g.VerifC18Locks() {
		s.Locks = append(s.Locks, rig.Hex(u))
	}
	if im.api != nil {
		for _, n := range im.api.failing() {
			s.Failing = append(s.Failing, rig.Hex(n))
		}
	}
	s.canon()
	return s, nil
}

func classify(err error) string {
	msg := err.Error()
	switch {
	case strings.Contains(msg, "leader is"):
		return "notLeader"
	case strings.Contains(msg, "limit store for upstream"):
		return "noStore"
	case strings.Contains(msg, "upstreamLock not exist"):
		return "noLock"
	case apierrors.IsNotFound(err):
		return "notFound"
	case strings.Contains(msg, "not equal to instance item type"):
		return "typeMismatch"
	}
	return "other: " + msg
}

// oneHeartbeat: a heartbeat at scripted time t, direct or over the wire.
func (im *Impl) oneHeartbeat(inst string, t int64) error {
	if im.w != nil {
		before := time.Now()
		if e := im.w.heartbeat(inst); e != nil {
			return e
		}
		im.g.VerifC18RedateFresh(before, time.Now(), t)
		return nil
	}
	return im.g.VerifC18Heartbeat(inst, t)
}

// apply runs one op on the real code. quota is the oracle handed to the model for a report: the
// LimitItemConfigurations the real calculateNextQuota produced (C07's business, an input of the C18 model).
func (im *Impl) apply(op Op) (out OutJ, quota []ItemJ, err error) {
	out.K = "unit"
	u, inst := rig.UnHex(op.U), rig.UnHex(op.I)
	switch op.Op {
	case "heartbeat":
		if im.w != nil {
			before := time.Now()
			if e := im.w.heartbeat(inst); e != nil {
				out = OutJ{K: "err", E: classifyWire(e)}
			}
			im.g.VerifC18RedateFresh(before, time.Now(), op.T)
			break
		}
		err = im.g.VerifC18Heartbeat(inst, op.T)
	case "cleanupTimeout":
		err = im.g.VerifC18CleanupTimeout(op.Now, slackMs)
	case "cleanupUnknown":
		im.g.VerifC18CleanupUnknown()
	case "setLeader":
		im.g.VerifC18SetLeader(op.S, op.B)
	case "leaderCheck":
		im.g.VerifC18LeaderCheck()
	case "list":
		c := &proxyv1alpha1.UpstreamCluster{ObjectMeta: metav1.ObjectMeta{Name: u}}
		im.ups[u] = true
		for _, s := range op.Schemas {
			c.Spec.FlowControl.Schemas = append(c.Spec.FlowControl.Schemas, schemaOf(s))
			im.fcs[rig.UnHex(s.Name)] = true
		}
		err = im.g.VerifC18List(c)
	case "unlist":
		im.g.VerifC18Unlist(u)
	case "handle":
		if e := im.g.VerifC18Handle(u); e != nil {
			// the model's handler cannot fail except for a missing store, which it treats as a no-op
			if !strings.Contains(e.Error(), "limit store for upstream") && !strings.Contains(e.Error(), "injected:") {
				err = e
			}
		}
	case "report":
		cond := &proxyv1alpha1.RateLimitCondition{
			ObjectMeta: metav1.ObjectMeta{Name: util.GenerateRateLimitConditionName(u, inst)},
			Spec:       proxyv1alpha1.RateLimitSpec{UpstreamCluster: u, Instance: inst},
		}
		for _, it := range op.Items {
			name := rig.UnHex(it.Name)
			cfg := proxyv1alpha1.RateLimitItemConfiguration{Name: name, Strategy: proxyv1alpha1.LimitStrategy(it.Strategy)}
			if it.Kind == "mif" || it.Kind == "both" {
				cfg.MaxRequestsInflight = &proxyv1alpha1.MaxRequestsInflightFlowControlSchema{Max: it.Max}
			}
			if it.Kind == "tb" || it.Kind == "both" {
				cfg.TokenBucket = &proxyv1alpha1.TokenBucketFlowControlSchema{QPS: it.Qps, Burst: it.Burst}
			}
			cond.Spec.LimitItemConfigurations = append(cond.Spec.LimitItemConfigurations, cfg)
			// the usage is reported with the kind of the upstream's own schema (what a gateway does);
			// a status of another kind makes calculateUpstreamCondition dereference nil, which is not C18's subject
			st := proxyv1alpha1.RateLimitItemStatus{Name: name, RequestLevel: it.Level}
			switch im.schemaKind(u, name) {
			case "mif":
				st.MaxRequestsInflight = &proxyv1alpha1.MaxRequestsInflightFlowControlSchema{Max: it.Used}
			case "tb":
				st.TokenBucket = &proxyv1alpha1.TokenBucketFlowControlSchema{QPS: it.Used}
			}
			cond.Status.LimitItemStatuses = append(cond.Status.LimitItemStatuses, st)
		}
		var res *proxyv1alpha1.RateLimitCondition
		var e error
		if im.w != nil {
			res, e = im.w.report(cond)
		} else {
			res, e = im.lim.UpdateRateLimitConditionStatus(u, cond)
		}
		if e != nil {
			out = OutJ{K: "err", E: im.errClass(e)}
			break
		}
		out = OutJ{K: "reported", Label: rig.Hex(res.Labels[limiter.RateLimitConditionInstanceLabel])}
		quota = []ItemJ{}
		for _, it := range res.Spec.LimitItemConfigurations {
			quota = append(quota, detailJ(it.Name, it.LimitItemDetail))
		}
	case "acquire":
		acq := &proxyv1alpha1.RateLimitAcquire{ObjectMeta: metav1.ObjectMeta{Name: u},
			Spec: proxyv1alpha1.RateLimitAcquireSpec{Instance: inst, RequestID: op.Rid}}
		for _, r := range op.Reqs {
			acq.Spec.Requests = append(acq.Spec.Requests, proxyv1alpha1.RateLimitAcquireRequest{FlowControl: rig.UnHex(r.FC), Tokens: r.Tokens})
		}
		// which of the requested flow controls are token buckets (their verdict depends on the wall clock)
		isTB := map[string]bool{}
		if st := im.g.VerifC18Stores()[util.GetShardID(u, im.shards)]; st != nil {
			for _, r := range op.Reqs {
				if fc, e := st.GetFlowControl(u, rig.UnHex(r.FC)); e == nil && fc.Type() == proxyv1alpha1.TokenBucket {
					isTB[rig.UnHex(r.FC)] = true
				}
			}
		}
		res, e := im.doAcquire(u, acq)
		if e != nil {
			out = OutJ{K: "err", E: im.errClass(e)}
			break
		}
		out = OutJ{K: "acquired", Rs: []AcqRes{}}
		for _, r := range res.Status.Results {
			a := AcqRes{FC: rig.Hex(r.FlowControl), Accept: r.Accept, Limit: int64(r.Limit)}
			switch {
			case r.Error == "":
			case strings.Contains(r.Error, "not found"):
				a.Err = "notFound"
			case strings.Contains(r.Error, "tokens cannot be negative"):
				a.Err = "negative"
			case r.Error == flowcontrol.RequestIDTooOld.Error():
				a.Err = "tooOld"
			default:
				a.Err = "other: " + r.Error
			}
			if isTB[r.FlowControl] && a.Err == "" {
				a = AcqRes{FC: a.FC, Err: "tokenBucket"}
			}
			out.Rs = append(out.Rs, a)
		}
	case "swarm":
		// a crowd: every instance heartbeats, then reports `rounds` times for every upstream (what a fleet of gateways in
		// front of many upstream clusters does); one group for the model, compared and judged at its end
		for _, i := range op.Insts {
			if e := im.oneHeartbeat(rig.UnHex(i), op.T); e != nil {
				err = e
				return
			}
		}
		out.Swarm = [][]ItemJ{}
		for r := 0; r < op.Rounds; r++ {
			for _, i := range op.Insts {
				for _, up := range op.Ups {
					uu, ii := rig.UnHex(up), rig.UnHex(i)
					cond := &proxyv1alpha1.RateLimitCondition{
						ObjectMeta: metav1.ObjectMeta{Name: util.GenerateRateLimitConditionName(uu, ii)},
						Spec: proxyv1alpha1.RateLimitSpec{UpstreamCluster: uu, Instance: ii,
							LimitItemConfigurations: []proxyv1alpha1.RateLimitItemConfiguration{{Name: rig.UnHex(op.FC), Strategy: proxyv1alpha1.GlobalAllocateLimit,
								LimitItemDetail: proxyv1alpha1.LimitItemDetail{MaxRequestsInflight: &proxyv1alpha1.MaxRequestsInflightFlowControlSchema{}}}}},
						Status: proxyv1alpha1.RateLimitStatus{LimitItemStatuses: []proxyv1alpha1.RateLimitItemStatus{{Name: rig.UnHex(op.FC),
							LimitItemDetail: proxyv1alpha1.LimitItemDetail{MaxRequestsInflight: &proxyv1alpha1.MaxRequestsInflightFlowControlSchema{}}}}},
					}
					var res *proxyv1alpha1.RateLimitCondition
					var e error
					if im.w != nil {
						res, e = im.w.report(cond)
					} else {
						res, e = im.lim.UpdateRateLimitConditionStatus(uu, cond)
					}
					q := []ItemJ{}
					if e == nil {
						for _, it := range res.Spec.LimitItemConfigurations {
							q = append(q, detailJ(it.Name, it.LimitItemDetail))
						}
					}
					out.Swarm = append(out.Swarm, q)
				}
			}
		}
	case "faults":
		if im.api != nil {
			f := map[string]string{}
			for _, x := range op.Faults {
				f[rig.UnHex(x.Name)] = x.Kind
			}
			im.api.setFaults(f)
		}
	case "apiDelete":
		if im.api != nil {
			im.api.outOfBandDelete(rig.UnHex(op.Name))
		}
	case "burst":
		// the first acquires of a joining instance arrive in parallel: goroutines released together through the
		// real DoAcquire; the verdicts depend on the order and are not compared, the state at quiescence is
		fc := rig.UnHex(op.FC)
		baseGoroutines := runtime.NumGoroutine()
		var wg sync.WaitGroup
		var gate, ready int32
		var panicked atomic.Value
		for k, tok := range op.Toks {
			wg.Add(1)
			go func(k int, tok int32) {
				defer wg.Done()
				defer func() {
					if r := recover(); r != nil {
						panicked.Store(fmt.Sprint(r))
					}
				}()
				acq := &proxyv1alpha1.RateLimitAcquire{ObjectMeta: metav1.ObjectMeta{Name: u},
					Spec: proxyv1alpha1.RateLimitAcquireSpec{Instance: inst, RequestID: op.Rid + int64(k) + 1,
						Requests: []proxyv1alpha1.RateLimitAcquireRequest{{FlowControl: fc, Tokens: tok}}}}
				atomic.AddInt32(&ready, 1)
				for atomic.LoadInt32(&gate) == 0 {
					runtime.Gosched()
				}
				im.doAcquire(u, acq)
			}(k, tok)
		}
		// all senders are spinning on the gate before it opens: they enter the limiter together
		for spin := 0; atomic.LoadInt32(&ready) < int32(len(op.Toks)) && spin < 1000000; spin++ {
			runtime.Gosched()
		}
		time.Sleep(10 * time.Microsecond)
		atomic.StoreInt32(&gate, 1)
		wg.Wait()
		// the senders must be gone for good: the time-out pass awaits its own goroutines by counting goroutines
		for dl := time.Now().Add(10 * time.Second); runtime.NumGoroutine() > baseGoroutines && time.Now().Before(dl); {
			runtime.Gosched()
		}
		if p := panicked.Load(); p != nil {
			panic(p)
		}
		// the oracle for the model: the state the instance ended with
		quota = nil
		if st := im.g.VerifC18Stores()[util.GetShardID(u, im.shards)]; st != nil && im.g.VerifC18IsLeader(util.GetShardID(u, im.shards)) {
			if f, e := st.GetFlowControl(u, fc); e == nil {
				if v, e := inspectFC(f); e == nil && v.IsMif {
					if x, ok := v.States[inst]; ok {
						out.St = &[2]int64{x[0], x[1]}
					}
				}
			}
		}
	default:
		err = fmt.Errorf("unknown op %q", op.Op)
	}
	return
}

// modelOp is the op as the Lean driver reads it.
func modelOp(op Op, quota []ItemJ, st *[2]int64, wireRejected bool, swarm [][]ItemJ) map[string]interface{} {
	if op.Op == "swarm" {
		if swarm == nil {
			swarm = [][]ItemJ{}
		}
		return map[string]interface{}{"op": "swarm", "t": op.T, "insts": op.Insts, "ups": op.Ups, "rounds": op.Rounds, "fc": op.FC, "quotas": swarm}
	}
	if wireRejected {
		// refused by the client or the HTTP endpoint before the limiter was asked: nothing may have been recorded
		return map[string]interface{}{"op": "wireRejected"}
	}
	m := map[string]interface{}{"op": op.Op}
	switch op.Op {
	case "heartbeat":
		m["i"], m["t"] = op.I, op.T
	case "cleanupTimeout":
		m["now"] = op.Now
	case "setLeader":
		m["s"], m["b"] = op.S, op.B
	case "list":
		m["u"] = op.U
		sc := op.Schemas
		if sc == nil {
			sc = []SchemaJ{}
		}
		m["schemas"] = sc
	case "unlist", "handle":
		m["u"] = op.U
	case "report":
		m["u"], m["i"] = op.U, op.I
		items := []map[string]string{}
		for _, it := range op.Items {
			k := it.Kind
			if k == "both" {
				k = "mif"
			}
			items = append(items, map[string]string{"name": it.Name, "kind": k})
		}
		m["items"] = items
		if quota == nil {
			quota = []ItemJ{}
		}
		m["quota"] = quota
	case "burst":
		m["u"], m["i"], m["fc"] = op.U, op.I, op.FC
		m["st"] = st
	case "faults":
		names := []string{}
		for _, x := range op.Faults {
			names = append(names, x.Name)
		}
		m["names"] = names
	case "apiDelete":
		m["name"] = op.Name
	case "acquire":
		m["u"], m["i"], m["rid"] = op.U, op.I, op.Rid
		reqs := op.Reqs
		if reqs == nil {
			reqs = []Req{}
		}
		m["reqs"] = reqs
	}
	return m
}
