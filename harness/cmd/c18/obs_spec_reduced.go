//go:build no_spec

package main

import (
	_interface "github.com/kubewharf/kubegateway/pkg/ratelimiter/store/interface"
)

// the store's representation changed and the optional shim no longer builds: the synchronised spec is not observed (and
// not compared); its effect - whether a later SyncFlowControl changes flow controls - still is, behaviourally.
const specObservable = false

func clusterSpec(st _interface.LimitStore, cluster string) ([]SchemaJ, bool) { return nil, true }
