package main

// The API stand-in for the API-backed store mode: the generated fake gateway clientset behind a wrapper of its
// RateLimitConditions() client that makes the DELETES of chosen condition names fail (what the clean-up passes and
// DeleteUpstream issue): "transient" = the server is unavailable, nothing happens; "lost" = the delete is applied but
// its answer is lost (time-out). Everything else goes straight to the object tracker. Out-of-band deletions are made
// on the tracker directly.

import (
	"context"
	"sort"
	"sync"

	"k8s.io/apimachinery/pkg/api/errors"
	metav1 "k8s.io/apimachinery/pkg/apis/meta/v1"

	gatewayclientset "github.com/kubewharf/kubegateway/pkg/client/kubernetes"
	"github.com/kubewharf/kubegateway/pkg/client/kubernetes/fake"
	typedv1alpha1 "github.com/kubewharf/kubegateway/pkg/client/kubernetes/typed/proxy/v1alpha1"
)

type apiSim struct {
	mu     sync.Mutex
	cs     *fake.Clientset
	inner  typedv1alpha1.RateLimitConditionInterface
	faults map[string]string // condition name -> transient | lost
}

func newAPISim() *apiSim {
	cs := fake.NewSimpleClientset()
	return &apiSim{cs: cs, inner: cs.ProxyV1alpha1().RateLimitConditions(), faults: map[string]string{}}
}

func (a *apiSim) setFaults(f map[string]string) {
	a.mu.Lock()
	a.faults = f
	a.mu.Unlock()
}

func (a *apiSim) failing() []string {
	a.mu.Lock()
	defer a.mu.Unlock()
	var res []string
	for n := range a.faults {
		res = append(res, n)
	}
	sort.Strings(res)
	return res
}

// names of the objects the API holds.
func (a *apiSim) names() map[string]bool {
	res := map[string]bool{}
	l, err := a.inner.List(context.Background(), metav1.ListOptions{})
	if err != nil {
		return res
	}
	for i := range l.Items {
		res[l.Items[i].Name] = true
	}
	return res
}

// outOfBandDelete: somebody (an operator) deletes the object behind the limiter's back.
func (a *apiSim) outOfBandDelete(name string) {
	_ = a.inner.Delete(context.Background(), name, metav1.DeleteOptions{})
}

type simConds struct {
	typedv1alpha1.RateLimitConditionInterface
	a *apiSim
}

func (c *simConds) Delete(ctx context.Context, name string, opts metav1.DeleteOptions) error {
	c.a.mu.Lock()
	fault := c.a.faults[name]
	c.a.mu.Unlock()
	switch fault {
	case "transient":
		return errors.NewServiceUnavailable("injected: server unavailable")
	case "lost":
		_ = c.RateLimitConditionInterface.Delete(ctx, name, opts)
		return errors.NewTimeoutError("injected: answer lost", 1)
	}
	return c.RateLimitConditionInterface.Delete(ctx, name, opts)
}

type simProxy struct {
	typedv1alpha1.ProxyV1alpha1Interface
	a *apiSim
}

func (p *simProxy) RateLimitConditions() typedv1alpha1.RateLimitConditionInterface {
	return &simConds{RateLimitConditionInterface: p.ProxyV1alpha1Interface.RateLimitConditions(), a: p.a}
}

type simClient struct {
	gatewayclientset.Interface
	a *apiSim
}

func (c *simClient) ProxyV1alpha1() typedv1alpha1.ProxyV1alpha1Interface {
	return &simProxy{ProxyV1alpha1Interface: c.Interface.ProxyV1alpha1(), a: c.a}
}

func (a *apiSim) client() gatewayclientset.Interface { return &simClient{Interface: a.cs, a: a} }
