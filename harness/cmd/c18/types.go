package main

import (
	"encoding/json"
	"sort"
)

// ---- the case: a history of ops (self-contained; byte strings are hex) ----

type Case struct {
	Shards int    `json:"shards"`
	Store  string `json:"store,omitempty"` // "" / "local": in-memory store; "k8s": API-backed store (write-through) over a fake API
	Wire   bool   `json:"wire,omitempty"`  // heartbeats, reports, acquires go through the generated client and the real HTTP handler chain
	Ops    []Op   `json:"ops"`
}

type Fault struct {
	Name string `json:"name"` // hex: condition name
	Kind string `json:"kind"` // transient | lost
}

type RItem struct {
	Name     string `json:"name"`     // hex
	Kind     string `json:"kind"`     // mif | tb | unknown | both   (which LimitItemDetail members the instance sends)
	Max      int32  `json:"max"`      // current quota the instance holds
	Qps      int32  `json:"qps"`
	Burst    int32  `json:"burst"`
	Strategy string `json:"strategy"` // globalAllocate | globalCount | ""
	Used     int32  `json:"used"`     // reported usage (status), sent with the kind of the upstream's schema
	Level    int32  `json:"level"`    // reported RequestLevel
}

type Req struct {
	FC     string `json:"fc"` // hex
	Tokens int32  `json:"tokens"`
}

type SchemaJ struct {
	Name string    `json:"name"` // hex
	Gmif *int64    `json:"gmif"`
	Gtb  *[2]int64 `json:"gtb"`
}

type Op struct {
	Op      string    `json:"op"`
	I       string    `json:"i,omitempty"` // hex (may be the empty instance: then "i" is absent)
	U       string    `json:"u,omitempty"` // hex
	T       int64     `json:"t,omitempty"`
	Now     int64     `json:"now,omitempty"`
	Items   []RItem   `json:"items,omitempty"`
	Rid     int64     `json:"rid,omitempty"`
	Reqs    []Req     `json:"reqs,omitempty"`
	S       int       `json:"s,omitempty"`
	B       bool      `json:"b,omitempty"`
	Schemas []SchemaJ `json:"schemas,omitempty"`
	FC      string    `json:"fc,omitempty"`     // burst: flow control (hex)
	Toks    []int32   `json:"toks,omitempty"`   // burst: tokens of the parallel acquires; request ids rid+1 … rid+n
	Faults  []Fault   `json:"faults,omitempty"` // faults: the API deletes of these condition names fail from now on (replaces the previous set)
	Name    string    `json:"name,omitempty"`   // apiDelete: condition name (hex)
	Insts   []string  `json:"insts,omitempty"`  // swarm: instances (hex)
	Ups     []string  `json:"ups,omitempty"`    // swarm: upstreams (hex)
	Rounds  int       `json:"rounds,omitempty"` // swarm: every instance reports `rounds` times for every upstream
}

// ---- observed / model state ----

type ItemJ struct {
	Name string    `json:"name"`
	Mif  *int64    `json:"mif"`
	Tb   *[2]int64 `json:"tb"`
}

type CondJ struct {
	Sh     int     `json:"sh"`
	Name   string  `json:"name"`
	U      string  `json:"u"`
	I      string  `json:"i"`
	Label  *string `json:"label"`
	Items  []ItemJ `json:"items"`
	Status []ItemJ `json:"status"`
}

type StEntry struct {
	I     string
	Count int64
	ReqID int64
}

func (e StEntry) MarshalJSON() ([]byte, error) {
	return json.Marshal([]interface{}{e.I, e.Count, e.ReqID})
}
func (e *StEntry) UnmarshalJSON(b []byte) error {
	var raw []json.RawMessage
	if err := json.Unmarshal(b, &raw); err != nil || len(raw) != 3 {
		return err
	}
	json.Unmarshal(raw[0], &e.I)
	json.Unmarshal(raw[1], &e.Count)
	return json.Unmarshal(raw[2], &e.ReqID)
}

type HbEntry struct {
	I string
	T int64
}

func (e HbEntry) MarshalJSON() ([]byte, error) { return json.Marshal([]interface{}{e.I, e.T}) }
func (e *HbEntry) UnmarshalJSON(b []byte) error {
	var raw []json.RawMessage
	if err := json.Unmarshal(b, &raw); err != nil || len(raw) != 2 {
		return err
	}
	json.Unmarshal(raw[0], &e.I)
	return json.Unmarshal(raw[1], &e.T)
}

type FCJ struct {
	Sh     int       `json:"sh"`
	U      string    `json:"u"`
	Name   string    `json:"name"`
	Mif    bool      `json:"mif"`
	Max    int64     `json:"max"`
	Burst  int64     `json:"burst"`
	Count  int64     `json:"count"`
	States []StEntry `json:"states"`
}

type ClusterJ struct {
	Sh   int       `json:"sh"`
	U    string    `json:"u"`
	Spec []SchemaJ `json:"spec"`
}

type ListedJ struct {
	U       string    `json:"u"`
	Schemas []SchemaJ `json:"schemas"`
}

type StateJ struct {
	Hb       []HbEntry  `json:"hb"`
	Leaders  []int      `json:"leaders"`
	Shards   []int      `json:"shards"`
	Clusters []ClusterJ `json:"clusters"`
	Conds    []CondJ    `json:"conds"`
	Fcs      []FCJ      `json:"fcs"`
	Listed   []ListedJ  `json:"listed"`
	Locks    []string   `json:"locks"`
	Failing  []string   `json:"failing"`
}

// canon sorts everything that is a map or a set on the Go side (and has no order in the model either) and
// turns nil slices into empty ones.
func (s *StateJ) canon() {
	if !specObservable {
		s.Clusters = nil
	}
	if !reqIDObservable {
		for i := range s.Fcs {
			for j := range s.Fcs[i].States {
				s.Fcs[i].States[j].ReqID = 0
			}
		}
	}
	if s.Hb == nil {
		s.Hb = []HbEntry{}
	}
	if s.Leaders == nil {
		s.Leaders = []int{}
	}
	if s.Shards == nil {
		s.Shards = []int{}
	}
	if s.Clusters == nil {
		s.Clusters = []ClusterJ{}
	}
	if s.Conds == nil {
		s.Conds = []CondJ{}
	}
	if s.Fcs == nil {
		s.Fcs = []FCJ{}
	}
	if s.Listed == nil {
		s.Listed = []ListedJ{}
	}
	if s.Locks == nil {
		s.Locks = []string{}
	}
	sort.Strings(s.Locks)
	if s.Failing == nil {
		s.Failing = []string{}
	}
	sort.Strings(s.Failing)
	dedup := s.Failing[:0]
	for i, x := range s.Failing {
		if i == 0 || x != s.Failing[i-1] {
			dedup = append(dedup, x)
		}
	}
	s.Failing = dedup
	sort.Slice(s.Hb, func(i, j int) bool { return s.Hb[i].I < s.Hb[j].I })
	sort.Ints(s.Leaders)
	sort.Ints(s.Shards)
	sort.Slice(s.Clusters, func(i, j int) bool {
		a, b := s.Clusters[i], s.Clusters[j]
		if a.Sh != b.Sh {
			return a.Sh < b.Sh
		}
		return a.U < b.U
	})
	for i := range s.Clusters {
		if s.Clusters[i].Spec == nil {
			s.Clusters[i].Spec = []SchemaJ{}
		}
	}
	sort.Slice(s.Conds, func(i, j int) bool {
		a, b := s.Conds[i], s.Conds[j]
		if a.Sh != b.Sh {
			return a.Sh < b.Sh
		}
		if a.U != b.U {
			return a.U < b.U
		}
		return a.Name < b.Name
	})
	for i := range s.Conds {
		c := &s.Conds[i]
		if c.Items == nil {
			c.Items = []ItemJ{}
		}
		if c.Status == nil {
			c.Status = []ItemJ{}
		}
		sort.SliceStable(c.Status, func(a, b int) bool { return c.Status[a].Name < c.Status[b].Name })
	}
	sort.Slice(s.Fcs, func(i, j int) bool {
		a, b := s.Fcs[i], s.Fcs[j]
		if a.Sh != b.Sh {
			return a.Sh < b.Sh
		}
		if a.U != b.U {
			return a.U < b.U
		}
		return a.Name < b.Name
	})
	for i := range s.Fcs {
		f := &s.Fcs[i]
		if f.States == nil {
			f.States = []StEntry{}
		}
		sort.Slice(f.States, func(a, b int) bool { return f.States[a].I < f.States[b].I })
	}
	sort.Slice(s.Listed, func(i, j int) bool { return s.Listed[i].U < s.Listed[j].U })
	for i := range s.Listed {
		if s.Listed[i].Schemas == nil {
			s.Listed[i].Schemas = []SchemaJ{}
		}
	}
}

// ---- op outputs ----

type AcqRes struct {
	FC     string `json:"fc"`
	Accept bool   `json:"accept"`
	Limit  int64  `json:"limit"`
	Err    string `json:"err"`
}

type OutJ struct {
	K     string   `json:"k"` // unit | err | reported | acquired
	E     string   `json:"e,omitempty"`
	Label string   `json:"label,omitempty"`
	Rs    []AcqRes `json:"rs,omitempty"`
	Swarm [][]ItemJ `json:"-"` // swarm: the quotas the real allocation answered, one list per report, in order (oracle)
	St    *[2]int64 `json:"-"` // burst: the (count, request id) the instance ended with on the real flow control (oracle, not an answer)
}
