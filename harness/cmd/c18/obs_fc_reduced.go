//go:build no_fc

package main

import (
	"fmt"
	"regexp"
	"strconv"
	"strings"

	proxyv1alpha1 "github.com/kubewharf/kubegateway/pkg/apis/proxy/v1alpha1"
	"github.com/kubewharf/kubegateway/pkg/ratelimiter/store/flowcontrol"
)

// the flow controls' representation changed and the optional shim no longer builds: they are read through their public
// methods Type(), String() and DebugInfo(); the per-instance request ids are then not observed (and not compared).
const reqIDObservable = false

type fcView struct {
	IsMif             bool
	Max, Burst, Count int64
	States            map[string][2]int64
}

var (
	tbRe     = regexp.MustCompile(`qps=(-?\d+),burst=(-?\d+)$`)
	detailRe = regexp.MustCompile(`^\[(.*): (-?\d+)\]$`)
)

func inspectFC(fc flowcontrol.GlobalFlowControl) (fcView, error) {
	if fc.Type() != proxyv1alpha1.MaxRequestsInflight {
		m := tbRe.FindStringSubmatch(fc.String())
		if m == nil {
			return fcView{}, fmt.Errorf("String() of a token bucket has an unexpected shape: %q", fc.String())
		}
		q, _ := strconv.ParseInt(m[1], 10, 64)
		b, _ := strconv.ParseInt(m[2], 10, 64)
		return fcView{Max: q, Burst: b, States: map[string][2]int64{}}, nil
	}
	m := debugRe.FindStringSubmatch(fc.DebugInfo())
	if m == nil {
		return fcView{}, fmt.Errorf("DebugInfo() has an unexpected shape: %q", fc.DebugInfo())
	}
	v := fcView{IsMif: true, States: map[string][2]int64{}}
	v.Max, _ = strconv.ParseInt(m[2], 10, 64)
	v.Count, _ = strconv.ParseInt(m[3], 10, 64)
	total, _ := strconv.ParseInt(m[4], 10, 64)
	var sum int64
	if m[5] != "" {
		for _, d := range strings.Split(m[5], "],[") {
			if !strings.HasPrefix(d, "[") {
				d = "[" + d
			}
			if !strings.HasSuffix(d, "]") {
				d += "]"
			}
			x := detailRe.FindStringSubmatch(d)
			if x == nil {
				return fcView{}, errAmbiguous
			}
			n, _ := strconv.ParseInt(x[2], 10, 64)
			v.States[x[1]] = [2]int64{n, 0}
			sum += n
		}
	}
	if int32(sum) != int32(total) {
		return fcView{}, errAmbiguous // an instance id holding "],[" or ": ": the string cannot be taken apart
	}
	return v, nil
}
