// C18 harness: histories of gateway instances joining, reporting, acquiring, going silent and coming back, with
// clean-up passes at scripted times, are run on the REAL rateLimiter (pkg/ratelimiter/limiter, local store, real
// global max-in-flight) and on the Lean model KG.Model.Reclaim; after every op the whole recorded state is compared
// (correspondence) and the C18 judge KG.Spec.Reclaim.judgeStep — the predicates the theorems are about — is
// evaluated by the Lean driver on the states observed on the real code.
package main

import (
	"encoding/json"
	"flag"
	"fmt"
	"io"
	"os"
	"path/filepath"
	"sort"

	"k8s.io/klog"

	"github.com/kubewharf/kubegateway/pkg/ratelimiter/limiter"

	"verifharness/rig"
)

type stepRec struct {
	Out   OutJ   `json:"out"`
	State StateJ `json:"state"`
}

type trace struct {
	init   StateJ
	steps  []stepRec
	quotas [][]ItemJ
	sts    []*[2]int64
	oks    []bool
	apis   []map[string]bool // API-backed store mode: names of the API objects after every op (apis[0]: initially)
}

type verdict struct {
	step              int // op the failure shows at (-1: unknown)
	kind, class, what string
	impl, model       interface{}
}

// runImpl plays the history on the real code.
func runImpl(cs Case) (tr trace, v *verdict) {
	var im *Impl
	msg, p := rig.Recover(func() { im = newImpl(cs.Shards, cs.Store, cs.Wire) })
	if p {
		return tr, &verdict{kind: "diff", class: "c18.rig-panic", what: "building the rateLimiter panicked: " + msg}
	}
	st, err := im.observe()
	if err != nil {
		return tr, &verdict{kind: "diff", class: "c18.observe", what: err.Error()}
	}
	tr.init = st
	if im.api != nil {
		tr.apis = append(tr.apis, im.api.names())
	}
	for k, op := range cs.Ops {
		var out OutJ
		var quota []ItemJ
		var err error
		msg, p := rig.Recover(func() { out, quota, err = im.apply(op) })
		if p {
			return tr, &verdict{kind: "judge", class: "c18.panic", what: fmt.Sprintf("op %d (%s) panicked: %s", k, op.Op, msg)}
		}
		if err == limiter.VerifC18ErrSlow {
			return tr, &verdict{kind: "slow", class: "c18.slow"}
		}
		if err != nil {
			cl := "c18.op-failed"
			kind := "diff"
			if op.Op == "heartbeat" {
				kind, cl = "judge", "c18.heartbeat-not-recorded"
			}
			return tr, &verdict{kind: kind, class: cl, what: fmt.Sprintf("op %d (%s): %v", k, op.Op, err)}
		}
		st, err := im.observe()
		if err == errAmbiguous {
			return tr, &verdict{kind: "skip", class: "c18.skip"}
		}
		if err != nil {
			return tr, &verdict{kind: "diff", class: "c18.observe", what: fmt.Sprintf("after op %d (%s): %v", k, op.Op, err)}
		}
		tr.steps = append(tr.steps, stepRec{Out: out, State: st})
		tr.quotas = append(tr.quotas, quota)
		tr.sts = append(tr.sts, out.St)
		tr.oks = append(tr.oks, out.K != "err")
		if im.api != nil {
			tr.apis = append(tr.apis, im.api.names())
		}
	}
	return tr, nil
}

func modelOps(cs Case, tr trace) []map[string]interface{} {
	ops := make([]map[string]interface{}, len(cs.Ops))
	for k, op := range cs.Ops {
		var q []ItemJ
		var st *[2]int64
		if k < len(tr.quotas) {
			q, st = tr.quotas[k], tr.sts[k]
		}
		var sw [][]ItemJ
		if k < len(tr.steps) {
			sw = tr.steps[k].Out.Swarm
		}
		ops[k] = modelOp(op, q, st, k < len(tr.steps) && tr.steps[k].Out.K == "err" && tr.steps[k].Out.E == "wire", sw)
	}
	return ops
}

func describe(op Op) string {
	b, _ := json.Marshal(op)
	s := string(b)
	if len(s) > 300 {
		s = s[:300] + "…"
	}
	return s
}

// check runs one case: implementation, model, correspondence, judge. nil = all fine.
func check(c *rig.Ctx, cs Case) (*verdict, trace) {
	if cs.Shards <= 0 {
		return &verdict{kind: "diff", class: "c18.bad-case", what: "shard count must be positive"}, trace{}
	}
	tr, v := runImpl(cs)
	for try := 0; v != nil && v.kind == "slow" && try < 4; try++ {
		tr, v = runImpl(cs) // the machine stalled during a pass: start over
	}
	if v != nil && v.kind == "slow" {
		c.Count("skipped:machine-too-slow-for-the-scripted-clock")
		return nil, tr
	}
	if v != nil && v.kind == "skip" {
		c.Count("skipped:reduced-observation-cannot-parse-DebugInfo-for-these-ids")
		return nil, tr
	}
	if v != nil {
		return v, tr
	}
	ops := modelOps(cs, tr)
	// the judge on what the real code did
	states := []StateJ{tr.init}
	for _, s := range tr.steps {
		states = append(states, s.State)
	}
	type judged struct {
		Violations []struct {
			Step  int    `json:"step"`
			Class string `json:"class"`
		} `json:"violations"`
	}
	if cs.Wire {
		// The property as a gateway sees it: the same judge, but "has a heartbeat entry" is replaced by what the clients
		// DID - an instance is live while its last heartbeat request (served by the endpoint) is younger than the time-out
		// at the passes. Whatever the endpoints do to an id, a heartbeating instance is never reclaimed, a silent one is.
		cv := clientView(cs, tr, states)
		var jc judged
		if err := c.Model("C18.judge", map[string]interface{}{"shards": cs.Shards, "ops": ops, "outs": outsOf(tr), "states": cv}, &jc); err != nil {
			return &verdict{kind: "diff", class: "c18.judge-error", what: "judge: " + err.Error()}, tr
		}
		if len(jc.Violations) > 0 {
			x := jc.Violations[0]
			return &verdict{step: x.Step, kind: "judge", class: x.Class, what: fmt.Sprintf("%s (heartbeats as the clients sent them) at op %d %s", x.Class, x.Step, describe(cs.Ops[x.Step])),
				impl: map[string]interface{}{"before": cv[x.Step], "after": cv[x.Step+1]}}, tr
		}
	}
	var jr judged
	if err := c.Model("C18.judge", map[string]interface{}{"shards": cs.Shards, "ops": ops, "outs": outsOf(tr), "states": states}, &jr); err != nil {
		return &verdict{kind: "diff", class: "c18.judge-error", what: "judge: " + err.Error()}, tr
	}
	if len(jr.Violations) > 0 {
		x := jr.Violations[0]
		return &verdict{step: x.Step, kind: "judge", class: x.Class, what: fmt.Sprintf("%s at op %d %s", x.Class, x.Step, describe(cs.Ops[x.Step])),
			impl: map[string]interface{}{"before": states[x.Step], "after": states[x.Step+1]}}, tr
	}
	// API-backed store: what the passes reclaimed from the cache must be gone from the API too, and the API never
	// holds a condition the cache does not know (write-through mode, leadership kept)
	if v := judgeAPI(cs, tr, states); v != nil {
		return v, tr
	}
	if !reqIDObservable {
		// reduced observation (the optional flow-control shim no longer builds): the request id a burst ends with is
		// not visible, the model cannot follow the request-id refusals after it; the judge above has run all the same
		for _, op := range cs.Ops {
			if op.Op == "burst" {
				c.Count("reduced:correspondence-skipped-after-burst")
				return nil, tr
			}
		}
	}
	// correspondence
	var mr struct {
		Init  StateJ    `json:"init"`
		Steps []stepRec `json:"steps"`
	}
	if err := c.Model("C18.run", map[string]interface{}{"shards": cs.Shards, "ops": ops}, &mr); err != nil {
		return &verdict{kind: "diff", class: "c18.model-error", what: "model: " + err.Error()}, tr
	}
	mr.Init.canon()
	if rig.Canon(mr.Init) != rig.Canon(tr.init) {
		return &verdict{kind: "diff", class: "c18.init", what: "initial states differ", impl: tr.init, model: mr.Init}, tr
	}
	if len(mr.Steps) != len(tr.steps) {
		return &verdict{kind: "diff", class: "c18.length", what: "model answered a different number of steps"}, tr
	}
	for k := range mr.Steps {
		m := mr.Steps[k]
		m.State.canon()
		if m.Out.Rs == nil && m.Out.K == "acquired" {
			m.Out.Rs = []AcqRes{}
		}
		if rig.Canon(m.Out) != rig.Canon(tr.steps[k].Out) {
			return &verdict{kind: "diff", class: "c18.out." + cs.Ops[k].Op, what: fmt.Sprintf("op %d %s: answers differ", k, describe(cs.Ops[k])),
				impl: tr.steps[k].Out, model: m.Out}, tr
		}
		if a, b := rig.Canon(m.State), rig.Canon(tr.steps[k].State); a != b {
			return &verdict{kind: "diff", class: "c18.state." + cs.Ops[k].Op, what: fmt.Sprintf("op %d %s: recorded states differ (%s)", k, describe(cs.Ops[k]), firstDiff(m.State, tr.steps[k].State)),
				impl: tr.steps[k].State, model: m.State}, tr
		}
	}
	return nil, tr
}

var timeoutMs int64

// clientView: the observed states with the heartbeat table replaced by the one the clients' own actions define.
func clientView(cs Case, tr trace, states []StateJ) []StateJ {
	res := make([]StateJ, len(states))
	table := map[string]int64{}
	snap := func() []HbEntry {
		l := []HbEntry{}
		for i, t := range table {
			l = append(l, HbEntry{I: i, T: t})
		}
		sort.Slice(l, func(a, b int) bool { return l[a].I < l[b].I })
		return l
	}
	res[0] = states[0]
	res[0].Hb = snap()
	for k, op := range cs.Ops {
		if k >= len(tr.steps) {
			break
		}
		switch {
		case op.Op == "heartbeat" && tr.steps[k].Out.K != "err":
			table[op.I] = op.T
		case op.Op == "swarm":
			for _, i := range op.Insts {
				table[i] = op.T
			}
		case op.Op == "cleanupTimeout":
			for i, t := range table {
				if op.Now > t+timeoutMs {
					delete(table, i)
				}
			}
		}
		res[k+1] = states[k+1]
		res[k+1].Hb = snap()
	}
	return res
}

// outsOf: the answers of the real code, as the judge reads them.
func outsOf(tr trace) []map[string]interface{} {
	res := make([]map[string]interface{}, len(tr.steps))
	for k, s := range tr.steps {
		o := s.Out
		m := map[string]interface{}{"k": o.K}
		switch o.K {
		case "err":
			m["e"] = o.E
		case "reported":
			m["label"] = o.Label
		case "acquired":
			rs := o.Rs
			if rs == nil {
				rs = []AcqRes{}
			}
			m["rs"] = rs
		}
		res[k] = m
	}
	return res
}

func judgeAPI(cs Case, tr trace, states []StateJ) *verdict {
	if tr.apis == nil {
		return nil
	}
	for k := range cs.Ops {
		pre, post, api := states[k], states[k+1], tr.apis[k+1]
		cached := map[string]bool{}
		for _, c := range post.Conds {
			cached[rig.UnHex(c.Name)] = true
		}
		if op := cs.Ops[k].Op; op == "cleanupTimeout" || op == "cleanupUnknown" {
			for _, c := range pre.Conds {
				n := rig.UnHex(c.Name)
				if !cached[n] && api[n] {
					return &verdict{kind: "judge", class: "c18.k8s-api-keeps-reclaimed-condition",
						what: fmt.Sprintf("op %d (%s): condition %q was reclaimed from the store's cache but is still in the API", k, op, n)}
				}
			}
		}
		for n := range api {
			if !cached[n] {
				return &verdict{kind: "judge", class: "c18.k8s-api-object-unknown-to-cache",
					what: fmt.Sprintf("op %d (%s): the API holds condition %q, the store's cache does not", k, cs.Ops[k].Op, n)}
			}
		}
	}
	return nil
}

func firstDiff(m, i StateJ) string {
	parts := []struct {
		n    string
		a, b interface{}
	}{{"hb", m.Hb, i.Hb}, {"leaders", m.Leaders, i.Leaders}, {"shards", m.Shards, i.Shards}, {"clusters", m.Clusters, i.Clusters},
		{"conds", m.Conds, i.Conds}, {"fcs", m.Fcs, i.Fcs}, {"listed", m.Listed, i.Listed}, {"locks", m.Locks, i.Locks}, {"failing", m.Failing, i.Failing}}
	for _, p := range parts {
		if a, b := rig.Canon(p.a), rig.Canon(p.b); a != b {
			if len(a) > 400 {
				a = a[:400]
			}
			if len(b) > 400 {
				b = b[:400]
			}
			return fmt.Sprintf("%s: model %s, code %s", p.n, a, b)
		}
	}
	return ""
}

// features of a history, from what the real code did: used for the non-triviality rule and the histogram.
type features struct {
	reclaimTimeout, reclaimUnknown, liveSurvived, upstreamDeleted, storeDropped, returned, rejected, tooOld bool
	refused, oob, burstState, reclaimAfterNotFound, wireRefused, wireServed                              bool
	ops                                                                                                map[string]int
}

func hasRecorded(s StateJ, inst string) bool {
	for _, c := range s.Conds {
		if c.I == inst {
			return true
		}
	}
	for _, f := range s.Fcs {
		for _, e := range f.States {
			if e.I == inst {
				return true
			}
		}
	}
	return false
}

func instancesRecorded(s StateJ) map[string]bool {
	res := map[string]bool{}
	for _, c := range s.Conds {
		if c.I != "" {
			res[c.I] = true
		}
	}
	for _, f := range s.Fcs {
		for _, e := range f.States {
			res[e.I] = true
		}
	}
	return res
}

func featuresOf(cs Case, tr trace) features {
	f := features{ops: map[string]int{}}
	pre := tr.init
	gone := map[string]bool{}
	for k, st := range tr.steps {
		op := cs.Ops[k]
		f.ops[op.Op]++
		post := st.State
		if op.Op == "cleanupTimeout" || op.Op == "cleanupUnknown" {
			removed, kept := false, false
			for inst := range instancesRecorded(pre) {
				if !hasRecorded(post, inst) {
					removed = true
					gone[inst] = true
				} else {
					for _, h := range post.Hb {
						if h.I == inst {
							kept = true
						}
					}
				}
			}
			if removed && op.Op == "cleanupTimeout" {
				f.reclaimTimeout = true
			}
			if removed && op.Op == "cleanupUnknown" {
				f.reclaimUnknown = true
			}
			if removed && kept {
				f.liveSurvived = true
			}
			if len(post.Clusters) < len(pre.Clusters) {
				f.upstreamDeleted = true
			}
		}
		if op.Op == "cleanupTimeout" || op.Op == "cleanupUnknown" {
			hb := map[string]bool{}
			for _, h := range post.Hb {
				hb[h.I] = true
			}
			failing := map[string]bool{}
			for _, n := range post.Failing {
				failing[n] = true
			}
			for _, c := range post.Conds {
				if failing[c.Name] && c.I != "" && !hb[c.I] {
					f.refused = true
				}
			}
			if tr.apis != nil {
				postNames := map[string]bool{}
				for _, c := range post.Conds {
					postNames[c.Name] = true
				}
				for _, c := range pre.Conds {
					if !postNames[c.Name] && !tr.apis[k][rig.UnHex(c.Name)] {
						f.reclaimAfterNotFound = true // the API delete answered NotFound, the cache entry went all the same
					}
				}
			}
		}
		if op.Op == "apiDelete" && tr.apis != nil && tr.apis[k][rig.UnHex(op.Name)] {
			f.oob = true
		}
		if op.Op == "burst" && k < len(tr.sts) && tr.sts[k] != nil {
			f.burstState = true
		}
		if op.Op == "leaderCheck" && len(post.Shards) < len(pre.Shards) {
			f.storeDropped = true
		}
		if op.Op == "heartbeat" && gone[op.I] {
			f.returned = true
		}
		if st.Out.K == "err" && st.Out.E == "wire" {
			f.wireRefused = true
		} else if st.Out.K == "err" {
			f.rejected = true
		}
		if cs.Wire && (st.Out.K == "reported" || st.Out.K == "acquired") {
			f.wireServed = true
		}
		for _, r := range st.Out.Rs {
			if r.Err == "tooOld" {
				f.tooOld = true
			}
		}
		pre = post
	}
	return f
}

func (f features) bucket(n int) string {
	switch {
	case n <= 30:
		return "ops<=30"
	case n <= 60:
		return "ops<=60"
	case n <= 100:
		return "ops<=100"
	}
	return "ops>100"
}

// racy: the failure needs two goroutines of a burst to interleave; a candidate is tried several times.
func racy(class string) bool { return class == "c18.count-differs-from-recorded-states" }

func fails(c *rig.Ctx, cs Case, class string) bool {
	tries := 1
	if racy(class) {
		tries = 8
	}
	for t := 0; t < tries; t++ {
		if v, _ := check(c, cs); v != nil && v.class == class {
			return true
		}
	}
	return false
}

func shrink(c *rig.Ctx, cs Case, class string) Case {
	cs.Ops = rig.ShrinkList(cs.Ops, func(l []Op) bool { return fails(c, Case{Shards: cs.Shards, Store: cs.Store, Wire: cs.Wire, Ops: l}, class) })
	// simplify the surviving reports and acquires
	for k := range cs.Ops {
		if len(cs.Ops[k].Items) > 1 {
			k := k
			cs.Ops[k].Items = rig.ShrinkList(cs.Ops[k].Items, func(l []RItem) bool {
				x := Case{Shards: cs.Shards, Store: cs.Store, Wire: cs.Wire, Ops: append([]Op{}, cs.Ops...)}
				x.Ops[k].Items = l
				return fails(c, x, class)
			})
		}
		if len(cs.Ops[k].Reqs) > 1 {
			k := k
			cs.Ops[k].Reqs = rig.ShrinkList(cs.Ops[k].Reqs, func(l []Req) bool {
				x := Case{Shards: cs.Shards, Store: cs.Store, Wire: cs.Wire, Ops: append([]Op{}, cs.Ops...)}
				x.Ops[k].Reqs = l
				return fails(c, x, class)
			})
		}
	}
	return cs
}

func record(c *rig.Ctx, cs Case, v *verdict) {
	c.Fail(rig.Failure{Kind: v.kind, Class: v.class, What: v.what, Case: cs, Impl: v.impl, Model: v.model})
}

func runOne(c *rig.Ctx, cs Case, origin string) {
	v, tr := check(c, cs)
	f := featuresOf(cs, tr)
	nontrivial := f.reclaimTimeout || f.reclaimUnknown
	c.Case(rig.Canon(cs), nontrivial, origin+f.bucket(len(cs.Ops)), func() interface{} { return cs })
	for op, n := range f.ops {
		for i := 0; i < n; i++ {
			c.Count("op:" + op)
		}
	}
	for name, b := range map[string]bool{"hit:reclaimed-by-timeout-pass": f.reclaimTimeout, "hit:reclaimed-by-unknown-pass": f.reclaimUnknown,
		"hit:live-instance-survived-a-reclaiming-pass": f.liveSurvived, "hit:upstream-deleted-by-unknown-pass": f.upstreamDeleted,
		"hit:store-dropped-by-leaderCheck": f.storeDropped, "hit:instance-returned-after-reclaim": f.returned,
		"hit:request-rejected(notLeader/noStore/noLock/notFound/typeMismatch)": f.rejected, "hit:RequestIDTooOld": f.tooOld,
		"hit:k8s-delete-refused-by-api-condition-kept": f.refused, "hit:k8s-out-of-band-api-delete": f.oob,
		"hit:k8s-reclaimed-although-api-said-NotFound": f.reclaimAfterNotFound, "hit:burst-left-a-state": f.burstState,
		"hit:wire-report-or-acquire-served-by-the-real-handlers": f.wireServed, "hit:wire-request-refused-before-the-limiter(400/client)": f.wireRefused} {
		if b {
			c.Count(name)
		}
	}
	if v == nil {
		c.Trace()
		return
	}
	if v.kind == "judge" && v.step > 0 && v.step+1 < len(cs.Ops) {
		// nothing after the op the judge fired at matters
		if cut := (Case{Shards: cs.Shards, Store: cs.Store, Wire: cs.Wire, Ops: cs.Ops[:v.step+1]}); fails(c, cut, v.class) {
			cs = cut
		}
	}
	small := shrink(c, cs, v.class)
	for t := 0; t < 8; t++ {
		if v2, _ := check(c, small); v2 != nil && v2.class == v.class {
			record(c, small, v2)
			return
		}
		if !racy(v.class) {
			break
		}
	}
	record(c, cs, v)
}

func main() {
	fs := flag.NewFlagSet("klog", flag.ContinueOnError)
	klog.InitFlags(fs)
	fs.Set("logtostderr", "false")
	fs.Set("alsologtostderr", "false")
	fs.Set("stderrthreshold", "FATAL")
	klog.SetOutput(io.Discard)

	rig.Main("C18", func(c *rig.Ctx) {
		c.SetRule("a history of 15-90 generator steps over 1-3 shards, 1-3 upstreams (1-4 global max-in-flight / token-bucket schemas) and 2-7 gateway identities " +
			"(ordinary, with ':' '/' '.' '_' upper case, >63 bytes, Unicode, ids equal up to ':'->'-' / case / '_' rewriting, empty, 'state'): heartbeat / report / acquire / BURST of 2-8 parallel acquires of one instance / " +
			"time-out pass at a scripted clock / unknown pass / leadership flaps + leaderCheck / list, unlist, upstream events; every third history runs on the API-BACKED " +
			"store (write-through, fake API) with deletes of chosen conditions failing (unavailable / answer lost) and out-of-band API deletions; every fourth sends its " +
			"heartbeats / reports / acquires through the generated client, the HTTP wire format and the real handler chain (BuildHandlerChain) instead of calling the limiter; every eighth is a join " +
			"storm (12-41 instances each joining with 8 parallel first acquires, then dying; some return); run on the real rateLimiter and on the model, the whole recorded " +
			"state (the store's cache) compared and judged after every op, the API contents judged against the cache; distinct = distinct canonical history; " +
			"non-trivial = on the real code a clean-up pass removed every recorded trace (condition or in-flight state) of at least one instance")
		var consts struct {
			TimeoutMs int64  `json:"timeoutMs"`
			Label     string `json:"label"`
		}
		if err := c.Model("C18.consts", map[string]interface{}{}, &consts); err != nil {
			c.Fail(rig.Failure{Kind: "diff", Class: "c18.consts", What: "driver has no constants: " + err.Error()})
			return
		}
		// regenerated constants against the compiled code
		if consts.TimeoutMs != limiter.VerifC18TimeoutMs() || consts.Label != limiter.RateLimitConditionInstanceLabel {
			c.Fail(rig.Failure{Kind: "diff", Class: "c18.consts", What: fmt.Sprintf("regenerated constants (%d ms, %q) differ from the compiled ones (%d ms, %q)",
				consts.TimeoutMs, consts.Label, limiter.VerifC18TimeoutMs(), limiter.RateLimitConditionInstanceLabel)})
			return
		}
		c.SetExtra("timeoutMs", consts.TimeoutMs)
		timeoutMs = consts.TimeoutMs

		if c.Replay != "" {
			var cs Case
			if err := c.LoadReplay(&cs); err != nil {
				fmt.Fprintln(os.Stderr, err)
				os.Exit(2)
			}
			v, tr := check(c, cs)
			f := featuresOf(cs, tr)
			c.Case(rig.Canon(cs), true, "replay:"+f.bucket(len(cs.Ops)), func() interface{} { return cs })
			if v != nil {
				record(c, cs, v)
			} else {
				c.Trace()
			}
			return
		}

		// corpus first
		dir := filepath.Join(os.Getenv("VERIF_DIR"), "harness", "corpus", "C18")
		files, _ := filepath.Glob(filepath.Join(dir, "*.json"))
		sort.Strings(files)
		for _, fn := range files {
			b, err := os.ReadFile(fn)
			if err != nil {
				continue
			}
			var env struct {
				Case Case `json:"case"`
			}
			if json.Unmarshal(b, &env) != nil || len(env.Case.Ops) == 0 {
				c.Note("corpus file %s does not decode", fn)
				continue
			}
			v, tr := check(c, env.Case)
			f := featuresOf(env.Case, tr)
			c.Case(rig.Canon(env.Case), true, "corpus:"+f.bucket(len(env.Case.Ops)), nil)
			if v != nil {
				v.what = filepath.Base(fn) + ": " + v.what
				record(c, env.Case, v)
			} else {
				c.Trace()
			}
		}

		n := c.Budget(1000, 30000)
		for k := 0; k < n && c.NFailures() < 3; k++ {
			size := 15 + c.Rng.Intn(40)
			if k%5 == 0 {
				size = 50 + c.Rng.Intn(40)
			}
			k8s := k%3 == 1
			wireMode := k%4 == 2
			origin := ""
			if wireMode {
				origin = "wire:"
			}
			if k8s {
				origin += "k8s:"
			}
			if k%50 == 10 {
				cs := genScale(c.Rng, consts.TimeoutMs, k%100 == 60, k%150 == 10)
				runOne(c, cs, "scale:")
				continue
			}
			if k%8 == 7 {
				cs := genStorm(c.Rng, consts.TimeoutMs, k8s)
				cs.Wire = k%16 == 15
				if cs.Wire {
					origin = "wire:" + origin
				}
				runOne(c, cs, origin+"storm:")
				continue
			}
			cs := genCase(c.Rng, size, consts.TimeoutMs, k8s)
			cs.Wire = wireMode
			runOne(c, cs, origin)
		}
	})
}
