package main

// Wire mode: heartbeats, reports and acquires do not call the rateLimiter's methods, they go the way a gateway's do:
// the GENERATED client (request building, path/query escaping, client-side name validation, JSON codec) -> HTTP/1.1
// wire format (the request is serialised and parsed again, as a server's connection would) -> the REAL handler chain
// endpoints.BuildHandlerChain (request info, metrics, panic recovery, the limiter dispatcher and its handlers) over
// the same rateLimiter. The round trip runs on the caller's goroutine: no server, no connection goroutines.

import (
	"bufio"
	"bytes"
	"context"
	"net/http"
	"net/http/httptest"
	"strings"

	apierrors "k8s.io/apimachinery/pkg/api/errors"
	metav1 "k8s.io/apimachinery/pkg/apis/meta/v1"
	"k8s.io/apimachinery/pkg/util/sets"
	apirequest "k8s.io/apiserver/pkg/endpoints/request"
	"k8s.io/client-go/rest"

	proxyv1alpha1 "github.com/kubewharf/kubegateway/pkg/apis/proxy/v1alpha1"
	gatewayclientset "github.com/kubewharf/kubegateway/pkg/client/kubernetes"
	"github.com/kubewharf/kubegateway/pkg/ratelimiter/clientsets"
	"github.com/kubewharf/kubegateway/pkg/ratelimiter/endpoints"
	"github.com/kubewharf/kubegateway/pkg/ratelimiter/limiter"
)

type inproc struct{ h http.Handler }

func (t *inproc) RoundTrip(req *http.Request) (*http.Response, error) {
	var buf bytes.Buffer
	if err := req.Write(&buf); err != nil {
		return nil, err
	}
	sreq, err := http.ReadRequest(bufio.NewReader(&buf))
	if err != nil {
		return nil, err
	}
	sreq.RemoteAddr = "127.0.0.1:54321"
	rec := httptest.NewRecorder()
	t.h.ServeHTTP(rec, sreq)
	res := rec.Result()
	res.Request = req
	return res, nil
}

type wire struct {
	cs gatewayclientset.Interface
}

func newWire(lim limiter.RateLimiter) (*wire, error) {
	resolver := &apirequest.RequestInfoFactory{APIPrefixes: sets.NewString("api", "apis"), GrouplessAPIPrefixes: sets.NewString("api")}
	h := endpoints.BuildHandlerChain(http.NotFoundHandler(), lim, nil, nil, resolver)
	cs, err := gatewayclientset.NewForConfig(&rest.Config{Host: "http://limiter.verif", Transport: &inproc{h: h}, QPS: -1})
	if err != nil {
		return nil, err
	}
	return &wire{cs: cs}, nil
}

// wireErr: HTTP status (0: the client refused to send) and everything the answer says.
func wireErr(err error) (int, string) {
	msg := err.Error()
	if st, ok := err.(apierrors.APIStatus); ok {
		s := st.Status()
		if s.Details != nil {
			for _, c := range s.Details.Causes {
				msg += " | " + c.Message
			}
		}
		return int(s.Code), msg
	}
	return 0, msg
}

// classifyWire maps an error that came back over the wire: "wire" = refused by the client or the endpoint (400) before
// the limiter was asked; otherwise the limiter's own refusal.
func classifyWire(err error) string {
	code, msg := wireErr(err)
	if code == 0 || code == http.StatusBadRequest {
		return "wire"
	}
	switch {
	case strings.Contains(msg, "leader is"):
		return "notLeader"
	case strings.Contains(msg, "limit store for upstream"):
		return "noStore"
	case strings.Contains(msg, "upstreamLock not exist"):
		return "noLock"
	case strings.Contains(msg, "not equal to instance item type"):
		return "typeMismatch"
	case strings.Contains(msg, "not found"):
		return "notFound"
	}
	return "other: " + msg
}

// heartbeat as clientSets.clientHeart sends it.
func (w *wire) heartbeat(instance string) error {
	res := w.cs.ProxyV1alpha1().RESTClient().Post().AbsPath(clientsets.HeartBeatUrl).Param("instance", instance).Do(context.Background())
	_, err := res.Raw()
	return err
}

// report as the remote allocation reconciler sends it.
func (w *wire) report(cond *proxyv1alpha1.RateLimitCondition) (*proxyv1alpha1.RateLimitCondition, error) {
	return w.cs.ProxyV1alpha1().RateLimitConditions().UpdateStatus(context.Background(), cond, metav1.UpdateOptions{})
}

// acquire as the remote counter sends it.
func (w *wire) acquire(cluster string, acq *proxyv1alpha1.RateLimitAcquire) (*proxyv1alpha1.RateLimitAcquire, error) {
	return w.cs.ProxyV1alpha1().RateLimitConditions().Acquire(context.Background(), cluster, acq, metav1.CreateOptions{})
}
