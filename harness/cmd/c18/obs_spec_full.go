//go:build !no_spec

package main

import (
	k8sstore "github.com/kubewharf/kubegateway/pkg/ratelimiter/store/k8s"
	_interface "github.com/kubewharf/kubegateway/pkg/ratelimiter/store/interface"
	"github.com/kubewharf/kubegateway/pkg/ratelimiter/store/local"
)

const specObservable = true

// clusterSpec: the flow-control spec a store has synchronised for a cluster (optional shim).
func clusterSpec(st _interface.LimitStore, cluster string) ([]SchemaJ, bool) {
	if cache, ok := k8sstore.VerifC18Cache(st); ok {
		st = cache
	}
	fc, ok := local.VerifC18Spec(st, cluster)
	if !ok {
		return nil, false
	}
	var res []SchemaJ
	for _, sc := range fc.Schemas {
		res = append(res, schemaJ(sc))
	}
	return res, true
}
