package main

import (
	"math/rand"
	"strings"

	"verifharness/rig"
)

// identity pool: ordinary run ids, ids that are not valid label values (':' / too long / leading '-'), two ids
// that share one condition name ("a:1" / "a-1": ':' is replaced by '-'), the empty id and the id whose condition
// name collides with the upstream state condition ("state").
var instPool = []string{
	"gw-a-101-abcde", "gw-b-202-fghij", "gw-c-303-klmno", "gw_d.4",
	"10.0.0.1:6443-77-pqrst", "10.0.0.1-6443-77-pqrst",
	"a:1", "a-1",
	strings.Repeat("long-prefix-", 6) + "9-uvwxy", // 81 bytes
	"-leading-dash", "", "state", "x/y",
	// what an endpoint or a label might be tempted to rewrite: upper case, '_', '.', Unicode, a second ':',
	// and ids that are equal up to such rewriting
	"GW-A-101-ABCDE", "gw_a_101_abcde", "gw.a.101.abcde", "gw-ü-日本-7-äöüß", "GW-ü-日本-7-äöüß",
	"host.example.com:6443:9-zzzzz", "host.example.com-6443-9-zzzzz", "pre fix/with space-1", "a%3A1",
}

var upsPool = []string{"u0", "u1", "u2", "u3", "prod.cluster", "u0.gw-a-101-abcde"}
var fcPool = []string{"fa", "fb", "fc", "fd"}

type gen struct {
	r      *rand.Rand
	shards int
	clock  int64
	ops    []Op
	insts  []string          // identities taking part
	live   map[string]bool   // currently sending heartbeats
	lastHB map[string]int64  // every heartbeat ever scripted (never forgotten: keeps shrunk cases unambiguous too)
	ups    []string          // upstreams of this history
	schema map[string][]SchemaJ
	rid    map[string]int64
	tmo    int64
	reported [][2]string     // (upstream, instance) pairs that have sent a report
	k8s    bool              // API-backed store: leadership is never given up (a new holder would Load the API: C19's subject)
	kind   map[string]string // flow-control name -> mif | tb | both | none, fixed for the whole history: a schema that
	// changes its TYPE while conditions of the old type are stored makes calculateUpstreamCondition dereference nil
	// (flowControlConfig.TokenBucket.QPS on a max-in-flight config) - a defect outside C18, see notes/C18.md
}

func (g *gen) add(op Op) { g.ops = append(g.ops, op) }

func (g *gen) pickInst() string { return g.insts[g.r.Intn(len(g.insts))] }
func (g *gen) pickUps() string  { return g.ups[g.r.Intn(len(g.ups))] }

func (g *gen) genSchemas() []SchemaJ {
	n := 1 + g.r.Intn(3)
	var res []SchemaJ
	names := g.r.Perm(len(fcPool))
	for k := 0; k < n; k++ {
		sc := SchemaJ{Name: rig.Hex(fcPool[names[k]])}
		switch g.kind[fcPool[names[k]]] {
		case "mif":
			m := int64(rig.Pick(g.r, []int32{1, 2, 5, 10, 100, 1000, 2147483647}))
			sc.Gmif = &m
		case "tb":
			q := int64(rig.Pick(g.r, []int32{1, 10, 100, 5000}))
			sc.Gtb = &[2]int64{q, q * 2}
		case "both":
			m := int64(rig.Pick(g.r, []int32{3, 50}))
			sc.Gmif, sc.Gtb = &m, &[2]int64{20, 40}
		default: // neither global member: the server keeps no flow control for it
		}
		res = append(res, sc)
	}
	if g.r.Intn(25) == 0 { // duplicate schema name
		res = append(res, res[0])
	}
	return res
}

func (g *gen) heartbeat(i string) {
	g.add(Op{Op: "heartbeat", I: rig.Hex(i), T: g.clock})
	g.lastHB[i] = g.clock
}

// unambiguous moves the clock so that no heartbeat ever scripted is within the slack of the time-out.
func (g *gen) unambiguous() {
	for again := true; again; {
		again = false
		for _, t := range g.lastHB {
			age := g.clock - t
			if age > g.tmo-slackMs && age < g.tmo+100 {
				g.clock += slackMs + 200
				again = true
			}
		}
	}
}

func (g *gen) report(i string) {
	u := g.pickUps()
	var items []RItem
	for _, sc := range g.schema[u] {
		if g.r.Intn(6) == 0 {
			continue
		}
		it := RItem{Name: sc.Name, Strategy: "globalAllocate", Max: rig.Pick(g.r, []int32{0, 0, 1, 3, 20, 400}), Used: rig.Pick(g.r, []int32{0, 0, 1, 2, 15}),
			Level: rig.Pick(g.r, []int32{0, 0, 30, 80, 120})}
		it.Qps, it.Burst = it.Max, it.Max*2
		switch {
		case sc.Gmif != nil:
			it.Kind = "mif"
		case sc.Gtb != nil:
			it.Kind = "tb"
		default:
			it.Kind = "unknown"
		}
		switch x := g.r.Intn(40); {
		case x == 0:
			it.Kind = rig.Pick(g.r, []string{"mif", "tb"}) // possibly the wrong kind: type mismatch
		case x == 1:
			it.Kind = "unknown"
		case x == 2:
			it.Kind = "both"
		case x == 3:
			it.Strategy = "globalCount"
		}
		items = append(items, it)
	}
	if g.r.Intn(12) == 0 { // a flow control the upstream does not have
		items = append(items, RItem{Name: rig.Hex("nope"), Kind: "mif", Max: 3, Strategy: "globalAllocate"})
	}
	if g.r.Intn(30) == 0 && len(items) > 0 { // the same item twice
		items = append(items, items[0])
	}
	g.add(Op{Op: "report", U: rig.Hex(u), I: rig.Hex(i), Items: items})
	g.reported = append(g.reported, [2]string{u, i})
}

func (g *gen) acquire(i string) {
	u := g.pickUps()
	g.rid[i]++
	rid := g.rid[i]
	switch g.r.Intn(12) {
	case 0:
		rid = 0 // no request id
	case 1:
		rid = rid - 1 - int64(g.r.Intn(2)) // stale id
		if rid < 0 {
			rid = 0
		}
	case 2:
		rid = 1 // an instance that restarted its numbering
	}
	var reqs []Req
	for _, sc := range g.schema[u] {
		if g.r.Intn(3) == 0 {
			continue
		}
		reqs = append(reqs, Req{FC: sc.Name, Tokens: rig.Pick(g.r, []int32{0, 1, 1, 2, 3, 7, 60, 2147483647, -1})})
	}
	if g.r.Intn(15) == 0 {
		reqs = append(reqs, Req{FC: rig.Hex("nope"), Tokens: 1})
	}
	g.add(Op{Op: "acquire", U: rig.Hex(u), I: rig.Hex(i), Rid: rid, Reqs: reqs})
}

// burst: 2-8 acquires of one instance for one flow control arrive in parallel (a joining gateway posts its first
// acquires from goroutines).
func (g *gen) burst(i string) {
	u := g.pickUps()
	if len(g.schema[u]) == 0 {
		return
	}
	sc := g.schema[u][g.r.Intn(len(g.schema[u]))]
	n := 2 + g.r.Intn(7)
	toks := make([]int32, n)
	for k := range toks {
		toks[k] = rig.Pick(g.r, []int32{1, 1, 2, 3, 5, 8})
	}
	base := g.rid[i]
	if g.r.Intn(4) == 0 {
		base = 0 // restarted numbering
	}
	g.rid[i] = base + int64(n)
	g.add(Op{Op: "burst", U: rig.Hex(u), I: rig.Hex(i), FC: sc.Name, Rid: base, Toks: toks})
}

// condition names the API faults and out-of-band deletions aim at
func (g *gen) someCondName() string {
	if len(g.reported) > 0 && g.r.Intn(5) != 0 {
		// aim at a condition that exists, preferably of an instance that has gone silent
		p := g.reported[g.r.Intn(len(g.reported))]
		for try := 0; try < 3 && g.live[p[1]]; try++ {
			p = g.reported[g.r.Intn(len(g.reported))]
		}
		return p[0] + "." + strings.ReplaceAll(p[1], ":", "-")
	}
	u := g.pickUps()
	if g.r.Intn(6) == 0 {
		return u + ".state"
	}
	return u + "." + strings.ReplaceAll(g.pickInst(), ":", "-")
}

// tick: time passes, the live instances send their heartbeats, the 1 s pass runs.
func (g *gen) tick() {
	g.clock += rig.Pick(g.r, []int64{300, 1000, 1000, 1000, 1900, 2000, 3200, 4100, 9000})
	for _, i := range g.insts {
		if g.live[i] && g.r.Intn(20) != 0 {
			g.heartbeat(i)
		}
	}
	g.clock += int64(g.r.Intn(3)) * 100
	if g.r.Intn(5) != 0 {
		g.unambiguous()
		g.add(Op{Op: "cleanupTimeout", Now: g.clock})
	}
}

// genStorm: many instances join one upstream with a burst of parallel first acquires each, one of them lives on, the
// others die; both passes; the survivor reports and acquires. Judged at quiescence after every op.
func genStorm(r *rand.Rand, tmo int64, k8s bool) Case {
	g := &gen{r: r, shards: 1, live: map[string]bool{}, lastHB: map[string]int64{}, schema: map[string][]SchemaJ{},
		rid: map[string]int64{}, tmo: tmo, clock: 1000, kind: map[string]string{"fa": "mif"}, k8s: k8s}
	g.ups = []string{"u0"}
	m := int64(rig.Pick(r, []int32{40, 1000, 1000000}))
	g.schema["u0"] = []SchemaJ{{Name: rig.Hex("fa"), Gmif: &m}}
	g.add(Op{Op: "setLeader", S: 0, B: true})
	g.add(Op{Op: "list", U: rig.Hex("u0"), Schemas: g.schema["u0"]})
	g.add(Op{Op: "leaderCheck"})
	n := 12 + r.Intn(30)
	for k := 0; k < n; k++ {
		g.insts = append(g.insts, "gw-"+string(rune('a'+k%26))+"-"+strings.Repeat("x", k/26)+"-join")
	}
	for _, i := range g.insts {
		g.heartbeat(i)
		toks := make([]int32, 8)
		for k := range toks {
			toks[k] = int32(1 + r.Intn(3))
		}
		g.add(Op{Op: "burst", U: rig.Hex("u0"), I: rig.Hex(i), FC: rig.Hex("fa"), Rid: 0, Toks: toks})
		if r.Intn(3) == 0 {
			g.report(i)
		}
	}
	survivor := g.insts[0]
	g.clock += tmo + 2000
	g.heartbeat(survivor)
	g.unambiguous()
	g.add(Op{Op: "cleanupTimeout", Now: g.clock})
	g.add(Op{Op: "cleanupUnknown"})
	g.report(survivor)
	g.rid[survivor] = 100
	g.acquire(survivor)
	// some of the dead come back with their old identity: first acquires in parallel again
	for k := 1; k < len(g.insts) && k < 6; k++ {
		g.heartbeat(g.insts[k])
		g.burst(g.insts[k])
	}
	g.clock += tmo + 2000
	g.unambiguous()
	g.add(Op{Op: "cleanupTimeout", Now: g.clock})
	g.add(Op{Op: "cleanupUnknown"})
	store := ""
	if k8s {
		store = "k8s"
	}
	return Case{Shards: 1, Store: store, Ops: g.ops}
}

// genScale: the size of a real deployment - a fleet of gateways in front of dozens of upstream clusters, every gateway
// holding a condition per upstream (hundreds of conditions) - and a mass death within one clean-up period.
func genScale(r *rand.Rand, tmo int64, wireMode, k8s bool) Case {
	shards := rig.Pick(r, []int{1, 3, 8})
	nUps, nInst := 20+r.Intn(26), 6+r.Intn(9)
	var ops []Op
	for s := 0; s < shards; s++ {
		ops = append(ops, Op{Op: "setLeader", S: s, B: true})
	}
	m := int64(rig.Pick(r, []int32{100, 5000, 1000000}))
	var ups, insts []string
	for k := 0; k < nUps; k++ {
		u := "cluster-" + string(rune('a'+k/10)) + string(rune('0'+k%10)) + ".example"
		ups = append(ups, rig.Hex(u))
		ops = append(ops, Op{Op: "list", U: rig.Hex(u), Schemas: []SchemaJ{{Name: rig.Hex("fa"), Gmif: &m}}})
	}
	ops = append(ops, Op{Op: "leaderCheck"})
	for k := 0; k < nInst; k++ {
		id := "gw-" + string(rune('a'+k)) + "-" + rig.Pick(r, []string{"1", "10.0.0.7:6443", "Pod_X.y"}) + "-scale"
		insts = append(insts, rig.Hex(id))
	}
	clock := int64(1000)
	ops = append(ops, Op{Op: "swarm", T: clock, Insts: insts, Ups: ups, Rounds: 1 + r.Intn(2), FC: rig.Hex("fa")})
	survivor := insts[r.Intn(len(insts))]
	// some in-flight counts too
	for k := 0; k < 3; k++ {
		ops = append(ops, Op{Op: "acquire", U: ups[r.Intn(len(ups))], I: insts[r.Intn(len(insts))], Rid: int64(k + 1), Reqs: []Req{{FC: rig.Hex("fa"), Tokens: 2}}})
	}
	clock += tmo + 1500
	ops = append(ops, Op{Op: "heartbeat", I: survivor, T: clock - 200})
	ops = append(ops, Op{Op: "cleanupTimeout", Now: clock}, Op{Op: "cleanupUnknown"})
	ops = append(ops, Op{Op: "report", U: ups[0], I: survivor, Items: []RItem{{Name: rig.Hex("fa"), Kind: "mif", Strategy: "globalAllocate"}}})
	clock += tmo + 1500
	ops = append(ops, Op{Op: "cleanupTimeout", Now: clock}, Op{Op: "cleanupUnknown"})
	store := ""
	if k8s {
		store = "k8s"
	}
	return Case{Shards: shards, Store: store, Wire: wireMode, Ops: ops}
}

func genCase(r *rand.Rand, size int, tmo int64, k8s bool) Case {
	g := &gen{r: r, k8s: k8s, shards: 1 + r.Intn(3), live: map[string]bool{}, lastHB: map[string]int64{}, schema: map[string][]SchemaJ{},
		rid: map[string]int64{}, tmo: tmo, clock: 1000, kind: map[string]string{}}
	for _, n := range fcPool {
		g.kind[n] = rig.Pick(r, []string{"mif", "mif", "mif", "mif", "mif", "mif", "tb", "tb", "both", "none"})
	}
	// participants
	perm := r.Perm(len(instPool))
	n := 2 + r.Intn(4)
	for k := 0; k < n; k++ {
		g.insts = append(g.insts, instPool[perm[k]])
	}
	if r.Intn(3) == 0 { // make sure a colliding pair takes part
		g.insts = append(g.insts, "a:1", "a-1")
	}
	uperm := r.Perm(len(upsPool))
	for k := 0; k < 1+r.Intn(3); k++ {
		u := upsPool[uperm[k]]
		g.ups = append(g.ups, u)
		g.schema[u] = g.genSchemas()
	}
	// set-up: leadership, lister, stores
	for s := 0; s < g.shards; s++ {
		if r.Intn(8) != 0 {
			g.add(Op{Op: "setLeader", S: s, B: true})
		}
	}
	for _, u := range g.ups {
		g.add(Op{Op: "list", U: rig.Hex(u), Schemas: g.schema[u]})
	}
	g.add(Op{Op: "leaderCheck"})
	// join
	for _, i := range g.insts {
		if r.Intn(4) != 0 {
			g.live[i] = true
			g.heartbeat(i)
		}
	}
	for len(g.ops) < size {
		i := g.pickInst()
		if !g.live[i] && r.Intn(8) != 0 { // a silent instance mostly stays silent
			i = g.pickInst()
		}
		switch x := r.Intn(100); {
		case x < 22:
			g.tick()
		case x < 44:
			g.report(i)
		case x < 58:
			g.acquire(i)
		case x < 62:
			g.burst(i)
		case x < 68:
			g.add(Op{Op: "cleanupUnknown"})
		case x < 74: // goes silent
			g.live[g.pickInst()] = false
		case x < 79: // comes back with the old identity
			j := g.pickInst()
			g.live[j] = true
			g.heartbeat(j)
		case x < 83: // comes back with a new identity
			j := g.pickInst()
			g.live[j] = false
			nw := instPool[r.Intn(len(instPool))]
			known := false
			for _, k := range g.insts {
				known = known || k == nw
			}
			if !known {
				g.insts = append(g.insts, nw)
			}
			g.live[nw] = true
			g.heartbeat(nw)
		case x < 87:
			if g.k8s {
				switch r.Intn(3) {
				case 0: // the API starts (or stops) refusing the deletes of some conditions
					var fs []Fault
					for k := r.Intn(3); k > 0; k-- {
						fs = append(fs, Fault{Name: rig.Hex(g.someCondName()), Kind: rig.Pick(r, []string{"transient", "lost"})})
					}
					g.add(Op{Op: "faults", Faults: fs})
				case 1:
					g.add(Op{Op: "apiDelete", Name: rig.Hex(g.someCondName())})
				default:
					g.add(Op{Op: "setLeader", S: r.Intn(g.shards), B: true})
				}
			} else {
				g.add(Op{Op: "setLeader", S: r.Intn(g.shards), B: r.Intn(2) == 0})
			}
		case x < 91:
			g.add(Op{Op: "leaderCheck"})
		case x < 93:
			g.add(Op{Op: "unlist", U: rig.Hex(g.pickUps())})
		case x < 95:
			u := g.pickUps()
			if r.Intn(4) == 0 {
				g.schema[u] = g.genSchemas()
			}
			g.add(Op{Op: "list", U: rig.Hex(u), Schemas: g.schema[u]})
		case x < 98:
			g.add(Op{Op: "handle", U: rig.Hex(g.pickUps())})
		default: // the whole sync(): time-out pass then leaderCheck
			g.unambiguous()
			g.add(Op{Op: "cleanupTimeout", Now: g.clock})
			g.add(Op{Op: "leaderCheck"})
		}
	}
	// the end of every history: everybody silent long enough, both passes
	if r.Intn(2) == 0 {
		if k8s {
			g.add(Op{Op: "faults"}) // the API answers again
		}
		g.clock += g.tmo + 5000
		g.unambiguous()
		g.add(Op{Op: "cleanupTimeout", Now: g.clock})
		g.add(Op{Op: "cleanupUnknown"})
	}
	store := ""
	if k8s {
		store = "k8s"
	}
	return Case{Shards: g.shards, Store: store, Ops: g.ops}
}
