package main

import (
	"context"
	"fmt"
	"net"
	"net/http"
	"net/http/httptest"
	"strings"
	"sync"
	"time"

	metav1 "k8s.io/apimachinery/pkg/apis/meta/v1"
	"k8s.io/apimachinery/pkg/util/sets"
	"k8s.io/apiserver/pkg/authentication/user"
	genericapirequest "k8s.io/apiserver/pkg/endpoints/request"
	genericfilters "k8s.io/apiserver/pkg/server/filters"

	proxyv1alpha1 "github.com/kubewharf/kubegateway/pkg/apis/proxy/v1alpha1"
	"github.com/kubewharf/kubegateway/pkg/clusters"
	gatewayrequest "github.com/kubewharf/kubegateway/pkg/gateway/endpoints/request"
	proxydispatcher "github.com/kubewharf/kubegateway/pkg/gateway/proxy/dispatcher"

	"verifharness/rig"
)

// ---------------------------------------------------------------------------------------------------
// (c) one request through the real dispatcher.ServeHTTP, every way out; the limiter is the real
// max-in-flight limiter of a real ClusterInfo and is observed only through its public behaviour:
// how many further requests it admits.

type ServeCase struct {
	Kind  string `json:"kind"`  // "serve"
	Way   string `json:"way"`   // ok | upstream-error | no-endpoint | client-abort | panic | refused | no-match
	Limit int    `json:"limit"` // the schema's max-in-flight limit (1..4)
	Held  int    `json:"held"`  // slots taken by other requests before this one arrives
	// Shape of the request ("" = list): get, create, patch, deletecollection, watch, watch-legacy, log, exec, attach,
	// portforward, proxy, nonresource. RequestInfo and ExtraRequestInfo (incl. IsLongRunningRequest) are derived from
	// the request by the real factories with the proxy server's long-running check.
	Shape string `json:"shape,omitempty"`
}

var serveShapes = map[string][2]string{
	"":                 {"GET", "/api/v1/namespaces/default/pods"},
	"get":              {"GET", "/api/v1/namespaces/default/pods/p"},
	"create":           {"POST", "/api/v1/namespaces/default/pods"},
	"patch":            {"PATCH", "/apis/apps/v1/namespaces/default/statefulsets/s/status"},
	"deletecollection": {"DELETE", "/api/v1/namespaces/default/events"},
	"watch":            {"GET", "/api/v1/namespaces/default/pods?watch=true&resourceVersion=5"},
	"watch-legacy":     {"GET", "/api/v1/watch/namespaces/default/pods"},
	"log":              {"GET", "/api/v1/namespaces/default/pods/p/log?follow=true"},
	"exec":             {"POST", "/api/v1/namespaces/default/pods/p/exec?command=ls"},
	"attach":           {"POST", "/api/v1/namespaces/default/pods/p/attach"},
	"portforward":      {"POST", "/api/v1/namespaces/default/pods/p/portforward"},
	"proxy":            {"GET", "/api/v1/namespaces/default/services/s/proxy/metrics"},
	"nonresource":      {"GET", "/version"},
}

var serveShapeNames = []string{"", "get", "create", "patch", "deletecollection", "watch", "watch-legacy", "log", "exec", "attach", "portforward", "proxy", "nonresource"}

// the long-running check of the real proxy server (cmd/kube-gateway: watch/proxy verbs, attach/exec/proxy/log/portforward subresources)
var serveLongRunning = genericfilters.BasicLongRunningRequestCheck(sets.NewString("watch", "proxy"), sets.NewString("attach", "exec", "proxy", "log", "portforward"))
var serveRequestInfo = &genericapirequest.RequestInfoFactory{APIPrefixes: sets.NewString("api", "apis"), GrouplessAPIPrefixes: sets.NewString("api")}

const serveSchema = "fc"

type serveObs struct {
	status     int
	panicked   bool
	duringFree int // slots free while the upstream was handling the request (-1: upstream never reached)
	afterFree  int // slots free after ServeHTTP returned
	ownLimit    string
	longRunning bool
	err         string
}

// freeSlots counts how many further requests the limiter admits right now (and gives them back).
func freeSlots(ci *clusters.ClusterInfo, cap int) int {
	fc := ci.GetFlowSchema(serveSchema)
	n := 0
	for i := 0; i < cap+2; i++ {
		if !fc.TryAcquire() {
			break
		}
		n++
	}
	for i := 0; i < n; i++ {
		fc.Release()
	}
	return n
}

func alwaysReady(e *clusters.EndpointInfo) bool {
	if !e.IsReady() {
		e.UpdateStatus(true, "", "")
	}
	return false
}

func neverReady(e *clusters.EndpointInfo) bool {
	e.UpdateStatus(false, "Scripted", "never ready")
	return false
}

type panickyWriter struct {
	h http.Header
}

// Header panics: the reverse proxy's own recover() handler calls it again, so the panic leaves
// proxyHandler.ServeHTTP and unwinds dispatcher.ServeHTTP (its deferred calls must still run).
func (p *panickyWriter) Header() http.Header { panic("verif: response writer panics") }
func (p *panickyWriter) WriteHeader(int)     {}
func (p *panickyWriter) Write(b []byte) (int, error) {
	panic("verif: response writer panics")
}

func runImplServe(s ServeCase) (obs serveObs) {
	obs.duringFree = -1
	var ci *clusters.ClusterInfo
	var once sync.Once
	arrived := make(chan struct{})
	finish := make(chan struct{})
	up := httptest.NewServer(http.HandlerFunc(func(w http.ResponseWriter, r *http.Request) {
		once.Do(func() {
			obs.duringFree = freeSlots(ci, s.Limit)
			close(arrived)
		})
		switch s.Way {
		case "upstream-error":
			if hj, ok := w.(http.Hijacker); ok {
				if conn, _, err := hj.Hijack(); err == nil {
					conn.Close()
					return
				}
			}
		case "client-abort":
			select {
			case <-finish:
			case <-time.After(20 * time.Second):
			}
			return
		}
		w.Header().Set("Content-Type", "application/json")
		w.WriteHeader(200)
		w.Write([]byte(strings.Repeat("{\"kind\":\"PodList\"}\n", 64)))
	}))
	defer up.Close()
	defer close(finish)

	uc := &proxyv1alpha1.UpstreamCluster{ObjectMeta: metav1.ObjectMeta{Name: "c.local"}}
	uc.Spec.Servers = []proxyv1alpha1.UpstreamClusterServer{{Endpoint: up.URL}}
	uc.Spec.ClientConfig.BearerToken = []byte("gateway-token")
	rule := proxyv1alpha1.DispatchPolicyRule{Verbs: []string{"*"}, APIGroups: []string{"*"}, Resources: []string{"*"}, NonResourceURLs: []string{"*"}}
	if s.Way == "no-match" {
		rule = proxyv1alpha1.DispatchPolicyRule{Verbs: []string{"delete"}, APIGroups: []string{"apps"}, Resources: []string{"deployments"}}
	}
	uc.Spec.DispatchPolicies = []proxyv1alpha1.DispatchPolicy{{Rules: []proxyv1alpha1.DispatchPolicyRule{rule}, FlowControlSchemaName: serveSchema}}
	mi := func(name string, max int) proxyv1alpha1.FlowControlSchema {
		return proxyv1alpha1.FlowControlSchema{Name: name, FlowControlSchemaConfiguration: proxyv1alpha1.FlowControlSchemaConfiguration{
			MaxRequestsInflight: &proxyv1alpha1.MaxRequestsInflightFlowControlSchema{Max: int32(max)}}}
	}
	// look-alike schemas with other limits beside the one the policy names: they must not lend it capacity
	uc.Spec.FlowControl = proxyv1alpha1.FlowControl{Schemas: []proxyv1alpha1.FlowControlSchema{
		mi("FC", s.Limit+2), mi(serveSchema, s.Limit), mi(serveSchema+" ", s.Limit+3), mi("Fc", 0)}}
	health := alwaysReady
	if s.Way == "no-endpoint" {
		health = neverReady
	}
	var err error
	ci, err = clusters.CreateClusterInfo(uc, health, "", nil)
	if err != nil {
		obs.err = "CreateClusterInfo: " + err.Error()
		return
	}
	defer ci.Stop()
	deadline := time.Now().Add(10 * time.Second)
	for {
		ep, ok := ci.Endpoints.Load(up.URL)
		if ok && ((s.Way != "no-endpoint" && ep.IsReady()) || (s.Way == "no-endpoint" && strings.Contains(ep.UnreadyReason(), "Scripted"))) {
			break
		}
		if time.Now().After(deadline) {
			obs.err = "timeout: endpoint never reached the scripted readiness"
			return
		}
		time.Sleep(2 * time.Millisecond)
	}
	manager := clusters.NewManager()
	manager.Add(ci)
	h := proxydispatcher.NewDispatcher(manager, false)

	if n := freeSlots(ci, s.Limit+4); n != s.Limit {
		obs.ownLimit = fmt.Sprintf("schema %q is configured with limit %d but admits %d requests (look-alike schemas FC=%d, \"fc \"=%d, Fc=0 are configured beside it)", serveSchema, s.Limit, n, s.Limit+2, s.Limit+3)
		return
	}
	// other requests in flight
	fc := ci.GetFlowSchema(serveSchema)
	held := 0
	for i := 0; i < s.Held; i++ {
		if fc.TryAcquire() {
			held++
		}
	}
	if held != s.Held {
		obs.err = fmt.Sprintf("could only pre-admit %d of %d requests at limit %d", held, s.Held, s.Limit)
		return
	}

	ctx, cancel := context.WithCancel(context.Background())
	defer cancel()
	shape, known := serveShapes[s.Shape]
	if !known {
		obs.err = "unknown request shape " + s.Shape
		return
	}
	req := httptest.NewRequest(shape[0], "https://c.local"+shape[1], nil)
	req.RemoteAddr = net.JoinHostPort("127.0.0.1", "40000")
	ri, err := serveRequestInfo.NewRequestInfo(req)
	if err != nil {
		obs.err = "RequestInfo: " + err.Error()
		return
	}
	ctx = genericapirequest.WithUser(ctx, &user.DefaultInfo{Name: "alice", Groups: []string{"system:authenticated"}})
	ctx = genericapirequest.WithRequestInfo(ctx, ri)
	extra, err := (&gatewayrequest.ExtraRequestInfoFactory{LongRunningFunc: serveLongRunning}).NewExtraRequestInfo(req.WithContext(ctx))
	if err != nil {
		obs.err = "ExtraRequestInfo: " + err.Error()
		return
	}
	extra.UpstreamCluster, extra.IsProxyRequest = ci, true
	obs.longRunning = extra.IsLongRunningRequest
	ctx = gatewayrequest.WithExtraRequestInfo(ctx, extra)
	ctx = gatewayrequest.WithProxyInfo(ctx, gatewayrequest.NewProxyInfo())
	req = req.WithContext(ctx)

	var w http.ResponseWriter
	rec := httptest.NewRecorder()
	w = rec
	if s.Way == "panic" {
		w = &panickyWriter{h: http.Header{}}
	}
	done := make(chan struct{})
	go func() {
		defer close(done)
		_, obs.panicked = rig.Recover(func() { h.ServeHTTP(w, req) })
	}()
	if s.Way == "client-abort" {
		select {
		case <-arrived:
		case <-time.After(10 * time.Second):
			obs.err = "timeout: the upstream never saw the request"
		}
		cancel() // the client goes away
	}
	select {
	case <-done:
	case <-time.After(30 * time.Second):
		obs.err = "timeout: dispatcher.ServeHTTP did not return within 30 s"
		return
	}
	obs.status = rec.Code
	obs.afterFree = freeSlots(ci, s.Limit)
	for i := 0; i < held; i++ {
		fc.Release()
	}
	return
}

func runServe(c *rig.Ctx, s ServeCase, record bool) bool {
	fail := func(kind, class, what string, impl, model interface{}) bool {
		if record {
			report(c, rig.Failure{Kind: kind, Class: class, What: what, Case: s, Impl: impl, Model: model})
		}
		return false
	}
	if s.Limit < 1 || s.Held < 0 || s.Held > s.Limit || (s.Way == "refused") != (s.Held == s.Limit) {
		return true // not a meaningful scenario
	}
	obs := runImplServe(s)
	if obs.err != "" {
		obs = runImplServe(s) // once more: a stalled machine is not a verdict
	}
	impl := map[string]interface{}{"status": obs.status, "panicked": obs.panicked, "free_during": obs.duringFree, "free_after": obs.afterFree}
	if obs.ownLimit != "" {
		return fail("judge", "c05.serve-limit-not-own", obs.ownLimit, impl, nil)
	}
	if strings.HasPrefix(obs.err, "timeout:") {
		return inconclusive(c, "serve", obs.err) // a wall-clock wait ran out (twice): decides nothing
	}
	if obs.err != "" {
		return fail("diff", "c05.serve-rig", "the dispatcher rig could not run: "+obs.err, impl, nil)
	}
	free := s.Limit - s.Held
	// judge: the slot is back exactly once, whatever the way out
	if obs.afterFree != free {
		what := fmt.Sprintf("way out %q: %d slots were free before the request, %d after it ended", s.Way, free, obs.afterFree)
		if obs.afterFree < free {
			return fail("judge", "c05.serve-slot-leaked", what+" (the slot was not given back)", impl, nil)
		}
		return fail("judge", "c05.serve-slot-returned-twice", what+" (a slot was given back that this request did not hold)", impl, nil)
	}
	reached := obs.duringFree >= 0
	switch s.Way {
	case "ok", "upstream-error", "client-abort", "panic":
		if !reached {
			return fail("diff", "c05.serve-rig", fmt.Sprintf("way out %q: the upstream was never reached (status %d)", s.Way, obs.status), impl, nil)
		}
		// judge: while the upstream handles it, the request occupies a slot
		if obs.duringFree != free-1 {
			return fail("judge", "c05.serve-not-counted", fmt.Sprintf("way out %q: %d slots free while the request was being proxied, expected %d (the request does not occupy its slot for its whole duration)", s.Way, obs.duringFree, free-1), impl, nil)
		}
	default:
		if reached {
			return fail("diff", "c05.serve-rig", fmt.Sprintf("way out %q: the upstream was reached", s.Way), impl, nil)
		}
	}
	wantStatus := map[string]int{"ok": 200, "upstream-error": 502, "no-endpoint": 503, "refused": 429, "no-match": 500}
	if ws, ok := wantStatus[s.Way]; ok && obs.status != ws && !(s.Way == "upstream-error" && obs.status >= 500) {
		return fail("diff", "c05.serve-status", fmt.Sprintf("way out %q answered %d, expected %d", s.Way, obs.status, ws), impl, nil)
	}
	if (s.Way == "panic") != obs.panicked {
		return fail("diff", "c05.serve-status", fmt.Sprintf("way out %q: panicked=%v", s.Way, obs.panicked), impl, nil)
	}
	// the abstracted ServeHTTP (regenerated program) on the same scenario
	var m struct {
		Acquired int      `json:"acquired"`
		Released int      `json:"released"`
		Tried    int      `json:"tried"`
		Program  []string `json:"program"`
		ShapeOk  bool     `json:"shapeOk"`
	}
	if err := c.Model("C05.serve", map[string]interface{}{"choices": []string{}, "granted": true}, &m); err != nil {
		return true
	}
	acq := -1
	for i, st := range m.Program {
		if st == "acquireGuard" {
			acq = i
		}
	}
	if acq < 0 || !m.ShapeOk {
		// the regenerated ServeHTTP no longer has the shape `if !TryAcquire {return}; defer Release`: theorem
		// c05_fact_dispatcher_shape is broken (reported by ./check); only the judge above decides here
		return true
	}
	choices := make([]string, len(m.Program))
	for i := range choices {
		choices[i] = "go"
	}
	granted := true
	switch s.Way {
	case "refused":
		granted = false
	case "no-match":
		for i := acq - 1; i >= 0; i-- {
			if m.Program[i] == "guard" {
				choices[i] = "exit"
				break
			}
		}
	case "no-endpoint":
		for i := acq + 1; i < len(m.Program); i++ {
			if m.Program[i] == "guard" {
				choices[i] = "exit"
				break
			}
		}
	case "panic":
		choices[len(choices)-1] = "panic"
	}
	if err := c.Model("C05.serve", map[string]interface{}{"choices": choices, "granted": granted}, &m); err != nil {
		return fail("diff", "c05.model-error", "model error: "+err.Error(), impl, nil)
	}
	implAcq := 0
	if reached || s.Way == "no-endpoint" {
		implAcq = 1
	}
	implRel := implAcq - (free - obs.afterFree)
	if m.Acquired != implAcq || m.Released != implRel {
		return fail("diff", "c05.serve-model", fmt.Sprintf("way out %q: model acquired=%d released=%d, code acquired=%d released=%d", s.Way, m.Acquired, m.Released, implAcq, implRel), impl, m)
	}
	return true
}

// "refused" (the schema is exactly full when the request arrives) three times: it is crossed with every request shape
var serveWays = []string{"ok", "refused", "upstream-error", "no-endpoint", "refused", "client-abort", "panic", "refused", "no-match"}

func genServe(c *rig.Ctx) {
	n := c.Budget(108, 1800)
	for i := 0; i < n && judgeFailures < 5; i++ {
		s := ServeCase{Kind: "serve", Way: serveWays[i%len(serveWays)], Limit: 1 + c.Rng.Intn(4)}
		s.Held = c.Rng.Intn(s.Limit)
		if s.Way == "refused" {
			s.Held = s.Limit
		}
		s.Shape = rig.Pick(c.Rng, serveShapeNames)
		c.Count("serve-shape:" + s.Shape)
		c.Case(rig.Canon(s), true, "serve:"+s.Way, func() interface{} { return s })
		c.Trace()
		runServe(c, s, true)
	}
}
