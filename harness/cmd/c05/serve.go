package main

import "verifharness/rig"

type ServeCase struct {
	Kind string `json:"kind"`
}

func runServe(c *rig.Ctx, s ServeCase, record bool) bool { return true }
func genServe(c *rig.Ctx)                                 {}
