package main

import (
	"context"
	"fmt"
	"reflect"
	"strings"
	"time"

	"github.com/zoumo/golib/lock/maxinflight"

	proxyv1alpha1 "github.com/kubewharf/kubegateway/pkg/apis/proxy/v1alpha1"
	"github.com/kubewharf/kubegateway/pkg/flowcontrols"
	"github.com/kubewharf/kubegateway/pkg/flowcontrols/flowcontrol"

	"verifharness/rig"
)

// ---------------------------------------------------------------------------------------------------
// fsched: reconfiguration AND interleaving together, through the whole stack. Threads are request loops
//
//	for { <point "Lookup">; fc := limiter.GetOrDefault("s"); if fc.TryAcquire() { fc.Release() } }
//
// on the real flowcontrols.NewUpstreamLimiter("a"), scheduled one atomic operation at a time (the points inside
// TryAcquire/Release come from the instrumented dependency); `sync` events run limiter.Sync(...) between two
// steps: resize in place, type change (token bucket / exempt), deletion, re-addition. The Lean side is the
// composition of KG.Model.LocalLimiter (maps, lookups, Sync) with one KG.Model.MaxInflight.Sys per limiter
// object (C05.full); after EVERY event the position and return value of the stepping thread and the state of
// the limiter currently handed out are compared. Judge on the real code: per limiter object, the requests it
// admitted and that are unfinished never exceed the limit the admitting call loaded.

type FEv struct {
	T     int       `json:"t"`
	Sync  *[]Schema `json:"sync,omitempty"`
	Reset *string   `json:"reset,omitempty"` // ResetLimiter(mode), mode hex
}

type FSchedCase struct {
	Kind string `json:"kind"` // "fsched"
	// Names (hex): the schema names the request loops ask for, thread t uses Names[t % len]; empty = ["s"].
	// With two look-alike names (s / S, "s" / "s ", ...) both configured with their own limits, any
	// normalisation of the limiter map's keys makes the two share one counter: model and code then differ and
	// the per-limiter bound is judged with the limit of the name the request asked for.
	Names  []string `json:"names,omitempty"`
	Events []FEv    `json:"events"`
}

func (s FSchedCase) nameOf(t int) string {
	if len(s.Names) == 0 {
		return "s"
	}
	return rig.UnHex(s.Names[t%len(s.Names)])
}

type FStepObs struct {
	At    string `json:"at"`
	Out   string `json:"out"`
	Count int64  `json:"count"`
	Max   uint32 `json:"max"`
	Msg   string `json:"msg,omitempty"`
}

// counterOf digs the dependency's atomic bucket out of whatever GetOrDefault handed out
// (meterWrapper{FlowControl: flowControl{TokenBucket: ...}}); ok=false if it is not a max-in-flight counter.
func counterOf(fc flowcontrol.FlowControl) (maxinflight.TokenBucket, bool) {
	var v reflect.Value = reflect.ValueOf(fc)
	for depth := 0; depth < 6; depth++ {
		for v.IsValid() && (v.Kind() == reflect.Ptr || v.Kind() == reflect.Interface) {
			if v.IsNil() {
				return nil, false
			}
			v = v.Elem()
		}
		if !v.IsValid() || v.Kind() != reflect.Struct {
			return nil, false
		}
		if f := v.FieldByName("TokenBucket"); f.IsValid() && f.CanInterface() {
			tb, ok := f.Interface().(maxinflight.TokenBucket)
			if !ok {
				return nil, false
			}
			if _, _, isAtomic := maxinflight.VerifState(tb); !isAtomic {
				return nil, false
			}
			return tb, true
		}
		f := v.FieldByName("FlowControl")
		if !f.IsValid() || !f.CanInterface() {
			return nil, false
		}
		v = f
	}
	return nil, false
}

type fschedResult struct {
	foreign bool
	stale   int // admissions by a limiter object that was no longer the one handed out (looked up before a type change)
	steps []FStepObs
	viol  string
	leak  string
	err   string
}

func runImplFSched(s FSchedCase) (res fschedResult) {
	ctl.mu.Lock()
	defer ctl.mu.Unlock()
	ctx, cancel := context.WithCancel(context.Background())
	lim := flowcontrols.NewUpstreamLimiter(ctx, "a", "", nil)
	maxinflight.VerifHook = hook
	workers := map[int]*worker{}
	at := map[int]string{}
	holding := map[int]flowcontrol.FlowControl{} // what each thread looked up last
	defer func() {
		ctl.current = nil
		for _, w := range workers {
			close(w.resume)
		}
		maxinflight.VerifHook = nil
		cancel()
		rig.Recover(func() {
			for _, fc := range lim.AllFlowControls() {
				fc.Stop()
			}
		})
	}()
	await := func(w *worker) (label, ret string, ok bool) {
		for {
			select {
			case m := <-w.msgs:
				if m[:3] == "at:" {
					return m[3:], ret, true
				}
				if ret != "" {
					ret += "+"
				}
				ret += m[4:]
			case <-time.After(stepTimeout):
				return "", ret, false
			}
		}
	}
	start := func(t int) bool {
		w := &worker{resume: make(chan bool), msgs: make(chan string, 8)}
		workers[t] = w
		ctl.current = w
		go func() {
			for {
				hook("Lookup")
				var fc flowcontrol.FlowControl
				msg, panicked := rig.Recover(func() {
					fc = lim.GetOrDefault(s.nameOf(t))
					holding[t] = fc // only one managed goroutine runs at a time
					if fc.TryAcquire() {
						w.msgs <- "ret:admitted"
						fc.Release()
						w.msgs <- "ret:released"
					} else {
						w.msgs <- "ret:rejected"
					}
				})
				if panicked {
					w.msgs <- "ret:panic " + msg
				}
			}
		}()
		l, _, ok := await(w)
		ctl.current = nil
		at[t] = l
		return ok
	}
	curState := func(name string) (int64, uint32) {
		var cnt int64 = -1
		var mx uint32
		rig.Recover(func() {
			if tb, ok := counterOf(lim.GetOrDefault(name)); ok {
				cnt, mx, _ = maxinflight.VerifState(tb)
			}
		})
		return cnt, mx
	}
	inflight := map[maxinflight.TokenBucket]int{}
	loaded := map[int]uint32{}
	// every max-in-flight limit ever configured under a name: the limit a request loads must be one of its own name's
	limitsOf := map[string]map[uint32]bool{}
	outOfDomain := map[string]bool{} // a negative max was configured for the name: the property says nothing about it
	noteLoad := func(k, t int, mx uint32) {
		loaded[t] = mx
		// one-sided: a limit larger than any ever configured for the name lets more in than the schema allows; a
		// smaller one (a stricter implementation, a clamp) is not against the property
		n := s.nameOf(t)
		var top uint32
		for l := range limitsOf[n] {
			if l > top {
				top = l
			}
		}
		if mx > top && !outOfDomain[n] && res.viol == "" {
			res.viol = fmt.Sprintf("event %d: thread %d asked for schema %q and is limited by %d, more than any limit ever configured for that schema (at most %d)", k, t, n, mx, top)
			res.foreign = true
		}
	}
	seen := map[maxinflight.TokenBucket]bool{}
	account := func(k int, t int, ret string) {
		for _, r := range strings.Split(ret, "+") {
			tb, isCounter := counterOf(holding[t])
			if !isCounter {
				continue
			}
			seen[tb] = true
			switch r {
			case "admitted":
				if cur, ok := counterOf(lim.GetOrDefault(s.nameOf(t))); !ok || cur != tb {
					res.stale++
				}
				inflight[tb]++
				if m, known := loaded[t]; known && uint64(inflight[tb]) > uint64(m) && res.viol == "" {
					res.viol = fmt.Sprintf("event %d: thread %d admitted as number %d in flight under its limiter object, but the limit it loaded in this call is %d", k, t, inflight[tb], m)
				}
			case "released":
				inflight[tb]--
			}
		}
	}
	for k, ev := range s.Events {
		if ev.Reset != nil {
			ctl.current = nil
			msg, panicked := rig.Recover(func() { lim.ResetLimiter(rig.UnHex(*ev.Reset)) })
			if panicked {
				res.steps = append(res.steps, FStepObs{Out: "panic", Msg: msg})
				return
			}
			cnt, mx := curState(s.nameOf(0))
			res.steps = append(res.steps, FStepObs{Out: "none", Count: cnt, Max: mx})
			continue
		}
		if ev.Sync != nil {
			ctl.current = nil
			var spec proxyv1alpha1.FlowControl
			for _, sc := range *ev.Sync {
				spec.Schemas = append(spec.Schemas, sc.real())
				if sc.Mi != nil && *sc.Mi < 0 {
					outOfDomain[rig.UnHex(sc.Name)] = true
				}
				if sc.Mi != nil && *sc.Mi >= 0 {
					n := rig.UnHex(sc.Name)
					if limitsOf[n] == nil {
						limitsOf[n] = map[uint32]bool{}
					}
					limitsOf[n][uint32(*sc.Mi)] = true
				}
			}
			msg, panicked := rig.Recover(func() { lim.Sync(spec) })
			if panicked {
				res.steps = append(res.steps, FStepObs{Out: "panic", Msg: msg})
				return
			}
			cnt, mx := curState(s.nameOf(0))
			res.steps = append(res.steps, FStepObs{Out: "none", Count: cnt, Max: mx})
			continue
		}
		w := workers[ev.T]
		if w == nil {
			if !start(ev.T) {
				res.err = fmt.Sprintf("timeout: thread %d did not reach its first operation", ev.T)
				return
			}
			w = workers[ev.T]
		}
		if at[ev.T] == "TryAcquire.1" {
			if tb, ok := counterOf(holding[ev.T]); ok {
				_, mx, _ := maxinflight.VerifState(tb)
				noteLoad(k, ev.T, mx)
			}
		}
		ctl.current = w
		w.resume <- true
		l, ret, ok := await(w)
		ctl.current = nil
		if !ok {
			res.err = fmt.Sprintf("timeout: event %d: thread %d did not reach its next operation within %v", k, ev.T, stepTimeout)
			delete(workers, ev.T)
			return
		}
		at[ev.T] = l
		if strings.HasPrefix(ret, "panic") || strings.Contains(ret, "+panic") {
			res.steps = append(res.steps, FStepObs{Out: "panic", Msg: ret})
			return
		}
		account(k, ev.T, ret)
		if ret == "" {
			ret = "none"
		}
		cnt, mx := curState(s.nameOf(ev.T))
		res.steps = append(res.steps, FStepObs{At: l, Out: ret, Count: cnt, Max: mx})
	}
	// drain: every thread back to its next lookup, in thread order; then no limiter object holds a slot
	ids := make([]int, 0, len(workers))
	for t := range workers {
		ids = append(ids, t)
	}
	sortInts(ids)
	for _, t := range ids {
		w := workers[t]
		for guard := 0; at[t] != "Lookup" && guard < 16; guard++ {
			if at[t] == "TryAcquire.1" {
				if tb, ok := counterOf(holding[t]); ok {
					_, mx, _ := maxinflight.VerifState(tb)
					noteLoad(len(s.Events), t, mx)
				}
			}
			ctl.current = w
			w.resume <- true
			l, ret, ok := await(w)
			ctl.current = nil
			if !ok {
				res.err = fmt.Sprintf("timeout: drain: thread %d stuck at %s", t, at[t])
				delete(workers, t)
				return
			}
			at[t] = l
			account(len(s.Events), t, ret)
		}
	}
	for tb := range seen {
		if cnt, _, _ := maxinflight.VerifState(tb); cnt != 0 && res.leak == "" {
			res.leak = fmt.Sprintf("after every request finished, the counter of a limiter object is %d, not 0", cnt)
		}
	}
	return
}

func runFSched(c *rig.Ctx, s FSchedCase, record bool) bool {
	lastClass = ""
	fail := func(kind, class, what string, impl, model interface{}) bool {
		lastClass = class
		if record {
			report(c, rig.Failure{Kind: kind, Class: class, What: what, Case: s, Impl: impl, Model: model})
		}
		return false
	}
	if schedBroken {
		return true
	}
	res := runImplFSched(s)
	if res.err != "" {
		res = runImplFSched(s)
		if res.err != "" {
			schedBroken = true
		}
	}
	if strings.HasPrefix(res.err, "timeout:") {
		// a wall-clock wait ran out (twice): the machine is stalled, or the code under test hangs; either way this case
		// decides nothing. (schedBroken is set: no further schedule is replayed.)
		return inconclusive(c, "schedule replay", res.err)
	}
	if res.err != "" {
		return fail("diff", "c05.sched-rig", "schedule replay could not run on the real limiter: "+res.err, res.steps, nil)
	}
	if !record && res.stale > 0 {
		c.Count("fsched-reached:admission-by-retired-limiter")
	}
	if res.viol != "" && res.foreign {
		return fail("judge", "c05.fsched-foreign-limit", res.viol, res.steps, nil)
	}
	if res.viol != "" {
		return fail("judge", "c05.fsched-over-admission", res.viol, res.steps, nil)
	}
	if res.leak != "" {
		return fail("judge", "c05.fsched-leak", res.leak, res.steps, nil)
	}
	var m struct {
		Steps []FStepObs `json:"steps"`
	}
	// wire: schemas need "schemas"-style encoding; events carry {"t"} or {"sync":[...]}
	evs := make([]map[string]interface{}, len(s.Events))
	for i, e := range s.Events {
		if e.Reset != nil {
			evs[i] = map[string]interface{}{"reset": *e.Reset}
		} else if e.Sync != nil {
			evs[i] = map[string]interface{}{"sync": normSchemas(*e.Sync)}
		} else {
			evs[i] = map[string]interface{}{"t": e.T}
		}
	}
	names := s.Names
	if names == nil {
		names = []string{}
	}
	if err := c.Model("C05.full", map[string]interface{}{"events": evs, "names": names}, &m); err != nil {
		if _, isModelErr := err.(*rig.ModelErr); isModelErr {
			return fail("diff", "c05.model-error", "model error: "+err.Error(), nil, nil)
		}
		return true
	}
	if len(m.Steps) != len(res.steps) {
		return fail("diff", "c05.fsched-length", fmt.Sprintf("model %d steps, code %d", len(m.Steps), len(res.steps)), res.steps, m.Steps)
	}
	for i := range res.steps {
		a, b := res.steps[i], m.Steps[i]
		a.Msg, b.Msg = "", ""
		if a != b {
			return fail("diff", "c05.fsched-step", fmt.Sprintf("after event %d (%s): code %s, model %s", i, rig.Canon(s.Events[i]), rig.Canon(a), rig.Canon(b)), res.steps, m.Steps)
		}
	}
	return true
}

func shrinkFSched(c *rig.Ctx, s FSchedCase) FSchedCase {
	runFSched(c, s, false)
	want := lastClass
	s.Events = rig.ShrinkList(s.Events, func(evs []FEv) bool {
		x := s
		x.Events = evs
		return !runFSched(c, x, false) && lastClass == want
	})
	return s
}

func fschedSchema(c *rig.Ctx, name string, kind int) *Schema {
	s := Schema{Name: rig.Hex(name), Strategy: rig.Hex("")}
	switch kind {
	case 0: // max-in-flight; now and then a numeric extreme (resized in place to a small limit by a later Sync)
		s.Mi = i32(int32(c.Rng.Intn(4)))
		if c.Rng.Intn(12) == 0 {
			s.Mi = i32(rig.Pick(c.Rng, []int32{2147483647, 2147483646, 1 << 30}))
		}
	case 1: // token bucket that never refuses within a test
		s.Tb = &[2]int32{1000000, 1000000}
	case 2:
		s.Exempt = true
	default: // deleted
		return nil
	}
	return &s
}

var fschedAlikes = []string{"S", "s ", " s", "s\x00", "\u017f", "ss", ""}

func genFSchedCase(c *rig.Ctx) FSchedCase {
	s := FSchedCase{Kind: "fsched"}
	names := []string{"s"}
	if c.Rng.Intn(2) == 0 {
		// two look-alike names, each with its own schema
		names = append(names, rig.Pick(c.Rng, fschedAlikes))
		s.Names = rig.HexList(names)
	}
	cfg := map[string]*Schema{}
	emit := func() {
		list := []Schema{}
		for _, n := range names {
			if cfg[n] != nil {
				list = append(list, *cfg[n])
			}
		}
		if len(list) > 1 && c.Rng.Intn(2) == 0 {
			list[0], list[1] = list[1], list[0]
		}
		s.Events = append(s.Events, FEv{Sync: &list})
	}
	if c.Rng.Intn(10) > 0 {
		for _, n := range names {
			if n != "" {
				cfg[n] = fschedSchema(c, n, 0)
			}
		}
		emit()
	}
	threads := 2 + c.Rng.Intn(3)
	n := 10 + c.Rng.Intn(70)
	cur := c.Rng.Intn(threads)
	stick := 1 + c.Rng.Intn(5)
	resets := 0
	for len(s.Events) < n {
		name := rig.Pick(c.Rng, names)
		switch r := c.Rng.Intn(100); {
		case r < 7 && name != "": // resize (or re-add / back to max-in-flight)
			cfg[name] = fschedSchema(c, name, 0)
			emit()
		case r < 11 && name != "": // type change or deletion
			cfg[name] = fschedSchema(c, name, 1+c.Rng.Intn(3))
			emit()
		case r < 14: // limiter-mode switch while requests are inside their calls, then the Sync of the unchanged list
			mode := rig.Hex(rig.Pick(c.Rng, []string{"remote", "local", "remote", "local", ""}))
			s.Events = append(s.Events, FEv{Reset: &mode})
			resets++
			if c.Rng.Intn(3) > 0 {
				emit()
			}
		default:
			if c.Rng.Intn(stick+1) == 0 {
				cur = c.Rng.Intn(threads)
			}
			s.Events = append(s.Events, FEv{T: cur})
		}
	}
	return s
}

func genFSched(c *rig.Ctx) {
	n := c.Budget(2500, 60000)
	for i := 0; i < n && judgeFailures < 5; i++ {
		s := genFSchedCase(c)
		syncs, kinds := 0, map[string]bool{}
		for _, e := range s.Events {
			if e.Sync != nil {
				syncs++
				if len(*e.Sync) < len(s.Names) || len(*e.Sync) == 0 {
					kinds["delete"] = true
				}
				for _, sc := range *e.Sync {
					kinds[sc.guess()] = true
				}
			}
		}
		b := "fsched:resizes-only"
		if kinds["tb"] || kinds["exempt"] || kinds["delete"] {
			b = "fsched:type-changes"
		}
		if len(s.Names) > 1 {
			b += ",look-alike-names"
		}
		for _, e := range s.Events {
			if e.Reset != nil {
				c.Count("fsched-reached:mode-switch")
				break
			}
		}
		c.Case(rig.Canon(s), syncs > 1, b, func() interface{} { return s })
		c.Trace()
		if !runFSched(c, s, false) {
			runFSched(c, shrinkFSched(c, s), true)
		}
	}
}
