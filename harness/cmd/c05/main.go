// C05 harness (local max-in-flight). Four kinds of cases, all self-contained JSON:
//
//	hist   a history of Sync / request-arrives / request-finishes ops over 1-2 clusters, run on the real
//	       flowcontrols.NewUpstreamLimiter (Sync, GetOrDefault(name).TryAcquire/Release) and on the Lean model
//	       KG.Model.LocalLimiter; judged by KG.Spec.LocalLimiter.judge (and its Go twin) on the real answers.
//	cinfo  the same histories through a real ClusterInfo: Sync (schemas, dispatch policies, feature gate => limiter
//	       mode switch) and MatchAttributes(...).FlowControl() per request; translated to hist ops and judged alike.
//	sched  a schedule (thread ids / resizes) replayed on the real flowcontrol.NewFlowControl limiter whose
//	       dependency file is swapped for an instrumented copy (a cooperative scheduler blocks each goroutine
//	       before every atomic operation) and on the Lean small-step model KG.Model.MaxInflight; shared state,
//	       position and return value are compared after EVERY step; in-flight <= loaded limit is judged on the
//	       real code by exact counting.
//	fsched reconfiguration and interleaving together: request loops (lookup, TryAcquire, Release) on the real
//	       NewUpstreamLimiter scheduled one atomic operation at a time, with Sync events (resize, type change,
//	       delete, re-add) in between; compared after every event with the composition of the two Lean models.
//	stress real concurrency (no scheduler) on the real limiter with resizes; exact one-sided counting.
//	serve  one request through the real dispatcher.ServeHTTP with a scripted way out (ok, upstream error,
//	       no endpoint, client abort, panic, 429) and a real max-in-flight schema: the slot is back exactly once.
package main

import (
	"encoding/json"
	"flag"
	"fmt"
	"io"
	"os"
	"path/filepath"
	"sort"

	"k8s.io/klog"

	"verifharness/rig"
)

type kindOnly struct {
	Kind string `json:"kind"`
}

func runAny(c *rig.Ctx, raw json.RawMessage, record bool) bool {
	var k kindOnly
	if err := json.Unmarshal(raw, &k); err != nil {
		fmt.Fprintln(os.Stderr, "bad case:", err)
		os.Exit(2)
	}
	switch k.Kind {
	case "hist":
		var h HistCase
		must(json.Unmarshal(raw, &h))
		return runHist(c, h, record)
	case "sched":
		var s SchedCase
		must(json.Unmarshal(raw, &s))
		return runSched(c, s, record)
	case "cinfo":
		var s CICase
		must(json.Unmarshal(raw, &s))
		return runCI(c, s, record)
	case "fsched":
		var s FSchedCase
		must(json.Unmarshal(raw, &s))
		return runFSched(c, s, record)
	case "stress":
		var s StressCase
		must(json.Unmarshal(raw, &s))
		return runStress(c, s, record)
	case "serve":
		var s ServeCase
		must(json.Unmarshal(raw, &s))
		return runServe(c, s, record)
	}
	fmt.Fprintln(os.Stderr, "unknown case kind", k.Kind)
	os.Exit(2)
	return false
}

// Failure accounting: the search for an input on which the real code breaks the property goes on until
// five judge failures are recorded; a correspondence difference is recorded once per class (it must not
// crowd out the judge failures: ./check reports the first judge failure if there is any).
var (
	lastClass     string // class of the failure found by the last run* call ("" = none)
	judgeFailures int
	diffSeen      = map[string]bool{}
)

func report(c *rig.Ctx, f rig.Failure) {
	if f.Kind == "judge" {
		judgeFailures++
		c.Fail(f)
		return
	}
	if diffSeen[f.Class] {
		return
	}
	diffSeen[f.Class] = true
	c.Fail(f)
}

// inconclusive: a wall-clock wait ran out. Never a failure of any kind: the case is counted and noted, the run goes on.
var inconclusiveNoted = map[string]bool{}

func inconclusive(c *rig.Ctx, stream, why string) bool {
	lastClass = ""
	c.Count("inconclusive:" + stream)
	if !inconclusiveNoted[stream] {
		inconclusiveNoted[stream] = true
		c.Note("%s: a case was inconclusive (%s)", stream, why)
	}
	return true
}

func must(err error) {
	if err != nil {
		fmt.Fprintln(os.Stderr, err)
		os.Exit(2)
	}
}

func silenceKlog() {
	fs := flag.NewFlagSet("klog", flag.ContinueOnError)
	klog.InitFlags(fs)
	fs.Set("logtostderr", "false")
	fs.Set("alsologtostderr", "false")
	fs.Set("stderrthreshold", "FATAL")
	klog.SetOutput(io.Discard)
}

func main() {
	silenceKlog()
	rig.Main("C05", func(c *rig.Ctx) {
		c.SetRule("hist: history of 6-45 ops (Sync with 0-3 schemas of kinds MaxInflight(0-4, rarely -1/large)/TokenBucket/Exempt/empty/global variants, request arrives for (cluster, name), request finishes) over 2 clusters x 3 names (half of the histories: look-alike names - case variants, prefixes, spaces, the default name, empty-looking names - configured side by side) on the real NewUpstreamLimiter, local and remote-without-clientset mode; distinct = distinct canonical op list; non-trivial = a max-in-flight schema refused or was reconfigured (resize / type change / delete / re-add) while requests admitted under it were unfinished. " +
			"cinfo: the same histories driven through a real ClusterInfo (Sync with schemas + dispatch policies + GlobalRateLimiter gate = ResetLimiter + Sync; arrivals through MatchAttributes(..).FlowControl() under policies whose flowControlSchemaName is empty / names a schema - often one literally named system-default - / names a missing schema). " +
			"sched: schedule of 8-70 events over 2-4 threads and resizes replayed step by step on the real instrumented counter; non-trivial = at least one preemption inside a call. " +
			"fsched: schedule of 10-80 events over 2-4 request loops (lookup, TryAcquire, Release) and Syncs (resize, type change, delete, re-add) replayed step by step through the whole stack; non-trivial = at least two Syncs. " +
			"stress: real goroutines on the real limiter (bare and through the whole stack with concurrent Syncs). serve: one request through the real dispatcher with a scripted way out.")
		if c.Replay != "" {
			var raw json.RawMessage
			must(c.LoadReplay(&raw))
			c.Case(string(raw), true, "replay", func() interface{} { return raw })
			runAny(c, raw, true)
			return
		}
		// corpus of past failures first
		files, _ := filepath.Glob(filepath.Join(os.Getenv("VERIF_DIR"), "harness", "corpus", "C05", "*.json"))
		sort.Strings(files)
		for _, f := range files {
			b, _ := os.ReadFile(f)
			var env struct{ Case json.RawMessage }
			if json.Unmarshal(b, &env) != nil || env.Case == nil {
				continue
			}
			c.Case(string(env.Case), true, "corpus", nil)
			c.Trace()
			runAny(c, env.Case, true)
		}
		genServe(c)
		genCI(c)
		genHist(c)
		genSched(c)
		genFSched(c)
		genStress(c)
	})
}
