package main

import (
	"context"
	"strings"
	"fmt"
	"reflect"
	"runtime"
	"sync"
	"sync/atomic"
	"time"

	"github.com/zoumo/golib/lock/maxinflight"

	proxyv1alpha1 "github.com/kubewharf/kubegateway/pkg/apis/proxy/v1alpha1"
	"github.com/kubewharf/kubegateway/pkg/flowcontrols"
	"github.com/kubewharf/kubegateway/pkg/flowcontrols/flowcontrol"

	"verifharness/rig"
)

// ---------------------------------------------------------------------------------------------------
// schedule replay on the real counter (instrumented copy of the dependency file, see prebuild)

type Ev struct {
	T      int  `json:"t"`
	Resize *int `json:"resize,omitempty"`
}

type SchedCase struct {
	Kind   string `json:"kind"` // "sched"
	Max    int    `json:"max"`
	Events []Ev   `json:"events"`
}

type StepObs struct {
	Count   int64  `json:"count"`
	Max     uint32 `json:"max"`
	Out     string `json:"out"` // none | admitted | rejected | released
	At      string `json:"at"`  // label of the operation the stepping thread executes next
	Holders int    `json:"holders"`
	Pending int    `json:"pending,omitempty"`
}

// worker = one managed goroutine: for ever { if TryAcquire() { Release() } }, blocked before every
// shared-memory operation until the controller grants it one step.
type worker struct {
	resume chan bool   // true: execute one operation; false (or closed): the schedule is over, exit
	msgs   chan string // "at:<label>" or "ret:<admitted|rejected|released>"
}

type controller struct {
	mu      sync.Mutex
	current *worker
}

var ctl controller

func hook(label string) {
	w := ctl.current
	if w == nil {
		return // the configuring thread (Resize) and unmanaged goroutines pass through
	}
	w.msgs <- "at:" + label
	// the order to exit travels with the wake-up itself: a goroutine of a finished schedule can never run on
	if !<-w.resume {
		runtime.Goexit()
	}
}

func newMI(max int) flowcontrol.FlowControl {
	return flowcontrol.NewFlowControl(proxyv1alpha1.FlowControlSchema{Name: "s",
		FlowControlSchemaConfiguration: proxyv1alpha1.FlowControlSchemaConfiguration{
			MaxRequestsInflight: &proxyv1alpha1.MaxRequestsInflightFlowControlSchema{Max: int32(max)}}})
}

// bucketOf digs the dependency's TokenBucket out of the repo's (unexported) flowControl struct.
func bucketOf(fc flowcontrol.FlowControl) (maxinflight.TokenBucket, error) {
	v := reflect.ValueOf(fc)
	for v.Kind() == reflect.Ptr || v.Kind() == reflect.Interface {
		v = v.Elem()
	}
	if v.Kind() != reflect.Struct {
		return nil, fmt.Errorf("limiter is a %s", v.Kind())
	}
	f := v.FieldByName("TokenBucket")
	if !f.IsValid() || !f.CanInterface() {
		return nil, fmt.Errorf("limiter %T has no TokenBucket field", fc)
	}
	tb, ok := f.Interface().(maxinflight.TokenBucket)
	if !ok {
		return nil, fmt.Errorf("TokenBucket field is a %T", f.Interface())
	}
	return tb, nil
}

type schedResult struct {
	steps []StepObs
	// judge on the real code (exact counting by the harness)
	viol string
	// after the schedule: everything drained, then probes
	finalCount int64
	probeOK    int
	finalMax   uint32
	err        string
	visited    []string
}

const stepTimeout = 60 * time.Second

// set when a managed goroutine was lost (a step timed out twice): no further schedule is replayed, because a
// lost goroutine could wake up inside a later schedule
var schedBroken bool

func runImplSched(s SchedCase) (res schedResult) {
	ctl.mu.Lock()
	defer ctl.mu.Unlock()
	fc := newMI(s.Max)
	tb, err := bucketOf(fc)
	if err != nil {
		res.err = err.Error()
		return
	}
	if _, _, ok := maxinflight.VerifState(tb); !ok {
		res.err = fmt.Sprintf("the max-in-flight limiter is a %T, not the atomic token bucket the model describes", tb)
		return
	}
	maxinflight.VerifHook = hook
	workers := map[int]*worker{}
	at := map[int]string{}
	defer func() {
		// terminate every managed goroutine (each is blocked at a point, waiting on its resume channel)
		ctl.current = nil
		for _, w := range workers {
			close(w.resume)
		}
		maxinflight.VerifHook = nil
	}()
	// wait for the next "at" of w, collecting the return values reported on the way
	await := func(w *worker) (label, ret string, ok bool) {
		for {
			select {
			case m := <-w.msgs:
				if m[:3] == "at:" {
					return m[3:], ret, true
				}
				ret = m[4:]
			case <-time.After(stepTimeout):
				return "", ret, false
			}
		}
	}
	start := func(t int) bool {
		w := &worker{resume: make(chan bool), msgs: make(chan string, 4)}
		workers[t] = w
		ctl.current = w
		go func() {
			for {
				if fc.TryAcquire() {
					w.msgs <- "ret:admitted"
					fc.Release()
					w.msgs <- "ret:released"
				} else {
					w.msgs <- "ret:rejected"
				}
			}
		}()
		l, _, ok := await(w)
		ctl.current = nil
		at[t] = l
		return ok
	}
	inflight := 0
	loaded := map[int]uint32{} // the limit each thread loaded in its current call
	for k, ev := range s.Events {
		if ev.Resize != nil {
			ctl.current = nil
			fc.Resize(uint32(*ev.Resize), 0)
			cnt, mx, _ := maxinflight.VerifState(tb)
			res.steps = append(res.steps, StepObs{Count: cnt, Max: mx, Out: "none", Holders: inflight})
			continue
		}
		w := workers[ev.T]
		if w == nil {
			if !start(ev.T) {
				res.err = fmt.Sprintf("timeout: thread %d did not reach its first operation", ev.T)
				return
			}
			w = workers[ev.T]
		}
		if at[ev.T] == "TryAcquire.1" {
			_, mx, _ := maxinflight.VerifState(tb)
			loaded[ev.T] = mx
		}
		ctl.current = w
		w.resume <- true
		l, ret, ok := await(w)
		ctl.current = nil
		if !ok {
			res.err = fmt.Sprintf("timeout: event %d: thread %d did not reach its next operation within %v", k, ev.T, stepTimeout)
			delete(workers, ev.T)
			return
		}
		at[ev.T] = l
		switch ret {
		case "admitted":
			inflight++
			if m, known := loaded[ev.T]; known && uint64(inflight) > uint64(m) && res.viol == "" {
				res.viol = fmt.Sprintf("event %d: thread %d admitted as number %d in flight, but the limit it loaded in this call is %d", k, ev.T, inflight, m)
			}
		case "released":
			inflight--
		case "":
			ret = "none"
		}
		cnt, mx, _ := maxinflight.VerifState(tb)
		res.steps = append(res.steps, StepObs{Count: cnt, Max: mx, Out: ret, At: l, Holders: inflight})
		res.visited = append(res.visited, l)
	}
	// drain: run every thread to the end of its call, holders give their slot back, in thread order
	ids := make([]int, 0, len(workers))
	for t := range workers {
		ids = append(ids, t)
	}
	sortInts(ids)
	for _, t := range ids {
		w := workers[t]
		for guard := 0; at[t] != "TryAcquire.0" && guard < 16; guard++ {
			ctl.current = w
			w.resume <- true
			l, ret, ok := await(w)
			ctl.current = nil
			if !ok {
				res.err = fmt.Sprintf("timeout: drain: thread %d stuck at %s", t, at[t])
				delete(workers, t)
				return
			}
			at[t] = l
			if ret == "admitted" {
				inflight++
			} else if ret == "released" {
				inflight--
			}
		}
	}
	ctl.current = nil
	res.finalCount, res.finalMax, _ = maxinflight.VerifState(tb)
	// no leak: with nobody in flight exactly max further requests are admitted (bounded probe)
	want := int(res.finalMax)
	if want > 64 {
		want = 64
	}
	for i := 0; i < want+1; i++ {
		if fc.TryAcquire() {
			res.probeOK++
		}
	}
	if inflight != 0 && res.err == "" {
		res.err = fmt.Sprintf("harness bookkeeping: %d in flight after draining", inflight)
	}
	return
}

func sortInts(a []int) {
	for i := 1; i < len(a); i++ {
		for j := i; j > 0 && a[j] < a[j-1]; j-- {
			a[j], a[j-1] = a[j-1], a[j]
		}
	}
}

func runSched(c *rig.Ctx, s SchedCase, record bool) bool {
	lastClass = ""
	fail := func(kind, class, what string, impl, model interface{}) bool {
		lastClass = class
		if record {
			report(c, rig.Failure{Kind: kind, Class: class, What: what, Case: s, Impl: impl, Model: model})
		}
		return false
	}
	if schedBroken {
		return true
	}
	res := runImplSched(s)
	if res.err != "" {
		res = runImplSched(s) // once more: a stalled machine is not a verdict
		if res.err != "" {
			schedBroken = true
		}
	}
	if !record {
		for _, l := range res.visited {
			c.Count("sched-reached:" + l)
		}
	}
	if strings.HasPrefix(res.err, "timeout:") {
		// a wall-clock wait ran out (twice): the machine is stalled, or the code under test hangs; either way this case
		// decides nothing. (schedBroken is set: no further schedule is replayed.)
		return inconclusive(c, "schedule replay", res.err)
	}
	if res.err != "" {
		return fail("diff", "c05.sched-rig", "schedule replay could not run on the real counter: "+res.err, res.steps, nil)
	}
	// judges on the real code
	if res.viol != "" {
		return fail("judge", "c05.sched-over-admission", res.viol, res.steps, nil)
	}
	if res.finalCount != 0 {
		return fail("judge", "c05.sched-leak", fmt.Sprintf("after every request finished the counter is %d, not 0: a slot was lost or returned twice", res.finalCount), res.steps, nil)
	}
	want := int(res.finalMax)
	if want > 64 {
		want = 64
	}
	if res.probeOK != want {
		return fail("judge", "c05.sched-capacity", fmt.Sprintf("with nothing in flight and limit %d, %d of %d probing requests were admitted", res.finalMax, res.probeOK, want+1), res.steps, nil)
	}
	var m struct {
		Steps []StepObs `json:"steps"`
	}
	if err := c.Model("C05.sched", s, &m); err != nil {
		if _, isModelErr := err.(*rig.ModelErr); isModelErr {
			return fail("diff", "c05.model-error", "model error: "+err.Error(), nil, nil)
		}
		return true
	}
	if len(m.Steps) != len(res.steps) {
		return fail("diff", "c05.sched-length", fmt.Sprintf("model %d steps, code %d", len(m.Steps), len(res.steps)), res.steps, m.Steps)
	}
	for i := range res.steps {
		a, b := res.steps[i], m.Steps[i]
		b.Pending = 0
		if a != b {
			return fail("diff", "c05.sched-step", fmt.Sprintf("after event %d (%s): code %s, model %s", i, rig.Canon(s.Events[i]), rig.Canon(a), rig.Canon(b)), res.steps, m.Steps)
		}
	}
	return true
}

func shrinkSched(c *rig.Ctx, s SchedCase) SchedCase {
	runSched(c, s, false)
	want := lastClass
	s.Events = rig.ShrinkList(s.Events, func(evs []Ev) bool {
		x := s
		x.Events = evs
		return !runSched(c, x, false) && lastClass == want
	})
	return s
}

func genSchedCase(c *rig.Ctx) SchedCase {
	s := SchedCase{Kind: "sched", Max: c.Rng.Intn(4)}
	threads := 2 + c.Rng.Intn(3)
	n := 8 + c.Rng.Intn(63)
	cur := c.Rng.Intn(threads)
	stick := 1 + c.Rng.Intn(5) // how long a thread tends to keep running: small = many preemptions
	for len(s.Events) < n {
		switch r := c.Rng.Intn(100); {
		case r < 6:
			v := c.Rng.Intn(4)
			s.Events = append(s.Events, Ev{Resize: &v})
		default:
			if c.Rng.Intn(stick+1) == 0 {
				cur = c.Rng.Intn(threads)
			}
			s.Events = append(s.Events, Ev{T: cur})
		}
	}
	return s
}

func schedBucket(s SchedCase) (bool, string) {
	threads := map[int]bool{}
	switches, resizes := 0, 0
	last := -1
	for _, e := range s.Events {
		if e.Resize != nil {
			resizes++
			continue
		}
		threads[e.T] = true
		if last >= 0 && e.T != last {
			switches++
		}
		last = e.T
	}
	b := fmt.Sprintf("sched:threads=%d,max=%d", len(threads), s.Max)
	if resizes > 0 {
		b += ",resize"
	}
	return switches > 0, b
}

func genSched(c *rig.Ctx) {
	n := c.Budget(4000, 80000)
	for i := 0; i < n && judgeFailures < 5; i++ {
		s := genSchedCase(c)
		nt, b := schedBucket(s)
		c.Case(rig.Canon(s), nt, b, func() interface{} { return s })
		c.Trace()
		if !runSched(c, s, false) {
			runSched(c, shrinkSched(c, s), true)
		}
	}
	if c.Thorough() {
		// exhaustive: every schedule of 2 threads x 13 steps (each call is at most 4 steps: every interleaving
		// of up to three calls per thread), and of 3 threads x 8 steps, for limits 0, 1, 2
		enum := func(threads, length int) {
			total := 1
			for i := 0; i < length; i++ {
				total *= threads
			}
			for max := 0; max <= 2; max++ {
				for code := 0; code < total && judgeFailures < 5; code++ {
					s := SchedCase{Kind: "sched", Max: max}
					x := code
					for i := 0; i < length; i++ {
						s.Events = append(s.Events, Ev{T: x % threads})
						x /= threads
					}
					c.Case(rig.Canon(s), true, fmt.Sprintf("sched-exhaustive:threads=%d,len=%d", threads, length), nil)
					c.Trace()
					if !runSched(c, s, false) {
						runSched(c, shrinkSched(c, s), true)
					}
				}
			}
		}
		enum(2, 13)
		enum(3, 8)
	}
}

// ---------------------------------------------------------------------------------------------------
// stress: real goroutines, no scheduler; exact one-sided counting

type StressCase struct {
	Kind       string `json:"kind"` // "stress"
	Goroutines int    `json:"goroutines"`
	Iterations int    `json:"iterations"`
	Limits     []int  `json:"limits"` // the limit is set to these values in turn while the goroutines run
	Yield      bool   `json:"yield"`
	// Full: through the whole stack (NewUpstreamLimiter, GetOrDefault per request) while a configuring goroutine
	// Syncs resizes AND type changes / deletions / re-additions (a limit of -1 = token bucket, -2 = exempt,
	// -3 = schema deleted); in flight is counted per limiter object handed out.
	Full bool `json:"full,omitempty"`
	// Alike (hex, Full only): a second, look-alike schema name ("S", "s ", ...) configured beside "s" with its own,
	// larger limit and used by every third goroutine: the two must not share a limit or a counter.
	Alike string `json:"alike,omitempty"`
}

func runStress(c *rig.Ctx, s StressCase, record bool) bool {
	fail := func(class, what string) bool {
		if record {
			report(c, rig.Failure{Kind: "judge", Class: class, What: what, Case: s})
		}
		return false
	}
	if len(s.Limits) == 0 {
		return true
	}
	if s.Full {
		return runStressFull(c, s, record)
	}
	ctl.mu.Lock()
	defer ctl.mu.Unlock()
	maxinflight.VerifHook = nil
	fc := newMI(s.Limits[0])
	hi := 0
	for _, l := range s.Limits {
		if l > hi {
			hi = l
		}
	}
	var inflight, worst int64
	var wg sync.WaitGroup
	stop := make(chan struct{})
	resizerDone := make(chan struct{})
	for g := 0; g < s.Goroutines; g++ {
		wg.Add(1)
		go func() {
			defer wg.Done()
			for i := 0; i < s.Iterations; i++ {
				if fc.TryAcquire() {
					// counted after admission and un-counted before the release: the harness never sees
					// more in flight than there really are
					n := atomic.AddInt64(&inflight, 1)
					for {
						w := atomic.LoadInt64(&worst)
						if n <= w || atomic.CompareAndSwapInt64(&worst, w, n) {
							break
						}
					}
					if s.Yield {
						runtime.Gosched()
					}
					atomic.AddInt64(&inflight, -1)
					fc.Release()
				}
			}
		}()
	}
	go func() {
		defer close(resizerDone)
		for i := 0; ; i++ {
			select {
			case <-stop:
				return
			default:
			}
			fc.Resize(uint32(s.Limits[i%len(s.Limits)]), 0)
			runtime.Gosched()
		}
	}()
	fin := make(chan struct{})
	go func() { wg.Wait(); close(fin) }()
	select {
	case <-fin:
	case <-time.After(120 * time.Second):
		close(stop)
		return inconclusive(c, "stress", "timeout: stress goroutines did not finish within 120 s")
	}
	close(stop)
	<-resizerDone
	if worst > int64(hi) {
		return fail("c05.stress-over-admission", fmt.Sprintf("%d requests were in flight at once; the limit never exceeded %d", worst, hi))
	}
	// quiescent now: set a final limit and probe capacity exactly
	final := s.Limits[len(s.Limits)-1]
	fc.Resize(uint32(final), 0)
	got := 0
	var held int
	for i := 0; i < final+1; i++ {
		if fc.TryAcquire() {
			got++
			held++
		}
	}
	if got != final {
		return fail("c05.stress-capacity", fmt.Sprintf("after all %d goroutines finished, %d of %d probing requests were admitted at limit %d (slots leaked or were returned twice)", s.Goroutines, got, final+1, final))
	}
	return true
}

func stressSpec(limit int, alike string, alikeLimit int) proxyv1alpha1.FlowControl {
	fc := stressSpec1(limit)
	if alike != "" {
		fc.Schemas = append(fc.Schemas, proxyv1alpha1.FlowControlSchema{Name: alike,
			FlowControlSchemaConfiguration: proxyv1alpha1.FlowControlSchemaConfiguration{
				MaxRequestsInflight: &proxyv1alpha1.MaxRequestsInflightFlowControlSchema{Max: int32(alikeLimit)}}})
	}
	return fc
}

func stressSpec1(limit int) proxyv1alpha1.FlowControl {
	sch := proxyv1alpha1.FlowControlSchema{Name: "s"}
	switch {
	case limit >= 0:
		sch.MaxRequestsInflight = &proxyv1alpha1.MaxRequestsInflightFlowControlSchema{Max: int32(limit)}
	case limit == -1:
		sch.TokenBucket = &proxyv1alpha1.TokenBucketFlowControlSchema{QPS: 1000000, Burst: 1000000}
	case limit == -2:
		sch.Exempt = &proxyv1alpha1.ExemptFlowControlSchema{}
	default:
		return proxyv1alpha1.FlowControl{}
	}
	return proxyv1alpha1.FlowControl{Schemas: []proxyv1alpha1.FlowControlSchema{sch}}
}

// runStressFull: real goroutines handle requests the way the dispatcher does (one lookup, TryAcquire, Release on
// the value looked up) while the schema is resized, changes type, is deleted and re-added. One-sided exact
// counting per limiter object: a max-in-flight limiter object never has more requests in flight than the
// largest limit ever configured; afterwards, with nothing in flight, exactly `final` requests are admitted.
func runStressFull(c *rig.Ctx, s StressCase, record bool) bool {
	fail := func(class, what string) bool {
		if record {
			report(c, rig.Failure{Kind: "judge", Class: class, What: what, Case: s})
		}
		return false
	}
	ctl.mu.Lock()
	defer ctl.mu.Unlock()
	maxinflight.VerifHook = nil
	ctx, cancel := context.WithCancel(context.Background())
	lim := flowcontrols.NewUpstreamLimiter(ctx, "a", "", nil)
	defer func() {
		cancel()
		rig.Recover(func() {
			for _, fc := range lim.AllFlowControls() {
				fc.Stop()
			}
		})
	}()
	hi := 0
	for _, l := range s.Limits {
		if l > hi {
			hi = l
		}
	}
	alike := rig.UnHex(s.Alike)
	alikeLimit := hi + 3
	lim.Sync(stressSpec(s.Limits[0], alike, alikeLimit))
	type objKey struct {
		name string
		fc   flowcontrol.FlowControl
	}
	var perObj sync.Map // (name asked for, limiter object) -> *int64 in flight
	var worst, worstAlike int64
	var panics int32
	var wg sync.WaitGroup
	stop := make(chan struct{})
	cfgDone := make(chan struct{})
	for g := 0; g < s.Goroutines; g++ {
		wg.Add(1)
		name, worstOf := "s", &worst
		if alike != "" && g%3 == 2 {
			name, worstOf = alike, &worstAlike
		}
		go func() {
			defer wg.Done()
			for i := 0; i < s.Iterations; i++ {
				_, p := rig.Recover(func() {
					fc := lim.GetOrDefault(name)
					isMI := fc.Type() == proxyv1alpha1.MaxRequestsInflight
					if !fc.TryAcquire() {
						return
					}
					if isMI {
						v, _ := perObj.LoadOrStore(objKey{name, fc}, new(int64))
						cnt := v.(*int64)
						n := atomic.AddInt64(cnt, 1)
						for {
							w := atomic.LoadInt64(worstOf)
							if n <= w || atomic.CompareAndSwapInt64(worstOf, w, n) {
								break
							}
						}
						if s.Yield {
							runtime.Gosched()
						}
						atomic.AddInt64(cnt, -1)
					}
					fc.Release()
				})
				if p {
					atomic.AddInt32(&panics, 1)
				}
			}
		}()
	}
	go func() {
		defer close(cfgDone)
		for i := 1; ; i++ {
			select {
			case <-stop:
				return
			default:
			}
			lim.Sync(stressSpec(s.Limits[i%len(s.Limits)], alike, alikeLimit))
			runtime.Gosched()
		}
	}()
	fin := make(chan struct{})
	go func() { wg.Wait(); close(fin) }()
	select {
	case <-fin:
	case <-time.After(120 * time.Second):
		close(stop)
		return inconclusive(c, "stress", "timeout: stress goroutines did not finish within 120 s")
	}
	close(stop)
	<-cfgDone
	if worst > int64(hi) {
		return fail("c05.stress-over-admission", fmt.Sprintf("%d requests admitted under schema \"s\" by one max-in-flight limiter object were in flight at once; its limit never exceeded %d", worst, hi))
	}
	if worstAlike > int64(alikeLimit) {
		return fail("c05.stress-over-admission", fmt.Sprintf("%d requests admitted under schema %q by one max-in-flight limiter object were in flight at once; its limit is %d", worstAlike, alike, alikeLimit))
	}
	// quiescent: make it a max-in-flight schema with a final limit and probe exactly. If it was one all
	// along (resizes only), its counter has been in use the whole time: no slot may be missing.
	final := hi + 1
	lim.Sync(stressSpec(final, alike, alikeLimit))
	if alike != "" {
		// the look-alike schema has its own capacity, and filling it must not take anything from "s"
		fa := lim.GetOrDefault(alike)
		gotA := 0
		for i := 0; i < alikeLimit+1; i++ {
			if fa.TryAcquire() {
				gotA++
			}
		}
		if gotA != alikeLimit {
			return fail("c05.stress-capacity", fmt.Sprintf("with nothing in flight, %d of %d probing requests were admitted under schema %q at limit %d", gotA, alikeLimit+1, alike, alikeLimit))
		}
	}
	fc := lim.GetOrDefault("s")
	got := 0
	for i := 0; i < final+1; i++ {
		if fc.TryAcquire() {
			got++
		}
	}
	if got != final {
		return fail("c05.stress-capacity", fmt.Sprintf("after all %d goroutines finished, %d of %d probing requests were admitted at limit %d (slots leaked or were returned twice)", s.Goroutines, got, final+1, final))
	}
	return true
}

func genStress(c *rig.Ctx) {
	n := c.Budget(40, 600)
	for i := 0; i < n && judgeFailures < 5; i++ {
		s := StressCase{Kind: "stress", Goroutines: 2 + c.Rng.Intn(31), Iterations: 2000 + c.Rng.Intn(6000), Yield: c.Rng.Intn(2) == 0}
		k := 1 + c.Rng.Intn(3)
		for j := 0; j < k; j++ {
			s.Limits = append(s.Limits, c.Rng.Intn(5))
		}
		if i%2 == 1 {
			// whole stack; every other case also changes type, deletes and re-adds while requests are in flight
			s.Full = true
			if c.Rng.Intn(2) == 0 {
				s.Alike = rig.Hex(rig.Pick(c.Rng, []string{"S", "s ", " s", "ss", "\u017f", "s\x00"}))
			}
			if i%4 == 3 {
				s.Limits = append(s.Limits, -1-c.Rng.Intn(3))
				c.Rng.Shuffle(len(s.Limits), func(a, b int) { s.Limits[a], s.Limits[b] = s.Limits[b], s.Limits[a] })
				if s.Limits[0] < 0 {
					s.Limits = append([]int{1 + c.Rng.Intn(3)}, s.Limits...)
				}
			}
		}
		b := fmt.Sprintf("stress:limits=%d", len(s.Limits))
		if s.Full {
			b = "stress-full-stack"
			if s.Alike != "" {
				b = "stress-full-stack,look-alike-names"
			}
			for _, l := range s.Limits {
				if l < 0 {
					b = "stress-full-stack+typechanges"
				}
			}
		}
		c.Case(rig.Canon(s), true, b, func() interface{} { return s })
		c.Trace()
		runStress(c, s, true)
	}
}
