package main

import (
	"fmt"
	"strings"
	"time"

	metav1 "k8s.io/apimachinery/pkg/apis/meta/v1"
	"k8s.io/apiserver/pkg/authentication/user"
	"k8s.io/apiserver/pkg/authorization/authorizer"

	proxyv1alpha1 "github.com/kubewharf/kubegateway/pkg/apis/proxy/v1alpha1"
	"github.com/kubewharf/kubegateway/pkg/clusters"
	"github.com/kubewharf/kubegateway/pkg/clusters/features"
	"github.com/kubewharf/kubegateway/pkg/flowcontrols/flowcontrol"

	"verifharness/rig"
)

// ---------------------------------------------------------------------------------------------------
// cinfo: the same histories, but driven the way the gateway drives them — through a real ClusterInfo:
//
//	sync    ClusterInfo.Sync(UpstreamCluster{flow-control schemas, dispatch policies, feature-gate annotation})
//	        (gateway started with --ratelimiter=remote and no client sets: the GlobalRateLimiter gate decides the
//	        limiter mode, Sync calls ResetLimiter(mode) and then flowcontrol.Sync(schemas))
//	acq     a request matched by dispatch policy P arrives: MatchAttributes(attrs).FlowControl().TryAcquire()
//	        — the lookup the dispatcher does; policy P's flowControlSchemaName may be empty ("if not set, there is
//	        no limit"), name a schema, or name a schema that does not exist
//	rel     the request finishes: Release() on the value it was given
//
// Every history is translated to the op language of hist (reset + sync, acq under the policy's schema name,
// rel) and judged/compared by the same judge and model: a request under no schema (or a missing one) is never
// refused and never counted under any schema; a schema's bound counts exactly the requests of policies naming it.

type CIOp struct {
	Op       string   `json:"op"` // sync | acq | rel
	Schemas  []Schema `json:"schemas,omitempty"`
	Policies []string `json:"policies,omitempty"` // sync: flowControlSchemaName (hex) of policy k, which matches verb "v<k>"
	Gate     bool     `json:"gate,omitempty"`     // sync: GlobalRateLimiter feature gate of the cluster
	P        int      `json:"p,omitempty"`        // acq: the policy that matches the request
	Id       int      `json:"id,omitempty"`
	Of       int      `json:"of,omitempty"`
}

type CICase struct {
	Kind string `json:"kind"` // "cinfo"
	Ops  []CIOp `json:"ops"`
}

const ciCluster = "c.local"

func ciUpstream(op CIOp, endpoint string) *proxyv1alpha1.UpstreamCluster {
	uc := &proxyv1alpha1.UpstreamCluster{ObjectMeta: metav1.ObjectMeta{Name: ciCluster, Annotations: map[string]string{}}}
	if op.Gate {
		uc.Annotations[features.FeatureGateAnnotationKey] = string(features.GlobalRateLimiter) + "=true"
	}
	uc.Spec.Servers = []proxyv1alpha1.UpstreamClusterServer{{Endpoint: endpoint}}
	uc.Spec.ClientConfig.BearerToken = []byte("gateway-token")
	for _, s := range op.Schemas {
		uc.Spec.FlowControl.Schemas = append(uc.Spec.FlowControl.Schemas, s.real())
	}
	for k, n := range op.Policies {
		uc.Spec.DispatchPolicies = append(uc.Spec.DispatchPolicies, proxyv1alpha1.DispatchPolicy{
			Rules:                 []proxyv1alpha1.DispatchPolicyRule{{Verbs: []string{fmt.Sprintf("v%d", k)}, APIGroups: []string{"*"}, Resources: []string{"*"}}},
			FlowControlSchemaName: rig.UnHex(n)})
	}
	return uc
}

// translate turns the ClusterInfo history into the op language of hist.
// main[i] = index of the hist op that carries the answer of CI op i (-1: the op is not executed).
func (cs CICase) translate() (h HistCase, main []int) {
	h = HistCase{Kind: "hist", Mode: "remote"}
	var policies []string
	synced := false
	for _, op := range cs.Ops {
		switch op.Op {
		case "sync":
			mode := "local"
			if op.Gate {
				mode = "remote"
			}
			h.Ops = append(h.Ops, Op{Op: "reset", C: rig.Hex(ciCluster), Mode: rig.Hex(mode)})
			h.Ops = append(h.Ops, Op{Op: "sync", C: rig.Hex(ciCluster), Schemas: op.Schemas})
			main = append(main, len(h.Ops)-1)
			policies = op.Policies
			synced = true
		case "acq":
			if !synced || op.P < 0 || op.P >= len(policies) {
				main = append(main, -1)
				continue
			}
			h.Ops = append(h.Ops, Op{Op: "acq", C: rig.Hex(ciCluster), N: policies[op.P], Id: op.Id})
			main = append(main, len(h.Ops)-1)
		case "rel":
			if !synced {
				main = append(main, -1)
				continue
			}
			h.Ops = append(h.Ops, Op{Op: "rel", Of: op.Of})
			main = append(main, len(h.Ops)-1)
		default:
			main = append(main, -1)
		}
	}
	return
}

// runImplCI runs the history on a real ClusterInfo; outs are aligned with the translated hist ops.
func runImplCI(cs CICase, h HistCase, main []int) (outs []Out, tbAns map[int]bool, rigErr string) {
	tbAns = map[int]bool{}
	var ci *clusters.ClusterInfo
	defer func() {
		if ci != nil {
			rig.Recover(func() { ci.Stop() })
		}
	}()
	const endpoint = "https://127.0.0.1:1"
	reqs := map[int]*implReq{}
	for i, op := range cs.Ops {
		if main[i] < 0 {
			continue
		}
		switch op.Op {
		case "sync":
			uc := ciUpstream(op, endpoint)
			var err error
			msg, panicked := rig.Recover(func() {
				if ci == nil {
					// the gateway runs with --ratelimiter=remote; no limiter-server client sets
					ci, err = clusters.CreateClusterInfo(uc, alwaysReady, flowcontrol.RemoteFlowControls, nil)
				} else {
					err = ci.Sync(uc)
				}
			})
			outs = append(outs, Out{K: "synced"}) // the ResetLimiter half
			if panicked {
				return append(outs, Out{K: "panic", Msg: msg}), tbAns, ""
			}
			if err != nil {
				return outs, tbAns, "ClusterInfo sync failed: " + err.Error()
			}
			outs = append(outs, Out{K: "synced"})
		case "acq":
			var o Out
			var rerr string
			msg, panicked := rig.Recover(func() {
				attrs := authorizer.AttributesRecord{User: &user.DefaultInfo{Name: "alice"}, Verb: fmt.Sprintf("v%d", op.P),
					APIVersion: "v1", Resource: "pods", Namespace: "default", ResourceRequest: true, Path: "/api/v1/namespaces/default/pods"}
				picker, err := ci.MatchAttributes(attrs)
				if err != nil {
					rerr = fmt.Sprintf("request for policy %d matched no policy: %v", op.P, err)
					return
				}
				fc := picker.FlowControl()
				desc := describe(fc)
				ok := fc.TryAcquire()
				if _, dup := reqs[op.Id]; !dup {
					reqs[op.Id] = &implReq{fc: fc, admitted: ok}
				}
				if strings.HasPrefix(desc, "tb:") {
					tbAns[op.Id] = ok
				}
				o = Out{K: "acq", Ok: ok, Desc: desc}
			})
			if panicked {
				return append(outs, Out{K: "panic", Msg: msg}), tbAns, ""
			}
			if rerr != "" {
				return outs, tbAns, rerr
			}
			outs = append(outs, o)
		case "rel":
			r := reqs[op.Of]
			did := false
			if r != nil && r.admitted && !r.released {
				r.released = true
				did = true
				msg, panicked := rig.Recover(func() { r.fc.Release() })
				if panicked {
					return append(outs, Out{K: "panic", Msg: msg}), tbAns, ""
				}
			}
			outs = append(outs, Out{K: "rel", Did: did})
		}
	}
	return outs, tbAns, ""
}

func runCI(c *rig.Ctx, cs CICase, record bool) bool {
	lastClass = ""
	fail := func(kind, class, what string, impl, model interface{}) bool {
		lastClass = class
		if record {
			report(c, rig.Failure{Kind: kind, Class: class, What: what + " [history through ClusterInfo.Sync / MatchAttributes; op numbers refer to the translation: each sync = ResetLimiter + Sync]", Case: cs, Impl: impl, Model: model})
		}
		return false
	}
	h, main := cs.translate()
	if !wellFormed(h) {
		return true
	}
	outs, tbAns, rigErr := runImplCI(cs, h, main)
	if rigErr != "" {
		return fail("diff", "c05.cinfo-rig", "the ClusterInfo rig could not run: "+rigErr, outs, nil)
	}
	return judgeAndCompare(c, h, outs, tbAns, fail)
}

func shrinkCI(c *rig.Ctx, cs CICase) CICase {
	runCI(c, cs, false)
	want := lastClass
	cs.Ops = rig.ShrinkList(cs.Ops, func(ops []CIOp) bool {
		x := cs
		x.Ops = ops
		return !runCI(c, x, false) && lastClass == want
	})
	return cs
}

var (
	ciSchemaNames = []string{"system-default", "x", "System-Default", "y"}
	ciPolicyNames = []string{"", "", "system-default", "system-default", "x", "missing", "System-Default", "y"}
)

func genCICase(c *rig.Ctx) CICase {
	cs := CICase{Kind: "cinfo"}
	var schemas []Schema
	// usually a small max-in-flight schema literally named like the built-in default, plus others
	for _, n := range ciSchemaNames {
		switch {
		case n == "system-default" && c.Rng.Intn(5) > 0:
			schemas = append(schemas, Schema{Name: rig.Hex(n), Strategy: rig.Hex(rig.Pick(c.Rng, []string{"", "local"})), Mi: i32(int32(c.Rng.Intn(3)))})
		case n != "system-default" && c.Rng.Intn(2) == 0:
			schemas = append(schemas, genSchema(c, n))
		}
	}
	np := 2 + c.Rng.Intn(3)
	policies := []string{rig.Hex(""), rig.Hex("system-default")} // a policy under no schema and one naming the look-alike
	for len(policies) < np {
		policies = append(policies, rig.Hex(rig.Pick(c.Rng, ciPolicyNames)))
	}
	c.Rng.Shuffle(len(policies), func(i, j int) { policies[i], policies[j] = policies[j], policies[i] })
	gate := c.Rng.Intn(2) == 0
	emit := func() {
		cs.Ops = append(cs.Ops, CIOp{Op: "sync", Schemas: append([]Schema{}, schemas...), Policies: append([]string{}, policies...), Gate: gate})
	}
	emit()
	n := 8 + c.Rng.Intn(35)
	nextID := 1
	var open []int
	for len(cs.Ops) < n {
		switch r := c.Rng.Intn(100); {
		case r < 8: // the gate flips (mode switch), nothing else changes
			gate = !gate
			emit()
		case r < 16 && len(schemas) > 0: // a schema changes (resize or anything)
			i := c.Rng.Intn(len(schemas))
			old := schemas[i]
			schemas[i] = genSchema(c, rig.UnHex(old.Name))
			if old.Mi != nil && c.Rng.Intn(2) == 0 {
				schemas[i] = old
				schemas[i].Mi = i32(int32(c.Rng.Intn(4)))
			}
			if c.Rng.Intn(4) == 0 {
				gate = !gate
			}
			emit()
		case r < 19: // delete or (re-)add a schema
			name := rig.Pick(c.Rng, ciSchemaNames)
			found := -1
			for i, s := range schemas {
				if rig.UnHex(s.Name) == name {
					found = i
				}
			}
			if found >= 0 {
				schemas = append(schemas[:found:found], schemas[found+1:]...)
			} else {
				schemas = append(schemas, Schema{Name: rig.Hex(name), Strategy: rig.Hex(""), Mi: i32(int32(c.Rng.Intn(3)))})
			}
			emit()
		case r < 21: // a policy is pointed at another schema
			policies[c.Rng.Intn(len(policies))] = rig.Hex(rig.Pick(c.Rng, ciPolicyNames))
			emit()
		case r < 72:
			cs.Ops = append(cs.Ops, CIOp{Op: "acq", P: c.Rng.Intn(len(policies)), Id: nextID})
			open = append(open, nextID)
			nextID++
		default:
			if len(open) == 0 {
				continue
			}
			i := c.Rng.Intn(len(open))
			id := open[i]
			if c.Rng.Intn(12) > 0 {
				open = append(open[:i:i], open[i+1:]...)
			}
			cs.Ops = append(cs.Ops, CIOp{Op: "rel", Of: id})
		}
	}
	return cs
}

func genCI(c *rig.Ctx) {
	n := c.Budget(800, 20000)
	start := time.Now()
	for i := 0; i < n && judgeFailures < 5; i++ {
		cs := genCICase(c)
		h, main := cs.translate()
		outs, _, _ := runImplCI(cs, h, main)
		nt, feats := histFeatures(h, outs)
		underNone, underDefaultName := false, false
		for k, op := range h.Ops {
			if op.Op == "acq" && k < len(outs) {
				if op.N == "" {
					underNone = true
				}
				if rig.UnHex(op.N) == "system-default" && strings.HasPrefix(outs[k].Desc, "mi:") {
					underDefaultName = true
				}
			}
		}
		b := "cinfo:trivial"
		if nt {
			b = "cinfo:nontrivial"
		}
		c.Case(rig.Canon(cs), nt, b, func() interface{} { return cs })
		c.Trace()
		for _, f := range feats {
			c.Count("cinfo-feature:" + f)
		}
		if underNone && underDefaultName {
			c.Count("cinfo-feature:no-schema-policy-beside-schema-named-system-default")
		}
		if !runCI(c, cs, false) {
			runCI(c, shrinkCI(c, cs), true)
		}
		if !c.Thorough() && time.Since(start) > 40*time.Second {
			c.Note("cinfo: stopped after %d of %d histories (40 s)", i+1, n)
			break
		}
	}
}
