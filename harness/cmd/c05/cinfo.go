package main

import (
	"fmt"
	"strings"
	"time"

	metav1 "k8s.io/apimachinery/pkg/apis/meta/v1"
	"k8s.io/apiserver/pkg/authentication/user"
	"k8s.io/apiserver/pkg/authorization/authorizer"

	proxyv1alpha1 "github.com/kubewharf/kubegateway/pkg/apis/proxy/v1alpha1"
	"github.com/kubewharf/kubegateway/pkg/clusters"
	"github.com/kubewharf/kubegateway/pkg/clusters/features"
	"github.com/kubewharf/kubegateway/pkg/flowcontrols/flowcontrol"

	"verifharness/rig"
)

// ---------------------------------------------------------------------------------------------------
// cinfo: the same histories, but driven the way the gateway drives them — through a real ClusterInfo:
//
//	sync    ClusterInfo.Sync(UpstreamCluster{flow-control schemas, dispatch policies, feature-gate annotation})
//	        (gateway started with --ratelimiter=remote and no client sets: the GlobalRateLimiter gate decides the
//	        limiter mode, Sync calls ResetLimiter(mode) and then flowcontrol.Sync(schemas))
//	acq     a request matched by dispatch policy P arrives: MatchAttributes(attrs).FlowControl().TryAcquire()
//	        — the lookup the dispatcher does; policy P's flowControlSchemaName may be empty ("if not set, there is
//	        no limit"), name a schema, or name a schema that does not exist
//	rel     the request finishes: Release() on the value it was given
//
// Every history is translated to the op language of hist (reset + sync, acq under the policy's schema name,
// rel) and judged/compared by the same judge and model: a request under no schema (or a missing one) is never
// refused and never counted under any schema; a schema's bound counts exactly the requests of policies naming it.

type CIOp struct {
	Op       string   `json:"op"` // sync | acq | rel
	Schemas  []Schema `json:"schemas,omitempty"`
	Policies []string `json:"policies,omitempty"` // sync: flowControlSchemaName (hex) of the k-th dispatch policy, in spec order
	Verbs    []int    `json:"verbs,omitempty"`    // sync: the k-th policy matches verb "v<Verbs[k]>" (absent: k); first match wins
	Gate     bool     `json:"gate,omitempty"`     // sync: GlobalRateLimiter feature gate of the cluster
	P        int      `json:"p,omitempty"`        // acq: the request's verb is "v<P>"
	Id       int      `json:"id,omitempty"`
	Of       int      `json:"of,omitempty"`
}

type CICase struct {
	Kind string `json:"kind"` // "cinfo"
	Ops  []CIOp `json:"ops"`
}

const ciCluster = "c.local"

func (op CIOp) verbOf(k int) int {
	if k < len(op.Verbs) {
		return op.Verbs[k]
	}
	return k
}

// schemaFor: the flowControlSchemaName of the first policy (spec order) that matches verb v<p>
func (op CIOp) schemaFor(p int) (string, bool) {
	for k, n := range op.Policies {
		if op.verbOf(k) == p {
			return n, true
		}
	}
	return "", false
}

func ciUpstream(op CIOp, endpoint string) *proxyv1alpha1.UpstreamCluster {
	uc := &proxyv1alpha1.UpstreamCluster{ObjectMeta: metav1.ObjectMeta{Name: ciCluster, Annotations: map[string]string{}}}
	if op.Gate {
		uc.Annotations[features.FeatureGateAnnotationKey] = string(features.GlobalRateLimiter) + "=true"
	}
	uc.Spec.Servers = []proxyv1alpha1.UpstreamClusterServer{{Endpoint: endpoint}}
	uc.Spec.ClientConfig.BearerToken = []byte("gateway-token")
	for _, s := range op.Schemas {
		uc.Spec.FlowControl.Schemas = append(uc.Spec.FlowControl.Schemas, s.real())
	}
	for k, n := range op.Policies {
		uc.Spec.DispatchPolicies = append(uc.Spec.DispatchPolicies, proxyv1alpha1.DispatchPolicy{
			Rules:                 []proxyv1alpha1.DispatchPolicyRule{{Verbs: []string{fmt.Sprintf("v%d", op.verbOf(k))}, APIGroups: []string{"*"}, Resources: []string{"*"}}},
			FlowControlSchemaName: rig.UnHex(n)})
	}
	return uc
}

// translate turns the ClusterInfo history into the op language of hist.
// main[i] = index of the hist op that carries the answer of CI op i (-1: the op is not executed).
func (cs CICase) translate() (h HistCase, main []int) {
	h = HistCase{Kind: "hist", Mode: "remote"}
	var last CIOp
	synced := false
	for _, op := range cs.Ops {
		switch op.Op {
		case "sync":
			mode := "local"
			if op.Gate {
				mode = "remote"
			}
			h.Ops = append(h.Ops, Op{Op: "reset", C: rig.Hex(ciCluster), Mode: rig.Hex(mode)})
			h.Ops = append(h.Ops, Op{Op: "sync", C: rig.Hex(ciCluster), Schemas: op.Schemas})
			main = append(main, len(h.Ops)-1)
			last = op
			synced = true
		case "acq":
			name, matched := last.schemaFor(op.P)
			if !synced || !matched {
				main = append(main, -1)
				continue
			}
			h.Ops = append(h.Ops, Op{Op: "acq", C: rig.Hex(ciCluster), N: name, Id: op.Id})
			main = append(main, len(h.Ops)-1)
		case "rel":
			if !synced {
				main = append(main, -1)
				continue
			}
			h.Ops = append(h.Ops, Op{Op: "rel", Of: op.Of})
			main = append(main, len(h.Ops)-1)
		default:
			main = append(main, -1)
		}
	}
	return
}

// runImplCI runs the history on a real ClusterInfo; outs are aligned with the translated hist ops.
func runImplCI(cs CICase, h HistCase, main []int) (outs []Out, tbAns map[int]bool, rigErr string) {
	tbAns = map[int]bool{}
	var ci *clusters.ClusterInfo
	defer func() {
		if ci != nil {
			rig.Recover(func() { ci.Stop() })
		}
	}()
	const endpoint = "https://127.0.0.1:1"
	reqs := map[int]*implReq{}
	for i, op := range cs.Ops {
		if main[i] < 0 {
			continue
		}
		switch op.Op {
		case "sync":
			uc := ciUpstream(op, endpoint)
			var err error
			msg, panicked := rig.Recover(func() {
				if ci == nil {
					// the gateway runs with --ratelimiter=remote; no limiter-server client sets
					ci, err = clusters.CreateClusterInfo(uc, alwaysReady, flowcontrol.RemoteFlowControls, nil)
				} else {
					err = ci.Sync(uc)
				}
			})
			outs = append(outs, Out{K: "synced"}) // the ResetLimiter half
			if panicked {
				return append(outs, Out{K: "panic", Msg: msg}), tbAns, ""
			}
			if err != nil {
				return outs, tbAns, "ClusterInfo sync failed: " + err.Error()
			}
			outs = append(outs, Out{K: "synced"})
		case "acq":
			var o Out
			var rerr string
			msg, panicked := rig.Recover(func() {
				attrs := authorizer.AttributesRecord{User: &user.DefaultInfo{Name: "alice"}, Verb: fmt.Sprintf("v%d", op.P),
					APIVersion: "v1", Resource: "pods", Namespace: "default", ResourceRequest: true, Path: "/api/v1/namespaces/default/pods"}
				picker, err := ci.MatchAttributes(attrs)
				if err != nil {
					rerr = fmt.Sprintf("request for policy %d matched no policy: %v", op.P, err)
					return
				}
				fc := picker.FlowControl()
				desc := describe(fc)
				ok := fc.TryAcquire()
				if _, dup := reqs[op.Id]; !dup {
					reqs[op.Id] = &implReq{fc: fc, admitted: ok}
				}
				if strings.HasPrefix(desc, "tb:") {
					tbAns[op.Id] = ok
				}
				o = Out{K: "acq", Ok: ok, Desc: desc}
			})
			if panicked {
				return append(outs, Out{K: "panic", Msg: msg}), tbAns, ""
			}
			if rerr != "" {
				return outs, tbAns, rerr
			}
			outs = append(outs, o)
		case "rel":
			r := reqs[op.Of]
			did := false
			if r != nil && r.admitted && !r.released {
				r.released = true
				did = true
				msg, panicked := rig.Recover(func() { r.fc.Release() })
				if panicked {
					return append(outs, Out{K: "panic", Msg: msg}), tbAns, ""
				}
			}
			outs = append(outs, Out{K: "rel", Did: did})
		}
	}
	return outs, tbAns, ""
}

func runCI(c *rig.Ctx, cs CICase, record bool) bool {
	lastClass = ""
	fail := func(kind, class, what string, impl, model interface{}) bool {
		lastClass = class
		if record {
			report(c, rig.Failure{Kind: kind, Class: class, What: what + " [history through ClusterInfo.Sync / MatchAttributes; op numbers refer to the translation: each sync = ResetLimiter + Sync]", Case: cs, Impl: impl, Model: model})
		}
		return false
	}
	h, main := cs.translate()
	if !wellFormed(h) {
		return true
	}
	outs, tbAns, rigErr := runImplCI(cs, h, main)
	if rigErr != "" {
		return fail("diff", "c05.cinfo-rig", "the ClusterInfo rig could not run: "+rigErr, outs, nil)
	}
	return judgeAndCompare(c, h, outs, tbAns, fail)
}

func shrinkCI(c *rig.Ctx, cs CICase) CICase {
	runCI(c, cs, false)
	want := lastClass
	cs.Ops = rig.ShrinkList(cs.Ops, func(ops []CIOp) bool {
		x := cs
		x.Ops = ops
		return !runCI(c, x, false) && lastClass == want
	})
	return cs
}

var (
	ciSchemaNames = []string{"system-default", "x", "System-Default", "y"}
	ciPolicyNames = []string{"", "", "system-default", "system-default", "x", "missing", "System-Default", "y"}
)

func genCICase(c *rig.Ctx) CICase {
	cs := CICase{Kind: "cinfo"}
	var schemas []Schema
	// usually a small max-in-flight schema literally named like the built-in default, plus others
	for _, n := range ciSchemaNames {
		switch {
		case n == "system-default" && c.Rng.Intn(5) > 0:
			m := int32(c.Rng.Intn(3))
			if c.Rng.Intn(10) == 0 { // an extreme starting value, resized in place later
				m = rig.Pick(c.Rng, []int32{2147483647, 2147483646, 1 << 30})
			}
			schemas = append(schemas, Schema{Name: rig.Hex(n), Strategy: rig.Hex(rig.Pick(c.Rng, []string{"", "local"})), Mi: i32(m)})
		case n != "system-default" && c.Rng.Intn(2) == 0:
			schemas = append(schemas, genSchema(c, n))
		}
	}
	// the focus schema: most traffic goes to policies naming it, and policies stop naming it and name it again
	focus := "system-default"
	if len(schemas) > 0 && c.Rng.Intn(2) == 0 {
		focus = rig.UnHex(schemas[c.Rng.Intn(len(schemas))].Name)
	}
	type policy struct {
		verb int
		name string // hex
	}
	np := 2 + c.Rng.Intn(3)
	policies := []policy{{0, rig.Hex("")}, {1, rig.Hex(focus)}} // a policy under no schema and one naming the focus schema
	nextVerb := 2
	for len(policies) < np {
		policies = append(policies, policy{nextVerb, rig.Hex(rig.Pick(c.Rng, ciPolicyNames))})
		nextVerb++
	}
	c.Rng.Shuffle(len(policies), func(i, j int) { policies[i], policies[j] = policies[j], policies[i] })
	gate := c.Rng.Intn(2) == 0
	emit := func() {
		op := CIOp{Op: "sync", Schemas: append([]Schema{}, schemas...), Gate: gate}
		for _, p := range policies {
			op.Policies = append(op.Policies, p.name)
			op.Verbs = append(op.Verbs, p.verb)
		}
		cs.Ops = append(cs.Ops, op)
	}
	emit()
	n := 8 + c.Rng.Intn(40)
	nextID := 1
	var open []int
	otherName := func() string {
		for tries := 0; tries < 8; tries++ {
			if x := rig.Pick(c.Rng, ciPolicyNames); x != focus {
				return x
			}
		}
		return ""
	}
	for len(cs.Ops) < n {
		switch r := c.Rng.Intn(100); {
		case r < 6: // the gate flips (mode switch), nothing else changes
			gate = !gate
			emit()
		case r < 12 && len(schemas) > 0: // a schema changes (resize or anything)
			i := c.Rng.Intn(len(schemas))
			old := schemas[i]
			schemas[i] = genSchema(c, rig.UnHex(old.Name))
			if old.Mi != nil && c.Rng.Intn(2) == 0 {
				schemas[i] = old
				schemas[i].Mi = i32(int32(c.Rng.Intn(4)))
			}
			if c.Rng.Intn(4) == 0 {
				gate = !gate
			}
			emit()
		case r < 15: // delete or (re-)add a schema
			name := rig.Pick(c.Rng, ciSchemaNames)
			found := -1
			for i, s := range schemas {
				if rig.UnHex(s.Name) == name {
					found = i
				}
			}
			if found >= 0 {
				schemas = append(schemas[:found:found], schemas[found+1:]...)
			} else {
				schemas = append(schemas, Schema{Name: rig.Hex(name), Strategy: rig.Hex(""), Mi: i32(int32(c.Rng.Intn(3)))})
			}
			emit()
		case r < 33:
			// a dispatch-policy-only change, the schema list stays as it is (requests are usually held across it)
			switch m := c.Rng.Intn(12); {
			case m < 6: // a policy stops naming its schema / names the focus schema (again)
				k := c.Rng.Intn(len(policies))
				for i, p := range policies { // prefer toggling policies that name the focus schema, or all of them at once
					if rig.UnHex(p.name) == focus && c.Rng.Intn(2) == 0 {
						k = i
					}
				}
				if rig.UnHex(policies[k].name) == focus {
					other := rig.Hex(otherName())
					if c.Rng.Intn(2) == 0 { // every policy naming it lets go of it
						for i := range policies {
							if rig.UnHex(policies[i].name) == focus {
								policies[i].name = other
							}
						}
					}
					policies[k].name = other
				} else if c.Rng.Intn(4) > 0 {
					policies[k].name = rig.Hex(focus)
				} else {
					policies[k].name = rig.Hex(rig.Pick(c.Rng, ciPolicyNames))
				}
			case m < 8 && len(policies) > 1: // reordered
				c.Rng.Shuffle(len(policies), func(i, j int) { policies[i], policies[j] = policies[j], policies[i] })
			case m < 10 && len(policies) > 1: // removed
				k := c.Rng.Intn(len(policies))
				policies = append(policies[:k:k], policies[k+1:]...)
			default: // added: a new verb, or a second policy for an existing verb (first match wins)
				v := nextVerb
				if c.Rng.Intn(3) == 0 {
					v = policies[c.Rng.Intn(len(policies))].verb
				} else {
					nextVerb++
				}
				name := rig.Hex(focus)
				if c.Rng.Intn(3) == 0 {
					name = rig.Hex(rig.Pick(c.Rng, ciPolicyNames))
				}
				at := c.Rng.Intn(len(policies) + 1)
				policies = append(policies[:at:at], append([]policy{{v, name}}, policies[at:]...)...)
			}
			emit()
		case r < 78:
			// a request arrives; usually its verb is one some policy matches, preferably one naming the focus schema
			p := policies[c.Rng.Intn(len(policies))].verb
			for _, q := range policies {
				if rig.UnHex(q.name) == focus && c.Rng.Intn(2) == 0 {
					p = q.verb
				}
			}
			if c.Rng.Intn(25) == 0 {
				p = c.Rng.Intn(nextVerb + 1) // possibly a verb no policy matches any more
			}
			cs.Ops = append(cs.Ops, CIOp{Op: "acq", P: p, Id: nextID})
			open = append(open, nextID)
			nextID++
		default:
			if len(open) == 0 {
				continue
			}
			i := c.Rng.Intn(len(open))
			id := open[i]
			if c.Rng.Intn(12) > 0 {
				open = append(open[:i:i], open[i+1:]...)
			}
			cs.Ops = append(cs.Ops, CIOp{Op: "rel", Of: id})
		}
	}
	return cs
}

// policyFeatures: did the history change dispatch policies only (schema list untouched) while requests were held,
// and did a schema with held requests lose its last naming policy and get named again later?
func policyFeatures(cs CICase, main []int, outs []Out) []string {
	feats := map[string]bool{}
	held := map[string]int{}   // schema name (hex) -> requests admitted under it and unfinished
	under := map[int]string{}  // request id -> schema name it arrived under
	orphaned := map[string]bool{}
	var last *CIOp
	named := func(op *CIOp, n string) bool {
		for _, p := range op.Policies {
			if p == n {
				return true
			}
		}
		return false
	}
	for i := range cs.Ops {
		op := cs.Ops[i]
		if main[i] < 0 || main[i] >= len(outs) {
			continue
		}
		o := outs[main[i]]
		switch op.Op {
		case "sync":
			if last != nil && rig.Canon(last.Schemas) == rig.Canon(op.Schemas) && last.Gate == op.Gate &&
				(rig.Canon(last.Policies) != rig.Canon(op.Policies) || rig.Canon(last.Verbs) != rig.Canon(op.Verbs)) {
				total := 0
				for n, k := range held {
					total += k
					if k > 0 && n != "" && named(last, n) && !named(&op, n) {
						orphaned[n] = true
						feats["schema-with-held-requests-loses-its-last-policy"] = true
					}
					if k > 0 && orphaned[n] && !named(last, n) && named(&op, n) {
						feats["schema-with-held-requests-named-again"] = true
					}
				}
				if total > 0 {
					feats["policy-only-change-with-requests-held"] = true
				}
			}
			last = &cs.Ops[i]
		case "acq":
			if o.K == "acq" && o.Ok && last != nil {
				if n, ok := last.schemaFor(op.P); ok {
					held[n]++
					under[op.Id] = n
				}
			}
		case "rel":
			if o.Did {
				if n, ok := under[op.Of]; ok {
					held[n]--
					delete(under, op.Of)
				}
			}
		}
	}
	var l []string
	for f := range feats {
		l = append(l, f)
	}
	return l
}

func genCI(c *rig.Ctx) {
	n := c.Budget(800, 20000)
	start := time.Now()
	for i := 0; i < n && judgeFailures < 5; i++ {
		cs := genCICase(c)
		h, main := cs.translate()
		outs, _, _ := runImplCI(cs, h, main)
		nt, feats := histFeatures(h, outs)
		underNone, underDefaultName := false, false
		for k, op := range h.Ops {
			if op.Op == "acq" && k < len(outs) {
				if op.N == "" {
					underNone = true
				}
				if rig.UnHex(op.N) == "system-default" && strings.HasPrefix(outs[k].Desc, "mi:") {
					underDefaultName = true
				}
			}
		}
		b := "cinfo:trivial"
		if nt {
			b = "cinfo:nontrivial"
		}
		c.Case(rig.Canon(cs), nt, b, func() interface{} { return cs })
		c.Trace()
		for _, f := range feats {
			c.Count("cinfo-feature:" + f)
		}
		if underNone && underDefaultName {
			c.Count("cinfo-feature:no-schema-policy-beside-schema-named-system-default")
		}
		for _, f := range policyFeatures(cs, main, outs) {
			c.Count("cinfo-feature:" + f)
		}
		if !runCI(c, cs, false) {
			runCI(c, shrinkCI(c, cs), true)
		}
		if !c.Thorough() && time.Since(start) > 40*time.Second {
			c.Note("cinfo: stopped after %d of %d histories (40 s)", i+1, n)
			break
		}
	}
}
