package main

import (
	"context"
	"fmt"
	"strings"

	proxyv1alpha1 "github.com/kubewharf/kubegateway/pkg/apis/proxy/v1alpha1"
	"github.com/kubewharf/kubegateway/pkg/flowcontrols"
	"github.com/kubewharf/kubegateway/pkg/flowcontrols/flowcontrol"

	"verifharness/rig"
)

// ---------------------------------------------------------------------------------------------------
// case format

type Schema struct {
	Name     string    `json:"name"`     // hex
	Strategy string    `json:"strategy"` // hex
	Exempt   bool      `json:"exempt"`
	Mi       *int32    `json:"mi"`
	Tb       *[2]int32 `json:"tb"`
	Gmi      *int32    `json:"gmi"`
	Gtb      *[2]int32 `json:"gtb"`
}

// Op: {"op":"sync","c":..,"schemas":[..]} | {"op":"acq","c":..,"n":..,"id":k} | {"op":"rel","of":k}
// | {"op":"reset","c":..,"mode":..} = UpstreamLimiter.ResetLimiter(mode), what ClusterInfo.Sync calls when the
// GlobalRateLimiter gate flips (no client sets: the local limiter stays in force in every mode)
// ("of" = the "id" of the arriving request that now finishes; ids need not be dense).
type Op struct {
	Op      string   `json:"op"`
	C       string   `json:"c,omitempty"`
	N       string   `json:"n,omitempty"`
	Schemas []Schema `json:"schemas,omitempty"`
	Id      int      `json:"id,omitempty"`
	Of      int      `json:"of,omitempty"`
	Mode    string   `json:"mode,omitempty"` // reset: the limiter mode (hex): local | remote | anything
}

type HistCase struct {
	Kind     string `json:"kind"` // "hist"
	Mode     string `json:"mode"` // "" (local) | "remote" (no client set: falls back to the local limiter)
	Universe string `json:"universe,omitempty"` // informational: "colliding" = look-alike names
	Ops      []Op   `json:"ops"`
}

type Out struct {
	K    string `json:"k"` // synced | acq | rel | panic
	Ok   bool   `json:"ok,omitempty"`
	Did  bool   `json:"did,omitempty"`
	Desc string `json:"desc,omitempty"`
	Msg  string `json:"msg,omitempty"`
}

func (s Schema) real() proxyv1alpha1.FlowControlSchema {
	r := proxyv1alpha1.FlowControlSchema{Name: rig.UnHex(s.Name), Strategy: proxyv1alpha1.LimitStrategy(rig.UnHex(s.Strategy))}
	if s.Exempt {
		r.Exempt = &proxyv1alpha1.ExemptFlowControlSchema{}
	}
	if s.Mi != nil {
		r.MaxRequestsInflight = &proxyv1alpha1.MaxRequestsInflightFlowControlSchema{Max: *s.Mi}
	}
	if s.Tb != nil {
		r.TokenBucket = &proxyv1alpha1.TokenBucketFlowControlSchema{QPS: s.Tb[0], Burst: s.Tb[1]}
	}
	if s.Gmi != nil {
		r.GlobalMaxRequestsInflight = &proxyv1alpha1.MaxRequestsInflightFlowControlSchema{Max: *s.Gmi}
	}
	if s.Gtb != nil {
		r.GlobalTokenBucket = &proxyv1alpha1.TokenBucketFlowControlSchema{QPS: s.Gtb[0], Burst: s.Gtb[1]}
	}
	return r
}

// guess mirrors the documented priority of schema kinds (the judge's notion of "is a max-in-flight schema").
func (s Schema) guess() string {
	switch {
	case s.Exempt:
		return "exempt"
	case s.Mi != nil || s.Gmi != nil:
		return "mi"
	case s.Tb != nil || s.Gtb != nil:
		return "tb"
	}
	return "exempt"
}

func (s Schema) equal(t Schema) bool { return rig.Canon(s) == rig.Canon(t) }

// ---------------------------------------------------------------------------------------------------
// the real code

type implReq struct {
	fc       flowcontrol.FlowControl
	admitted bool
	released bool
}

func describe(fc flowcontrol.FlowControl) string {
	if fc == nil {
		return "nil"
	}
	if fc == flowcontrol.DefaultFlowControl {
		return "default"
	}
	s := fc.String()
	switch fc.Type() {
	case proxyv1alpha1.MaxRequestsInflight:
		if i := strings.LastIndex(s, "size="); i >= 0 {
			return "mi:" + s[i+5:]
		}
	case proxyv1alpha1.TokenBucket:
		i, j := strings.LastIndex(s, "qps="), strings.LastIndex(s, ",burst=")
		if i >= 0 && j > i {
			return "tb:" + s[i+4:j] + ":" + s[j+7:]
		}
	case proxyv1alpha1.Exempt:
		return "exempt"
	}
	return "?" + s
}

// runImplHist runs the history on the real upstreamLimiter(s). It returns one Out per executed op (the
// history ends at the first panic) and, per arriving request, the token bucket's answer (an input of the model).
func runImplHist(h HistCase) (outs []Out, tbAns map[int]bool) {
	ctx, cancel := context.WithCancel(context.Background())
	lims := map[string]flowcontrols.UpstreamLimiter{}
	defer func() {
		cancel()
		for _, l := range lims {
			l := l
			rig.Recover(func() {
				for _, fc := range l.AllFlowControls() {
					fc.Stop()
				}
			})
		}
	}()
	get := func(c string) flowcontrols.UpstreamLimiter {
		if l, ok := lims[c]; ok {
			return l
		}
		l := flowcontrols.NewUpstreamLimiter(ctx, c, h.Mode, nil)
		lims[c] = l
		return l
	}
	reqs := map[int]*implReq{}
	tbAns = map[int]bool{}
	for _, op := range h.Ops {
		switch op.Op {
		case "sync":
			var spec proxyv1alpha1.FlowControl
			for _, s := range op.Schemas {
				spec.Schemas = append(spec.Schemas, s.real())
			}
			msg, panicked := rig.Recover(func() { get(rig.UnHex(op.C)).Sync(spec) })
			if panicked {
				return append(outs, Out{K: "panic", Msg: msg}), tbAns
			}
			outs = append(outs, Out{K: "synced"})
		case "reset":
			msg, panicked := rig.Recover(func() { get(rig.UnHex(op.C)).ResetLimiter(rig.UnHex(op.Mode)) })
			if panicked {
				return append(outs, Out{K: "panic", Msg: msg}), tbAns
			}
			outs = append(outs, Out{K: "synced"})
		case "acq":
			var o Out
			msg, panicked := rig.Recover(func() {
				fc := get(rig.UnHex(op.C)).GetOrDefault(rig.UnHex(op.N))
				desc := describe(fc)
				ok := fc.TryAcquire()
				if _, dup := reqs[op.Id]; !dup {
					reqs[op.Id] = &implReq{fc: fc, admitted: ok}
				}
				if strings.HasPrefix(desc, "tb:") {
					tbAns[op.Id] = ok
				}
				o = Out{K: "acq", Ok: ok, Desc: desc}
			})
			if panicked {
				return append(outs, Out{K: "panic", Msg: msg}), tbAns
			}
			outs = append(outs, o)
		case "rel":
			// the dispatcher's deferred Release: once, on the value the request was given
			r := reqs[op.Of]
			did := false
			if r != nil && r.admitted && !r.released {
				r.released = true
				did = true
				msg, panicked := rig.Recover(func() { r.fc.Release() })
				if panicked {
					return append(outs, Out{K: "panic", Msg: msg}), tbAns
				}
			}
			outs = append(outs, Out{K: "rel", Did: did})
		}
	}
	return outs, tbAns
}

// ---------------------------------------------------------------------------------------------------
// Go twin of KG.Spec.LocalLimiter.judge (used to name the failure class, and alone when no driver runs)

type entry struct {
	config   Schema
	inflight []int
	stale    bool // a request under it has finished since the last moment nothing was in flight (= not "fresh")
}

// valid: a schema as validation admits it (exactly one kind, a global part only beside its local part, max >= 0).
// The property speaks about such schemas only.
func (s Schema) valid() bool {
	kinds := 0
	if s.Exempt {
		kinds++
	}
	if s.Mi != nil {
		kinds++
	}
	if s.Tb != nil {
		kinds++
	}
	return kinds == 1 && (s.Gmi == nil || s.Mi != nil) && (s.Gtb == nil || s.Tb != nil) && (s.Mi == nil || *s.Mi >= 0)
}

type verdict struct {
	idx   int
	class string
	what  string
}

func toU32(x int32) uint32 { return uint32(x) }

// judgeHist is the Go twin of KG.Spec.LocalLimiter.judge: the property as its text reads (see that file). Where the
// text says nothing - negative max, several kinds or none, duplicate names, missing schema - nothing is demanded; a
// refusal is judged only when slots are free AND no request has finished since nothing was in flight.
func judgeHist(h HistCase, outs []Out) *verdict {
	tainted := map[string]map[string]bool{}
	last := map[string][]Schema{}
	entries := map[string]map[string]*entry{}
	type sreq struct {
		c, n               string
		admitted, released bool
	}
	reqs := map[int]*sreq{}
	ent := func(c string) map[string]*entry {
		if entries[c] == nil {
			entries[c] = map[string]*entry{}
		}
		return entries[c]
	}
	for k, op := range h.Ops {
		if k >= len(outs) {
			break
		}
		o := outs[k]
		switch op.Op {
		case "sync":
			if o.K == "panic" {
				return nil
			}
			if rig.Canon(normSchemas(last[op.C])) == rig.Canon(normSchemas(op.Schemas)) {
				continue
			}
			es := ent(op.C)
			in := map[string]bool{}
			if tainted[op.C] == nil {
				tainted[op.C] = map[string]bool{}
			}
			count, invalid := map[string]int{}, map[string]bool{}
			for _, s := range op.Schemas {
				count[s.Name]++
				if !s.valid() {
					invalid[s.Name] = true
				}
			}
			for n := range tainted[op.C] {
				if count[n] == 0 {
					delete(tainted[op.C], n)
				}
			}
			for n, k := range count {
				if k > 1 || invalid[n] {
					tainted[op.C][n] = true
				}
			}
			for _, s := range op.Schemas {
				in[s.Name] = true
				e := es[s.Name]
				switch {
				case e == nil:
					es[s.Name] = &entry{config: s}
				case s.equal(e.config):
				case s.guess() != e.config.guess():
					es[s.Name] = &entry{config: s}
				default:
					e.config = s
				}
			}
			for n := range es {
				if !in[n] {
					delete(es, n)
				}
			}
			last[op.C] = op.Schemas
		case "acq":
			if o.K == "panic" {
				return &verdict{k, "c05.panic-on-arrival", fmt.Sprintf("op %d: a request arriving for (%q,%q) panicked: %s", k, rig.UnHex(op.C), rig.UnHex(op.N), o.Msg)}
			}
			var e *entry
			if op.N != "" {
				e = ent(op.C)[op.N]
			}
			judged := e != nil && !tainted[op.C][op.N] && e.config.valid()
			switch {
			case op.N == "" || (judged && e.config.guess() == "exempt"):
				if !o.Ok {
					return &verdict{k, "c05.refused-without-limit", fmt.Sprintf("op %d: request for (%q,%q) refused although no limit applies to it (no schema name, or an exempt schema; limiter %s)", k, rig.UnHex(op.C), rig.UnHex(op.N), o.Desc)}
				}
			case judged && e.config.guess() == "mi" && e.config.Mi != nil:
				m := int(*e.config.Mi) // valid: >= 0
				if o.Ok && len(e.inflight) >= m {
					return &verdict{k, "c05.over-admission", fmt.Sprintf("op %d: request for (%q,%q) admitted although %d requests admitted under this max-in-flight schema since it became one are unfinished and the limit is %d", k, rig.UnHex(op.C), rig.UnHex(op.N), len(e.inflight), m)}
				}
				if !o.Ok && len(e.inflight) < m && !e.stale {
					return &verdict{k, "c05.refused-with-free-slot", fmt.Sprintf("op %d: request for (%q,%q) refused although only %d of %d slots are in use and no request under it has finished since none was in flight (a slot leaked or another schema's load was counted)", k, rig.UnHex(op.C), rig.UnHex(op.N), len(e.inflight), m)}
				}
			}
			if _, dup := reqs[op.Id]; !dup {
				reqs[op.Id] = &sreq{c: op.C, n: op.N, admitted: o.Ok}
				if o.Ok && e != nil {
					e.inflight = append(e.inflight, op.Id)
				}
			}
		case "rel":
			if o.K == "panic" {
				return nil
			}
			r := reqs[op.Of]
			if r != nil && r.admitted && !r.released {
				r.released = true
				if r.n != "" {
					if e := ent(r.c)[r.n]; e != nil {
						for i, id := range e.inflight {
							if id == op.Of {
								e.inflight = append(e.inflight[:i:i], e.inflight[i+1:]...)
								e.stale = len(e.inflight) > 0
								break
							}
						}
					}
				}
			}
		}
	}
	return nil
}

func normSchemas(l []Schema) []Schema {
	if l == nil {
		return []Schema{}
	}
	return l
}

// ---------------------------------------------------------------------------------------------------
// wire format of the model call: acquire ops are numbered by order of appearance

func wireOps(h HistCase, tbAns map[int]bool) []map[string]interface{} {
	ord := map[int]int{}
	nacq := 0
	for _, op := range h.Ops {
		if op.Op == "acq" {
			if _, dup := ord[op.Id]; !dup {
				ord[op.Id] = nacq
			}
			nacq++
		}
	}
	var ops []map[string]interface{}
	for _, op := range h.Ops {
		switch op.Op {
		case "sync":
			ops = append(ops, map[string]interface{}{"op": "sync", "c": op.C, "schemas": normSchemas(op.Schemas)})
		case "reset":
			ops = append(ops, map[string]interface{}{"op": "reset", "c": op.C, "mode": op.Mode})
		case "acq":
			tb, ok := tbAns[op.Id]
			if !ok {
				tb = true
			}
			ops = append(ops, map[string]interface{}{"op": "acq", "c": op.C, "n": op.N, "tb": tb})
		case "rel":
			i, ok := ord[op.Of]
			if !ok {
				i = 1 << 30 // unknown request: ignored by model and code alike
			}
			ops = append(ops, map[string]interface{}{"op": "rel", "i": i})
		}
	}
	return ops
}

// well-formed: ids of arriving requests are unique (the generator and the shrinker keep that)
func wellFormed(h HistCase) bool {
	seen := map[int]bool{}
	for _, op := range h.Ops {
		if op.Op == "acq" {
			if seen[op.Id] {
				return false
			}
			seen[op.Id] = true
		}
	}
	return true
}

func runHist(c *rig.Ctx, h HistCase, record bool) bool {
	lastClass = ""
	fail := func(kind, class, what string, impl, model interface{}) bool {
		lastClass = class
		if record {
			report(c, rig.Failure{Kind: kind, Class: class, What: what, Case: h, Impl: impl, Model: model})
		}
		return false
	}
	if !wellFormed(h) {
		return true
	}
	outs, tbAns := runImplHist(h)
	return judgeAndCompare(c, h, outs, tbAns, fail)
}

// judgeAndCompare: the judge (Lean + Go twin) on the real code's answers `outs` to history h, then the
// correspondence with the model. Shared by the histories driven through UpstreamLimiter (hist) and through
// ClusterInfo (cinfo, translated to the same op language).
func judgeAndCompare(c *rig.Ctx, h HistCase, outs []Out, tbAns map[int]bool, fail func(kind, class, what string, impl, model interface{}) bool) bool {
	// judge on the real code's answers (Go twin; the Lean judge is consulted below)
	v := judgeHist(h, outs)
	var m struct {
		Model      []Out `json:"model"`
		JudgeModel int   `json:"judge_model"`
		JudgeImpl  int   `json:"judge_impl"`
	}
	wouts := make([]map[string]interface{}, len(outs))
	for i, o := range outs {
		wouts[i] = map[string]interface{}{"k": o.K, "ok": o.Ok, "did": o.Did}
	}
	err := c.Model("C05.hist", map[string]interface{}{"ops": wireOps(h, tbAns), "outs": wouts}, &m)
	if err != nil {
		if v != nil {
			return fail("judge", v.class, v.what, outs, nil)
		}
		if _, isModelErr := err.(*rig.ModelErr); isModelErr {
			return fail("diff", "c05.model-error", "model error: "+err.Error(), outs, nil)
		}
		return true // no driver (search mode after a broken build): the Go judge alone decides
	}
	if m.JudgeImpl >= 0 || v != nil {
		if v == nil {
			return fail("judge", "c05.judge", fmt.Sprintf("the Lean judge rejects the real code's answer to op %d", m.JudgeImpl), outs, m.Model)
		}
		if m.JudgeImpl != v.idx {
			return fail("diff", "c05.judge-twin", fmt.Sprintf("Lean judge says op %d, Go twin says op %d (%s)", m.JudgeImpl, v.idx, v.what), outs, m.Model)
		}
		return fail("judge", v.class, v.what, outs, m.Model)
	}
	if m.JudgeModel >= 0 {
		return fail("diff", "c05.model-breaks-judge", fmt.Sprintf("the model's own answer to op %d breaks the judge (theorem c05_reconfig_bound would be false)", m.JudgeModel), outs, m.Model)
	}
	if len(m.Model) != len(outs) {
		return fail("diff", "c05.hist-length", fmt.Sprintf("model executed %d ops, code %d (one of them stopped at a panic)", len(m.Model), len(outs)), outs, m.Model)
	}
	for i := range outs {
		a, b := outs[i], m.Model[i]
		if a.K != b.K || a.Ok != b.Ok || a.Did != b.Did || a.Desc != b.Desc {
			a.Msg, b.Msg = "", ""
			return fail("diff", "c05.hist-op", fmt.Sprintf("op %d (%s): code answered %s, model %s", i, rig.Canon(h.Ops[i]), rig.Canon(a), rig.Canon(b)), outs, m.Model)
		}
	}
	return true
}

func shrinkHist(c *rig.Ctx, h HistCase) HistCase {
	runHist(c, h, false)
	want := lastClass // keep the kind of failure while shrinking
	h.Ops = rig.ShrinkList(h.Ops, func(ops []Op) bool {
		x := h
		x.Ops = ops
		return !runHist(c, x, false) && lastClass == want
	})
	// drop schemas one at a time
	for i := range h.Ops {
		if h.Ops[i].Op != "sync" {
			continue
		}
		i := i
		h.Ops[i].Schemas = rig.ShrinkList(h.Ops[i].Schemas, func(ss []Schema) bool {
			x := h
			x.Ops = append([]Op{}, h.Ops...)
			x.Ops[i].Schemas = ss
			return !runHist(c, x, false) && lastClass == want
		})
	}
	return h
}

// ---------------------------------------------------------------------------------------------------
// generator

var (
	// Name universes. Half of the histories use plain distinct names; the other half use a small COLLIDING
	// universe: names that any normalisation of map keys (case folding - ASCII and Unicode -, trimming, space
	// squeezing, prefix matching, NUL truncation, special-casing of the default name) would identify. The code
	// keys limiters by the exact byte string, and so do the model and the judge: a normalisation shows up as a
	// bound or isolation judge failure (a schema refusing/admitting by another schema's limit or load).
	clusterSets = [][]string{
		{"a", "b"}, {"a", "b"}, {"a", "b"},
		{"a", "A"}, {"a", "a "}, {"c.local", "C.local"}, {"ab", "a"},
	}
	schemaSets = [][]string{
		{"x", "y", "z"},
		{"Batch", "batch", "BATCH"},
		{"a", "ab", "abc"},
		{"x", " x", "x "},
		{"q q", "qq", "q  q"},
		{"system-default", "System-Default", "system-default "},
		{"\u00e9", "\u00c9", "e"},     // é / É
		{"k", "K", "\u212a"},          // KELVIN SIGN lower-cases to k
		{"x", "x\x00", "X"},
		{" ", "\t", "\u00a0"},         // empty-looking names validation accepts
		{"x/y", "x", "y"},
	}
	strategies   = []string{"", "", "", "local", "globalAllocate", "globalCount"}
)

func i32(v int32) *int32 { return &v }

func genSchema(c *rig.Ctx, name string) Schema {
	s := Schema{Name: rig.Hex(name), Strategy: rig.Hex(rig.Pick(c.Rng, strategies))}
	r := c.Rng.Intn(100)
	limit := func() int32 {
		// small limits (0 and 1 included) most of the time; the numeric extremes of int32 and powers of two as well -
		// above all as STARTING values of schemas that are later resized in place to a small limit
		switch x := c.Rng.Intn(40); {
		case x == 0:
			return -1 // out of the property's domain; the code casts it to uint32 4294967295
		case x == 1:
			return 1000
		case x == 2 || x == 3:
			return 2147483647 // math.MaxInt32
		case x == 4:
			return 2147483646
		case x == 5:
			return rig.Pick(c.Rng, []int32{1 << 30, 1 << 16, 65535, 256, 255, 128, 127, -2147483648})
		default:
			return int32(c.Rng.Intn(5))
		}
	}
	bucket := func() *[2]int32 {
		switch c.Rng.Intn(4) {
		case 0:
			return &[2]int32{1, 1}
		case 1:
			return &[2]int32{1, 2}
		case 2:
			return &[2]int32{1000000, 1000000}
		}
		return &[2]int32{int32(1 + c.Rng.Intn(3)), int32(c.Rng.Intn(4))}
	}
	switch {
	case r < 55:
		s.Mi = i32(limit())
	case r < 62:
		m := limit()
		s.Mi = i32(m)
		s.Gmi = i32(m + int32(c.Rng.Intn(3)))
	case r < 77:
		s.Tb = bucket()
	case r < 81:
		s.Tb = bucket()
		s.Gtb = &[2]int32{s.Tb[0] + 1, s.Tb[1] + 1}
	case r < 92:
		s.Exempt = true
	case r < 94:
		// more than one kind set (validation forbids it; Exempt wins in the code)
		s.Exempt = true
		s.Mi = i32(limit())
	case r < 96:
		s.Mi = i32(limit())
		s.Tb = bucket()
	case r < 97:
		// nothing set: treated as exempt
	case r < 98:
		s.Gmi = i32(limit()) // global only: NewFlowControl dereferences the missing local part
	default:
		s.Gtb = bucket()
	}
	return s
}

func genHistCase(c *rig.Ctx) HistCase {
	h := HistCase{Kind: "hist"}
	if c.Rng.Intn(4) == 0 {
		h.Mode = "remote"
	}
	n := 6 + c.Rng.Intn(40)
	cur := map[string][]Schema{}
	nextID := 1
	var open []int
	clusterNames, schemaNames := clusterSets[0], schemaSets[0]
	colliding := c.Rng.Intn(2) == 0
	if colliding {
		clusterNames = rig.Pick(c.Rng, clusterSets)
		schemaNames = schemaSets[1+c.Rng.Intn(len(schemaSets)-1)]
		h.Universe = "colliding"
	}
	// a focus pair makes collisions (same schema hit again and again) likely
	fc, fn := rig.Pick(c.Rng, clusterNames), rig.Pick(c.Rng, schemaNames)
	pickC := func() string {
		if c.Rng.Intn(10) < 7 {
			return fc
		}
		return rig.Pick(c.Rng, clusterNames)
	}
	pickN := func() string {
		switch x := c.Rng.Intn(40); {
		case x < 26:
			return fn
		case x == 38:
			return ""
		case x == 39:
			return "q" // never configured
		}
		return rig.Pick(c.Rng, schemaNames)
	}
	// usually start configured: the focus schema (mostly max-in-flight) plus 0-2 others, sometimes on both clusters
	if c.Rng.Intn(8) > 0 {
		for _, cl := range clusterNames {
			if cl != fc && c.Rng.Intn(3) > 0 {
				continue
			}
			var list []Schema
			f := genSchema(c, fn)
			if c.Rng.Intn(3) > 0 {
				f = Schema{Name: rig.Hex(fn), Strategy: rig.Hex(""), Mi: i32(int32(c.Rng.Intn(4)))}
				if c.Rng.Intn(8) == 0 {
					f.Mi = i32(rig.Pick(c.Rng, []int32{2147483647, 2147483647, 2147483646, 1 << 30, 65536}))
				}
			}
			list = append(list, f)
			for _, other := range schemaNames {
				if other == fn {
					continue
				}
				if colliding && c.Rng.Intn(3) > 0 {
					// the look-alikes are usually configured side by side, as max-in-flight schemas with their own limits
					list = append(list, Schema{Name: rig.Hex(other), Strategy: rig.Hex(""), Mi: i32(int32(c.Rng.Intn(5)))})
				} else if !colliding && c.Rng.Intn(3) == 0 {
					list = append(list, genSchema(c, other))
				}
			}
			c.Rng.Shuffle(len(list), func(i, j int) { list[i], list[j] = list[j], list[i] })
			cur[cl] = list
			h.Ops = append(h.Ops, Op{Op: "sync", C: rig.Hex(cl), Schemas: append([]Schema{}, list...)})
		}
	}
	for len(h.Ops) < n {
		switch r := c.Rng.Intn(100); {
		case r < 20 || len(h.Ops) == 0:
			cl := pickC()
			list := append([]Schema{}, cur[cl]...)
			switch m := c.Rng.Intn(20); {
			case m < 8 && len(list) > 0: // change one schema (resize or type change)
				i := c.Rng.Intn(len(list))
				for j, s := range list {
					if rig.UnHex(s.Name) == fn && c.Rng.Intn(3) > 0 {
						i = j
					}
				}
				old := list[i]
				list[i] = genSchema(c, rig.UnHex(old.Name))
				if old.Mi != nil && c.Rng.Intn(2) == 0 {
					// a plain resize
					list[i] = old
					list[i].Mi = i32(int32(c.Rng.Intn(5)))
				}
			case m < 11 && len(list) > 0: // delete one
				i := c.Rng.Intn(len(list))
				list = append(list[:i:i], list[i+1:]...)
			case m < 12: // delete all
				list = nil
			case m < 13: // re-submit unchanged
			case m < 14 && len(list) > 1: // reorder
				c.Rng.Shuffle(len(list), func(i, j int) { list[i], list[j] = list[j], list[i] })
			case m < 15 && len(list) > 0: // duplicate name (validation forbids it)
				list = append(list, genSchema(c, rig.UnHex(list[c.Rng.Intn(len(list))].Name)))
			default: // add a schema under a name not yet present
				name := pickN()
				if name == "" && c.Rng.Intn(4) > 0 {
					name = fn
				}
				present := false
				for _, s := range list {
					if rig.UnHex(s.Name) == name {
						present = true
					}
				}
				if !present {
					list = append(list, genSchema(c, name))
				} else if len(list) > 0 {
					i := c.Rng.Intn(len(list))
					list[i] = genSchema(c, rig.UnHex(list[i].Name))
				}
			}
			cur[cl] = list
			h.Ops = append(h.Ops, Op{Op: "sync", C: rig.Hex(cl), Schemas: append([]Schema{}, list...)})
		case r < 24:
			// a limiter-mode switch, as ClusterInfo.Sync does when the GlobalRateLimiter gate flips: ResetLimiter(mode),
			// usually followed by the Sync of the unchanged schema list
			cl := pickC()
			mode := rig.Pick(c.Rng, []string{"remote", "local", "remote", "local", "", "bogus"})
			h.Ops = append(h.Ops, Op{Op: "reset", C: rig.Hex(cl), Mode: rig.Hex(mode)})
			if c.Rng.Intn(4) > 0 {
				h.Ops = append(h.Ops, Op{Op: "sync", C: rig.Hex(cl), Schemas: append([]Schema{}, cur[cl]...)})
			}
		case r < 70:
			cl, name := pickC(), pickN()
			if l := cur[cl]; len(l) > 0 && c.Rng.Intn(20) < 17 {
				// usually a configured schema, the focus one if present
				name = rig.UnHex(l[c.Rng.Intn(len(l))].Name)
				for _, s := range l {
					if rig.UnHex(s.Name) == fn && c.Rng.Intn(3) > 0 && !(colliding && c.Rng.Intn(2) == 0) {
						name = fn
					}
				}
			}
			h.Ops = append(h.Ops, Op{Op: "acq", C: rig.Hex(cl), N: rig.Hex(name), Id: nextID})
			open = append(open, nextID)
			nextID++
		default:
			if len(open) == 0 {
				continue
			}
			i := c.Rng.Intn(len(open))
			id := open[i]
			if c.Rng.Intn(12) > 0 {
				open = append(open[:i:i], open[i+1:]...) // usually each request finishes once
			}
			h.Ops = append(h.Ops, Op{Op: "rel", Of: id})
		}
	}
	return h
}

// histFeatures classifies a history by what it exercised (from the real code's answers).
func histFeatures(h HistCase, outs []Out) (nontrivial bool, list []string) {
	type key struct{ c, n string }
	inflight := map[key]int{}
	conf := map[string]map[string]Schema{}
	reqs := map[int]key{}
	adm := map[int]bool{}
	feats := map[string]bool{}

	for k, op := range h.Ops {
		if k >= len(outs) {
			break
		}
		o := outs[k]
		if o.K == "panic" {
			feats["panic"] = true
			break
		}
		switch op.Op {
		case "reset":
			for kk, n := range inflight {
				if kk.c == op.C && n > 0 {
					feats["mode-switch-inflight"] = true
				}
			}
		case "sync":
			old := conf[op.C]
			nw := map[string]Schema{}
			for _, s := range op.Schemas {
				if _, dup := nw[s.Name]; dup {
					feats["dup"] = true
				}
				nw[s.Name] = s
			}
			for n, s := range nw {
				o, had := old[n]
				live := inflight[key{op.C, n}] > 0
				switch {
				case !had:
				case o.equal(s):
				case o.guess() != s.guess() && live:
					feats["typechange-inflight"] = true
				case o.guess() == "mi" && live:
					feats["resize-inflight"] = true
				}
			}
			for n := range old {
				if _, still := nw[n]; !still && inflight[key{op.C, n}] > 0 {
					feats["delete-inflight"] = true
				}
			}
			conf[op.C] = nw
		case "acq":
			kk := key{op.C, op.N}
			if o.Ok {
				inflight[kk]++
				reqs[op.Id] = kk
				adm[op.Id] = true
			} else if strings.HasPrefix(o.Desc, "mi:") {
				feats["refused"] = true
			}
		case "rel":
			if o.Did {
				if kk, ok := reqs[op.Of]; ok && adm[op.Of] {
					inflight[kk]--
					adm[op.Of] = false
				}
			}
		}
	}
	var l []string
	for _, f := range []string{"refused", "resize-inflight", "typechange-inflight", "delete-inflight", "mode-switch-inflight", "dup", "panic"} {
		if feats[f] {
			l = append(l, f)
		}
	}
	nontrivial = feats["refused"] || feats["resize-inflight"] || feats["typechange-inflight"] || feats["delete-inflight"]
	return nontrivial, l
}

func genHist(c *rig.Ctx) {
	n := c.Budget(5000, 120000)
	for i := 0; i < n && judgeFailures < 5; i++ {
		h := genHistCase(c)
		outs, _ := runImplHist(h)
		nt, feats := histFeatures(h, outs)
		bucket := "hist:trivial"
		if nt {
			bucket = "hist:nontrivial"
		}
		c.Case(rig.Canon(h), nt, bucket, func() interface{} { return h })
		c.Trace()
		for _, f := range feats {
			c.Count("hist-feature:" + f)
		}
		if h.Mode == "remote" {
			c.Count("hist-mode:remote-without-clientset")
		}
		if h.Universe != "" {
			c.Count("hist-names:" + h.Universe)
		}
		for k, op := range h.Ops {
			c.Count("hist-op:" + op.Op)
			if k < len(outs) && op.Op == "acq" && outs[k].K == "acq" {
				d := outs[k].Desc
				if i := strings.Index(d, ":"); i > 0 {
					d = d[:i]
				}
				c.Count(fmt.Sprintf("hist-arrival:%s:admitted=%v", d, outs[k].Ok))
			}
		}
		if !runHist(c, h, false) {
			runHist(c, shrinkHist(c, h), true)
		}
	}
}
