package main

import (
	"crypto/ecdsa"
	"crypto/elliptic"
	"crypto/rand"
	"crypto/tls"
	"crypto/x509"
	"crypto/x509/pkix"
	"encoding/pem"
	"fmt"
	"math/big"
	"os"
	"time"
)

// TLS material is identified by small integers: serving key pairs 1..4 (certificate serial = id), client CAs
// 1..3 (subject CN = "ca-<id>"); the gateway's own ("base") serving certificate is 100 and its client CA 200.
const (
	baseCertID = 100
	baseCAID   = 200
	nCerts     = 8 // 1..4: four key pairs; 5..8: the certificate of pair (id-4) RENEWED for the same key (new serial)
	nCAs       = 3
)

type material struct {
	certPEM, keyPEM []byte
	der             []byte
	subject         []byte
	key             *ecdsa.PrivateKey
	cert            *x509.Certificate
}

// a CA that appears in no configuration at all
const strangerCAID = 9

var (
	servingCerts = map[int]material{}
	clientCAs    = map[int]material{}
	certByDER    = map[string]int{}
	caBySubject  = map[string]int{}
	baseConfig   *tls.Config
	// client certificates by the id of the CA that signed them (1..nCAs, baseCAID, strangerCAID); CN "user-<id>"
	clientCerts = map[int]tls.Certificate{}
	caMaterial  = map[int]material{}
	baseServing material
)

func issueClient(caID int) tls.Certificate {
	ca := caMaterial[caID]
	key, err := ecdsa.GenerateKey(elliptic.P256(), rand.Reader)
	if err != nil {
		panic(err)
	}
	tpl := &x509.Certificate{
		SerialNumber: big.NewInt(int64(5000 + caID)),
		Subject:      pkix.Name{CommonName: fmt.Sprintf("user-%d", caID)},
		NotBefore:    time.Now().Add(-time.Hour),
		NotAfter:     time.Now().Add(24 * time.Hour),
		KeyUsage:     x509.KeyUsageDigitalSignature,
		ExtKeyUsage:  []x509.ExtKeyUsage{x509.ExtKeyUsageClientAuth},
	}
	der, err := x509.CreateCertificate(rand.Reader, tpl, ca.cert, &key.PublicKey, ca.key)
	if err != nil {
		panic(err)
	}
	return tls.Certificate{Certificate: [][]byte{der}, PrivateKey: key}
}

func mkCert(id int, cn string, isCA bool) material { return mkCertWithKey(id, cn, isCA, nil) }

func mkCertWithKey(id int, cn string, isCA bool, key *ecdsa.PrivateKey) material {
	if key == nil {
		var err error
		key, err = ecdsa.GenerateKey(elliptic.P256(), rand.Reader)
		if err != nil {
			panic(err)
		}
	}
	tpl := &x509.Certificate{
		SerialNumber:          big.NewInt(int64(id)),
		Subject:               pkix.Name{CommonName: cn},
		NotBefore:             time.Now().Add(-time.Hour),
		NotAfter:              time.Now().Add(24 * time.Hour),
		KeyUsage:              x509.KeyUsageDigitalSignature | x509.KeyUsageCertSign,
		ExtKeyUsage:           []x509.ExtKeyUsage{x509.ExtKeyUsageServerAuth, x509.ExtKeyUsageClientAuth},
		BasicConstraintsValid: true,
		IsCA:                  isCA,
	}
	der, err := x509.CreateCertificate(rand.Reader, tpl, tpl, &key.PublicKey, key)
	if err != nil {
		panic(err)
	}
	kb, err := x509.MarshalECPrivateKey(key)
	if err != nil {
		panic(err)
	}
	parsed, err := x509.ParseCertificate(der)
	if err != nil {
		panic(err)
	}
	return material{
		certPEM: pem.EncodeToMemory(&pem.Block{Type: "CERTIFICATE", Bytes: der}),
		keyPEM:  pem.EncodeToMemory(&pem.Block{Type: "EC PRIVATE KEY", Bytes: kb}),
		der:     der,
		subject: parsed.RawSubject,
		key:     key,
		cert:    parsed,
	}
}

func initMaterial() {
	for i := 1; i <= nCerts; i++ {
		var key *ecdsa.PrivateKey
		if i > 4 {
			key = servingCerts[i-4].key // a renewal: same key, same subject, new serial / validity
		}
		m := mkCertWithKey(i, fmt.Sprintf("serving-%d", (i-1)%4+1), false, key)
		servingCerts[i] = m
		certByDER[string(m.der)] = i
	}
	for i := 1; i <= nCAs; i++ {
		m := mkCert(1000+i, fmt.Sprintf("ca-%d", i), true)
		clientCAs[i] = m
		caBySubject[string(m.subject)] = i
		caMaterial[i] = m
	}
	b := mkCert(baseCertID, "gateway", false)
	baseServing = b
	certByDER[string(b.der)] = baseCertID
	bc, err := tls.X509KeyPair(b.certPEM, b.keyPEM)
	if err != nil {
		fmt.Fprintln(os.Stderr, err)
		os.Exit(2)
	}
	bca := mkCert(1000+baseCAID, "ca-base", true)
	caBySubject[string(bca.subject)] = baseCAID
	caMaterial[baseCAID] = bca
	caMaterial[strangerCAID] = mkCert(1000+strangerCAID, "ca-stranger", true)
	for id := range caMaterial {
		clientCerts[id] = issueClient(id)
	}
	pool := x509.NewCertPool()
	pool.AppendCertsFromPEM(bca.certPEM)
	baseConfig = &tls.Config{Certificates: []tls.Certificate{bc}, ClientCAs: pool, ClientAuth: tls.NoClientCert}
}

// certID identifies the first certificate of a tls.Config (-1 none, -2 unknown).
func certID(cs []tls.Certificate) int {
	if len(cs) == 0 || len(cs[0].Certificate) == 0 {
		return -1
	}
	if id, ok := certByDER[string(cs[0].Certificate[0])]; ok {
		return id
	}
	return -2
}

// poolID identifies a CA pool by its single subject (-1 nil pool, -2 anything else).
func poolID(p *x509.CertPool) int {
	if p == nil {
		return -1
	}
	subs := p.Subjects() //nolint:staticcheck
	if len(subs) != 1 {
		return -2
	}
	if id, ok := caBySubject[string(subs[0])]; ok {
		return id
	}
	return -2
}
