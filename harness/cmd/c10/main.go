// C10 harness — tenant resolution.
//
// The REAL UpstreamClusterController (built by the PUBLIC constructor around an informer that is never started; its
// own clusters.NewManager() goes behind a recording wrapper; the only shim is the unexported handler) is driven through its real queue handler syncUpstreamCluster on generated histories of
// lister writes and handler invocations. After EVERY step the harness observes
//   - the manager's raw key set and, per key, the *ClusterInfo it resolves to (pointer identity -> index),
//   - every ClusterInfo ever seen: Cluster, LoadServerNames, LoadTLSConfig (certificate serial / CA subject),
//     LoadVerifyOptions, whether its context is cancelled,
//   - Manager.Get(h) for every probe host h, the request path (real filters WithExtraRequestInfo +
//     WithUpstreamInfo) for every probe host, WrapGetConfigForClient for every SNI, SNIVerifyOptions for every host,
//   - the real admission plug-in's verdict (Validate) for every object written to the lister.
//   - the raw key map after EVERY mutating manager call the handler makes (the controller is given the real
//     manager behind a recording wrapper): the states a concurrent request / handshake can observe mid-event,
// Judge : the Lean predicates of KG.Spec.Names (invB / stepB / midB / tlsSpec / verifySpec / mirrorB / servedB) are
//         evaluated by the driver on the OBSERVED states (method C10.judge).
// Diff  : the Lean model (C10.run) must produce exactly the same observations.
package main

import (
	"context"
	"crypto/tls"
	"crypto/x509"
	"encoding/json"
	"flag"
	"fmt"
	"io"
	"math/rand"
	"net"
	"net/http"
	"net/http/httptest"
	"os"
	"sort"
	"strings"
	"sync"
	"time"

	metav1 "k8s.io/apimachinery/pkg/apis/meta/v1"
	"k8s.io/apimachinery/pkg/runtime"
	"k8s.io/apiserver/pkg/admission"
	apirequest "k8s.io/apiserver/pkg/endpoints/request"
	clientgoscheme "k8s.io/client-go/kubernetes/scheme"
	"k8s.io/client-go/tools/cache"
	"k8s.io/klog"

	proxyv1alpha1 "github.com/kubewharf/kubegateway/pkg/apis/proxy/v1alpha1"
	proxylisters "github.com/kubewharf/kubegateway/pkg/client/listers/proxy/v1alpha1"
	"github.com/kubewharf/kubegateway/pkg/clusters"
	"github.com/kubewharf/kubegateway/pkg/clusters/features"
	gatewayinformers "github.com/kubewharf/kubegateway/pkg/client/informers"
	gatewayfake "github.com/kubewharf/kubegateway/pkg/client/kubernetes/fake"
	"github.com/kubewharf/kubegateway/pkg/gateway/controllers"
	"github.com/kubewharf/kubegateway/pkg/gateway/controlplane/admission/initializer"
	proxyoptions "github.com/kubewharf/kubegateway/pkg/gateway/proxy/options"
	"github.com/kubewharf/kubegateway/pkg/gateway/endpoints/filters"
	"github.com/kubewharf/kubegateway/pkg/gateway/endpoints/request"
	gatewaynet "github.com/kubewharf/kubegateway/pkg/gateway/net"
	upstreamclusteradmission "github.com/kubewharf/kubegateway/plugin/admission/upstreamcluster"

	"verifharness/rig"
)

// ---------------------------------------------------------------------------------------------------------
// case format (all strings hex)

type Spec struct {
	Aliases []string `json:"aliases"`
	Cert    int      `json:"cert"` // id of the serving key pair, -1 = none
	CA      int      `json:"ca"`   // id of the client CA, -1 = none
	Bad     bool     `json:"bad"`  // secure-serving data / feature-gate annotation that does not parse
	// Corpus only (objects the stateless validation refuses, so they are never generated): an object without
	// servers and with a client key pair that does not parse can be CREATED (no transport is built), after which
	// every Sync that has to add an endpoint fails in syncEndpoints. The model is told through failendpoints
	// (= Sync fails on this object) — regression input for /repo ddabea4.
	// Half: "cert" / "key": only that half of key pair Cert is in the object (the other half arrives in another
	// update, as real deployments do). No certificate can be served from half a pair: the model sees cert = none.
	Half          string `json:"half,omitempty"`
	NoServers     bool `json:"noservers,omitempty"`
	BrokenClient  bool `json:"brokenclient,omitempty"`
	FailEndpoints bool `json:"failendpoints,omitempty"`
}

type Step struct {
	K    string `json:"k"` // set | unset | sync
	Name string `json:"name"`
	Spec *Spec  `json:"spec,omitempty"`
	// sync only: which version of the object the queue hands to the handler: 0 = the latest written, k = the k-th
	// older one (a superseded event that was requeued). The handler must only use its name.
	Ev int `json:"ev,omitempty"`
}

type Case struct {
	Kind   string   `json:"kind"` // admissible | mixed | unicode | race | auth
	Steps  []Step   `json:"steps"`
	Probes []string `json:"probes"`
	SNIs   []string `json:"snis"`
	// kind race (gateway.go): after Steps were written one at a time through the real informer / queue / Run loop,
	// the writes of Burst are issued back to back
	Burst []Step `json:"burst,omitempty"`
	// kind retry (gateway.go): Steps, then the writes of Burst (each refused: a name conflict), the conflict lasts for
	// many re-deliveries, then the writes of After end it
	After []Step `json:"after,omitempty"`
	// kind auth (gateway.go): the gateway is started with (CP) or without --client-ca-file, Steps are written one at
	// a time, then every exchange of Reqs goes through the shipped TLS + authentication wiring
	CP   bool  `json:"cp,omitempty"`
	Reqs []Req `json:"reqs,omitempty"`
}

// Req is one TLS connection (SNI) carrying one request (Host) with the client certificate signed by CA Cert (-1: none).
type Req struct {
	SNI  string `json:"sni"`
	Host string `json:"host"`
	Cert int    `json:"cert"`
}

const localAddr = "127.0.0.1:6443"

var baseTLS = map[string]interface{}{"cert": baseCertID, "ca": baseCAID, "auth": false}

// ---------------------------------------------------------------------------------------------------------
// observations (same shape as the model's reply)

type Info struct {
	Cluster string   `json:"cluster"`
	Aliases []string `json:"aliases"`
	Cert    int      `json:"cert"`
	CA      int      `json:"ca"`
}

type State struct {
	Keys    [][]interface{} `json:"keys"`
	Infos   []Info          `json:"infos"`
	Stopped []int           `json:"stopped"`
}

type Obs struct {
	Out     string          `json:"out,omitempty"`
	Requeue bool            `json:"requeue"`
	Admit   bool            `json:"admitted"`
	State   State           `json:"state"`
	// the raw key map (key, pointer index) after EVERY mutating manager call of this step, in order: what a
	// concurrent Get can observe while the handler is running
	Mid [][][]interface{} `json:"mid"`
	Get     []int           `json:"get"`
	Req     []int           `json:"req"`
	TLS     [][]interface{} `json:"tls"`
	Verify  []int           `json:"verify"`
	// model only
	Inv    bool   `json:"inv,omitempty"`
	StepW  string `json:"step,omitempty"`
	Mirror bool   `json:"mirror,omitempty"`
}

type ModelRun struct {
	Hwp   []string `json:"hwp"`
	Steps []Obs    `json:"steps"`
}

// ---------------------------------------------------------------------------------------------------------
// the real system

var (
	codecs      = clientgoscheme.Codecs
	admScheme   = runtime.NewScheme()
	trueV       = true
	catchAll    = []proxyv1alpha1.DispatchPolicy{{Strategy: proxyv1alpha1.RoundRobin, Rules: []proxyv1alpha1.DispatchPolicyRule{{Verbs: []string{"*"}, APIGroups: []string{"*"}, Resources: []string{"*"}}}}}
	requestInfo = &apirequest.RequestInfo{IsResourceRequest: true, Path: "/api/v1/pods", Verb: "list", APIVersion: "v1", Resource: "pods"}
)

func mkObj(name string, sp *Spec, rv int) *proxyv1alpha1.UpstreamCluster {
	o := &proxyv1alpha1.UpstreamCluster{
		ObjectMeta: metav1.ObjectMeta{Name: name, ResourceVersion: fmt.Sprint(rv)},
		Spec: proxyv1alpha1.UpstreamClusterSpec{
			// a disabled endpoint: no health-check goroutine, no connection attempts
			Servers:          []proxyv1alpha1.UpstreamClusterServer{{Endpoint: "http://127.0.0.1:1", Disabled: &trueV}},
			DispatchPolicies: catchAll,
		},
	}
	if sp == nil {
		return o
	}
	for _, a := range sp.Aliases {
		o.Spec.SecureServing.ServerNames = append(o.Spec.SecureServing.ServerNames, rig.UnHex(a))
	}
	if m, ok := servingCerts[sp.Cert]; ok {
		o.Spec.SecureServing.CertData, o.Spec.SecureServing.KeyData = m.certPEM, m.keyPEM
		switch sp.Half {
		case "cert":
			o.Spec.SecureServing.KeyData = nil
		case "key":
			o.Spec.SecureServing.CertData = nil
		}
	}
	if m, ok := clientCAs[sp.CA]; ok {
		o.Spec.SecureServing.ClientCAData = m.certPEM
	}
	if sp.NoServers {
		o.Spec.Servers = nil
	}
	if sp.BrokenClient {
		o.Spec.ClientConfig.CertData, o.Spec.ClientConfig.KeyData = []byte("not a pem"), []byte("not a pem")
	}
	if sp.FailEndpoints {
		o.Spec.Servers = []proxyv1alpha1.UpstreamClusterServer{{Endpoint: "https://127.0.0.1:2", Disabled: &trueV}}
	}
	if sp.Bad {
		// alternate between the two things Sync can fail on; both fail before anything is stored
		if (len(sp.Aliases)+sp.Cert+sp.CA)%2 == 0 {
			o.Spec.SecureServing.ClientCAData = []byte("-----BEGIN CERTIFICATE-----\nbm90IGEgY2VydA==\n-----END CERTIFICATE-----\n")
		} else {
			o.Annotations = map[string]string{features.FeatureGateAnnotationKey: "NoSuchGate=true"}
		}
	}
	return o
}

// recordingManager is the clusters.Manager handed to the controller: the real manager, with a hook after every
// mutating call. Reads (Get) and everything else go straight to the real manager.
//
// The manager's table itself is never touched (no shim into its representation — sync.Map, mutex + map, …): the
// wrapper sees every key the controller ever writes, and `keys` asks the real manager's own Get which of them
// resolve now. (A key the manager stored without lower-casing it would not resolve and is judged as missing.)
type recordingManager struct {
	clusters.Manager
	before func() // may be nil
	after  func()
	mu     sync.Mutex
	cands  map[string]bool
}

func (r *recordingManager) pre(k string) {
	r.mu.Lock()
	if r.cands == nil {
		r.cands = map[string]bool{}
	}
	r.cands[strings.ToLower(k)] = true
	r.mu.Unlock()
	if r.before != nil {
		r.before()
	}
}
func (r *recordingManager) AddWithKey(k string, c *clusters.ClusterInfo) {
	r.pre(k)
	r.Manager.AddWithKey(k, c)
	r.after()
}
func (r *recordingManager) Add(c *clusters.ClusterInfo) {
	r.pre(c.Cluster)
	r.Manager.Add(c)
	r.after()
}
func (r *recordingManager) Delete(k string) {
	r.pre(k)
	r.Manager.Delete(k)
	r.after()
}
func (r *recordingManager) DeleteWithStop(k string) {
	r.pre(k)
	r.Manager.DeleteWithStop(k)
	r.after()
}

type keyEntry struct {
	key string
	ci  *clusters.ClusterInfo
}

// keys lists, sorted, the (lower-cased) keys that resolve at this moment and what they resolve to.
func (r *recordingManager) keys() []keyEntry {
	r.mu.Lock()
	cands := make([]string, 0, len(r.cands))
	for k := range r.cands {
		cands = append(cands, k)
	}
	r.mu.Unlock()
	sort.Strings(cands)
	var out []keyEntry
	for _, k := range cands {
		if ci, ok := r.Manager.Get(k); ok {
			out = append(out, keyEntry{k, ci})
		}
	}
	return out
}

// stubInformer is the UpstreamClusterInformer handed to the PUBLIC NewUpstreamClusterController in the sequential
// streams: a shared informer that is never started (no watch connection, no events); the harness writes its
// indexer directly and calls the handler itself.
type stubInformer struct{ inf cache.SharedIndexInformer }

func newStubInformer() *stubInformer {
	return &stubInformer{inf: cache.NewSharedIndexInformer(&cache.ListWatch{}, &proxyv1alpha1.UpstreamCluster{}, 0, cache.Indexers{})}
}
func (s *stubInformer) Informer() cache.SharedIndexInformer { return s.inf }
func (s *stubInformer) Lister() proxylisters.UpstreamClusterLister {
	return proxylisters.NewUpstreamClusterLister(s.inf.GetIndexer())
}

// The REAL admission plug-in, initialised the public way (SetGatewayResourceInformerFactory) with an informer
// factory on an empty fake clientset; the harness mirrors every lister write into that informer's indexer.
var (
	thePlugin     admission.ValidationInterface
	pluginIndexer cache.Indexer
)

func initPlugin() {
	factory := gatewayinformers.NewSharedInformerFactory(gatewayfake.NewSimpleClientset(), 0)
	p := upstreamclusteradmission.NewUpstreamClusterPlugin()
	p.(initializer.WantsGatewayResourceInformerFactory).SetGatewayResourceInformerFactory(factory)
	inf := factory.Proxy().V1alpha1().UpstreamClusters().Informer()
	stop := make(chan struct{}) // lives as long as the process
	factory.Start(stop)
	if !cache.WaitForCacheSync(stop, inf.HasSynced) {
		fmt.Fprintln(os.Stderr, "admission plug-in informer did not sync")
		os.Exit(2)
	}
	thePlugin, pluginIndexer = p.(admission.ValidationInterface), inf.GetIndexer()
}

type fakeConn struct{ net.Conn }

func (fakeConn) LocalAddr() net.Addr {
	return &net.TCPAddr{IP: net.IPv4(127, 0, 0, 1), Port: 6443}
}

type nullWriter struct{ h http.Header }

func (n *nullWriter) Header() http.Header         { return n.h }
func (n *nullWriter) Write(b []byte) (int, error) { return len(b), nil }
func (n *nullWriter) WriteHeader(int)             {}

type execResult struct {
	Obs     []Obs
	Settled []bool
	Hwp     []string
	// a judge failure found by the Go-side checks (panic, IP pass-through, verify options vs client CA)
	Class, What string
	FailStep    int
}

// execute runs the history on the real controller.
func execute(cs Case) (res execResult) {
	stub := newStubInformer()
	indexer := stub.inf.GetIndexer()
	pluginIndexer.Replace(nil, "") //nolint
	// the public constructor; the controller's own manager goes behind the recording wrapper (exported field)
	ctl := controllers.NewUpstreamClusterController(stub, proxyoptions.NewRateLimiterOptions())
	real := ctl.Manager
	rec := &recordingManager{Manager: real, after: func() {}}
	ctl.Manager = rec
	defer ctl.DeleteAll()
	plugin := thePlugin
	objIfaces := admission.NewObjectInterfacesFromScheme(admScheme)

	ptrIdx := map[*clusters.ClusterInfo]int{}
	var ptrs []*clusters.ClusterInfo
	idx := func(ci *clusters.ClusterInfo) int {
		if ci == nil {
			return -1
		}
		if i, ok := ptrIdx[ci]; ok {
			return i
		}
		ptrIdx[ci] = len(ptrs)
		ptrs = append(ptrs, ci)
		return len(ptrs) - 1
	}
	fail := func(step int, class, what string) {
		if res.Class == "" {
			res.Class, res.What, res.FailStep = class, what, step
		}
	}

	// request path: the real filters in the order of the gateway's handler chain
	var reached, isProxy bool
	var captured *clusters.ClusterInfo
	terminal := http.HandlerFunc(func(w http.ResponseWriter, r *http.Request) {
		reached = true
		if info, ok := request.ExtraRequestInfoFrom(r.Context()); ok {
			captured, isProxy = info.UpstreamCluster, info.IsProxyRequest
		}
	})
	chain := filters.WithExtraRequestInfo(filters.WithUpstreamInfo(terminal, real, codecs),
		&request.ExtraRequestInfoFactory{LongRunningFunc: func(*http.Request, *apirequest.RequestInfo) bool { return false }}, codecs)
	probes := make([]string, len(cs.Probes))
	reqs := make([]*http.Request, len(cs.Probes))
	for i, p := range cs.Probes {
		probes[i] = rig.UnHex(p)
		r := httptest.NewRequest("GET", "/api/v1/pods", nil)
		r.Host = probes[i]
		reqs[i] = r.WithContext(apirequest.WithRequestInfo(context.Background(), requestInfo))
		res.Hwp = append(res.Hwp, rig.Hex(gatewaynet.HostWithoutPort(probes[i])))
	}
	snis := make([]string, len(cs.SNIs))
	for i, s := range cs.SNIs {
		snis[i] = rig.UnHex(s)
	}
	wrapped := ctl.WrapGetConfigForClient(func(*tls.ClientHelloInfo) (*tls.Config, error) { return baseConfig, nil })

	lastObj := map[string]*proxyv1alpha1.UpstreamCluster{}
	written := map[string][]*proxyv1alpha1.UpstreamCluster{}
	pending := map[string]bool{}
	// settled: so far every object written was admitted by the REAL plug-in and synced at once (the shape of
	// history `c10_admissible` is about); it never becomes true again once broken
	settledOK := true
	rv := 0

	for si, st := range cs.Steps {
		name := rig.UnHex(st.Name)
		var o Obs
		o.Admit = true
		o.Mid = [][][]interface{}{}
		rec.after = func() {
			snap := [][]interface{}{}
			for _, e := range rec.keys() {
				snap = append(snap, []interface{}{rig.Hex(e.key), idx(e.ci)})
			}
			o.Mid = append(o.Mid, snap)
		}
		msg, panicked := rig.Recover(func() {
			switch st.K {
			case "set":
				rv++
				obj := mkObj(name, st.Spec, rv)
				_, exists, _ := indexer.GetByKey(name)
				op, opts := admission.Create, runtime.Object(&metav1.CreateOptions{})
				var old runtime.Object
				if exists {
					op, opts, old = admission.Update, &metav1.UpdateOptions{}, lastObj[name]
				}
				attrs := admission.NewAttributesRecord(obj, old, proxyv1alpha1.SchemeGroupVersion.WithKind("UpstreamCluster"), "", name,
					proxyv1alpha1.SchemeGroupVersion.WithResource("upstreamclusters"), "", op, opts, false, nil)
				o.Admit = plugin.Validate(context.Background(), attrs, objIfaces) == nil
				if exists {
					indexer.Update(obj)       //nolint
					pluginIndexer.Update(obj) //nolint
				} else {
					indexer.Add(obj)       //nolint
					pluginIndexer.Add(obj) //nolint
				}
				lastObj[name] = obj
				written[name] = append(written[name], obj)
				if !o.Admit || len(pending) > 0 {
					settledOK = false
				}
				pending[name] = true
			case "unset":
				if obj, exists, _ := indexer.GetByKey(name); exists {
					indexer.Delete(obj)       //nolint
					pluginIndexer.Delete(obj) //nolint
				}
				if len(pending) > 0 || strings.ToLower(name) != name {
					settledOK = false
				}
				pending[name] = true
			case "sync":
				obj := lastObj[name]
				if w := written[name]; st.Ev > 0 && len(w) > 0 {
					i := len(w) - 1 - st.Ev
					if i < 0 {
						i = 0
					}
					obj = w[i]
				}
				if obj == nil {
					obj = mkObj(name, nil, 0)
				}
				r, err := ctl.VerifC10Sync(obj)
				o.Requeue = err != nil || r.Requeue || r.RequeueAfter > 0
				if strings.ToLower(name) != name || (len(pending) > 0 && !pending[name]) {
					settledOK = false
				}
				delete(pending, name)
			}
		})
		if panicked {
			fail(si, "c10.panic", fmt.Sprintf("step %d (%s %q) panicked: %s", si, st.K, name, msg))
			res.Obs = append(res.Obs, o)
			res.Settled = append(res.Settled, false)
			// nothing sensible can be observed after a panic in the handler
			for len(res.Obs) < len(cs.Steps) {
				res.Obs = append(res.Obs, o)
				res.Settled = append(res.Settled, false)
			}
			return
		}
		res.Settled = append(res.Settled, settledOK && st.K == "sync" && len(pending) == 0)

		// ---- observe
		rec.after = func() {}
		o.State.Keys = [][]interface{}{}
		for _, e := range rec.keys() {
			o.State.Keys = append(o.State.Keys, []interface{}{rig.Hex(e.key), idx(e.ci)})
		}
		o.State.Infos = []Info{}
		o.State.Stopped = []int{}
		for i, ci := range ptrs {
			names := ci.LoadServerNames()
			inf := Info{Cluster: rig.Hex(ci.Cluster), Aliases: rig.HexList(names[1:]), Cert: -1, CA: -1}
			if cfg, ok := ci.LoadTLSConfig(); ok {
				inf.Cert, inf.CA = certID(cfg.Certificates), poolID(cfg.ClientCAs)
			}
			vo, ok := ci.LoadVerifyOptions()
			vca := -1
			if ok {
				vca = poolID(vo.Roots)
				hasClientAuth := false
				for _, u := range vo.KeyUsages {
					hasClientAuth = hasClientAuth || u == x509.ExtKeyUsageClientAuth
				}
				if !hasClientAuth {
					fail(si, "c10.verify-options", fmt.Sprintf("cluster %q: verify options without the client-auth key usage", ci.Cluster))
				}
			}
			if vca != inf.CA {
				fail(si, "c10.verify-options", fmt.Sprintf("cluster %q: verify options use CA %d but the client CA pool is %d", ci.Cluster, vca, inf.CA))
			}
			for _, n := range names {
				if n != strings.ToLower(n) {
					fail(si, "c10.names-not-lowered", fmt.Sprintf("cluster %q: LoadServerNames contains %q, which is not lower-cased", ci.Cluster, n))
				}
			}
			if names[0] != ci.Cluster {
				fail(si, "c10.names-head", fmt.Sprintf("cluster %q: LoadServerNames starts with %q", ci.Cluster, names[0]))
			}
			o.State.Infos = append(o.State.Infos, inf)
			if ci.Context().Err() != nil {
				o.State.Stopped = append(o.State.Stopped, i)
			}
		}
		for i, h := range probes {
			ci, _ := ctl.Get(h)
			o.Get = append(o.Get, idx(ci))
			// request path
			reached, isProxy, captured = false, false, nil
			chain.ServeHTTP(&nullWriter{h: http.Header{}}, reqs[i])
			hwp := gatewaynet.HostWithoutPort(h)
			if net.ParseIP(hwp) != nil {
				// an IP literal addresses the gateway's own control plane: passed through, never proxied
				if !reached || captured != nil || isProxy {
					fail(si, "c10.ip-host-proxied", fmt.Sprintf("host %q (an IP literal) was treated as a proxied request", h))
				}
				ci2, _ := ctl.Get(hwp)
				o.Req = append(o.Req, idx(ci2))
			} else if !reached {
				o.Req = append(o.Req, -1)
			} else {
				if captured == nil || !isProxy {
					fail(si, "c10.request-no-cluster", fmt.Sprintf("host %q reached the next handler without an upstream cluster", h))
				}
				o.Req = append(o.Req, idx(captured))
			}
			vo, ok := ctl.SNIVerifyOptions(h)
			if ok {
				o.Verify = append(o.Verify, poolID(vo.Roots))
			} else {
				o.Verify = append(o.Verify, -1)
			}
		}
		o.TLS = [][]interface{}{}
		for _, s := range snis {
			cfg, err := wrapped(&tls.ClientHelloInfo{ServerName: s, Conn: fakeConn{}})
			if err != nil || cfg == nil {
				fail(si, "c10.tls-error", fmt.Sprintf("WrapGetConfigForClient(%q): %v", s, err))
				o.TLS = append(o.TLS, []interface{}{-3, -3, false})
				continue
			}
			o.TLS = append(o.TLS, []interface{}{certID(cfg.Certificates), poolID(cfg.ClientCAs), cfg.ClientAuth == tls.RequestClientCert})
		}
		res.Obs = append(res.Obs, o)
	}
	return
}

// ---------------------------------------------------------------------------------------------------------
// strings.ToLower table for the model (only non-ASCII strings need an entry)

func isASCII(s string) bool {
	for i := 0; i < len(s); i++ {
		if s[i] >= 0x80 {
			return false
		}
	}
	return true
}

func lowerTable(cs Case) [][]string {
	seen := map[string]bool{}
	var out [][]string
	var add func(s string, depth int)
	add = func(s string, depth int) {
		if seen[s] || depth > 3 {
			return
		}
		seen[s] = true
		l := strings.ToLower(s)
		if !isASCII(s) {
			out = append(out, []string{rig.Hex(s), rig.Hex(l)})
		}
		add(l, depth+1)
		add(gatewaynet.HostWithoutPort(s), depth+1)
	}
	for _, st := range cs.Steps {
		add(rig.UnHex(st.Name), 0)
		if st.Spec != nil {
			for _, a := range st.Spec.Aliases {
				add(rig.UnHex(a), 0)
			}
		}
	}
	for _, p := range cs.Probes {
		add(rig.UnHex(p), 0)
	}
	for _, p := range cs.SNIs {
		add(rig.UnHex(p), 0)
	}
	add(localAddr, 0)
	sort.Slice(out, func(i, j int) bool { return out[i][0] < out[j][0] })
	return out
}

func envArgs(cs Case) map[string]interface{} {
	a := map[string]interface{}{"steps": cs.Steps, "probes": cs.Probes, "snis": cs.SNIs,
		"localAddr": rig.Hex(localAddr), "base": baseTLS}
	if t := lowerTable(cs); len(t) > 0 {
		a["lower"] = t
	}
	return a
}

// ---------------------------------------------------------------------------------------------------------
// one case: judge + diff

type verdict struct {
	Kind, Class, What string
	Impl, Model       interface{}
	Obs               []Obs
	Outs              []string
	Settled           []bool
}

func canonObs(o Obs) string {
	return rig.Canon([]interface{}{o.Requeue, o.State, o.Mid, o.Get, o.Req, o.TLS, o.Verify})
}

// counting: the histogram is only fed by the first run of a case, not by the re-runs of the shrinker
var counting bool

func runCase(c *rig.Ctx, cs Case) (v verdict) {
	switch cs.Kind {
	case "race":
		return runRace(c, cs, counting)
	case "auth":
		return runAuth(c, cs, counting)
	case "retry":
		return runRetry(c, cs, counting)
	}
	ex := execute(cs)
	v.Obs, v.Settled = ex.Obs, ex.Settled
	if ex.Class != "" {
		v.Kind, v.Class, v.What = "judge", ex.Class, ex.What
		return
	}
	// judge: the Lean predicates on the observed states
	args := envArgs(cs)
	args["obs"] = ex.Obs
	args["settled"] = ex.Settled
	var j struct {
		Fail string `json:"fail"`
		Step int    `json:"step"`
	}
	if err := c.Model("C10.judge", args, &j); err != nil {
		v.Kind, v.Class, v.What = "diff", "c10.judge-error", "judge could not be evaluated: "+err.Error()
		return
	}
	if j.Fail != "" {
		st := cs.Steps[j.Step]
		v.Kind, v.Class = "judge", "c10."+j.Fail
		if j.Fail == "refused-changed" || j.Fail == "lister-write-changed" {
			// "a refused event changes nothing" is what the MODEL does (c10_refused_unchanged); the property itself is
			// judged by inv / frame / mid-event, which passed: extra clean-up on a refusal is a tie difference
			v.Kind = "diff"
		}
		v.What = fmt.Sprintf("%s fails after step %d (%s %q): %s", j.Fail, j.Step, st.K, rig.UnHex(st.Name), explain(j.Fail))
		var before interface{}
		if j.Step > 0 {
			before = ex.Obs[j.Step-1].State
		}
		v.Impl = map[string]interface{}{"before": before, "after": ex.Obs[j.Step]}
		return
	}
	// diff: the model on the same history
	delete(args, "obs")
	delete(args, "settled")
	var m ModelRun
	if err := c.Model("C10.run", args, &m); err != nil {
		v.Kind, v.Class, v.What = "diff", "c10.model-error", "model error: "+err.Error()
		return
	}
	if rig.Canon(m.Hwp) != rig.Canon(ex.Hwp) {
		for i := range ex.Hwp {
			if i >= len(m.Hwp) || m.Hwp[i] != ex.Hwp[i] {
				v.Kind, v.Class = "diff", "c10.hwp"
				v.What = fmt.Sprintf("HostWithoutPort(%q): code %q, model %q", rig.UnHex(cs.Probes[i]), rig.UnHex(ex.Hwp[i]), rig.UnHex(m.Hwp[i]))
				return
			}
		}
	}
	if len(m.Steps) != len(ex.Obs) {
		v.Kind, v.Class, v.What = "diff", "c10.model-steps", "model returned a different number of steps"
		return
	}
	for i := range ex.Obs {
		mo := m.Steps[i]
		v.Outs = append(v.Outs, mo.Out)
		sort.Slice(mo.State.Keys, func(a, b int) bool { return mo.State.Keys[a][0].(string) < mo.State.Keys[b][0].(string) })
		for _, k := range mo.State.Keys {
			if f, ok := k[1].(float64); ok {
				k[1] = int(f)
			}
		}
		for _, snap := range mo.Mid {
			sort.Slice(snap, func(a, b int) bool { return snap[a][0].(string) < snap[b][0].(string) })
			for _, k := range snap {
				if f, ok := k[1].(float64); ok {
					k[1] = int(f)
				}
			}
		}
		for _, t := range mo.TLS {
			for x := 0; x < 2; x++ {
				if f, ok := t[x].(float64); ok {
					t[x] = int(f)
				}
			}
		}
		st := cs.Steps[i]
		if sp := st.Spec; st.K == "set" && !(sp.NoServers || sp.BrokenClient || sp.FailEndpoints) && mo.Admit != ex.Obs[i].Admit {
			v.Kind, v.Class = "diff", "c10.plugin-admit"
			v.What = fmt.Sprintf("step %d: admission plug-in admits object %q = %v, model says %v", i, rig.UnHex(st.Name), ex.Obs[i].Admit, mo.Admit)
			return
		}
		if a, b := canonObs(ex.Obs[i]), canonObs(mo); a != b {
			v.Kind, v.Class = "diff", "c10.state"
			v.What = fmt.Sprintf("after step %d (%s %q, model outcome %q) code and model differ", i, st.K, rig.UnHex(st.Name), mo.Out)
			v.Impl, v.Model = ex.Obs[i], mo
			return
		}
		if !mo.Inv || mo.StepW != "" {
			// cannot happen while the theorems hold; reported as a tie failure
			v.Kind, v.Class = "diff", "c10.model-judge"
			v.What = fmt.Sprintf("the model's own state fails the judge after step %d: inv=%v step=%q", i, mo.Inv, mo.StepW)
			return
		}
		if ex.Settled[i] && !mo.Mirror {
			v.Kind, v.Class = "diff", "c10.model-mirror"
			v.What = fmt.Sprintf("the model's own state fails the mirror judge after step %d", i)
			return
		}
	}
	return
}

func explain(pred string) string {
	switch pred {
	case "inv":
		return "a key resolves to a ClusterInfo that does not list it, or a server name of a served ClusterInfo does not resolve to it, or a served ClusterInfo is stopped"
	case "mid-event":
		return "in a state observable DURING the event (after one of the handler's manager writes) a name that resolves to the same ClusterInfo before and after the event does not resolve to it, or a name resolves to a ClusterInfo it resolves to neither before nor after"
	case "frame":
		return "the event changed a name held by another cluster (captured, removed, re-pointed, or that cluster was stopped/modified)"
	case "refused-changed":
		return "the handler asked for a requeue but the served state changed"
	case "lister-write-changed":
		return "the served state changed without a handler invocation"
	case "delete":
		return "after the delete event a key still resolves to the deleted cluster, or its ClusterInfo was not stopped"
	case "applied":
		return "the event was applied (no requeue) but the cluster is not served under exactly the names / TLS material of the lister's object"
	case "request-resolution":
		return "the request filters resolved a host differently from Manager.Get(HostWithoutPort(host))"
	case "tls":
		return "WrapGetConfigForClient did not return the material of the cluster the SNI resolves to (or the base config)"
	case "verify":
		return "SNIVerifyOptions did not return the client-CA options of the cluster the host resolves to"
	case "admissible-refused":
		return "every object passed the admission plug-in's conflict rule and was synced at once, yet the handler refused one"
	case "mirror", "served":
		return "admissible history: the served names are not exactly those claimed by the current objects"
	}
	return pred
}

// ---------------------------------------------------------------------------------------------------------

func failsSame(c *rig.Ctx, cs Case, class string) bool {
	if os.Getenv("C10_TIMING") != "" {
		t0 := time.Now()
		defer func() {
			if d := time.Since(t0); d > time.Second {
				fmt.Fprintf(os.Stderr, "slow shrink candidate kind=%s steps=%d burst=%d reqs=%d: %v\n", cs.Kind, len(cs.Steps), len(cs.Burst), len(cs.Reqs), d)
			}
		}()
	}
	v := runCase(c, cs)
	return v.Kind != "" && v.Class == class
}

func shrink(c *rig.Ctx, cs Case, class string) Case {
	cs.Steps = rig.ShrinkList(cs.Steps, func(l []Step) bool { x := cs; x.Steps = l; return failsSame(c, x, class) })
	// drop aliases one at a time
	for i := range cs.Steps {
		if cs.Steps[i].Spec == nil {
			continue
		}
		for j := 0; j < len(cs.Steps[i].Spec.Aliases); {
			x := cloneCase(cs)
			sp := x.Steps[i].Spec
			sp.Aliases = append(append([]string{}, sp.Aliases[:j]...), sp.Aliases[j+1:]...)
			if failsSame(c, x, class) {
				cs = x
			} else {
				j++
			}
		}
	}
	if len(cs.Burst) > 0 {
		cs.Burst = rig.ShrinkList(cs.Burst, func(l []Step) bool { x := cs; x.Burst = l; return failsSame(c, x, class) })
	}
	if len(cs.Reqs) > 0 {
		cs.Reqs = rig.ShrinkList(cs.Reqs, func(l []Req) bool { x := cs; x.Reqs = l; return failsSame(c, x, class) })
	}
	cs.Probes = rig.ShrinkList(cs.Probes, func(l []string) bool { x := cs; x.Probes = l; return failsSame(c, x, class) })
	cs.SNIs = rig.ShrinkList(cs.SNIs, func(l []string) bool { x := cs; x.SNIs = l; return failsSame(c, x, class) })
	return cs
}

func cloneCase(cs Case) Case {
	x := cs
	cp := func(l []Step) []Step {
		if l == nil {
			return nil
		}
		out := make([]Step, len(l))
		for i, s := range l {
			out[i] = s
			if s.Spec != nil {
				sp := *s.Spec
				sp.Aliases = append([]string{}, s.Spec.Aliases...)
				out[i].Spec = &sp
			}
		}
		return out
	}
	x.Steps, x.Burst, x.After = cp(cs.Steps), cp(cs.Burst), cp(cs.After)
	x.Reqs = append([]Req(nil), cs.Reqs...)
	return x
}

func record(c *rig.Ctx, cs Case, v verdict) {
	c.Fail(rig.Failure{Kind: v.Kind, Class: v.Class, What: v.What, Case: readable(cs), Impl: v.Impl, Model: v.Model})
}

// readable adds a plain-text rendering next to the hex fields (ignored on replay).
func readable(cs Case) interface{} {
	var txt []string
	all := append([]Step{}, cs.Steps...)
	for _, s := range cs.Burst {
		s.K = "burst-" + s.K
		all = append(all, s)
	}
	for _, s := range cs.After {
		s.K = "after-" + s.K
		all = append(all, s)
	}
	for _, s := range all {
		t := s.K + " " + fmt.Sprintf("%q", rig.UnHex(s.Name))
		if s.Ev > 0 {
			t += fmt.Sprintf(" (event object: %d versions old)", s.Ev)
		}
		if s.Spec != nil {
			var al []string
			for _, a := range s.Spec.Aliases {
				al = append(al, fmt.Sprintf("%q", rig.UnHex(a)))
			}
			t += fmt.Sprintf(" serverNames=[%s] cert=%d ca=%d bad=%v", strings.Join(al, ","), s.Spec.Cert, s.Spec.CA, s.Spec.Bad)
			if s.Spec.Half != "" {
				t += " only-the-" + s.Spec.Half + "-of-the-pair"
			}
			if s.Spec.NoServers {
				t += " noservers"
			}
			if s.Spec.BrokenClient {
				t += " brokenclient"
			}
			if s.Spec.FailEndpoints {
				t += " failendpoints"
			}
		}
		txt = append(txt, t)
	}
	for _, r := range cs.Reqs {
		txt = append(txt, fmt.Sprintf("exchange sni=%q host=%q client-cert-ca=%d", rig.UnHex(r.SNI), rig.UnHex(r.Host), r.Cert))
	}
	out := map[string]interface{}{"kind": cs.Kind, "steps": cs.Steps, "probes": cs.Probes, "snis": cs.SNIs, "text": txt}
	if len(cs.Burst) > 0 {
		out["burst"] = cs.Burst
	}
	if len(cs.After) > 0 {
		out["after"] = cs.After
	}
	if cs.Kind == "auth" {
		out["cp"], out["reqs"] = cs.CP, cs.Reqs
	}
	return out
}

// classify a history for the evidence
func classify(c *rig.Ctx, cs Case, v verdict, settled []bool) (nontrivial bool, bucket string) {
	owner := map[string]string{}
	moved, refused, recreated, maxLive := false, false, false, 0
	deleted := map[string]bool{}
	for i, o := range v.Obs {
		live := map[string]bool{}
		for _, k := range o.State.Keys {
			p := k[1].(int)
			if p < 0 || p >= len(o.State.Infos) {
				continue
			}
			cl := o.State.Infos[p].Cluster
			live[cl] = true
			key := k[0].(string)
			if prev, ok := owner[key]; ok && prev != cl {
				moved = true
			}
			owner[key] = cl
			if deleted[cl] {
				recreated = true
			}
		}
		if len(live) > maxLive {
			maxLive = len(live)
		}
		if cs.Steps[i].K == "sync" {
			if o.Requeue {
				refused = true
			}
			if i < len(v.Outs) {
				c.Count("outcome:" + v.Outs[i])
				if v.Outs[i] == "deleted" {
					deleted[rig.Hex(strings.ToLower(rig.UnHex(cs.Steps[i].Name)))] = true
				}
			}
		}
		if i < len(settled) && settled[i] {
			c.Count("settled-sync-steps")
		}
	}
	for _, s := range cs.Steps {
		c.Count("step:" + s.K)
	}
	if moved {
		c.Count("history:name-moved")
	}
	if refused {
		c.Count("history:refused")
	}
	if recreated {
		c.Count("history:recreated")
	}
	nontrivial = maxLive >= 2 && (moved || refused || recreated)
	return nontrivial, "kind:" + cs.Kind
}

func one(c *rig.Ctx, cs Case, origin string) {
	if os.Getenv("C10_TIMING") != "" {
		t0 := time.Now()
		defer func() {
			if d := time.Since(t0); d > time.Second {
				fmt.Fprintf(os.Stderr, "slow case kind=%s: %v\n", cs.Kind, d)
			}
		}()
	}
	counting = true
	v := runCase(c, cs)
	counting = false
	nt, bucket := classify(c, cs, v, v.Settled)
	if cs.Kind == "race" || cs.Kind == "auth" || cs.Kind == "retry" {
		nt = true
	}
	if origin != "" {
		bucket = origin
	}
	c.Case(rig.Canon(cs), nt, bucket, func() interface{} { return readable(cs) })
	c.Trace()
	if v.Kind == "" {
		return
	}
	if strings.HasSuffix(v.Class, "-error") {
		record(c, cs, v) // the driver refused the request: nothing to minimise
		return
	}
	small := shrink(c, cloneCase(cs), v.Class)
	v2 := runCase(c, small)
	if v2.Kind == "" || v2.Class != v.Class {
		small, v2 = cs, v
	}
	record(c, small, v2)
}

func main() {
	fs := flag.NewFlagSet("klog", flag.ContinueOnError)
	klog.InitFlags(fs)
	fs.Set("logtostderr", "false") //nolint
	fs.Set("alsologtostderr", "false") //nolint
	fs.Set("stderrthreshold", "FATAL") //nolint
	klog.SetOutput(io.Discard)
	proxyv1alpha1.AddToScheme(admScheme) //nolint
	initMaterial()
	initPlugin()

	rig.Main("C10", func(c *rig.Ctx) {
		c.SetRule("[gateway level: race = burst of colliding writes through the real informer/queue/Run() judged at quiescence with invB; auth = 10-17 TLS exchanges through the shipped options->ApplyTo->WithAuthentication / SecureServingInfo.Serve wiring, with and without --client-ca-file] a history of 12-40 steps (lister write `set`/`unset`, handler invocation `sync`) over 3-5 clusters and a 6-name universe: " +
			"server names equal to other clusters' names, case variants, duplicates, own name, names with a port, IP literals, empty names, " +
			"moves A->B in both orders, delete/re-create, queued (unsynced) writes, retries, objects on which Sync fails; three streams: " +
			"admissible (every object passes the real plug-in's conflict rule and is synced at once), mixed (conflicts, delays), unicode (non-ASCII / invalid UTF-8 names). " +
			"After every step: raw key set, every ClusterInfo (names, TLS ids, stopped), Get/request filters/SNIVerifyOptions for ~60 probe hosts, WrapGetConfigForClient for ~25 SNIs. " +
			"distinct = distinct canonical case; non-trivial = at least two clusters served at once and a name changed owner, an event was refused, or a cluster was deleted and re-created")
		if c.Replay != "" {
			var cs Case
			if err := c.LoadReplay(&cs); err != nil {
				fmt.Fprintln(os.Stderr, err)
				os.Exit(2)
			}
			v := runCase(c, cs)
			c.Case(rig.Canon(cs), true, "replay", func() interface{} { return readable(cs) })
			c.Trace()
			if v.Kind != "" {
				record(c, cs, v)
			}
			return
		}
		// corpus first
		dir := os.Getenv("VERIF_DIR")
		if dir == "" {
			dir = "/verif"
		}
		ents, _ := os.ReadDir(dir + "/harness/corpus/C10")
		for _, e := range ents {
			if !strings.HasSuffix(e.Name(), ".json") {
				continue
			}
			cs, err := loadCase(dir + "/harness/corpus/C10/" + e.Name())
			if err != nil {
				fmt.Fprintln(os.Stderr, "corpus", e.Name(), err)
				os.Exit(2)
			}
			one(c, cs, "corpus")
		}
		// gateway level: real informer + queue + Run() (race), shipped TLS / authentication wiring (auth)
		start := time.Now()
		nRace, nAuth, nRetry := c.Budget(40, 320), c.Budget(50, 400), c.Budget(12, 100)
		for i := 0; (i < nRace || i < nAuth) && c.NFailures() < 3; i++ {
			if i < nAuth {
				one(c, genAuth(c.Rng), "")
			}
			if i < nRace && c.NFailures() < 3 {
				one(c, genRace(c.Rng), "")
			}
			if i < nRetry && c.NFailures() < 3 {
				one(c, genRetry(c.Rng), "")
			}
		}
		c.SetExtra("gateway_cases_wall_s", time.Since(start).Seconds())
		n := c.Budget(700, 12000)
		start = time.Now()
		for i := 0; i < n && c.NFailures() < 3; i++ {
			kind := "mixed"
			switch i % 10 {
			case 0, 1, 2:
				kind = "admissible"
			case 3:
				kind = "unicode"
			}
			one(c, gen(c.Rng, kind), "")
		}
		c.SetExtra("generated_histories_wall_s", time.Since(start).Seconds())
	})
}

func loadCase(path string) (Case, error) {
	var cs Case
	b, err := os.ReadFile(path)
	if err != nil {
		return cs, err
	}
	var env struct {
		Case json.RawMessage `json:"case"`
	}
	if err := json.Unmarshal(b, &env); err != nil {
		return cs, err
	}
	return cs, json.Unmarshal(env.Case, &cs)
}

var _ = rand.Int
