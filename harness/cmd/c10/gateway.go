package main

// Gateway level: what tenant resolution depends on IMPLICITLY — plumbing, wiring, options.
//
// The REAL UpstreamClusterController built by the public NewUpstreamClusterController around a fake clientset and
// the generated informer, driven through its real Run() (real syncqueue, the real number of workers), and, for
// the auth cases, the shipped authentication / TLS wiring: control-plane AuthenticationOptions (with or without
// --client-ca-file) -> proxy AuthenticationOptions.ApplyTo (as CreateProxyConfig calls it, the controller being SNI
// verify-options provider and client provider) -> genericapifilters.WithAuthentication, served by the generic
// server's SecureServingInfo.Serve with the controller as DynamicClientConfig, over real TLS connections.
//
//   race cases: after a prefix written one object at a time, a BURST of colliding writes is issued back to back.
//       The first manager write any handler attempts during the burst is held (before it is performed, i.e. after
//       that handler's conflict checks) until a second handler arrives at a manager write, or 150 ms. With the one
//       worker the sequential model (`c10_wiring_facts`) is about no second handler can arrive; with more workers
//       both handlers have passed their checks and both register. Judged at quiescence with the Lean invariant
//       (`invB`: no name claimed by two served clusters, every listed name resolves to its cluster, …), which by
//       `c10_inv` holds after ANY sequence of handler invocations (so late retries cannot cause a false alarm).
//   auth cases: judged against `wiredExchange` evaluated on the observed state (`c10_auth_applied`), diffed against
//       the model run on the history.
// Every wait is one-sided: a time-out makes the case inconclusive (counted, never a failure).

import (
	"bufio"
	"context"
	"crypto/tls"
	"fmt"
	"io"
	"math/rand"
	"net"
	"net/http"
	"os"
	"sort"
	"strings"
	"sync"
	"sync/atomic"
	"time"

	runtimeoptions "github.com/kubewharf/apiserver-runtime/pkg/server/options"
	metav1 "k8s.io/apimachinery/pkg/apis/meta/v1"
	"k8s.io/apimachinery/pkg/watch"
	clienttesting "k8s.io/client-go/testing"
	genericapifilters "k8s.io/apiserver/pkg/endpoints/filters"
	genericapirequest "k8s.io/apiserver/pkg/endpoints/request"
	genericserver "k8s.io/apiserver/pkg/server"
	"k8s.io/apiserver/pkg/server/dynamiccertificates"
	"k8s.io/client-go/util/workqueue"

	gatewayinformers "github.com/kubewharf/kubegateway/pkg/client/informers"
	gatewayfake "github.com/kubewharf/kubegateway/pkg/client/kubernetes/fake"
	"github.com/kubewharf/kubegateway/pkg/clusters"
	"github.com/kubewharf/kubegateway/pkg/gateway/controllers"
	proxyoptions "github.com/kubewharf/kubegateway/pkg/gateway/proxy/options"
	"github.com/kubewharf/kubegateway/pkg/syncqueue"

	"verifharness/rig"
)

const rendezvousWait = 150 * time.Millisecond

// rendezvous holds the FIRST arrival (once armed) until a second one arrives or the wait expires.
type rendezvous struct {
	mu      sync.Mutex
	armed   bool
	waiting bool
	ch      chan struct{}
	met     bool
}

func (r *rendezvous) arrive() {
	r.mu.Lock()
	if !r.armed {
		r.mu.Unlock()
		return
	}
	if !r.waiting {
		r.waiting = true
		r.ch = make(chan struct{})
		ch := r.ch
		r.mu.Unlock()
		select {
		case <-ch:
		case <-time.After(rendezvousWait):
		}
		r.mu.Lock()
		r.armed = false
		r.mu.Unlock()
		return
	}
	// second arrival while the first is held: both have passed their checks
	r.met = true
	r.armed = false
	close(r.ch)
	r.mu.Unlock()
}

// recQueue decorates the controller's real work queue: every call goes to the real queue.
type recQueue struct {
	workqueue.RateLimitingInterface
	g *gateway
}

func (q *recQueue) mark(item interface{}) {
	q.g.qmu.Lock()
	q.g.sched[item] = true
	q.g.qmu.Unlock()
}
func (q *recQueue) Add(item interface{})                          { q.mark(item); q.RateLimitingInterface.Add(item) }
func (q *recQueue) AddAfter(item interface{}, d time.Duration)    { q.mark(item); q.RateLimitingInterface.AddAfter(item, d) }
func (q *recQueue) AddRateLimited(item interface{})               { q.mark(item); q.RateLimitingInterface.AddRateLimited(item) }
func (q *recQueue) Done(item interface{}) {
	g := q.g
	g.qmu.Lock()
	if g.asked[item] && !g.sched[item] && atomic.LoadInt32(&g.closing) == 0 && g.dropped == "" {
		name := "?"
		if o, ok := item.(metav1.Object); ok {
			name = o.GetName()
		}
		g.dropped = name
	}
	delete(g.asked, item)
	g.qmu.Unlock()
	q.RateLimitingInterface.Done(item)
}

type gateway struct {
	client   *gatewayfake.Clientset
	ctl      *controllers.UpstreamClusterController
	real     clusters.Manager
	rec      *recordingManager
	rdv      *rendezvous
	stop     chan struct{}
	started  int64
	finished int64
	inflight int64
	maxConc  int64
	panicMsg atomic.Value
	runPanic atomic.Value
	// requeue bookkeeping (recQueue + handler wrapper): a handler result that asks for a requeue must be followed by
	// the queue scheduling the object again before it marks the item Done
	qmu      sync.Mutex
	asked    map[interface{}]bool
	lastAsked map[string]bool // per object name: did its latest handler invocation ask for a requeue
	sched    map[interface{}]bool
	dropped  string
	closing  int32
	scale    int64 // > 1: the handler's RequeueAfter is divided by it (5 s -> 20 ms); the queue's own logic is untouched
	watching chan struct{}
	deaf     bool // the informer never started watching: every case on this gateway is inconclusive
	exists   map[string]bool
	writes   int64
	rv       int
	ptrIdx   map[*clusters.ClusterInfo]int
	ptrs     []*clusters.ClusterInfo
	addr     string
	tmpDir   string
}

func startGateway() *gateway {
	g := &gateway{client: gatewayfake.NewSimpleClientset(), stop: make(chan struct{}), exists: map[string]bool{},
		ptrIdx: map[*clusters.ClusterInfo]int{}, rdv: &rendezvous{}, asked: map[interface{}]bool{}, sched: map[interface{}]bool{}, lastAsked: map[string]bool{}}
	// the fake tracker does not replay: an object written between the informer's List and the registration of its
	// Watch would never be delivered. Register the watch ourselves and tell when that has happened.
	g.watching = make(chan struct{})
	var once sync.Once
	g.client.PrependWatchReactor("*", func(action clienttesting.Action) (bool, watch.Interface, error) {
		w, err := g.client.Tracker().Watch(action.GetResource(), action.GetNamespace())
		once.Do(func() { close(g.watching) })
		return true, w, err
	})
	factory := gatewayinformers.NewSharedInformerFactory(g.client, 0)
	g.ctl = controllers.NewUpstreamClusterController(factory.Proxy().V1alpha1().UpstreamClusters(), proxyoptions.NewRateLimiterOptions())
	g.ctl.VerifC10WrapHandler(func(h syncqueue.SyncHandler) syncqueue.SyncHandler {
		return func(obj interface{}) (res syncqueue.Result, err error) {
			atomic.AddInt64(&g.started, 1)
			n := atomic.AddInt64(&g.inflight, 1)
			for {
				m := atomic.LoadInt64(&g.maxConc)
				if n <= m || atomic.CompareAndSwapInt64(&g.maxConc, m, n) {
					break
				}
			}
			defer atomic.AddInt64(&g.finished, 1)
			defer atomic.AddInt64(&g.inflight, -1)
			defer func() {
				if r := recover(); r != nil {
					g.panicMsg.Store(fmt.Sprint(r))
					res, err = syncqueue.Result{}, nil
				}
			}()
			res, err = h(obj)
			g.qmu.Lock()
			g.asked[obj] = err == nil && (res.Requeue || res.RequeueAfter > 0)
			g.sched[obj] = false
			if o, ok := obj.(metav1.Object); ok {
				g.lastAsked[o.GetName()] = g.asked[obj]
			}
			g.qmu.Unlock()
			if sc := atomic.LoadInt64(&g.scale); sc > 1 && res.RequeueAfter > 0 {
				res.RequeueAfter /= time.Duration(sc)
			}
			return res, err
		}
	})
	g.ctl.VerifC10WrapQueue(func(q workqueue.RateLimitingInterface) workqueue.RateLimitingInterface {
		return &recQueue{RateLimitingInterface: q, g: g}
	})
	// the controller's own manager (clusters.NewManager()), behind the recording wrapper: reads go straight through
	g.real = g.ctl.Manager
	g.rec = &recordingManager{Manager: g.real, before: g.rdv.arrive, after: func() {}}
	g.ctl.Manager = g.rec
	factory.Start(g.stop)
	go func() {
		// Run panics when it is stopped before the informer has synced (a case that ends at once)
		defer func() {
			if r := recover(); r != nil {
				g.runPanic.Store(fmt.Sprint(r))
			}
		}()
		g.ctl.Run(g.stop)
	}()
	select {
	case <-g.watching:
	case <-time.After(20 * time.Second):
		g.deaf = true
	}
	return g
}

func (g *gateway) shutdown() {
	atomic.StoreInt32(&g.closing, 1)
	close(g.stop)
	seen := map[*clusters.ClusterInfo]bool{}
	for _, ci := range g.ptrs {
		seen[ci] = true
	}
	for _, e := range g.rec.keys() {
		seen[e.ci] = true
	}
	for ci := range seen {
		ci.Stop()
	}
	if g.tmpDir != "" {
		os.RemoveAll(g.tmpDir)
	}
}

// write performs one API write (set = create or update, unset = delete); false when nothing was written.
func (g *gateway) write(st Step) (bool, error) {
	name := rig.UnHex(st.Name)
	api := g.client.ProxyV1alpha1().UpstreamClusters()
	ctx := context.TODO()
	switch st.K {
	case "set":
		g.rv++
		obj := mkObj(name, st.Spec, g.rv)
		var err error
		if g.exists[name] {
			_, err = api.Update(ctx, obj, metav1.UpdateOptions{})
		} else {
			_, err = api.Create(ctx, obj, metav1.CreateOptions{})
		}
		if err != nil {
			return false, err
		}
		g.exists[name] = true
		g.writes++
		return true, nil
	case "unset":
		if !g.exists[name] {
			return false, nil
		}
		if err := api.Delete(ctx, name, metav1.DeleteOptions{}); err != nil {
			return false, err
		}
		delete(g.exists, name)
		g.writes++
		return true, nil
	}
	return false, nil
}

func waitFor(cond func() bool, timeout time.Duration) bool {
	deadline := time.Now().Add(timeout)
	for {
		if cond() {
			return true
		}
		if time.Now().After(deadline) {
			return false
		}
		time.Sleep(time.Millisecond)
	}
}

func (g *gateway) quiet() bool {
	return atomic.LoadInt64(&g.finished) >= g.writes && atomic.LoadInt64(&g.started) == atomic.LoadInt64(&g.finished) &&
		g.ctl.VerifC10QueueLen() == 0
}

// observe takes the manager's state while no handler is running (seqlock on the invocation counters); nil on time-out.
func (g *gateway) observe() *State {
	for try := 0; try < 200; try++ {
		if !waitFor(g.quiet, 30*time.Second) {
			return nil
		}
		s0 := atomic.LoadInt64(&g.started)
		st := g.snapshot()
		if atomic.LoadInt64(&g.started) == s0 && atomic.LoadInt64(&g.finished) == s0 {
			return &st
		}
	}
	return nil
}

func (g *gateway) idx(ci *clusters.ClusterInfo) int {
	if ci == nil {
		return -1
	}
	if i, ok := g.ptrIdx[ci]; ok {
		return i
	}
	g.ptrIdx[ci] = len(g.ptrs)
	g.ptrs = append(g.ptrs, ci)
	return len(g.ptrs) - 1
}

func (g *gateway) snapshot() State {
	var st State
	st.Keys = [][]interface{}{}
	for _, e := range g.rec.keys() {
		st.Keys = append(st.Keys, []interface{}{rig.Hex(e.key), g.idx(e.ci)})
	}
	st.Infos = []Info{}
	st.Stopped = []int{}
	for i, ci := range g.ptrs {
		names := ci.LoadServerNames()
		inf := Info{Cluster: rig.Hex(ci.Cluster), Aliases: rig.HexList(names[1:]), Cert: -1, CA: -1}
		if cfg, ok := ci.LoadTLSConfig(); ok {
			inf.Cert, inf.CA = certID(cfg.Certificates), poolID(cfg.ClientCAs)
		}
		st.Infos = append(st.Infos, inf)
		if ci.Context().Err() != nil {
			st.Stopped = append(st.Stopped, i)
		}
	}
	return st
}

// canonState forgets pointer numbering (the harness numbers ClusterInfos in the order it first sees them, the
// model in allocation order): per key the content of the ClusterInfo it resolves to, whether that one is stopped,
// and the smallest key sharing the same ClusterInfo.
func canonState(st State) map[string]interface{} {
	stopped := map[int]bool{}
	for _, p := range st.Stopped {
		stopped[p] = true
	}
	first := map[int]string{}
	for _, k := range st.Keys {
		p := k[1].(int)
		if f, ok := first[p]; !ok || k[0].(string) < f {
			first[p] = k[0].(string)
		}
	}
	out := map[string]interface{}{}
	for _, k := range st.Keys {
		p := k[1].(int)
		var inf interface{}
		if p >= 0 && p < len(st.Infos) {
			inf = st.Infos[p]
		}
		out[k[0].(string)] = []interface{}{inf, stopped[p], first[p]}
	}
	return out
}

// describe says in words what is wrong with a state that fails the invariant (for the failure line only).
func describe(st State) string {
	owner := map[string]int{}
	for _, k := range st.Keys {
		owner[k[0].(string)] = k[1].(int)
	}
	served := map[int]bool{}
	for _, p := range owner {
		served[p] = true
	}
	claimed := map[string][]string{}
	var msgs []string
	for p := range st.Infos {
		if !served[p] {
			continue
		}
		inf := st.Infos[p]
		for _, n := range append([]string{inf.Cluster}, inf.Aliases...) {
			claimed[n] = append(claimed[n], rig.UnHex(inf.Cluster))
			if q, ok := owner[n]; !ok {
				msgs = append(msgs, fmt.Sprintf("served cluster %q lists %q, which does not resolve", rig.UnHex(inf.Cluster), rig.UnHex(n)))
			} else if q != p {
				msgs = append(msgs, fmt.Sprintf("served cluster %q lists %q, which resolves to %q", rig.UnHex(inf.Cluster), rig.UnHex(n), rig.UnHex(st.Infos[q].Cluster)))
			}
		}
	}
	stopped := map[int]bool{}
	for _, p := range st.Stopped {
		stopped[p] = true
	}
	for _, k := range st.Keys {
		key, p := k[0].(string), k[1].(int)
		if p < 0 || p >= len(st.Infos) {
			continue
		}
		inf := st.Infos[p]
		listed := inf.Cluster == key
		for _, a := range inf.Aliases {
			listed = listed || a == key
		}
		if !listed {
			msgs = append(msgs, fmt.Sprintf("%q resolves to cluster %q, whose current server names do not contain it", rig.UnHex(key), rig.UnHex(inf.Cluster)))
		}
		if stopped[p] {
			msgs = append(msgs, fmt.Sprintf("%q resolves to cluster %q, which is stopped", rig.UnHex(key), rig.UnHex(inf.Cluster)))
		}
	}
	sort.Strings(msgs)
	uniq := msgs[:0]
	for i, m := range msgs {
		if i == 0 || m != msgs[i-1] {
			uniq = append(uniq, m)
		}
	}
	msgs = uniq
	if len(msgs) > 3 {
		msgs = msgs[:3]
	}
	return strings.Join(msgs, "; ")
}

// ---------------------------------------------------------------------------------------------------------
// race cases

func runRace(c *rig.Ctx, cs Case, count bool) (v verdict) {
	inconclusive := func(why string) verdict {
		if count {
			c.Count("gateway-inconclusive:" + why)
		}
		return verdict{}
	}
	g := startGateway()
	defer g.shutdown()
	if g.deaf {
		return inconclusive("informer-never-watched")
	}
	for _, st := range cs.Steps {
		if st.K == "sync" {
			continue
		}
		if _, err := g.write(st); err != nil {
			return inconclusive("fake-clientset")
		}
		if !waitFor(g.quiet, 30*time.Second) {
			return inconclusive("never-quiescent")
		}
	}
	g.rdv.mu.Lock()
	g.rdv.armed = true
	g.rdv.mu.Unlock()
	for _, st := range cs.Burst {
		if _, err := g.write(st); err != nil {
			return inconclusive("fake-clientset")
		}
	}
	st := g.observe()
	if st == nil {
		return inconclusive("never-quiescent")
	}
	g.rdv.mu.Lock()
	met := g.rdv.met
	g.rdv.mu.Unlock()
	if count {
		c.Count(fmt.Sprintf("race:max-concurrent-handler-invocations=%d", atomic.LoadInt64(&g.maxConc)))
		if met {
			c.Count("race:two-handlers-at-a-manager-write-at-once")
		}
	}
	if m := g.panicMsg.Load(); m != nil {
		return verdict{Kind: "judge", Class: "c10.run.handler-panic", What: "the sync handler panicked inside the real Run loop: " + fmt.Sprint(m)}
	}
	args := map[string]interface{}{"state": st}
	if t := lowerTable(cs); len(t) > 0 {
		args["lower"] = t
	}
	var r struct {
		Inv bool `json:"inv"`
	}
	if err := c.Model("C10.invariant", args, &r); err != nil {
		return verdict{Kind: "diff", Class: "c10.judge-error", What: "judge could not be evaluated: " + err.Error()}
	}
	if !r.Inv {
		return verdict{Kind: "judge", Class: "c10.run.inv", Impl: st,
			What: fmt.Sprintf("real informer + queue + Run(): after a burst of %d colliding writes, when everything is quiet (handler invocations in flight at once: %d): %s",
				len(cs.Burst), atomic.LoadInt64(&g.maxConc), describe(*st))}
	}
	return
}

func genRace(r *rand.Rand) Case {
	g := &gstate{r: r, kind: "admissible", lister: map[string]*Spec{}}
	nc := 3 + r.Intn(3)
	g.names = append([]string{}, universe[:nc]...)
	g.pool = append([]string{}, universe...)
	// prefix: a few admissible objects, written one at a time (no refusals, hence no delayed retries)
	for i, n := 0, r.Intn(4); i < n; i++ {
		c := rig.Pick(r, g.names)
		if _, ok := g.lister[c]; !ok && g.claimedByOthers(c)[c] {
			continue
		}
		g.set(c, g.spec(c, true))
	}
	cs := Case{Kind: "race", Steps: g.steps}
	// burst: two (sometimes three) different clusters claim the same free name(s) at the same moment
	free := []string{}
	claimed := g.claimedByOthers("")
	for _, n := range universe {
		if _, isObj := g.lister[n]; !claimed[n] && !isObj {
			free = append(free, n)
		}
	}
	if len(free) == 0 {
		free = []string{"z.example"}
	}
	perm := r.Perm(len(g.names))
	k := 2
	if r.Intn(4) == 0 && len(g.names) >= 3 {
		k = 3
	}
	shared := []string{rig.Pick(r, free)}
	if r.Intn(2) == 0 {
		shared = append(shared, caseVar(r, rig.Pick(r, free)))
	}
	for i := 0; i < k; i++ {
		name := g.names[perm[i]]
		sp := &Spec{Aliases: []string{}, Cert: -1, CA: -1}
		if old, ok := g.lister[name]; ok {
			cp := *old
			cp.Aliases = append([]string{}, old.Aliases...)
			sp = &cp
		}
		for _, s := range shared {
			if s != name {
				sp.Aliases = append(sp.Aliases, rig.Hex(caseVar(r, s)))
			}
		}
		if r.Intn(3) == 0 {
			// a cluster whose own NAME is the contested name
			if _, ok := g.lister[shared[0]]; !ok && i == 0 && strings.ToLower(shared[0]) == shared[0] {
				name, sp = shared[0], &Spec{Aliases: []string{}, Cert: -1, CA: -1}
			}
		}
		cs.Burst = append(cs.Burst, Step{K: "set", Name: rig.Hex(name), Spec: sp})
	}
	return cs
}

// ---------------------------------------------------------------------------------------------------------
// retry cases: a conflict that lasts longer than any retry budget, then goes away.
// The handler's RequeueAfter is divided by 250 (5 s -> 20 ms) in the handler wrapper; how often and for how long the
// queue re-delivers is the real queue's business. Judge, free of timing: (1) a handler result that asks for a requeue
// is never completed (Done) without the queue having scheduled the object again — otherwise the refused cluster is
// never looked at again although nothing else will ever trigger it; (2) once the conflict is gone and everything is
// quiet, the state satisfies invB and mirrors the lister. Waits are one-sided (inconclusive on time-out).

func runRetry(c *rig.Ctx, cs Case, count bool) (v verdict) {
	inconclusive := func(why string) verdict {
		if count {
			c.Count("gateway-inconclusive:" + why)
		}
		return verdict{}
	}
	g := startGateway()
	defer g.shutdown()
	if g.deaf {
		return inconclusive("informer-never-watched")
	}
	atomic.StoreInt64(&g.scale, 250)
	droppedNow := func() string {
		g.qmu.Lock()
		defer g.qmu.Unlock()
		return g.dropped
	}
	anyAsked := func() bool {
		g.qmu.Lock()
		defer g.qmu.Unlock()
		for _, a := range g.lastAsked {
			if a {
				return true
			}
		}
		return false
	}
	fail := func() verdict {
		return verdict{Kind: "judge", Class: "c10.run.requeue-dropped",
			What: fmt.Sprintf("real queue + Run(): the handler asked for a requeue of %q (its names are held by another cluster) and the queue marked the item done WITHOUT scheduling it again after %d handler invocations: nothing will ever look at that cluster again, it stays unserved when the conflict ends",
				droppedNow(), atomic.LoadInt64(&g.finished))}
	}
	for _, st := range cs.Steps {
		if st.K == "sync" {
			continue
		}
		if _, err := g.write(st); err != nil {
			return inconclusive("fake-clientset")
		}
		if !waitFor(g.quiet, 30*time.Second) {
			return inconclusive("never-quiescent")
		}
	}
	for _, st := range cs.Burst {
		if _, err := g.write(st); err != nil {
			return inconclusive("fake-clientset")
		}
		if !waitFor(func() bool { return atomic.LoadInt64(&g.finished) >= g.writes }, 30*time.Second) {
			return inconclusive("never-handled")
		}
	}
	// the conflict lasts: far more re-deliveries than any budget the handler names
	want := g.writes + int64(6+len(cs.Burst)*6)
	// (nothing to wait for when no handler asked for a requeue: a case without a conflict)
	waitFor(func() bool { return atomic.LoadInt64(&g.finished) >= want || droppedNow() != "" || !anyAsked() }, 20*time.Second)
	if droppedNow() != "" {
		return fail()
	}
	retried := atomic.LoadInt64(&g.finished) - g.writes
	if count {
		c.Count(fmt.Sprintf("retry:re-deliveries-during-the-conflict>=%d", min64(retried, 6)))
	}
	for _, st := range cs.After {
		if _, err := g.write(st); err != nil {
			return inconclusive("fake-clientset")
		}
		if !waitFor(func() bool { return atomic.LoadInt64(&g.finished) >= g.writes }, 30*time.Second) {
			return inconclusive("never-handled")
		}
	}
	// every current object gets served eventually (one-sided)
	all := append(append(append([]Step{}, cs.Steps...), cs.Burst...), cs.After...)
	lister := map[string]bool{}
	for _, s := range all {
		switch s.K {
		case "set":
			lister[rig.UnHex(s.Name)] = true
		case "unset":
			delete(lister, rig.UnHex(s.Name))
		}
	}
	servedAll := func() bool {
		for n := range lister {
			if ci, ok := g.ctl.Get(n); !ok || ci.Cluster != strings.ToLower(n) {
				return false
			}
		}
		return true
	}
	conv := waitFor(func() bool { return servedAll() || droppedNow() != "" || (!anyAsked() && g.quiet()) }, 20*time.Second)
	conv = conv && servedAll()
	if droppedNow() != "" {
		return fail()
	}
	if !conv {
		if os.Getenv("C10_TIMING") != "" {
			fmt.Fprintf(os.Stderr, "not converged: %s\n", rig.Canon(readable(cs).(map[string]interface{})["text"]))
		}
		return inconclusive("not-converged-in-time")
	}
	st := g.observe()
	if st == nil {
		return inconclusive("never-quiescent")
	}
	if droppedNow() != "" {
		return fail()
	}
	if m := g.panicMsg.Load(); m != nil {
		return verdict{Kind: "judge", Class: "c10.run.handler-panic", What: "the sync handler panicked inside the real Run loop: " + fmt.Sprint(m)}
	}
	var steps []Step
	for _, s := range all {
		if s.K != "sync" {
			steps = append(steps, s)
		}
	}
	args := map[string]interface{}{"steps": steps, "base": map[string]interface{}{"cert": baseCertID, "ca": -1, "auth": false},
		"localAddr": rig.Hex(localAddr), "cp": -1, "reqs": [][]interface{}{}, "state": st}
	var r authReply
	if err := c.Model("C10.auth", args, &r); err != nil {
		return verdict{Kind: "diff", Class: "c10.judge-error", What: "judge could not be evaluated: " + err.Error()}
	}
	if !r.Inv {
		return verdict{Kind: "judge", Class: "c10.run.inv", Impl: st, What: "real informer + queue + Run(), after a long conflict ended, when everything is quiet: " + describe(*st)}
	}
	if !r.Mirror {
		return verdict{Kind: "judge", Class: "c10.run.mirror", Impl: st,
			What: "real informer + queue + Run(): a long name conflict ended and every current object is served, but the served names / TLS material are not exactly those of the current objects"}
	}
	if count {
		c.Count("retry:converged-after-the-conflict")
	}
	return
}

func min64(a, b int64) int64 {
	if a < b {
		return a
	}
	return b
}

func genRetry(r *rand.Rand) Case {
	g := &gstate{r: r, kind: "admissible", lister: map[string]*Spec{}}
	nc := 3 + r.Intn(3)
	g.names = append([]string{}, universe[:nc]...)
	g.pool = append([]string{}, universe...)
	owner, loser := g.names[0], g.names[1]
	contested := "z.example" // never the name of an object in play: only the owner stands in the loser's way
	if nc < len(universe) {
		contested = rig.Pick(r, universe[nc:])
	}
	// nobody but the owner's LAST server name stands in the loser's way
	clean := func(sp *Spec) *Spec {
		keep := []string{}
		for _, a := range sp.Aliases {
			if l := strings.ToLower(rig.UnHex(a)); l != loser && l != contested {
				keep = append(keep, a)
			}
		}
		sp.Aliases = keep
		return sp
	}
	spA := clean(g.spec(owner, true))
	spA.Aliases = append(spA.Aliases, rig.Hex(caseVar(r, contested)))
	g.set(owner, spA)
	if r.Intn(2) == 0 {
		c := g.names[2]
		if !g.claimedByOthers(c)[c] {
			g.set(c, clean(g.spec(c, true)))
		}
	}
	cs := Case{Kind: "retry", Steps: g.steps}
	// the loser claims the contested name (as a server name, or as its own NAME) while the owner holds it
	spB := &Spec{Aliases: []string{rig.Hex(caseVar(r, contested))}, Cert: -1, CA: -1}
	if r.Intn(2) == 0 {
		spB.Cert = 1 + r.Intn(4)
	}
	if r.Intn(4) == 0 && strings.ToLower(contested) == contested {
		loser, spB = contested, &Spec{Aliases: []string{}, Cert: -1, CA: -1}
	}
	cs.Burst = []Step{{K: "set", Name: rig.Hex(loser), Spec: spB}}
	// the conflict ends: the owner drops the name, or is deleted
	if r.Intn(3) == 0 {
		cs.After = []Step{{K: "unset", Name: rig.Hex(owner)}}
	} else {
		cp := *spA
		cp.Aliases = append([]string{}, spA.Aliases[:len(spA.Aliases)-1]...)
		cs.After = []Step{{K: "set", Name: rig.Hex(owner), Spec: &cp}}
	}
	return cs
}

// ---------------------------------------------------------------------------------------------------------
// auth cases

func (g *gateway) serve(cp bool) error {
	cpAuthn := runtimeoptions.NewAuthenticationOptions().WithAll()
	if cp {
		dir, err := os.MkdirTemp("", "verif-c10-")
		if err != nil {
			return err
		}
		g.tmpDir = dir
		f := dir + "/client-ca.crt"
		if err := os.WriteFile(f, caMaterial[baseCAID].certPEM, 0o600); err != nil {
			return err
		}
		cpAuthn.ClientCert.ClientCA = f
	}
	ln, err := net.Listen("tcp", "127.0.0.1:0")
	if err != nil {
		return err
	}
	cert, err := dynamiccertificates.NewStaticCertKeyContent("gateway-serving", baseServing.certPEM, baseServing.keyPEM)
	if err != nil {
		return err
	}
	serving := &genericserver.SecureServingInfo{Listener: ln, Cert: cert, DynamicClientConfig: g.ctl}
	authn := &genericserver.AuthenticationInfo{}
	// exactly the call of cmd/kube-gateway/app.CreateProxyConfig
	if err := proxyoptions.NewAuthenticationOptions().ApplyTo(authn, serving, nil, g.ctl, g.ctl, cpAuthn); err != nil {
		return err
	}
	var handler http.Handler = http.HandlerFunc(func(w http.ResponseWriter, req *http.Request) {
		name := "<no user>"
		if u, ok := genericapirequest.UserFrom(req.Context()); ok {
			name = u.GetName()
		}
		w.Write([]byte("user=" + name)) //nolint
	})
	failed := http.HandlerFunc(func(w http.ResponseWriter, req *http.Request) {
		w.WriteHeader(http.StatusUnauthorized)
		w.Write([]byte("unauthorized")) //nolint
	})
	handler = genericapifilters.WithAuthentication(handler, authn.Authenticator, failed, authn.APIAudiences)
	handler = genericapifilters.WithRequestInfo(handler, genericserver.NewRequestInfoResolver(&genericserver.Config{}))
	serving.ErrorLog = nil
	if _, err := serving.Serve(handler, 0, g.stop); err != nil {
		return err
	}
	g.addr = ln.Addr().String()
	return nil
}

// exchange: one TLS connection with the given SNI carrying one request with the given Host.
// Returns what the client saw of the handshake (server certificate id, advertised CA id, whether a certificate was
// requested) and the authentication outcome: user | anonymous | rejected | other:<detail>.
func (g *gateway) exchange(sni, host string, cert int) (tlsObs []interface{}, outcome string) {
	requested := false
	adv := -1
	cfg := &tls.Config{
		ServerName:         sni,
		InsecureSkipVerify: true, // the server certificate is identified, not verified
		GetClientCertificate: func(info *tls.CertificateRequestInfo) (*tls.Certificate, error) {
			requested = true
			switch len(info.AcceptableCAs) {
			case 0:
				adv = -1
			case 1:
				if id, ok := caBySubject[string(info.AcceptableCAs[0])]; ok {
					adv = id
				} else {
					adv = -2
				}
			default:
				adv = -2
			}
			if c, ok := clientCerts[cert]; ok {
				return &c, nil // like curl/openssl: present the configured certificate whenever one is requested
			}
			return &tls.Certificate{}, nil
		},
	}
	raw, err := net.DialTimeout("tcp", g.addr, 5*time.Second)
	if err != nil {
		return nil, "other:dial " + err.Error()
	}
	defer raw.Close()
	raw.SetDeadline(time.Now().Add(20 * time.Second)) //nolint
	conn := tls.Client(raw, cfg)
	if err := conn.Handshake(); err != nil {
		return nil, "other:handshake " + err.Error()
	}
	srv := -1
	if pcs := conn.ConnectionState().PeerCertificates; len(pcs) > 0 {
		if id, ok := certByDER[string(pcs[0].Raw)]; ok {
			srv = id
		} else {
			srv = -2
		}
	}
	fmt.Fprintf(conn, "GET /api/v1/namespaces HTTP/1.1\r\nHost: %s\r\nConnection: close\r\n\r\n", host)
	resp, err := http.ReadResponse(bufio.NewReader(conn), nil)
	if err != nil {
		return nil, "other:response " + err.Error()
	}
	body, _ := io.ReadAll(resp.Body)
	resp.Body.Close()
	tlsObs = []interface{}{srv, adv, requested}
	switch {
	case resp.StatusCode == http.StatusUnauthorized:
		outcome = "rejected"
	case resp.StatusCode != http.StatusOK:
		outcome = fmt.Sprintf("other:status %d", resp.StatusCode)
	case string(body) == "user=system:anonymous":
		outcome = "anonymous"
	case cert >= 0 && string(body) == fmt.Sprintf("user=user-%d", cert):
		outcome = "user"
	default:
		outcome = "other:" + string(body)
	}
	return
}

type authReply struct {
	State  State           `json:"state"`
	Out    []string        `json:"out"`
	TLS    [][]interface{} `json:"tls"`
	Inv    bool            `json:"inv"`
	Mirror bool            `json:"mirror"`
}

func canonTLS(t []interface{}) string {
	out := make([]interface{}, len(t))
	for i, x := range t {
		if f, ok := x.(float64); ok {
			out[i] = int(f)
		} else {
			out[i] = x
		}
	}
	return rig.Canon(out)
}

func runAuth(c *rig.Ctx, cs Case, count bool) (v verdict) {
	if os.Getenv("C10_TIMING") != "" {
		t0 := time.Now()
		defer func() { fmt.Fprintf(os.Stderr, "auth case: %v (%d steps, %d reqs)\n", time.Since(t0), len(cs.Steps), len(cs.Reqs)) }()
	}
	inconclusive := func(why string) verdict {
		if count {
			c.Count("gateway-inconclusive:" + why)
		}
		return verdict{}
	}
	g := startGateway()
	defer g.shutdown()
	if g.deaf {
		return inconclusive("informer-never-watched")
	}
	if err := g.serve(cs.CP); err != nil {
		return inconclusive("serve:" + err.Error())
	}
	for _, st := range cs.Steps {
		if st.K == "sync" {
			continue
		}
		if _, err := g.write(st); err != nil {
			return inconclusive("fake-clientset")
		}
		if !waitFor(g.quiet, 30*time.Second) {
			return inconclusive("never-quiescent")
		}
	}
	st := g.observe()
	if st == nil {
		return inconclusive("never-quiescent")
	}
	if m := g.panicMsg.Load(); m != nil {
		return verdict{Kind: "judge", Class: "c10.run.handler-panic", What: "the sync handler panicked inside the real Run loop: " + fmt.Sprint(m)}
	}
	// the model's steps: every write is followed by the handler invocation the queue makes for it
	var steps []Step
	for _, s := range cs.Steps {
		if s.K == "sync" {
			continue
		}
		steps = append(steps, s, Step{K: "sync", Name: s.Name})
	}
	cpID := -1
	base := map[string]interface{}{"cert": baseCertID, "ca": -1, "auth": false}
	if cs.CP {
		cpID = baseCAID
		base = map[string]interface{}{"cert": baseCertID, "ca": baseCAID, "auth": true}
	}
	reqs := [][]interface{}{}
	for _, r := range cs.Reqs {
		reqs = append(reqs, []interface{}{r.SNI, r.Host, r.Cert})
	}
	args := map[string]interface{}{"steps": steps, "base": base, "localAddr": rig.Hex(g.addr), "cp": cpID, "reqs": reqs, "state": st}
	if t := lowerTable(cs); len(t) > 0 {
		args["lower"] = t
	}
	var want authReply
	if err := c.Model("C10.auth", args, &want); err != nil {
		return verdict{Kind: "diff", Class: "c10.judge-error", What: "judge could not be evaluated: " + err.Error()}
	}
	if !want.Inv {
		return verdict{Kind: "judge", Class: "c10.run.inv", Impl: st,
			What: "real informer + queue + Run(): when everything is quiet: " + describe(*st)}
	}
	if !want.Mirror {
		return verdict{Kind: "judge", Class: "c10.run.mirror", Impl: st,
			What: "real informer + queue + Run(), admissible history written one object at a time: the served names / TLS material are not exactly those of the current objects"}
	}
	users, anon := 0, 0
	for i, r := range cs.Reqs {
		tobs, got := g.exchange(rig.UnHex(r.SNI), rig.UnHex(r.Host), r.Cert)
		exp := want.Out[i]
		if count {
			c.Count("auth:outcome:" + strings.SplitN(got, ":", 2)[0])
		}
		where := fmt.Sprintf("gateway %s --client-ca-file, connection SNI %q, request Host %q, client certificate signed by CA %d",
			map[bool]string{true: "WITH", false: "WITHOUT"}[cs.CP], rig.UnHex(r.SNI), rig.UnHex(r.Host), r.Cert)
		if got != exp {
			class, kind := "c10.auth.outcome", "judge"
			switch {
			case exp == "user":
				class = "c10.auth.valid-cert-not-authenticated"
			case got == "user":
				class = "c10.auth.foreign-cert-accepted"
			case got == "rejected" && exp == "anonymous":
				// stricter than the model (a certificate nobody can verify is refused instead of ignored): not
				// against the property, a tie difference
				class, kind = "c10.auth.stricter", "diff"
			}
			return verdict{Kind: kind, Class: class, Impl: map[string]interface{}{"outcome": got, "state": st}, Model: exp,
				What: fmt.Sprintf("%s: served as %q, but the verify options of the cluster the host resolves to (control-plane CA otherwise) prescribe %q", where, got, exp)}
		}
		if tobs != nil && canonTLS(tobs) != canonTLS(want.TLS[i]) {
			// the advertised CA is only observable when a certificate is requested
			w := want.TLS[i]
			if !(len(w) == 3 && w[2] == false && tobs[2] == false && canonTLS(tobs[:1]) == canonTLS(w[:1])) {
				return verdict{Kind: "judge", Class: "c10.wired.tls", Impl: tobs, Model: w,
					What: fmt.Sprintf("%s: the handshake presented [server certificate, advertised client CA, certificate requested] = %v, the cluster the SNI resolves to prescribes %v", where, tobs, w)}
			}
		}
		if got == "user" {
			users++
		}
		if got == "anonymous" {
			anon++
		}
	}
	// diff: the model run on the history
	delete(args, "state")
	var m authReply
	if err := c.Model("C10.auth", args, &m); err != nil {
		return verdict{Kind: "diff", Class: "c10.model-error", What: "model error: " + err.Error()}
	}
	sort.Slice(m.State.Keys, func(a, b int) bool { return m.State.Keys[a][0].(string) < m.State.Keys[b][0].(string) })
	for _, k := range m.State.Keys {
		if f, ok := k[1].(float64); ok {
			k[1] = int(f)
		}
	}
	if rig.Canon(canonState(m.State)) != rig.Canon(canonState(*st)) {
		return verdict{Kind: "diff", Class: "c10.run.state", Impl: st, Model: m.State,
			What: "real informer + queue + Run(): the quiescent state differs from the model run on the same history (write, sync, write, sync, …)"}
	}
	if rig.Canon(m.Out) != rig.Canon(want.Out) {
		return verdict{Kind: "diff", Class: "c10.auth.model", Impl: want.Out, Model: m.Out, What: "authentication outcomes: model on its own state vs model on the observed state"}
	}
	return
}

func genAuth(r *rand.Rand) Case {
	g := &gstate{r: r, kind: "admissible", lister: map[string]*Spec{}}
	nc := 2 + r.Intn(3)
	g.names = append([]string{}, universe[:nc]...)
	g.pool = append([]string{}, universe...)
	target := 2 + r.Intn(6)
	for tries := 0; len(g.steps) < target && tries < 40; tries++ {
		if ex := g.existing(); len(ex) > 1 && r.Intn(6) == 0 {
			g.unset(rig.Pick(r, ex))
			continue
		}
		c := rig.Pick(r, g.names)
		if _, ok := g.lister[c]; !ok && g.claimedByOthers(c)[c] {
			continue
		}
		sp := g.spec(c, true)
		// only well-formed host names here (they travel in a real Host header / SNI)
		var al []string
		for _, a := range sp.Aliases {
			s := rig.UnHex(a)
			if s != "" && !strings.ContainsAny(s, ":") && net.ParseIP(s) == nil {
				al = append(al, a)
			}
		}
		sp.Aliases = al
		if al == nil {
			sp.Aliases = []string{}
		}
		if r.Intn(10) < 7 {
			sp.CA = 1 + r.Intn(nCAs) // most clusters bring their own client CA
		}
		g.set(c, sp)
	}
	cs := Case{Kind: "auth", Steps: g.steps, CP: r.Intn(2) == 0}
	certs := []int{-1, 1, 2, 3, baseCAID, strangerCAID}
	var hosts []string
	for n, sp := range g.lister {
		hosts = append(hosts, n)
		for _, a := range sp.Aliases {
			hosts = append(hosts, rig.UnHex(a))
		}
	}
	sort.Strings(hosts)
	hosts = append(hosts, "unknown.example")
	for i, n := 0, 10+r.Intn(8); i < n; i++ {
		h := rig.Pick(r, hosts)
		sni, host := h, h
		switch r.Intn(8) {
		case 0:
			sni = caseVar(r, h)
		case 1:
			host = caseVar(r, h) + ":6443"
		case 2:
			host = h + ":443"
		case 3:
			// SNI and Host of different clusters: handshake material follows the SNI, verification the Host
			host = rig.Pick(r, hosts)
		case 4:
			sni = ""
		}
		cert := rig.Pick(r, certs)
		if sp, ok := g.lister[strings.ToLower(h)]; ok && sp.CA > 0 && r.Intn(2) == 0 {
			cert = sp.CA // the interesting half: the certificate of the addressed cluster's own CA
		}
		cs.Reqs = append(cs.Reqs, Req{SNI: rig.Hex(sni), Host: rig.Hex(host), Cert: cert})
	}
	return cs
}
