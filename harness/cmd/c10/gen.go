package main

import (
	"math/rand"
	"strings"

	"verifharness/rig"
)

// the 6-name universe (plus two names that non-ASCII server names lower-case onto, for the unicode stream)
var universe = []string{"a.example", "b.example", "c.example", "d.example", "x.example", "y.example"}
var uniExtra = []string{"k.example", "i.example"}

// non-ASCII / invalid UTF-8 server names: Kelvin sign (lower-cases to ASCII k), umlauts in both cases, dotted
// capital I, a title-case digraph, sharp s, long s, an invalid byte followed by an upper-case letter
var uniNames = []string{"\u212a.example", "K.example", "\u00e4.example", "\u00c4.EXAMPLE", "\u0130.example", "I.example",
	"\u01c5.example", "\u01c6.example", "\u00df.example", "\u017f.example", "\xffA.example", "\xffa.example", "\u00c4.example:443"}

func caseVar(r *rand.Rand, s string) string {
	b := []byte(s)
	for i := range b {
		if b[i] >= 'a' && b[i] <= 'z' && r.Intn(5) < 2 {
			b[i] -= 32
		}
	}
	return string(b)
}

type gstate struct {
	r      *rand.Rand
	kind   string
	names  []string         // object names in play
	pool   []string         // names server names are drawn from
	lister map[string]*Spec // the generator's own view of the lister (raw object name -> spec)
	steps  []Step
}

func (g *gstate) claimedByOthers(owner string) map[string]bool {
	m := map[string]bool{}
	for n, sp := range g.lister {
		if strings.ToLower(n) == strings.ToLower(owner) {
			continue
		}
		m[strings.ToLower(n)] = true
		for _, a := range sp.Aliases {
			m[strings.ToLower(rig.UnHex(a))] = true
		}
	}
	return m
}

func (g *gstate) alias(owner string, prev []string) string {
	r := g.r
	x := r.Intn(100)
	base := rig.Pick(r, g.pool)
	switch {
	case g.kind == "unicode" && x < 35:
		return rig.Pick(r, uniNames)
	case x < 55:
		return base
	case x < 80:
		return caseVar(r, base)
	case x < 86 && len(prev) > 0:
		return rig.UnHex(rig.Pick(r, prev)) // duplicate
	case x < 89:
		return owner // own name
	case x < 92:
		return caseVar(r, owner)
	case x < 95:
		return base + ":443"
	case x < 97:
		return rig.Pick(r, []string{"10.0.0.1", "127.0.0.1"})
	case x < 98:
		return ""
	}
	return caseVar(r, base)
}

func (g *gstate) spec(owner string, admissible bool) *Spec {
	r := g.r
	sp := &Spec{Aliases: []string{}, Cert: -1, CA: -1}
	n := []int{0, 0, 0, 1, 1, 1, 1, 2, 2, 2, 3}[r.Intn(11)]
	var claimed map[string]bool
	if admissible {
		claimed = g.claimedByOthers(owner)
	}
	for i := 0; i < n; i++ {
		for try := 0; try < 6; try++ {
			a := g.alias(owner, sp.Aliases)
			if admissible && claimed[strings.ToLower(a)] {
				continue
			}
			sp.Aliases = append(sp.Aliases, rig.Hex(a))
			break
		}
	}
	if r.Intn(10) < 6 {
		// few distinct pairs, so that consecutive versions of a cluster often differ in ONE half only: ids i and i+4
		// share the key (renewal); `half` delivers cert and key in different updates
		sp.Cert = rig.Pick(r, []int{1, 5, 1, 5, 2, 6, 3, 7, 4, 8})
		if x := r.Intn(12); x == 0 {
			sp.Half = "cert"
		} else if x == 1 {
			sp.Half = "key"
		}
	}
	if r.Intn(10) < 5 {
		sp.CA = 1 + r.Intn(nCAs)
	}
	if !admissible && r.Intn(100) < 6 {
		sp.Bad = true
	}
	return sp
}

func (g *gstate) set(name string, sp *Spec) {
	g.steps = append(g.steps, Step{K: "set", Name: rig.Hex(name), Spec: sp})
	g.lister[name] = sp
}
func (g *gstate) unset(name string) {
	g.steps = append(g.steps, Step{K: "unset", Name: rig.Hex(name)})
	delete(g.lister, name)
}
func (g *gstate) sync(name string) {
	st := Step{K: "sync", Name: rig.Hex(name)}
	if g.r.Intn(5) == 0 {
		st.Ev = 1 + g.r.Intn(3) // the queue re-delivers a superseded event object
	}
	g.steps = append(g.steps, st)
}

func (g *gstate) existing() []string {
	var l []string
	for _, n := range g.names {
		if _, ok := g.lister[n]; ok {
			l = append(l, n)
		}
	}
	return l
}

func without(l []string, x string) []string {
	out := []string{}
	for _, a := range l {
		if a != x {
			out = append(out, a)
		}
	}
	return out
}

func gen(r *rand.Rand, kind string) Case {
	g := &gstate{r: r, kind: kind, lister: map[string]*Spec{}}
	nc := 3 + r.Intn(3)
	g.names = append([]string{}, universe[:nc]...)
	g.pool = append([]string{}, universe...)
	if kind == "unicode" {
		g.pool = append(g.pool, uniExtra...)
		if r.Intn(2) == 0 {
			g.names = append(g.names, uniExtra[r.Intn(2)])
		}
	}
	target := 12 + r.Intn(29)
	for len(g.steps) < target {
		x := r.Intn(100)
		if kind == "admissible" {
			switch {
			case x < 60:
				c := rig.Pick(r, g.names)
				if _, ok := g.lister[c]; !ok && g.claimedByOthers(c)[c] {
					continue // its name is another cluster's server name: the plug-in would refuse it
				}
				g.set(c, g.spec(c, true))
				g.sync(c)
			case x < 80:
				if ex := g.existing(); len(ex) > 0 {
					c := rig.Pick(r, ex)
					g.unset(c)
					g.sync(c)
				}
			default:
				g.sync(rig.Pick(r, g.names))
			}
			continue
		}
		switch {
		case x < 40:
			c := rig.Pick(r, g.names)
			g.set(c, g.spec(c, r.Intn(3) == 0))
			g.sync(c)
		case x < 52:
			// move a server name from A to B, in either order
			var cands []string
			for _, n := range g.existing() {
				if len(g.lister[n].Aliases) > 0 {
					cands = append(cands, n)
				}
			}
			if len(cands) == 0 {
				continue
			}
			a := rig.Pick(r, cands)
			b := rig.Pick(r, without(g.names, a))
			spA := *g.lister[a]
			moved := rig.Pick(r, spA.Aliases)
			spA.Aliases = without(spA.Aliases, moved)
			spB := &Spec{Aliases: []string{}, Cert: -1, CA: -1}
			if old, ok := g.lister[b]; ok {
				cp := *old
				cp.Aliases = append([]string{}, old.Aliases...)
				spB = &cp
			}
			mv := moved
			if r.Intn(3) == 0 {
				mv = rig.Hex(caseVar(r, rig.UnHex(moved)))
			}
			spB.Aliases = append(spB.Aliases, mv)
			if r.Intn(2) == 0 {
				g.set(a, &spA)
				g.sync(a)
				g.set(b, spB)
				g.sync(b)
			} else {
				g.set(b, spB)
				g.sync(b) // refused while A still holds the name
				g.set(a, &spA)
				g.sync(a)
				if r.Intn(4) > 0 {
					g.sync(b) // the retry
				}
			}
		case x < 64:
			if ex := g.existing(); len(ex) > 0 {
				c := rig.Pick(r, ex)
				g.unset(c)
				g.sync(c)
			}
		case x < 72:
			c := rig.Pick(r, g.names)
			g.set(c, g.spec(c, false)) // queued, not synced yet
		case x < 77:
			if ex := g.existing(); len(ex) > 0 {
				g.unset(rig.Pick(r, ex))
			}
		case x < 92:
			g.sync(rig.Pick(r, g.names))
		case x < 96:
			// an object name that NameIsDNSSubdomain would refuse (upper case): the controller lower-cases it
			c := caseVar(r, rig.Pick(r, g.names))
			if r.Intn(3) == 0 {
				if _, ok := g.lister[c]; ok {
					g.unset(c)
					g.sync(c)
					continue
				}
			}
			g.set(c, g.spec(c, false))
			g.sync(c)
		default:
			// two clusters exchange a server name through an intermediate state
			ex := g.existing()
			if len(ex) < 2 {
				continue
			}
			a, b := ex[0], ex[1]
			spA, spB := *g.lister[a], *g.lister[b]
			spA.Aliases, spB.Aliases = append([]string{}, g.lister[b].Aliases...), append([]string{}, g.lister[a].Aliases...)
			g.set(a, &spA)
			g.set(b, &spB)
			g.sync(a)
			g.sync(b)
			g.sync(a)
		}
	}
	cs := Case{Kind: kind, Steps: g.steps}
	cs.Probes, cs.SNIs = probes(r, kind)
	return cs
}

func probes(r *rand.Rand, kind string) (ps, snis []string) {
	names := append([]string{}, universe...)
	if kind == "unicode" {
		names = append(names, uniExtra...)
	}
	for _, n := range names {
		u := strings.ToUpper(n)
		ps = append(ps, n, u, n+":443", caseVar(r, n)+":6443", "["+n+"]:443", n+":", n+":1:2", "["+n+"]")
		snis = append(snis, n, caseVar(r, n))
	}
	ps = append(ps, "", ":", ":443", "[::1]:6443", "::1", "127.0.0.1:6443", "127.0.0.1", "10.0.0.1", "10.0.0.1:443", "[a.example", "a.example]:1",
		"a.example:443:", "x.example:443:443", "[a.example]x:1", "[[a.example]:1", "[a.example]]:1", "a.ex[ample:1", "unknown.example", "A.EXAMPLE.")
	snis = append(snis, "", "x.example:443", "b.example:443", "10.0.0.1", "127.0.0.1", "unknown.example")
	if kind == "unicode" {
		for _, n := range uniNames {
			ps = append(ps, n, n+":443", strings.ToUpper(n))
			snis = append(snis, n)
		}
	}
	return rig.HexList(ps), rig.HexList(snis)
}
