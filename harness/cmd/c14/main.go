// C14 harness: sequences of real MatchAttributes(...).Pop() picks — sequential and from 2-32 concurrent goroutines — on a
// real ClusterInfo whose ready set is stable, from arbitrary cursor values, against the Lean model
// KG.Model.Endpoints.popMany, judged by the counting statements of KG.Props.C14 (strictOK / boundedOK).
package main

import (
	"encoding/json"
	"errors"
	"fmt"
	"math"
	"os"
	"path/filepath"
	"sort"
	"strings"
	"sync"
	"time"

	"github.com/kubewharf/kubegateway/pkg/clusters"

	lib "verifharness/c03lib"
	"verifharness/rig"
)

type StartCursor struct {
	Policy int    `json:"policy"`
	C      uint64 `json:"c"`
}

type Case struct {
	Kind  string        `json:"kind"` // "seq": consecutive picks; "conc": G goroutines x M picks
	Setup []lib.Op      `json:"setup"`
	// seq: the policy of each pick (an index past the last policy: ClusterInfo.PickOne(), what token authentication does per
	// request); -1-v (v < resyncVariants): a Sync that leaves the servers as they are (variant v, see resyncOp); -1000-i: a health
	// probe of server i of the first Sync that answers what it answered before (TriggerHealthCheck); conc: goroutine i uses Picks[i % len]
	Picks []int `json:"picks"`
	Resync bool         `json:"resync"` // conc: one more goroutine keeps issuing such Syncs while the pickers run
	// conc, Cold > 0: instead of one long run, Cold bursts one after the other, each on a picker over another ORDER of the
	// servers (a cursor that does not exist yet): all G goroutines meet the missing cursor at the same moment
	Cold int `json:"cold"`
	Reuse bool          `json:"reuse"` // one picker per policy (seq) / per goroutine (conc) instead of MatchAttributes per pick
	Start []StartCursor `json:"start"` // cursor values installed before the picks (for every order of the policy's ready set)
	G     int           `json:"g"`
	M     int           `json:"m"`
	// kind "churn": server lists synced one after the other while G pickers run; then quiescence and a fresh window of M picks
	// per policy judged against the final configuration (churn.go)
	Churn [][]lib.Server `json:"churn"`
	// kind "e2e": requests through the real handler chain, counted at the upstream servers (e2e.go)
	E2E *E2E `json:"e2e,omitempty"`
}

type group struct {
	Members    []lib.Ident `json:"members"`
	K          int         `json:"k"`
	Orders     int         `json:"orders"`
	N          int         `json:"n"`
	Applicable bool        `json:"applicable"`
	Strays     bool        `json:"strays"`
	Counts     []struct {
		ID    lib.Ident `json:"id"`
		Count int       `json:"count"`
	} `json:"counts"`
	Bad *struct {
		ID    lib.Ident `json:"id"`
		Count int       `json:"count"`
	} `json:"bad"`
}

type reply struct {
	Results []*lib.OutJ `json:"results"`
	Lb      []lib.LbEnt `json:"lb"`
	LbPick  []lib.LbEnt `json:"lb_pickone"` // PickOne's own cursors, when the code gives it some
	Groups  []group     `json:"groups"`
	PolicyBad *struct {
		Policy int       `json:"policy"`
		ID     lib.Ident `json:"id"`
		Count  int       `json:"count"`
		N      int       `json:"n"`
	} `json:"policy_bad"`
}

type info struct {
	maxK, maxOrders, n int
	applicable         bool
	kind, class        string // of the failure, when runCase returns false
	failure            *rig.Failure
}

var quiesceTimeout = 20 * time.Second

// permuteStrings returns up to n distinct orders of l (rotations and swaps first, deterministic).
func permuteStrings(l []string, n int) [][]string {
	var res [][]string
	seen := map[string]bool{}
	var rec func(cur, rest []string)
	rec = func(cur, rest []string) {
		if len(res) >= n {
			return
		}
		if len(rest) == 0 {
			k := strings.Join(cur, ",")
			if !seen[k] {
				seen[k] = true
				res = append(res, append([]string{}, cur...))
			}
			return
		}
		for i := range rest {
			next := append(append([]string{}, rest[:i]...), rest[i+1:]...)
			rec(append(append([]string{}, cur...), rest[i]), next)
		}
	}
	rec(nil, l)
	return res
}

func permutations(l []*clusters.EndpointInfo) [][]*clusters.EndpointInfo {
	if len(l) <= 1 {
		return [][]*clusters.EndpointInfo{append([]*clusters.EndpointInfo{}, l...)}
	}
	var res [][]*clusters.EndpointInfo
	for i := range l {
		rest := append(append([]*clusters.EndpointInfo{}, l[:i]...), l[i+1:]...)
		for _, p := range permutations(rest) {
			res = append(res, append([]*clusters.EndpointInfo{l[i]}, p...))
		}
	}
	return res
}

// resyncOp is a Sync that leaves the server list as it is (same endpoint names, same disabled marks) while something else
// differs: v%ExtraKinds picks the unrelated field (logging, logMode, flow control, annotation, client QPS, nothing),
// (v/ExtraKinds)%3 the shape of the list (same / reversed / first entry listed twice).
func resyncOp(first lib.Op, v int) lib.Op {
	op := first
	op.Extra = v % lib.ExtraKinds
	sv := append([]lib.Server{}, first.Servers...)
	switch (v / lib.ExtraKinds) % 3 {
	case 1:
		for i, j := 0, len(sv)-1; i < j; i, j = i+1, j-1 {
			sv[i], sv[j] = sv[j], sv[i]
		}
	case 2:
		if len(sv) > 0 {
			sv = append(sv, sv[0])
		}
	}
	op.Servers = sv
	return op
}

const resyncVariants = lib.ExtraKinds * 3

// movedKey finds the cursor a pick advanced: the ordered ready list (endpoint names, hex) and whether the key carries a scope
// prefix (PickOne's own cursors). nil when no cursor moved.
func movedKey(w *lib.World, before, after map[string]uint64) ([]string, bool) {
	for k, v := range after {
		if before[k] == v {
			continue
		}
		list, own := k, false
		if i := strings.Index(k, "["); i > 0 {
			list, own = k[i:], true
		}
		_, lb, _ := w.Snapshot()
		for _, ent := range lb {
			if (ent.Scope != "") != own || ent.C != v {
				continue
			}
			var addrs []string
			for _, id := range ent.Key {
				addrs = append(addrs, id.N)
			}
			// the entry whose rendering is this key
			if w.KeyString(ent) == list {
				return addrs, own
			}
		}
	}
	return nil, false
}

func readable(cs Case) string {
	var b strings.Builder
	for _, op := range cs.Setup {
		if op.Op == "sync" {
			var s []string
			for _, x := range op.Servers {
				n := rig.UnHex(x.Ep)
				if x.Dis {
					n += "(disabled)"
				}
				s = append(s, n)
			}
			var down []string
			for _, u := range op.Up {
				if !u.H {
					down = append(down, rig.UnHex(u.N))
				}
			}
			var p []string
			for _, x := range op.Policies {
				var l []string
				for _, y := range x {
					l = append(l, rig.UnHex(y))
				}
				p = append(p, fmt.Sprint(l))
			}
			fmt.Fprintf(&b, "sync servers=%v subsets=%v down=%v; ", s, p, down)
		} else {
			fmt.Fprintf(&b, "%s(%s,%v); ", op.Op, rig.UnHex(op.N), op.H)
		}
	}
	if cs.Kind == "setup-only" {
		return strings.TrimSuffix(b.String(), "; ")
	}
	if cs.Kind == "conc" {
		if cs.Cold > 0 {
			fmt.Fprintf(&b, "%d bursts, each %d goroutines x %d picks on a picker over another order of the servers (a cursor that does not exist yet)", cs.Cold, cs.G, cs.M)
		} else {
			fmt.Fprintf(&b, "%d goroutines x %d picks, policies %v, reuse=%v, start=%v, concurrent unchanged-server Syncs=%v", cs.G, cs.M, cs.Picks, cs.Reuse, cs.Start, cs.Resync)
		}
	} else {
		np, ns, npr, npo := 0, 0, 0, 0
		for _, p := range cs.Picks {
			switch {
			case p <= -1000:
				npr++
			case p < 0:
				ns++
			case p >= 3:
				npo++
				np++
			default:
				np++
			}
		}
		fmt.Fprintf(&b, "%d consecutive picks (%d of them PickOne() = entry 3) with %d unchanged-server Syncs (entries -1..-21) and %d no-change health probes (entries <= -1000) in between, entries %v, reuse=%v, start=%v", np, npo, ns, npr, compress(cs.Picks), cs.Reuse, cs.Start)
	}
	return b.String()
}

func compress(l []int) string {
	if len(l) <= 12 {
		return fmt.Sprint(l)
	}
	return fmt.Sprintf("%v...(%d)", l[:12], len(l))
}

func runCase(c *rig.Ctx, cs Case, record bool, inf *info) (ok bool) {
	if cs.Kind == "churn" {
		return runChurn(c, cs, record, inf)
	}
	if cs.Kind == "e2e" {
		return runE2E(c, cs, record, inf)
	}
	fail := func(kind, class, what string, impl, model interface{}) bool {
		inf.kind, inf.class = kind, class
		inf.failure = &rig.Failure{Kind: kind, Class: class, What: what + " | case: " + readable(cs), Case: cs, Impl: impl, Model: model}
		if record {
			c.Fail(*inf.failure)
		}
		return false
	}
	if !lib.WaitNoHealthGoroutines(20 * time.Second) {
		return fail("diff", "c14.leftover-goroutines", "health-check workers of a stopped cluster are still alive", nil, nil)
	}
	w := lib.NewWorld()
	w.Timeout = quiesceTimeout
	defer w.Stop()
	setup := make([]lib.Op, len(cs.Setup))
	copy(setup, cs.Setup)
	var setupDiff *lib.SetupMismatch
	if _, err := lib.Play(c, w, setup); err != nil {
		if !errors.As(err, &setupDiff) {
			return fail("diff", "c14.setup", "set-up: "+err.Error(), nil, nil)
		}
	}
	if setupDiff != nil {
		// the set-up differed from the model: go on, the property is judged on what the real code does; the difference is
		// reported unless the property itself is found to fail
		defer func() {
			if inf.kind != "judge" {
				fail("diff", "c14.setup", "set-up: "+setupDiff.What, nil, nil)
				ok = false
			}
		}()
	}
	if w.CI == nil {
		return true
	}
	// cursor values to start from
	lbModel := []lib.LbEnt{}
	seenKey := map[string]bool{}
	for _, sc := range cs.Start {
		p, err := w.CI.MatchAttributes(lib.AttrsFor(sc.Policy))
		if err != nil {
			continue
		}
		ready := w.ReadyObjects(clusters.VerifPickerUpstreams(p))
		if len(ready) < 2 {
			continue
		}
		orders := [][]*clusters.EndpointInfo{ready}
		if len(ready) <= 4 {
			orders = permutations(ready)
		}
		for _, o := range orders {
			key := lib.PolicyScopePrefix(sc.Policy) + lib.KeyOf(o)
			if seenKey[key] {
				continue
			}
			seenKey[key] = true
			if !clusters.VerifSetCursor(w.CI, key, sc.C) {
				continue // the representation of the cursors is not recognised: no preset
			}
			pol := sc.Policy
			lbModel = append(lbModel, lib.LbEnt{Key: w.Idents(o), C: sc.C, Policy: &pol})
		}
	}
	// the picks
	var uss [][]string
	events := []interface{}{} // the window as the model sees it: picks and Syncs in order
	syncErr := ""
	probeMoved := ""
	inconclusive := false
	var outs []*lib.OutJ
	pick := func(p clusters.EndpointPicker) ([]string, *lib.OutJ) {
		return rig.HexList(clusters.VerifPickerUpstreams(p)), w.PopPicker(p)
	}
	var panicMsg string
	if cs.Kind == "conc" && cs.Cold > 0 {
		names := append([]string{}, w.CI.AllEndpoints()...)
		sort.Strings(names)
		perms := permuteStrings(names, cs.Cold)
		for _, order := range perms {
			p := clusters.VerifNewPicker(w.CI, order)
			outsB := make([][]*lib.OutJ, cs.G)
			var wg sync.WaitGroup
			gate := make(chan struct{})
			for g := 0; g < cs.G; g++ {
				wg.Add(1)
				go func(g int) {
					defer wg.Done()
					if msg, panicked := rig.Recover(func() {
						<-gate
						for i := 0; i < cs.M; i++ {
							outsB[g] = append(outsB[g], w.PopPicker(p))
						}
					}); panicked {
						panicMsg = msg
					}
				}(g)
			}
			close(gate)
			wg.Wait()
			for g := range outsB {
				for _, o := range outsB[g] {
					uss = append(uss, rig.HexList(order))
					events = append(events, rig.HexList(order))
					outs = append(outs, o)
				}
			}
		}
	} else if cs.Kind == "conc" {
		type res struct {
			us  [][]string
			out []*lib.OutJ
		}
		results := make([]res, cs.G)
		var wg sync.WaitGroup
		var pmu sync.Mutex
		startGate := make(chan struct{})
		for g := 0; g < cs.G; g++ {
			wg.Add(1)
			go func(g int) {
				defer wg.Done()
				msg, panicked := rig.Recover(func() {
					pol := cs.Picks[g%len(cs.Picks)]
					var shared clusters.EndpointPicker
					<-startGate
					for i := 0; i < cs.M; i++ {
						p := shared
						if p == nil {
							var err error
							p, err = w.CI.MatchAttributes(lib.AttrsFor(pol))
							if err != nil {
								return
							}
							if cs.Reuse {
								shared = p
							}
						}
						us, out := pick(p)
						results[g].us = append(results[g].us, us)
						results[g].out = append(results[g].out, out)
					}
				})
				if panicked {
					pmu.Lock()
					panicMsg = msg
					pmu.Unlock()
				}
			}(g)
		}
		stopResync := make(chan struct{})
		resyncDone := make(chan struct{})
		go func() {
			defer close(resyncDone)
			if !cs.Resync {
				return
			}
			<-startGate
			for v := 0; ; v++ {
				select {
				case <-stopResync:
					return
				default:
				}
				op := resyncOp(cs.Setup[0], v%resyncVariants)
				if _, panicked := rig.Recover(func() {
					if err := w.SyncX(op.Servers, op.Policies, op.Extra); err != nil {
						pmu.Lock()
						syncErr = err.Error()
						pmu.Unlock()
					}
				}); panicked {
					return
				}
				time.Sleep(20 * time.Microsecond)
			}
		}()
		close(startGate)
		done := make(chan struct{})
		go func() { wg.Wait(); close(stopResync); <-resyncDone; close(done) }()
		select {
		case <-done:
		case <-time.After(120 * time.Second):
			return fail("judge", "c14.hang", "concurrent pickers did not finish within 120 s", nil, nil)
		}
		for g, r := range results {
			uss = append(uss, r.us...)
			outs = append(outs, r.out...)
			for _, us := range r.us {
				events = append(events, map[string]interface{}{"pick": map[string]interface{}{"us": us, "policy": cs.Picks[g%len(cs.Picks)]}})
			}
		}
	} else {
		msg, panicked := rig.Recover(func() {
			pickers := map[int]clusters.EndpointPicker{}
			for _, pol := range cs.Picks {
				if (pol <= -1000 || pol >= len(cs.Setup[0].Policies)) && !w.CursorsVisible() {
					// probes-move-no-cursor and PickOne's order are read off the cursors: not observable in this representation
					c.Count("skipped:cursors-not-visible")
					continue
				}
				if pol <= -1000 {
					// a probe that changes nothing: same answer as before (reason / message of the status differ from probe to
					// probe); no cursor may move, no cursor may be dropped
					sv := cs.Setup[0].Servers
					if len(sv) == 0 {
						continue
					}
					name := sv[(-1000-pol)%len(sv)].Ep
					e, ok := w.Load(name)
					if !ok {
						continue
					}
					before := w.RawCursors()
					n0 := w.ProbesOf(e)
					probing := clusters.VerifEndpointStatus(e).Probing
					e.TriggerHealthCheck()
					if probing {
						deadline := time.Now().Add(w.Timeout)
						for w.ProbesOf(e) <= n0 && time.Now().Before(deadline) {
							time.Sleep(20 * time.Microsecond)
						}
						if w.ProbesOf(e) <= n0 {
							inconclusive = true // a wait against the wall clock ran out: the window proves nothing
							return
						}
					}
					w.DrainFired()
					after := w.RawCursors()
					if fmt.Sprint(before) != fmt.Sprint(after) && probeMoved == "" {
						probeMoved = fmt.Sprintf("a health probe of %s that answered what it answered before changed the round-robin cursors: before %v, after %v", rig.UnHex(name), before, after)
					}
					events = append(events, map[string]interface{}{"probe": lib.Op{Op: "trigger", N: name, Up: cs.Setup[0].Up}})
					continue
				}
				if pol >= len(cs.Setup[0].Policies) {
					// ClusterInfo.PickOne(): the order it iterated in and the cursor scope it used are read off the cursor that moved
					before := w.RawCursors()
					e, err := w.CI.PickOne()
					after := w.RawCursors()
					var out *lib.OutJ
					if err != nil {
						out = w.PopError(err)
					} else {
						out = &lib.OutJ{Ok: w.Ident(e)}
					}
					order, own := movedKey(w, before, after)
					if order == nil { // fewer than two ready endpoints: no cursor involved, any order gives the same answer
						order = rig.HexList(w.CI.AllEndpoints())
					}
					uss = append(uss, order)
					events = append(events, map[string]interface{}{"pickone": map[string]interface{}{"order": order, "own": own}})
					outs = append(outs, out)
					continue
				}
				if pol < 0 {
					op := resyncOp(cs.Setup[0], -1-pol)
					w.SetUp(op.Up)
					if err := w.SyncX(op.Servers, op.Policies, op.Extra); err != nil {
						syncErr = err.Error()
						return
					}
					events = append(events, map[string]interface{}{"sync": op})
					continue
				}
				p := pickers[pol]
				if p == nil {
					var err error
					p, err = w.CI.MatchAttributes(lib.AttrsFor(pol))
					if err != nil {
						continue
					}
					if cs.Reuse {
						pickers[pol] = p
					}
				}
				us, out := pick(p)
				uss = append(uss, us)
				events = append(events, map[string]interface{}{"pick": map[string]interface{}{"us": us, "policy": pol}})
				outs = append(outs, out)
			}
		})
		if panicked {
			panicMsg = msg
		}
	}
	if panicMsg != "" {
		return fail("judge", "c14.panic", "Pop panicked: "+panicMsg, nil, nil)
	}
	if inconclusive {
		c.Count("window-inconclusive: a triggered probe did not happen in time")
		return true
	}
	if syncErr != "" {
		return fail("diff", "c14.sync-error", "inside the window: "+syncErr, nil, nil)
	}
	if probeMoved != "" {
		return fail("judge", "c14.cursor-moved-by-probe", probeMoved, nil, nil)
	}
	if outs == nil {
		outs = []*lib.OutJ{}
	}
	for i, o := range outs {
		if strings.HasPrefix(o.Err, "other:") || strings.HasPrefix(o.Err, "status:") {
			return fail("judge", "c14.unexpected-error", fmt.Sprintf("pick %d: %s", i, o.Err), nil, nil)
		}
	}
	_, lbAfter, serr := w.Snapshot()
	var m reply
	if err := c.Model("C14.run", map[string]interface{}{"policy_scopes": lib.PolicyScopes(), "judge_per_policy": lib.PolicyScopes() || c.Search, "setup": cs.Setup, "lb": lbModel, "events": events, "impl": outs}, &m); err != nil {
		return fail("diff", "c14.model-error", "model error "+err.Error(), nil, nil)
	}
	// judge: the counting statements on the implementation's results
	for _, g := range m.Groups {
		if g.K > inf.maxK {
			inf.maxK = g.K
		}
		if g.Orders > inf.maxOrders {
			inf.maxOrders = g.Orders
		}
		inf.applicable = inf.applicable || g.Applicable
		if g.Strays {
			return fail("judge", "c14.stray", fmt.Sprintf("a pick on the ready set %s answered something else (or an error)", idents(g.Members)), outsSummary(outs), nil)
		}
		if g.Bad != nil {
			lo, hi := g.N/g.K, (g.N+g.K-1)/g.K
			what := fmt.Sprintf("ready set %s (k=%d), %d picks over %d distinct orders: %s/%d was chosen %d times; ", idents(g.Members), g.K, g.N, g.Orders, rig.UnHex(g.Bad.ID.N), g.Bad.ID.Gen, g.Bad.Count)
			if g.Orders == 1 {
				what += fmt.Sprintf("strict round-robin allows %d..%d", lo, hi)
			} else {
				what += fmt.Sprintf("the bound is |k*count - N| <= D*(k-1) = %d", g.Orders*(g.K-1))
			}
			return fail("judge", "c14.uneven", what+"; counts "+countsOf(g), outsSummary(outs), nil)
		}
	}
	if m.PolicyBad != nil && cs.Kind == "seq" {
		pb := m.PolicyBad
		return fail("judge", "c14.policies-share-cursor", fmt.Sprintf("policy %d made %d picks over one ordered ready list while other policies picked in between: %s/%d was chosen %d times — not floor/ceil of its own picks: the policy does not rotate through ITS endpoints", pb.Policy, pb.N, rig.UnHex(pb.ID.N), pb.ID.Gen, pb.Count), outsSummary(outs), nil)
	}
	inf.n = len(outs)
	if serr != nil {
		return fail("diff", "c14.snapshot", serr.Error(), nil, nil)
	}
	// diff: the exact results (sequence, or multiset for concurrent pickers) and the final cursors
	is, ms := make([]string, len(outs)), make([]string, len(m.Results))
	for i := range outs {
		is[i] = lib.CanonOut(outs[i])
	}
	for i := range m.Results {
		ms[i] = lib.CanonOut(m.Results[i])
	}
	if cs.Kind == "conc" {
		sort.Strings(is)
		sort.Strings(ms)
	}
	if len(is) != len(ms) {
		return fail("diff", "c14.results", fmt.Sprintf("%d results from the code, %d from the model", len(is), len(ms)), nil, nil)
	}
	for i := range is {
		if is[i] != ms[i] {
			return fail("diff", "c14.results", fmt.Sprintf("result %d (%s): code %s, model %s", i, map[bool]string{true: "sorted multiset", false: "sequence"}[cs.Kind == "conc"], is[i], ms[i]), outsSummary(outs), nil)
		}
	}
	for _, e := range m.LbPick {
		e.Scope = "pickone:"
		m.Lb = append(m.Lb, e)
	}
	if a, b := lib.CanonLb(m.Lb), lib.CanonLb(lbAfter); a != b && w.CursorsVisible() {
		return fail("diff", "c14.cursors", fmt.Sprintf("final cursors: model [%s], code [%s]", a, b), nil, nil)
	}
	return true
}

func idents(l []lib.Ident) string {
	s := make([]string, len(l))
	for i, id := range l {
		s[i] = fmt.Sprintf("%s/%d", rig.UnHex(id.N), id.Gen)
	}
	return "{" + strings.Join(s, " ") + "}"
}

func countsOf(g group) string {
	s := make([]string, len(g.Counts))
	for i, c := range g.Counts {
		s[i] = fmt.Sprintf("%s=%d", rig.UnHex(c.ID.N), c.Count)
	}
	return strings.Join(s, " ")
}

func outsSummary(outs []*lib.OutJ) interface{} {
	cnt := map[string]int{}
	for _, o := range outs {
		cnt[lib.CanonOut(o)]++
	}
	return cnt
}

func epName(i int) string { return rig.Hex(fmt.Sprintf("http://127.0.0.1:%d", 21001+i)) }

// spelledName: endpoint strings that validation accepts and that are not all lower-case digits: upper-case letters in the
// host, IPv6 brackets with hex letters, a trailing slash, a default port, a path. They are used in servers AND subsets with
// exactly this spelling (validation demands it), so any normalisation on one path only makes a ready endpoint unreachable.
func spelledName(family, i int) string {
	switch family {
	case 1:
		return rig.Hex(fmt.Sprintf("http://Node-%d.Example.COM:8080", i))
	case 2:
		return rig.Hex(fmt.Sprintf("http://[2001:DB8::%X]:6443/", 10+i))
	case 3:
		return rig.Hex(fmt.Sprintf("http://API-%d.example:80/Base", i))
	}
	return epName(i)
}

func genCase(c *rig.Ctx, conc bool) Case {
	r := c.Rng
	u := []int{2, 3, 3, 4, 4, 5, 6}[r.Intn(7)]
	names := make([]string, u)
	family := 0
	if r.Intn(3) == 0 {
		family = 1 + r.Intn(3)
	}
	for i := range names {
		names[i] = spelledName(family, i)
		if family != 0 && r.Intn(3) == 0 {
			names[i] = spelledName(r.Intn(4), i) // mixed spellings in one cluster
		}
	}
	pReady := []float64{0.85, 0.95, 1.0}[r.Intn(3)]
	var servers []lib.Server
	var up []lib.UpEnt
	for i := 0; i < u; i++ {
		servers = append(servers, lib.Server{Ep: names[i], Dis: r.Float64() > pReady})
		up = append(up, lib.UpEnt{N: names[i], H: r.Float64() < pReady})
	}
	r.Shuffle(len(servers), func(i, j int) { servers[i], servers[j] = servers[j], servers[i] })
	subset := func() []string {
		perm := r.Perm(u)
		k := 1 + r.Intn(u)
		s := []string{}
		for _, i := range perm[:k] {
			s = append(s, names[i])
		}
		if r.Intn(12) == 0 { // a name twice: a weighted position
			s = append(s, s[r.Intn(len(s))])
		}
		if r.Intn(12) == 0 { // a name that is not a server
			s = append(s, epName(9))
		}
		return s
	}
	policies := [][]string{subset(), subset(), {}}
	if r.Intn(5) == 0 {
		policies[1] = append([]string{}, policies[0]...) // same ordered list: the two policies share one cursor
	}
	cs := Case{Setup: []lib.Op{{Op: "sync", Servers: servers, Policies: policies, Up: up}}, Reuse: r.Intn(2) == 0}
	// a few status changes after the first probes
	for i, n := 0, r.Intn(3); i < n; i++ {
		cs.Setup = append(cs.Setup, lib.Op{Op: "status", N: rig.Pick(r, names), H: r.Intn(3) != 0})
	}
	cursor := func() uint64 {
		switch r.Intn(10) {
		case 0, 1, 2, 3:
			return 0
		case 4, 5, 6:
			return uint64(r.Intn(1000))
		case 7, 8:
			return r.Uint64()
		default:
			return math.MaxUint64 - uint64(r.Intn(50)) // the uint64 wrap falls into the window
		}
	}
	for p := range policies {
		if r.Intn(2) == 0 {
			cs.Start = append(cs.Start, StartCursor{Policy: p, C: cursor()})
		}
	}
	if cs.Start == nil {
		cs.Start = []StartCursor{}
	}
	nmax := c.Budget(200, 1500)
	if c.Thorough() && r.Intn(20) == 0 {
		nmax = 10000
	}
	if conc {
		cs.Kind = "conc"
		cs.Resync = r.Intn(3) == 0
		if r.Intn(4) == 0 {
			cs.Cold, cs.Resync = 6+r.Intn(19), false
		}
		cs.G = 2 + r.Intn(31)
		cs.M = 1 + r.Intn(min(nmax, 400))
		if cs.Cold > 0 {
			cs.G, cs.M = 12*(1+r.Intn(2)), 5*(1+r.Intn(2)) // G*M = 60, 120, 240: every k <= 6 divides it
		} else if r.Intn(2) == 0 {
			// a total that every k <= 6 divides: then floor = ceil and a single lost or duplicated cursor value shows
			cs.M = 60 * (1 + r.Intn(max(min(nmax, 400)/60, 1)))
		}
		switch r.Intn(4) {
		case 0:
			cs.Picks = []int{0, 1, 2}
		case 1:
			cs.Picks = []int{2}
		default:
			cs.Picks = []int{r.Intn(2)}
		}
		return cs
	}
	cs.Kind = "seq"
	n := 1 + r.Intn(nmax)
	mixed := r.Intn(10) < 3
	one := r.Intn(3)
	// Syncs that leave the servers alone, arriving between the picks: after every 1..u-1 picks (fewer picks than ready
	// endpoints between two Syncs), or sparsely, or never
	gap := 0
	switch r.Intn(5) {
	case 0, 1:
		gap = 1 + r.Intn(max(u-1, 1))
	case 2:
		gap = 1 + r.Intn(20)
	}
	// what token authentication adds: ClusterInfo.PickOne() (policy index 3) before a request's pick, for all / some / no requests
	authEvery := []int{0, 0, 1, 2, 5}[r.Intn(5)]
	// health probes that answer what they answered before, between the picks
	probeGap := 0
	if r.Intn(5) < 2 {
		probeGap = 1 + r.Intn(4)
	}
	since := 0
	for i := 0; i < n; i++ {
		if authEvery > 0 && i%authEvery == 0 {
			cs.Picks = append(cs.Picks, 3)
		}
		if mixed {
			cs.Picks = append(cs.Picks, r.Intn(4))
		} else {
			cs.Picks = append(cs.Picks, one)
		}
		if probeGap > 0 && i%probeGap == 0 {
			cs.Picks = append(cs.Picks, -1000-r.Intn(u))
		}
		since++
		if gap > 0 && since >= gap {
			since = 0
			if r.Intn(4) != 0 || gap > 6 {
				cs.Picks = append(cs.Picks, -1-r.Intn(resyncVariants))
			}
			if r.Intn(3) == 0 {
				gap = 1 + r.Intn(max(u-1, 1))
			}
		}
	}
	return cs
}

// shrink keeps the kind of failure (a judge failure stays a judge failure of the same class)
func shrink(c *rig.Ctx, cs Case, kind, class string) Case {
	if cs.Kind == "churn" {
		return shrinkChurn(c, cs, kind, class)
	}
	if cs.Kind == "e2e" {
		return cs
	}
	fails := func(x Case) bool {
		var inf info
		return !runCase(c, x, false, &inf) && inf.kind == kind && (kind != "judge" || inf.class == class)
	}
	if cs.Kind == "seq" {
		cs.Picks = rig.ShrinkList(cs.Picks, func(l []int) bool { x := cs; x.Picks = l; return fails(x) })
	} else {
		for cs.M > 1 {
			x := cs
			x.M = cs.M / 2
			if !fails(x) {
				break
			}
			cs = x
		}
		for cs.G > 2 {
			x := cs
			x.G = cs.G / 2
			if x.G < 2 {
				x.G = 2
			}
			if !fails(x) {
				break
			}
			cs = x
		}
	}
	cs.Start = rig.ShrinkList(cs.Start, func(l []StartCursor) bool { x := cs; x.Start = l; return fails(x) })
	if len(cs.Setup) > 1 {
		rest := rig.ShrinkList(cs.Setup[1:], func(l []lib.Op) bool {
			x := cs
			x.Setup = append([]lib.Op{cs.Setup[0]}, l...)
			return fails(x)
		})
		cs.Setup = append([]lib.Op{cs.Setup[0]}, rest...)
	}
	return cs
}

func main() {
	lib.SilenceKlog()
	rig.Main("C14", func(c *rig.Ctx) {
		if !lib.CalibrateWorkers() {
			c.Note("health-check goroutines are not recognisable in this build's goroutine profile: the worker-count observation is off")
		}
		c.SetRule("one real ClusterInfo with 2-6 servers (some disabled/unhealthy), three policies (two explicit subsets in random order, sometimes with a repeated or stale name or identical to each other, and one without subset), cursors preset to 0 / small / random / near-2^64 values, then either N consecutive picks (one policy, or a random mix of the three) or 2-32 goroutines x M picks, through MatchAttributes(...).Pop() (new picker per pick or reused); distinct = distinct canonical case; non-trivial = some ready set has k >= 2 endpoints and the counting judge applies")
		if c.Replay != "" {
			var cs Case
			if err := c.LoadReplay(&cs); err != nil {
				fmt.Fprintln(os.Stderr, err)
				os.Exit(2)
			}
			var inf info
			c.Case(rig.Canon(cs), true, "replay", func() interface{} { return readable(cs) })
			c.Trace()
			runCase(c, cs, true, &inf)
			return
		}
		files, _ := filepath.Glob(filepath.Join(os.Getenv("VERIF_DIR"), "harness", "corpus", "C14", "*.json"))
		sort.Strings(files)
		for _, f := range files {
			b, _ := os.ReadFile(f)
			var env struct{ Case *Case }
			if json.Unmarshal(b, &env) != nil || env.Case == nil {
				continue
			}
			var inf info
			c.Case(rig.Canon(*env.Case), true, "corpus", nil)
			c.Trace()
			runCase(c, *env.Case, true, &inf)
		}
		n := c.Budget(300, 1500)
		picks := 0
		diffs, judged := 0, false
		known := lib.KnownClasses("C14")
		knownSeen := map[string]bool{}
		var deadline time.Time
		for i := 0; i < n && !judged; i++ {
			if !deadline.IsZero() && time.Now().After(deadline) {
				break
			}
			cs := genCase(c, i%3 == 2)
			if i%6 == 4 {
				cs = genChurn(c)
			}
			if i%6 == 1 {
				cs = genE2E(c)
			}
			var inf info
			ok := runCase(c, cs, false, &inf)
			picks += inf.n
			c.Case(rig.Canon(cs), inf.applicable, fmt.Sprintf("%s%s,k=%d,orders=%s", cs.Kind, resyncBucket(cs), inf.maxK, ordersBucket(inf.maxOrders)), func() interface{} {
				if cs.Kind == "churn" {
					return readableChurn(cs)
				}
				if cs.Kind == "e2e" {
					return readableE2E(cs)
				}
				return readable(cs)
			})
			c.Trace()
			if !ok && inf.kind == "judge" && known[inf.class] {
				// a registered finding: reported once (./check prints KNOWN-FINDING), the exploration goes on
				if !knownSeen[inf.class] {
					knownSeen[inf.class] = true
					c.Fail(*inf.failure)
				}
				continue
			}
			if !ok {
				// a failure: from now on look (for a bounded time) for an input on which the property itself fails
				quiesceTimeout = 2 * time.Second
				if deadline.IsZero() {
					deadline = time.Now().Add(map[bool]time.Duration{false: 40 * time.Second, true: 5 * time.Minute}[c.Thorough()])
				}
				if inf.kind == "judge" || diffs < 2 {
					judged = inf.kind == "judge"
					if !judged {
						diffs++
					}
					// record the minimised case if it reproduces the same failure, the original observation otherwise
					var again info
					if inf.class == "c14.setup" {
						c.Fail(*inf.failure) // not minimised: every attempt would wait for probes that do not come
					} else if small := shrink(c, cs, inf.kind, inf.class); !runCase(c, small, false, &again) && again.kind == inf.kind && again.class == inf.class {
						c.Fail(*again.failure)
					} else {
						c.Fail(*inf.failure)
					}
				}
			}
		}
		c.SetExtra("picks", picks)
	})
}

func resyncBucket(cs Case) string {
	if cs.Kind == "churn" {
		return ""
	}
	if cs.Kind == "e2e" {
		if cs.E2E != nil && cs.E2E.Token {
			return "+token-auth"
		}
		return "+no-upstream-auth"
	}
	if cs.Kind == "conc" {
		if cs.Resync {
			return "+syncs"
		}
		if cs.Cold > 0 {
			return "+cold-cursors"
		}
		return ""
	}
	tag := ""
	for _, p := range cs.Picks {
		if p < 0 && p > -1000 && !strings.Contains(tag, "+syncs") {
			tag += "+syncs"
		}
		if p <= -1000 && !strings.Contains(tag, "+probes") {
			tag += "+probes"
		}
		if p >= 3 && !strings.Contains(tag, "+pickone") {
			tag += "+pickone"
		}
	}
	return tag
}

func ordersBucket(d int) string {
	switch {
	case d <= 1:
		return fmt.Sprint(d)
	case d <= 4:
		return "2-4"
	case d <= 24:
		return "5-24"
	}
	return ">24"
}
