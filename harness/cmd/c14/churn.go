package main

// Churn stream: Syncs that add / remove / re-add servers race with concurrent pickers (requests without subset, with a
// subset, PickOne); then everything is quiesced and a FRESH stable window of picks is judged against the configuration the
// final Sync installed: the ready set of the window is derived from the final server list and the health table (through the
// model), not from what the pickers happen to see. AllEndpoints() is compared with the server list as well.

import (
	"errors"
	"fmt"
	"runtime/debug"
	"sort"
	"strings"
	"sync"
	"time"

	"github.com/kubewharf/kubegateway/pkg/clusters"

	lib "verifharness/c03lib"
	"verifharness/rig"
)

type windowReply struct {
	Members    []lib.Ident   `json:"members"`
	K          int           `json:"k"`
	N          int           `json:"n"`
	Applicable bool          `json:"applicable"`
	Strays     bool          `json:"strays"`
	Names      []string      `json:"names"`
	Eps        []lib.EPState `json:"eps"`
	Counts     []struct {
		ID    lib.Ident `json:"id"`
		Count int       `json:"count"`
	} `json:"counts"`
	Bad *struct {
		ID    lib.Ident `json:"id"`
		Count int       `json:"count"`
	} `json:"bad"`
}

func readableChurn(cs Case) string {
	var b strings.Builder
	b.WriteString(readable(Case{Kind: "setup-only", Setup: cs.Setup}))
	b.WriteString(" | then, racing with " + fmt.Sprint(cs.G) + " pickers, Syncs with servers: ")
	for i, sv := range cs.Churn {
		if i > 0 {
			b.WriteString(" -> ")
		}
		var l []string
		for _, x := range sv {
			n := rig.UnHex(x.Ep)
			n = n[strings.LastIndex(n, ":"):]
			if x.Dis {
				n += "(disabled)"
			}
			l = append(l, n)
		}
		b.WriteString(fmt.Sprint(l))
	}
	fmt.Fprintf(&b, " | quiesce | fresh window of %d picks per policy", cs.M)
	return b.String()
}

func runChurn(c *rig.Ctx, cs Case, record bool, inf *info) (ok bool) {
	fail := func(kind, class, what string, impl interface{}) bool {
		inf.kind, inf.class = kind, class
		inf.failure = &rig.Failure{Kind: kind, Class: class, What: what + " | case: " + readableChurn(cs), Case: cs, Impl: impl}
		if record {
			c.Fail(*inf.failure)
		}
		return false
	}
	if len(cs.Setup) == 0 || cs.Setup[0].Op != "sync" || len(cs.Churn) == 0 {
		return true
	}
	if !lib.WaitNoHealthGoroutines(20 * time.Second) {
		return fail("diff", "c14.leftover-goroutines", "health-check workers of a stopped cluster are still alive", nil)
	}
	w := lib.NewWorld()
	w.Timeout = quiesceTimeout
	defer w.Stop()
	setup := make([]lib.Op, len(cs.Setup))
	copy(setup, cs.Setup)
	if _, err := lib.Play(c, w, setup); err != nil {
		var mm *lib.SetupMismatch
		if !errors.As(err, &mm) {
			return fail("diff", "c14.setup", "set-up: "+err.Error(), nil)
		}
		defer func() {
			if inf.kind != "judge" {
				fail("diff", "c14.setup", "set-up: "+mm.What, nil)
				ok = false
			}
		}()
	}
	first := cs.Setup[0]
	npol := len(first.Policies)
	// 1. pickers race with the Syncs
	stop := make(chan struct{})
	var wg sync.WaitGroup
	var pmu sync.Mutex
	panicMsg := ""
	for g := 0; g < cs.G; g++ {
		wg.Add(1)
		go func(g int) {
			defer wg.Done()
			msg, panicked := rig.Recover(func() {
				defer func() {
					if r := recover(); r != nil {
						panic(fmt.Sprintf("%v\n%s", r, debug.Stack()))
					}
				}()
				for i := 0; ; i++ {
					select {
					case <-stop:
						return
					default:
					}
					if (g+i)%4 == 3 {
						w.CI.PickOne() //nolint: what ClientFor does
						continue
					}
					if p, err := w.CI.MatchAttributes(lib.AttrsFor((g + i) % npol)); err == nil {
						p.Pop() //nolint
					}
				}
			})
			if panicked {
				pmu.Lock()
				panicMsg = msg
				pmu.Unlock()
			}
		}(g)
	}
	syncErr := ""
	for _, sv := range cs.Churn {
		w.SetUp(first.Up)
		msg, panicked := rig.Recover(func() {
			if err := w.SyncX(sv, first.Policies, 0); err != nil {
				syncErr = err.Error()
			}
		})
		if panicked {
			syncErr = "panic: " + msg
		}
		if syncErr != "" {
			break
		}
		time.Sleep(time.Duration(c.Rng.Intn(300)) * time.Microsecond)
	}
	close(stop)
	done := make(chan struct{})
	go func() { wg.Wait(); close(done) }()
	select {
	case <-done:
	case <-time.After(60 * time.Second):
		return fail("judge", "c14.hang", "pickers racing with Syncs did not stop within 60 s", nil)
	}
	if panicMsg != "" {
		if strings.Contains(panicMsg, "UnreadyReason") {
			// finding C03-unready-reason-race: Pop() formats an endpoint's reason / message while a probe writes them
			return fail("judge", "c14.unready-reason-race", "a pick racing with health probes panicked inside EndpointInfo.UnreadyReason (status strings read without the status lock): "+firstLines(panicMsg, 14), nil)
		}
		return fail("judge", "c14.panic", "a picker racing with Syncs panicked: "+firstLines(panicMsg, 30), nil)
	}
	if syncErr != "" {
		return fail("diff", "c14.sync-error", "a Sync failed: "+syncErr, nil)
	}
	// 2. the model on the same Syncs in the order they were issued (it quiesces after each; only the final state is used)
	modelOps := append([]lib.Op{}, cs.Setup...)
	for _, sv := range cs.Churn {
		op := first
		op.Servers = sv
		modelOps = append(modelOps, op)
	}
	final := cs.Churn[len(cs.Churn)-1]
	var expect windowReply
	if err := c.Model("C14.window", map[string]interface{}{"policy_scopes": lib.PolicyScopes(), "setup": modelOps, "subset": []string{}, "d": 1, "impl": []interface{}{}}, &expect); err != nil {
		return fail("diff", "c14.model-error", "model error "+err.Error(), nil)
	}
	// 3. quiescence: every endpoint object the final spec wants exists, enabled ones have had their first probe (status =
	// health table), nothing is pending, and the health-check workers are those of the enabled servers
	want := map[string]lib.EPState{}
	for _, e := range expect.Eps {
		want[e.N] = e
	}
	deadline := time.Now().Add(30 * time.Second)
	unsettled := ""
	for {
		unsettled = ""
		eps, _, _ := w.Snapshot()
		if len(eps) != len(want) {
			unsettled = fmt.Sprintf("%d endpoint objects, the final server list has %d distinct servers", len(eps), len(want))
		}
		for _, e := range eps {
			m, ok := want[e.N]
			switch {
			case !ok:
				unsettled = "endpoint " + rig.UnHex(e.N) + " is not a server of the final spec"
			case e.Dis != m.Dis || e.Healthy != m.Healthy && !e.Dis || e.Chan != 0 && e.Probing || e.Probing != m.Probing:
				unsettled = fmt.Sprintf("endpoint %s: disabled=%v healthy=%v probing=%v pending=%d, expected disabled=%v healthy=%v probing=%v", rig.UnHex(e.N), e.Dis, e.Healthy, e.Probing, e.Chan, m.Dis, m.Healthy, m.Probing)
			}
		}
		if unsettled == "" {
			if bad := w.Quiesce(map[lib.Ident]int{}, w.EnabledInSpec()); bad != "" {
				unsettled = bad
			}
		}
		if unsettled == "" || time.Now().After(deadline) {
			break
		}
		time.Sleep(200 * time.Microsecond)
	}
	w.DrainFired()
	if v := w.DrainViol(); len(v) > 0 {
		// a probe of a disabled / removed server: the select race of the worker goroutine (a probe and the cancellation ready
		// at once) is possible here because Syncs were not separated by quiescence; named in notes/C03.md, not judged
		c.Count("churn:probe-raced-with-cancel")
	}
	if unsettled != "" {
		return fail("diff", "c14.churn-unsettled", "after the final Sync the cluster did not settle within 30 s: "+unsettled, nil)
	}
	// 4. AllEndpoints() against the server list the final Sync installed
	distinct := map[string]bool{}
	for _, s := range final {
		distinct[rig.UnHex(s.Ep)] = true
	}
	var wantNames []string
	for n := range distinct {
		wantNames = append(wantNames, n)
	}
	sort.Strings(wantNames)
	gotNames := append([]string{}, w.CI.AllEndpoints()...)
	sort.Strings(gotNames)
	if fmt.Sprint(gotNames) != fmt.Sprint(wantNames) {
		return fail("judge", "c14.all-endpoints", fmt.Sprintf("after quiescence AllEndpoints() = %v but the server list of the final Sync is %v: requests without subset are not offered every server", gotNames, wantNames), nil)
	}
	// 5. a fresh stable window per policy (and PickOne), judged against the final configuration
	inf.n += cs.M * (npol + 1)
	for pol := 0; pol <= npol; pol++ {
		var outs []*lib.OutJ
		orders := map[string]bool{}
		subset := []string{}
		if pol < npol {
			subset = first.Policies[pol]
		}
		msg, panicked := rig.Recover(func() {
			for i := 0; i < cs.M; i++ {
				var p clusters.EndpointPicker
				if pol == npol {
					p = clusters.VerifNewPicker(w.CI, w.CI.AllEndpoints()) // PickOne()
				} else {
					var err error
					if p, err = w.CI.MatchAttributes(lib.AttrsFor(pol)); err != nil {
						return
					}
				}
				orders[lib.KeyOf(w.ReadyObjects(clusters.VerifPickerUpstreams(p)))] = true
				outs = append(outs, w.PopPicker(p))
			}
		})
		if panicked {
			return fail("judge", "c14.panic", "Pop panicked: "+msg, nil)
		}
		if outs == nil {
			outs = []*lib.OutJ{}
		}
		for i, o := range outs {
			if strings.HasPrefix(o.Err, "other:") || strings.HasPrefix(o.Err, "status:") {
				return fail("judge", "c14.unexpected-error", fmt.Sprintf("pick %d: %s", i, o.Err), nil)
			}
		}
		var m windowReply
		if err := c.Model("C14.window", map[string]interface{}{"policy_scopes": lib.PolicyScopes(), "setup": modelOps, "subset": subset, "d": len(orders), "impl": outs}, &m); err != nil {
			return fail("diff", "c14.model-error", "model error "+err.Error(), nil)
		}
		if m.K > inf.maxK {
			inf.maxK = m.K
		}
		inf.applicable = inf.applicable || m.Applicable
		polName := fmt.Sprintf("policy %d (subset %v)", pol, unhexL(subset))
		if pol == npol {
			polName = "PickOne()"
		}
		if m.Strays {
			return fail("judge", "c14.stray", fmt.Sprintf("stable window after churn, %s: an answer is not a ready endpoint of the final configuration %s (or an error although %d are ready)", polName, idents(m.Members), m.K), outsSummary(outs))
		}
		if m.Bad != nil {
			cnt := make([]string, len(m.Counts))
			for i, x := range m.Counts {
				cnt[i] = fmt.Sprintf("%s=%d", rig.UnHex(x.ID.N), x.Count)
			}
			return fail("judge", "c14.uneven", fmt.Sprintf("stable window after churn, %s: the final configuration has %d ready endpoints %s; over %d picks (%d distinct orders) %s/%d was chosen %d times; counts %s",
				polName, m.K, idents(m.Members), m.N, len(orders), rig.UnHex(m.Bad.ID.N), m.Bad.ID.Gen, m.Bad.Count, strings.Join(cnt, " ")), outsSummary(outs))
		}
	}
	return true
}

func firstLines(s string, n int) string {
	l := strings.Split(s, "\n")
	if len(l) > n {
		l = l[:n]
	}
	return strings.Join(l, " / ")
}

func unhexL(l []string) []string {
	r := make([]string, len(l))
	for i, s := range l {
		r[i] = rig.UnHex(s)
	}
	return r
}

// genChurn: 3-6 logical servers, all healthy or a few down, two subsets and a policy without subset; the Syncs remove,
// add and re-add servers (and toggle disabled), mostly ending with an addition.
func genChurn(c *rig.Ctx) Case {
	r := c.Rng
	u := 3 + r.Intn(4)
	names := make([]string, u)
	for i := range names {
		names[i] = epName(i)
	}
	var up []lib.UpEnt
	for i := 0; i < u; i++ {
		up = append(up, lib.UpEnt{N: names[i], H: r.Intn(8) != 0})
	}
	present := make([]bool, u)
	dis := make([]bool, u)
	list := func() []lib.Server {
		var s []lib.Server
		for i := 0; i < u; i++ {
			if present[i] {
				s = append(s, lib.Server{Ep: names[i], Dis: dis[i]})
			}
		}
		if s == nil {
			s = []lib.Server{}
		}
		return s
	}
	for i := range present {
		present[i] = r.Intn(3) != 0
	}
	present[0] = true
	sub := func() []string {
		perm := r.Perm(u)
		k := 2 + r.Intn(u-1)
		s := []string{}
		for _, i := range perm[:k] {
			s = append(s, names[i])
		}
		return s
	}
	policies := [][]string{{}, sub(), sub()}
	cs := Case{Kind: "churn", Setup: []lib.Op{{Op: "sync", Servers: list(), Policies: policies, Up: up}}, Picks: []int{}, Start: []StartCursor{},
		G: 2 + r.Intn(15), M: 40 + r.Intn(c.Budget(160, 600))}
	n := 1 + r.Intn(6)
	for j := 0; j < n; j++ {
		i := r.Intn(u)
		last := j == n-1
		switch {
		case last && r.Intn(4) != 0: // end with an addition: a missing server comes (back)
			for k := 0; k < u && present[i]; k++ {
				i = (i + 1) % u
			}
			if present[i] { // everything present: remove one first, then re-add it
				present[i] = false
				cs.Churn = append(cs.Churn, list())
			}
			present[i], dis[i] = true, false
		case r.Intn(5) == 0:
			dis[i] = !dis[i]
		default:
			present[i] = !present[i]
		}
		cs.Churn = append(cs.Churn, list())
	}
	return cs
}

func shrinkChurn(c *rig.Ctx, cs Case, kind, class string) Case {
	fails := func(x Case) bool {
		var inf info
		return !runChurn(c, x, false, &inf) && inf.kind == kind && (kind != "judge" || inf.class == class)
	}
	// drop Syncs from the front (the final configuration stays); the failure depends on a race, so each candidate gets three tries
	for len(cs.Churn) > 1 {
		x := cs
		x.Churn = cs.Churn[1:]
		ok := false
		for t := 0; t < 3 && !ok; t++ {
			ok = fails(x)
		}
		if !ok {
			break
		}
		cs = x
	}
	return cs
}
