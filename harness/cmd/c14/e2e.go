package main

// End-to-end stream of the C14 harness: the policy's traffic observed where the property observes it — at the upstream
// servers that RECEIVE the forwarded requests. Requests go through the gateway's real proxy handler chain (request info,
// upstream info, authentication, impersonation, dispatcher), with the proxy's real bearer-token authenticator (TokenReview
// sent to the upstream cluster through Manager.ClientFor -> ClusterInfo.PickOne) or with an authenticator that needs no
// upstream client (standing for client certificates), a real clusters.Manager, a real ClusterInfo with the real
// GatewayHealthCheck against httptest "kube-apiservers", and health probes ticking between the requests.

import (
	"encoding/json"
	"errors"
	"fmt"
	"io"
	"net/http"
	"net/http/httptest"
	"strings"
	"sync"
	"time"

	"github.com/kubewharf/apiserver-runtime/pkg/scheme"
	authenticationv1 "k8s.io/api/authentication/v1"
	"k8s.io/apiserver/pkg/authentication/authenticator"
	"k8s.io/apiserver/pkg/authentication/user"
	"k8s.io/apiserver/pkg/authorization/authorizerfactory"
	genericapiserver "k8s.io/apiserver/pkg/server"

	"github.com/kubewharf/kubegateway/cmd/kube-gateway/app"
	"github.com/kubewharf/kubegateway/pkg/clusters"
	"github.com/kubewharf/kubegateway/pkg/gateway/controllers"
	proxyauthenticator "github.com/kubewharf/kubegateway/pkg/gateway/proxy/authenticator"

	lib "verifharness/c03lib"
	"verifharness/rig"
)

type upstream struct {
	srv       *httptest.Server
	url       string
	mu        sync.Mutex
	healthz   int // what /healthz answers
	probes    int
	reviews   int
	forwarded []int // sequence numbers of the forwarded requests received
	twin      []int // ... of those for the second policy (resource r1)
	holding   int           // requests that arrived with X-Verif-Hold and are being kept open
	gate      chan struct{} // closed to let them finish
}

func (u *upstream) ServeHTTP(w http.ResponseWriter, r *http.Request) {
	switch {
	case strings.HasSuffix(r.URL.Path, "/healthz"):
		u.mu.Lock()
		u.probes++
		code := u.healthz
		u.mu.Unlock()
		w.WriteHeader(code)
		io.WriteString(w, "ok")
	case strings.HasSuffix(r.URL.Path, "/tokenreviews"):
		u.mu.Lock()
		u.reviews++
		u.mu.Unlock()
		tr := authenticationv1.TokenReview{}
		json.NewDecoder(r.Body).Decode(&tr)
		tr.Kind, tr.APIVersion = "TokenReview", "authentication.k8s.io/v1"
		tr.Status = authenticationv1.TokenReviewStatus{Authenticated: true, User: authenticationv1.UserInfo{Username: "alice", Groups: []string{"dev"}}}
		w.Header().Set("Content-Type", "application/json")
		w.WriteHeader(http.StatusCreated)
		json.NewEncoder(w).Encode(&tr)
	default:
		var seq int
		fmt.Sscanf(r.Header.Get("X-Verif-Seq"), "%d", &seq)
		u.mu.Lock()
		u.forwarded = append(u.forwarded, seq)
		if strings.Contains(r.URL.Path, "/r1/") {
			u.twin = append(u.twin, seq)
		}
		var gate chan struct{}
		if r.Header.Get("X-Verif-Hold") != "" {
			u.holding++
			gate = u.gate
		}
		u.mu.Unlock()
		if gate != nil { // keep the request in flight until the harness lets go
			select {
			case <-gate:
			case <-time.After(20 * time.Second):
			}
		}
		w.Header().Set("Content-Type", "application/json")
		io.WriteString(w, `{"kind":"PodList","apiVersion":"v1","metadata":{},"items":[]}`)
	}
}

var (
	upstreamsOnce sync.Once
	upstreams     []*upstream
)

func theUpstreams() []*upstream {
	upstreamsOnce.Do(func() {
		for i := 0; i < 4; i++ {
			u := &upstream{healthz: 200}
			u.srv = httptest.NewServer(u)
			u.url = u.srv.URL
			upstreams = append(upstreams, u)
		}
	})
	return upstreams
}

// E2E is the "e2e" part of a Case.
type E2E struct {
	Servers  []E2ESrv `json:"servers"`  // upstream index, disabled, what its /healthz answers
	Subset   []int    `json:"subset"`   // the policy's upstreamSubset (upstream indices, in this order); empty: no subset
	Token    bool     `json:"token"`    // requests carry a bearer token (TokenReview -> PickOne) instead of needing no upstream client
	N        int      `json:"n"`        // sequential requests
	ProbeGap int      `json:"probe_gap"` // a health probe of some endpoint after every ProbeGap requests (0: none)
	// Limit: the policy uses a flow-control schema with maxRequestsInflight = 1, and the limit is hit: for every entry r of
	// Cycles one request is kept open at its upstream, r further requests are sent meanwhile (answered 429, NOT forwarded),
	// it is let go, one more request follows. Only what is forwarded may move the policy's cursor.
	Limit  bool  `json:"limit"`
	Cycles []int `json:"cycles"`
	// Twin: a second policy (resource r1) with the SAME upstreamSubset; the plain requests alternate between the two policies
	// and each policy's forwarded traffic is judged on its own. Judged when the code gives every policy its own cursors.
	Twin bool `json:"twin"`
}

type E2ESrv struct {
	Up      int  `json:"up"`
	Dis     bool `json:"dis"`
	Healthz int  `json:"healthz"`
	Sp      int  `json:"sp"` // spelling of the endpoint in servers and in the subset: 0 the plain URL, 1 "/", 2 "/Base", 3 "/API/"
}

var e2eSpell = []string{"", "/", "/Base", "/API/"}

func readableE2E(cs Case) string {
	e := cs.E2E
	var sv []string
	for _, s := range e.Servers {
		n := fmt.Sprintf("up%d", s.Up)
		if s.Dis {
			n += "(disabled)"
		}
		if s.Healthz != 200 {
			n += fmt.Sprintf("(healthz %d)", s.Healthz)
		}
		if s.Sp != 0 {
			n += fmt.Sprintf("%q", e2eSpell[s.Sp%len(e2eSpell)])
		}
		sv = append(sv, n)
	}
	auth := "an authenticator that needs no upstream client"
	if e.Token {
		auth = "bearer-token authentication (TokenReview -> Manager.ClientFor -> PickOne)"
	}
	lim := ""
	if e.Limit {
		lim = fmt.Sprintf("; first, with maxRequestsInflight=1 on the policy: per cycle one request kept in flight, r requests answered 429 meanwhile, one more after it, r = %v", e.Cycles)
	}
	if e.Twin {
		lim += "; a second policy with the same subset, the plain requests alternate between the two (judged per policy when policies have their own cursors)"
	}
	return fmt.Sprintf("real handler chain, servers %v, policy subset %v, %d sequential requests with %s, a health probe after every %d requests%s", sv, e.Subset, e.N, auth, e.ProbeGap, lim)
}

func runE2E(c *rig.Ctx, cs Case, record bool, inf *info) (ok bool) {
	defer func() {
		if inf.kind != "" {
			ok = false
		}
	}()
	fail := func(kind, class, what string, impl interface{}) bool {
		inf.kind, inf.class = kind, class
		inf.failure = &rig.Failure{Kind: kind, Class: class, What: what + " | case: " + readableE2E(cs), Case: cs, Impl: impl}
		if record {
			c.Fail(*inf.failure)
		}
		return false
	}
	e := cs.E2E
	ups := theUpstreams()
	if e == nil || len(e.Servers) == 0 || e.N <= 0 {
		return true
	}
	if !lib.WaitNoHealthGoroutines(20 * time.Second) {
		return fail("diff", "c14.leftover-goroutines", "health-check workers of a stopped cluster are still alive", nil)
	}
	for _, u := range ups {
		u.mu.Lock()
		u.healthz, u.probes, u.reviews, u.forwarded, u.holding, u.gate = 200, 0, 0, nil, 0, nil
		u.twin = nil
		u.mu.Unlock()
	}
	// the spec in the vocabulary of the model
	spellOf := map[int]string{}
	for _, s := range e.Servers {
		spellOf[s.Up%len(ups)] = e2eSpell[s.Sp%len(e2eSpell)]
	}
	nameOf := func(i int) string { return ups[i%len(ups)].url + spellOf[i%len(ups)] }
	hex := func(i int) string { return rig.Hex(nameOf(i)) }
	var servers []lib.Server
	var up []lib.UpEnt
	for _, s := range e.Servers {
		servers = append(servers, lib.Server{Ep: hex(s.Up), Dis: s.Dis})
		up = append(up, lib.UpEnt{N: hex(s.Up), H: s.Healthz == 200})
		ups[s.Up%len(ups)].mu.Lock()
		ups[s.Up%len(ups)].healthz = s.Healthz
		ups[s.Up%len(ups)].mu.Unlock()
	}
	subset := []string{}
	for _, i := range e.Subset {
		subset = append(subset, hex(i))
	}
	twin := e.Twin && (lib.PolicyScopes() || c.Search)
	setup := []lib.Op{{Op: "sync", Servers: servers, Policies: [][]string{subset}, Up: up}}
	if twin {
		setup[0].Policies = [][]string{subset, subset}
	}
	if e.Limit {
		setup[0].Extra = lib.ExtraLimitOne
	}
	w := lib.NewWorld()
	w.Timeout = quiesceTimeout
	w.HealthFn = controllers.GatewayHealthCheck
	defer w.Stop()
	var setupDiff *lib.SetupMismatch
	if _, err := lib.Play(c, w, append([]lib.Op{}, setup...)); err != nil {
		if w.IsInconclusive() {
			c.Count("e2e-inconclusive")
			return true
		}
		if !errors.As(err, &setupDiff) {
			return fail("diff", "c14.setup", "set-up: "+err.Error(), nil)
		}
	}
	defer func() {
		// the set-up differed from the model: reported unless the property itself was found to fail
		if setupDiff != nil && inf.kind != "judge" {
			inf.kind, inf.class = "diff", "c14.setup"
			inf.failure = &rig.Failure{Kind: "diff", Class: "c14.setup", What: "set-up: " + setupDiff.What + " | case: " + readableE2E(cs), Case: cs}
			if record {
				c.Fail(*inf.failure)
			}
		}
	}()
	// the gateway: real manager, real authenticator, real handler chain
	manager := clusters.NewManager()
	manager.Add(w.CI)
	tokenAuthn, _, err := proxyauthenticator.AuthenricatorConfig{
		TokenSuccessCacheTTL: 10 * time.Minute,
		TokenFailureCacheTTL: 10 * time.Minute,
		TokenRequest:         &proxyauthenticator.TokenAuthenticationConfig{ClusterClientProvider: manager},
	}.New()
	if err != nil {
		return fail("diff", "c14.e2e-setup", "authenticator: "+err.Error(), nil)
	}
	cfg := genericapiserver.NewConfig(scheme.Codecs)
	cfg.Authentication.Authenticator = authenticator.RequestFunc(func(req *http.Request) (*authenticator.Response, bool, error) {
		if req.Header.Get("Authorization") == "" { // stands for a client certificate: no upstream client is needed
			return &authenticator.Response{User: &user.DefaultInfo{Name: "bob", Groups: []string{"dev"}}}, true, nil
		}
		return tokenAuthn.AuthenticateRequest(req)
	})
	cfg.Authorization.Authorizer = authorizerfactory.NewAlwaysAllowAuthorizer()
	cfg.RequestInfoResolver = genericapiserver.NewRequestInfoResolver(cfg)
	var chain http.Handler
	if msg, panicked := rig.Recover(func() { chain = app.VerifBuildProxyHandlerChain(manager, http.NotFoundHandler(), cfg) }); panicked {
		return fail("diff", "c14.e2e-setup", "building the handler chain panicked: "+msg, nil)
	}
	gateway := httptest.NewServer(chain)
	defer gateway.Close()
	client := &http.Client{Timeout: 30 * time.Second}
	defer client.CloseIdleConnections()
	// the traffic
	var eps []*clusters.EndpointInfo
	for _, s := range servers {
		if ep, ok := w.Load(s.Ep); ok && clusters.VerifEndpointStatus(ep).Probing {
			eps = append(eps, ep)
		}
	}
	do := func(seq int, hold bool) (int, string, error) {
		res := "r0"
		if twin && !hold && seq < e.N && seq%2 == 1 {
			res = "r1" // the plain requests alternate between the two policies
		}
		req, _ := http.NewRequest(http.MethodGet, gateway.URL+"/api/v1/namespaces/default/"+res+"/x", nil)
		req.Host = "c"
		req.Header.Set("X-Verif-Seq", fmt.Sprint(seq))
		if hold {
			req.Header.Set("X-Verif-Hold", "1")
		}
		if e.Token {
			req.Header.Set("Authorization", "Bearer some-token")
		}
		resp, err := client.Do(req)
		if err != nil {
			return 0, "", err
		}
		body, _ := io.ReadAll(resp.Body)
		resp.Body.Close()
		return resp.StatusCode, string(body), nil
	}
	// the limit is hit: requests answered 429 between forwarded ones
	rejected, seqNo := 0, e.N
	if e.Limit {
		for _, rj := range e.Cycles {
			gate := make(chan struct{})
			held := 0
			for _, u := range ups {
				u.mu.Lock()
				u.gate = gate
				held += u.holding
				u.mu.Unlock()
			}
			type ans struct {
				code int
				err  error
			}
			heldDone := make(chan ans, 1)
			go func(seq int) {
				code, _, err := do(seq, true)
				heldDone <- ans{code, err}
			}(seqNo)
			seqNo++
			deadline := time.Now().Add(30 * time.Second)
			for {
				now := 0
				for _, u := range ups {
					u.mu.Lock()
					now += u.holding
					u.mu.Unlock()
				}
				if now > held {
					break
				}
				if time.Now().After(deadline) {
					close(gate)
					<-heldDone
					c.Count("e2e-inconclusive")
					return true
				}
				time.Sleep(50 * time.Microsecond)
			}
			for j := 0; j < rj; j++ {
				code, body, err := do(seqNo, false)
				seqNo++
				if err != nil || code != http.StatusTooManyRequests {
					close(gate)
					<-heldDone
					return fail("diff", "c14.e2e-request", fmt.Sprintf("a request beyond maxRequestsInflight=1 was answered %d (%v): %.150s", code, err, body), nil)
				}
				rejected++
			}
			close(gate)
			if a := <-heldDone; a.err != nil || a.code != http.StatusOK {
				return fail("diff", "c14.e2e-request", fmt.Sprintf("the request kept in flight ended with %d (%v)", a.code, a.err), nil)
			}
			if code, body, err := do(seqNo, false); err != nil || code != http.StatusOK {
				return fail("diff", "c14.e2e-request", fmt.Sprintf("after the slot was free again a request was answered %d (%v): %.150s", code, err, body), nil)
			}
			seqNo++
		}
	}
	expectForwarded := e.N
	if e.Limit {
		expectForwarded += 2 * len(e.Cycles)
	}
	for i := 0; i < e.N; i++ {
		code, body, err := do(i, false)
		if err != nil {
			return fail("diff", "c14.e2e-request", fmt.Sprintf("request %d: %v", i, err), nil)
		}
		resp := struct{ StatusCode int }{code}
		if resp.StatusCode != http.StatusOK {
			if i == 0 && resp.StatusCode == http.StatusServiceUnavailable {
				break // nothing is ready in this configuration: judged below (no forwarded request may exist)
			}
			return fail("diff", "c14.e2e-request", fmt.Sprintf("request %d: status %d: %.200s", i, resp.StatusCode, body), nil)
		}
		if e.ProbeGap > 0 && len(eps) > 0 && i%e.ProbeGap == e.ProbeGap-1 {
			// a real probe ticks: GET /healthz, answered as before
			ep := eps[c.Rng.Intn(len(eps))]
			n0 := w.ProbesOf(ep)
			ep.TriggerHealthCheck()
			deadline := time.Now().Add(w.Timeout)
			for w.ProbesOf(ep) <= n0 && time.Now().Before(deadline) {
				time.Sleep(50 * time.Microsecond)
			}
			if w.ProbesOf(ep) <= n0 {
				c.Count("e2e-inconclusive")
				return true
			}
		}
	}
	if w.IsInconclusive() { // a probe timed out under load: the ready set was not the scripted one
		c.Count("e2e-inconclusive")
		return true
	}
	// where did the requests arrive?
	recv := map[string]int{}
	order := make([]string, seqNo)
	total := 0
	for _, u := range ups {
		u.mu.Lock()
		for _, seq := range u.forwarded {
			if seq >= 0 && seq < seqNo {
				order[seq] = u.url
			}
			recv[u.url]++
			total++
		}
		u.mu.Unlock()
	}
	var outs []*lib.OutJ
	for _, urlOf := range order {
		if urlOf == "" {
			continue
		}
		spelled := urlOf
		for i, u := range ups {
			if u.url == urlOf {
				spelled = nameOf(i)
			}
		}
		if ep, ok := w.CI.Endpoints.Load(spelled); ok {
			outs = append(outs, &lib.OutJ{Ok: w.Ident(ep)})
		} else {
			outs = append(outs, &lib.OutJ{Ok: lib.Ident{N: rig.Hex(urlOf), Gen: -1}})
		}
	}
	if outs == nil {
		outs = []*lib.OutJ{}
	}
	inf.n += total
	if twin {
		// each policy's forwarded traffic on its own
		isTwin := map[int]bool{}
		for _, u := range ups {
			u.mu.Lock()
			for _, seq := range u.twin {
				isTwin[seq] = true
			}
			u.mu.Unlock()
		}
		for pol := 0; pol < 2; pol++ {
			var mine []*lib.OutJ
			for seq, urlOf := range order {
				if urlOf == "" || isTwin[seq] != (pol == 1) {
					continue
				}
				spelled := urlOf
				for i, u := range ups {
					if u.url == urlOf {
						spelled = nameOf(i)
					}
				}
				if ep, ok := w.CI.Endpoints.Load(spelled); ok {
					mine = append(mine, &lib.OutJ{Ok: w.Ident(ep)})
				}
			}
			if mine == nil {
				mine = []*lib.OutJ{}
			}
			var pm windowReply
			if err := c.Model("C14.window", map[string]interface{}{"policy_scopes": lib.PolicyScopes(), "setup": setup, "subset": subset, "d": 24, "impl": mine}, &pm); err != nil {
				return fail("diff", "c14.model-error", "model error "+err.Error(), nil)
			}
			if pm.Bad != nil && len(subset) > 0 {
				cnt := make([]string, len(pm.Counts))
				for i, x := range pm.Counts {
					cnt[i] = fmt.Sprintf("%s=%d", rig.UnHex(x.ID.N), x.Count)
				}
				return fail("judge", "c14.policies-share-cursor", fmt.Sprintf("two policies list the same upstreamSubset and their requests alternate: policy %d forwarded %d requests, received: %s — not floor/ceil: the policy does not rotate through ITS endpoints", pol, len(mine), strings.Join(cnt, " ")), recv)
			}
		}
	}
	// the ready set of the configuration (through the model), and the counting judges on what the servers received
	kfact := 1
	var m windowReply
	if err := c.Model("C14.window", map[string]interface{}{"policy_scopes": lib.PolicyScopes(), "setup": setup, "subset": subset, "d": 1, "impl": []interface{}{}}, &m); err != nil {
		return fail("diff", "c14.model-error", "model error "+err.Error(), nil)
	}
	for i := 2; i <= m.K; i++ {
		kfact *= i
	}
	if err := c.Model("C14.window", map[string]interface{}{"policy_scopes": lib.PolicyScopes(), "setup": setup, "subset": subset, "d": kfact, "impl": outs}, &m); err != nil {
		return fail("diff", "c14.model-error", "model error "+err.Error(), nil)
	}
	if m.K > inf.maxK {
		inf.maxK = m.K
	}
	inf.applicable = inf.applicable || m.Applicable
	counts := make([]string, len(m.Counts))
	for i, x := range m.Counts {
		counts[i] = fmt.Sprintf("%s=%d", rig.UnHex(x.ID.N), x.Count)
	}
	if rejected > 0 {
		defer func() { _ = rejected }()
	}
	summary := fmt.Sprintf("%d requests were answered 429 (maxRequestsInflight=1 was hit) and not forwarded; ", rejected)
	if rejected == 0 {
		summary = ""
	}
	summary += fmt.Sprintf("%d requests were forwarded; the configuration has %d ready endpoints %s; received: %s", total, m.K, idents(m.Members), strings.Join(counts, " "))
	if m.K == 0 {
		if total > 0 {
			return fail("judge", "c14.stray", "requests were forwarded although no endpoint of the policy is ready: "+summary, recv)
		}
		return true
	}
	if total != expectForwarded {
		return fail("diff", "c14.e2e-request", fmt.Sprintf("%d requests answered 200 (and %d answered 429) but %d arrived at the upstream servers", expectForwarded, rejected, total), recv)
	}
	if m.Strays {
		return fail("judge", "c14.stray", "a forwarded request arrived at a server that is not a ready endpoint of the policy: "+summary, recv)
	}
	// no ready endpoint is starved (sound whatever shares the cursors: a quarter of the fair share is 8 sigma away even when
	// every pick lands on a random cursor)
	if m.K >= 2 && total >= 200*m.K {
		for _, x := range m.Counts {
			if x.Count*8*m.K < total {
				return fail("judge", "c14.forwarded-starved", fmt.Sprintf("the ready endpoint %s received %d of %d forwarded requests (fair share %d): %s", rig.UnHex(x.ID.N), x.Count, total, total/m.K, summary), recv)
			}
		}
	}
	if m.Bad != nil && !twin { // (with two policies the traffic is judged per policy above: two cursors, two rotations)
		bound := "strict round-robin (floor/ceil)"
		if len(subset) == 0 {
			bound = fmt.Sprintf("|k*count - N| <= k!*(k-1) = %d", kfact*(m.K-1))
		}
		what := fmt.Sprintf("the forwarded traffic of the policy is not %s: %s received %d; %s", bound, rig.UnHex(m.Bad.ID.N), m.Bad.Count, summary)
		if e.Token {
			// the authenticator's PickOne() draws from the policy's cursors (finding C14-auth-pick-shares-cursors)
			return fail("judge", "c14.auth-pick-shares-cursors", what, recv)
		}
		return fail("judge", "c14.forwarded-uneven", what, recv)
	}
	return true
}

func genE2E(c *rig.Ctx) Case {
	r := c.Rng
	nu := len(theUpstreams())
	k := []int{2, 2, 3, 4, 4}[r.Intn(5)]
	perm := r.Perm(nu)
	e := &E2E{Token: r.Intn(2) == 0}
	for _, i := range perm[:k] {
		e.Servers = append(e.Servers, E2ESrv{Up: i, Healthz: 200})
	}
	if k < nu && r.Intn(3) == 0 { // one more server that is not ready: disabled, or answering something else than 200
		s := E2ESrv{Up: perm[k], Healthz: 200, Dis: true}
		if r.Intn(2) == 0 {
			s.Dis, s.Healthz = false, rig.Pick(r, []int{204, 500, 503})
		}
		e.Servers = append(e.Servers, s)
		r.Shuffle(len(e.Servers), func(i, j int) { e.Servers[i], e.Servers[j] = e.Servers[j], e.Servers[i] })
	}
	switch r.Intn(3) {
	case 0: // no subset
		e.Subset = []int{}
	case 1: // all servers, some order
		for _, i := range r.Perm(len(e.Servers)) {
			e.Subset = append(e.Subset, e.Servers[i].Up)
		}
	default: // the servers in the order of the spec
		for _, s := range e.Servers {
			e.Subset = append(e.Subset, s.Up)
		}
	}
	if r.Intn(3) == 0 { // spellings with upper-case letters / trailing slashes, the same in servers and subset
		for i := range e.Servers {
			e.Servers[i].Sp = r.Intn(len(e2eSpell))
		}
	}
	e.Twin = r.Intn(4) == 0
	if r.Intn(3) == 0 { // the policy's limit is hit between forwarded requests
		e.Limit = true
		for i, n := 0, 6+r.Intn(20); i < n; i++ {
			e.Cycles = append(e.Cycles, 1+r.Intn(3))
		}
	}
	e.N = 200*len(e.Servers) + r.Intn(c.Budget(200, 1200))
	if r.Intn(3) != 0 {
		e.ProbeGap = 1 + r.Intn(5)
	}
	return Case{Kind: "e2e", Setup: []lib.Op{}, Picks: []int{}, Start: []StartCursor{}, E2E: e}
}
