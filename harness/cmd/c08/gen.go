package main

import (
	"math"
	"math/rand"
	"sort"
	"strings"

	"verifharness/rig"
)

// Generators. Everything is drawn from c.Rng (passed in as r).
type gen struct {
	r          *rand.Rand
	lastStream string
	insts      []string // the instance identities of the case being generated
}

// newUniverse draws the instance identities of a case: plain short names, or a family of identities that are easy
// to confuse — long ones (64, 65, 128, 253, 1000 bytes) that share a long prefix and differ only in the tail,
// identities that differ in case / one byte / trailing characters, identities containing separators. "Per
// instance" has to mean per exact identity everywhere (counts, request ids, removal).
func (g *gen) newUniverse() {
	rep := func(n int) string { return strings.Repeat("p", n) }
	var fam []string
	switch k := g.r.Intn(10); {
	case k < 5:
		g.insts = []string{"i1", "i2", "i3"}
		return
	case k < 7:
		l := rig.Pick(g.r, []int{63, 64, 127, 252, 999})
		p := rep(l)
		fam = []string{p + "a", p + "b", p, p + "ab", p + "a "}
	case k < 8:
		// what the gateways send: <--client-id-prefix>-<pid>-<rand5>
		p := "kube-gateway-" + strings.Repeat("x", rig.Pick(g.r, []int{38, 51, 60, 115})) + "-"
		fam = []string{p + "12345-abcde", p + "12345-abcdf", p + "12346-abcde", p + "2345-abcde"}
	case k < 9:
		fam = []string{"gw-1", "GW-1", "gw-1 ", "gw-1.", "gw-10", "gw-1\t", "Gw-1"}
	default:
		fam = []string{"a,b", "a;b", "a:b", "a/b", "a b", "a=b", "[a: 1]", "a", "b"}
	}
	g.r.Shuffle(len(fam), func(i, j int) { fam[i], fam[j] = fam[j], fam[i] })
	g.insts = fam[:3+g.r.Intn(2)]
}


func i32(v int32) *int32 { return &v }

var (
	instNames = []string{"i1", "i2", "i3"} // replaced per case by gen.newUniverse
	fcA       = rig.Hex("a")
	fcB       = rig.Hex("b")
	fcT       = rig.Hex("t")
	fcNone    = rig.Hex("zz")
)

type seqState struct {
	schemas []Schema
	lastID  map[string]int64 // instance -> last id handed out by the generator
	limit   int32            // the limit the generator steers around
}

func (g *gen) pickInst(raw bool) string {
	if raw && g.r.Intn(4) == 0 {
		// odd but valid UTF-8 (instance names become metric label values, which must be valid UTF-8)
		return rig.Hex(rig.Pick(g.r, []string{"", " ", "i1 ", "I1", "i,1]", "[i1: 3]", "\u00e9", "i1\n", "count=5 total=7"}))
	}
	return rig.Hex(rig.Pick(g.r, g.insts))
}

func (g *gen) pickRid(st *seqState, inst string) int64 {
	last := st.lastID[inst]
	switch k := g.r.Intn(20); {
	case k < 10:
		last += int64(1 + g.r.Intn(2))
		st.lastID[inst] = last
		return last
	case k < 14:
		return int64(g.r.Intn(7))
	case k < 16:
		return last // repeated id
	case k < 17:
		if last > 1 {
			return last - 1
		}
		return 1
	case k < 19:
		return 0
	default:
		return -1
	}
}

func (g *gen) pickCur(limit int32, allowNeg bool) int32 {
	if allowNeg && g.r.Intn(12) == 0 {
		return rig.Pick(g.r, []int32{-1, -1, -5, math.MinInt32})
	}
	l := int64(limit)
	cands := []int64{0, 0, 1, 2, 3, l / 2, l/2 + 1, l - 1, l, l + 1, l / 3, l - l/3, 2 * l}
	v := rig.Pick(g.r, cands)
	if g.r.Intn(4) == 0 {
		v = int64(g.r.Intn(int(max(min(l, 200), 0)) + 3))
	}
	if v < 0 {
		v = 0
	}
	if v > math.MaxInt32 {
		v = math.MaxInt32
	}
	return int32(v)
}

func (g *gen) pickFC(st *seqState) string {
	if g.r.Intn(25) == 0 || len(st.schemas) == 0 {
		return fcNone
	}
	return rig.Pick(g.r, st.schemas).Name
}

func (g *gen) pickTokens(st *seqState, fc string) int32 {
	for _, s := range st.schemas {
		if s.Name == fc && s.Tb != nil && s.Mif == nil {
			b := int64(s.Tb[1])
			v := rig.Pick(g.r, []int64{0, 1, 2, 3, 5, 8, b / 2, b, b + 1, 2 * b, 2*b + 1, 4 * b, 8 * b, 8*b + 7, 8*b + 8, 16 * b, -1})
			if v > math.MaxInt32 {
				v = math.MaxInt32
			}
			return int32(v)
		}
	}
	return g.pickCur(st.limit, true)
}

func (g *gen) mutateSchemas(st *seqState, limits []int32) []Schema {
	out := append([]Schema{}, st.schemas...)
	switch k := g.r.Intn(20); {
	case k < 9 && len(out) > 0: // change a limit (often below the recorded total)
		i := g.r.Intn(len(out))
		s := out[i]
		if s.Mif != nil {
			nl := rig.Pick(g.r, limits)
			s.Mif = i32(nl)
			st.limit = nl
		} else if s.Tb != nil {
			s.Tb = &[2]int32{1, rig.Pick(g.r, []int32{0, 1, 4, 10, 16})}
		}
		out[i] = s
	case k < 12: // add
		name := rig.Pick(g.r, []string{fcA, fcB, fcT})
		if g.r.Intn(3) == 0 {
			out = append(out, Schema{Name: name, Tb: &[2]int32{1, rig.Pick(g.r, []int32{0, 1, 4, 10})}})
		} else {
			out = append(out, Schema{Name: name, Mif: i32(rig.Pick(g.r, limits))})
		}
	case k < 14 && len(out) > 0: // remove
		i := g.r.Intn(len(out))
		out = append(out[:i], out[i+1:]...)
	case k < 16 && len(out) > 0: // change type
		i := g.r.Intn(len(out))
		if out[i].Mif != nil {
			out[i] = Schema{Name: out[i].Name, Tb: &[2]int32{1, 4}}
		} else {
			out[i] = Schema{Name: out[i].Name, Mif: i32(rig.Pick(g.r, limits))}
		}
	case k < 17 && len(out) > 0: // both global configurations: max-in-flight wins
		i := g.r.Intn(len(out))
		out[i] = Schema{Name: out[i].Name, Mif: i32(rig.Pick(g.r, limits)), Tb: &[2]int32{1, 4}}
	case k < 18 && len(out) > 0: // neither: skipped by the sync loop, deleted if it existed
		i := g.r.Intn(len(out))
		out[i] = Schema{Name: out[i].Name}
	case k < 19: // unchanged spec: early return
	default: // empty
		out = []Schema{}
	}
	st.schemas = out
	return append([]Schema{}, out...)
}

func (g *gen) seqCase(i int) Case {
	g.newUniverse()
	stream := []string{"basic", "tb-params", "tb-resync", "overlimit", "lifecycle", "ids", "edge", "acquire", "lifecycle", "overlimit"}[i%10]
	if stream == "lifecycle" {
		g.lastStream = stream
		return g.lifecycleCase()
	}
	if stream == "tb-resync" {
		g.lastStream = stream
		return g.resyncCase()
	}
	if stream == "tb-params" {
		g.lastStream = stream
		return g.paramsCase()
	}
	g.lastStream = stream
	st := &seqState{lastID: map[string]int64{}}
	limits := []int32{0, 1, 2, 3, 5, 10, 50, 100}
	if stream == "edge" {
		limits = []int32{math.MaxInt32, math.MaxInt32 - 1, 1 << 30, 0, 5, -1, math.MinInt32, 1<<30 + 1}
	}
	st.limit = rig.Pick(g.r, limits)
	if stream == "overlimit" {
		st.limit = rig.Pick(g.r, []int32{10, 50, 100})
	}
	st.schemas = []Schema{{Name: fcA, Mif: i32(st.limit)}}
	if g.r.Intn(3) == 0 {
		st.schemas = append(st.schemas, Schema{Name: fcB, Mif: i32(rig.Pick(g.r, limits))})
	}
	if stream == "acquire" || g.r.Intn(3) == 0 {
		st.schemas = append(st.schemas, Schema{Name: fcT, Tb: &[2]int32{1, rig.Pick(g.r, []int32{0, 1, 4, 10, 16})}})
	}
	ops := []Op{{K: "sync", Schemas: append([]Schema{}, st.schemas...)}}
	n := 5 + g.r.Intn(35)
	raw := g.r.Intn(10) == 0
	edgeCur := func() int32 {
		return rig.Pick(g.r, []int32{math.MaxInt32, math.MaxInt32 - 1, 1 << 30, 1<<30 + 1, 1<<30 - 1, 1, 0, 2, -1})
	}
	for k := 0; k < n; k++ {
		w := g.r.Intn(100)
		if stream == "overlimit" && k == n/3 {
			// lower the limit under the total
			nl := st.limit / int32(2+g.r.Intn(3))
			st.limit = nl
			if g.r.Intn(2) == 0 {
				ops = append(ops, Op{K: "resize", FC: fcA, N: nl})
			} else {
				for i := range st.schemas {
					if st.schemas[i].Name == fcA && st.schemas[i].Mif != nil {
						st.schemas[i].Mif = i32(nl)
					}
				}
				ops = append(ops, Op{K: "sync", Schemas: append([]Schema{}, st.schemas...)})
			}
			continue
		}
		switch {
		case w < 40 || (stream == "ids" && w < 75):
			inst := g.pickInst(raw)
			if stream == "ids" {
				inst = rig.Hex(g.insts[0])
			}
			op := Op{K: "set", FC: g.pickFC(st), Inst: inst}
			op.Rid = g.pickRid(st, inst)
			op.Cur = g.pickCur(st.limit, true)
			if stream == "edge" {
				op.Cur = edgeCur()
			}
			if op.Cur < 0 {
				if g.r.Intn(2) == 0 {
					op.Rid = -1
				}
				delete(st.lastID, inst)
			}
			ops = append(ops, op)
		case w < 65 || (stream == "acquire" && w < 85):
			inst := g.pickInst(raw)
			op := Op{K: "acq", Inst: inst, Rid: g.pickRid(st, inst), Nows: make([]int64, 8)}
			for q := 1 + g.r.Intn(3); q > 0; q-- {
				fc := g.pickFC(st)
				tk := g.pickTokens(st, fc)
				if stream == "edge" && g.r.Intn(2) == 0 {
					tk = edgeCur()
				}
				op.Reqs = append(op.Reqs, Req{FC: fc, Tokens: tk})
			}
			ops = append(ops, op)
		case w < 73:
			nl := rig.Pick(g.r, limits)
			op := Op{K: "resize", FC: g.pickFC(st), N: nl, Burst: rig.Pick(g.r, []int32{0, 0, 4, 10})}
			if g.r.Intn(8) == 0 {
				op.N = -1
			}
			// a direct Resize of a bucket changes its qps: keep the time-free regime (qps = 1)
			for _, s := range st.schemas {
				if s.Name == op.FC && s.Mif == nil && s.Tb != nil {
					op.N = 1
				}
			}
			if op.FC == fcA {
				st.limit = op.N
			}
			ops = append(ops, op)
		case w < 88:
			ops = append(ops, Op{K: "sync", Schemas: g.mutateSchemas(st, limits)})
		case w < 93:
			inst := g.pickInst(raw)
			delete(st.lastID, inst)
			ops = append(ops, Op{K: "del", Inst: inst})
		default:
			// the server's own removal paths
			ops = append(ops, g.lifeOp(st.lastID))
		}
	}
	return Case{Kind: "seq", Ops: g.withProbes(ops)}
}

// withProbes: after EVERY sync / resize op, every configured token bucket is probed: one DoAcquire with the asks
// P, P/2, …, 1 (P a power of two well above qps and burst) drains what the bucket will hand out at once; the rate
// judge then compares that with the CONFIGURED burst + qps*T.
func (g *gen) withProbes(ops []Op) []Op {
	conf := newConfTracker()
	out := []Op{}
	for _, op := range ops {
		out = append(out, op)
		if op.K != "sync" && op.K != "resize" {
			conf.apply(op)
			continue
		}
		conf.apply(op)
		names := []string{}
		for n, f := range conf.fcs {
			if f.typ == "tb" {
				names = append(names, n)
			}
		}
		sort.Strings(names)
		for _, n := range names {
			f := conf.fcs[n]
			m := int64(max(f.q, f.b, 1))
			p := int64(1)
			for p < 4*m && p < 1<<20 {
				p *= 2
			}
			probe := Op{K: "acq", Inst: rig.Hex("probe"), Rid: 0, Nows: make([]int64, 8)}
			for ; p >= 1; p /= 2 {
				probe.Reqs = append(probe.Reqs, Req{FC: n, Tokens: int32(p)})
			}
			out = append(out, probe)
		}
	}
	return out
}

// paramsCase: token buckets whose qps and burst are far apart (both orders) next to other schemas; the spec is
// re-delivered with this bucket unchanged next to a changed schema, really changed, resized directly to the same
// or to other values; tokens are drawn in between. Buckets refill in real time here (LooseTB: judged, not diffed).
func (g *gen) paramsCase() Case {
	pairs := [][2]int32{{100, 10}, {10, 100}, {1000, 1}, {1, 1000}, {500, 2}, {2, 500}, {20, 200}, {200, 20}, {50, 5}, {3, 300}, {7, 7}, {1000, 0}}
	pick := func() *[2]int32 { v := rig.Pick(g.r, pairs); return &v }
	tb := Schema{Name: fcT, Tb: pick()}
	other := []Schema{{Name: fcA, Mif: i32(rig.Pick(g.r, []int32{1, 5, 50}))}}
	if g.r.Intn(2) == 0 {
		other = append(other, Schema{Name: fcB, Tb: pick()})
	}
	spec := func() []Schema {
		l := append([]Schema{}, other...)
		pos := g.r.Intn(len(l) + 1)
		return append(l[:pos:pos], append([]Schema{tb}, l[pos:]...)...)
	}
	ops := []Op{{K: "sync", Schemas: spec()}}
	var rid int64
	for k := 3 + g.r.Intn(10); k > 0; k-- {
		switch w := g.r.Intn(20); {
		case w < 6: // draw
			rid++
			name := fcT
			par := *tb.Tb
			if len(other) > 1 && other[1].Tb != nil && g.r.Intn(3) == 0 {
				name, par = fcB, *other[1].Tb
			}
			b, q := int64(par[1]), int64(par[0])
			tk := rig.Pick(g.r, []int64{b, b, b / 2, 1, 2 * b, 8 * b, b + 1, q, 8 * q, max(q, b)})
			reqs := []Req{{FC: name, Tokens: int32(min(tk, 1<<30))}}
			if g.r.Intn(3) == 0 {
				reqs = append(reqs, Req{FC: fcA, Tokens: int32(g.r.Intn(8))})
			}
			ops = append(ops, Op{K: "acq", Inst: rig.Hex(rig.Pick(g.r, g.insts)), Rid: rid, Nows: make([]int64, 8), Reqs: reqs})
		case w < 13: // this bucket re-delivered unchanged next to a changed schema
			switch g.r.Intn(4) {
			case 0:
				other[0] = Schema{Name: fcA, Mif: i32(*other[0].Mif + 1)}
			case 1:
				if len(other) > 1 {
					other = other[:1]
				} else {
					other = append(other, Schema{Name: fcB, Tb: pick()})
				}
			case 2:
				if len(other) > 1 && other[1].Tb != nil {
					other[1] = Schema{Name: fcB, Tb: pick()}
				} else {
					other[0] = Schema{Name: fcA, Mif: i32(*other[0].Mif + 3)}
				}
			default:
				other[0] = Schema{Name: fcA, Mif: i32(int32(1 + g.r.Intn(60)))}
			}
			ops = append(ops, Op{K: "sync", Schemas: spec()})
		case w < 15: // identical spec delivered again (no delivery at all)
			ops = append(ops, Op{K: "sync", Schemas: append([]Schema{}, ops[lastSync(ops)].Schemas...)})
		case w < 17: // direct Resize to the same values
			ops = append(ops, Op{K: "resize", FC: fcT, N: tb.Tb[0], Burst: tb.Tb[1]})
		case w < 18: // direct Resize to other values (the spec keeps the old ones: an identical re-sync will not undo it)
			v := pick()
			ops = append(ops, Op{K: "resize", FC: fcT, N: v[0], Burst: v[1]})
		default: // a real change of this bucket through the spec
			tb = Schema{Name: fcT, Tb: pick()}
			ops = append(ops, Op{K: "sync", Schemas: spec()})
		}
	}
	return Case{Kind: "seq", Ops: g.withProbes(ops), LooseTB: true}
}

func lastSync(ops []Op) int {
	for i := len(ops) - 1; i >= 0; i-- {
		if ops[i].K == "sync" {
			return i
		}
	}
	return 0
}

// lifeOp: a heartbeat, a stored condition, a heartbeat time-out sweep (one, several or all known identities stale,
// sometimes one that is not on record), or the clean-up of conditions of unknown clients.
func (g *gen) lifeOp(lastID map[string]int64) Op {
	switch w := g.r.Intn(10); {
	case w < 4:
		return Op{K: "hb", Inst: rig.Hex(rig.Pick(g.r, g.insts))}
	case w < 5:
		return Op{K: "cond", Inst: rig.Hex(rig.Pick(g.r, g.insts))}
	case w < 9:
		var stale []string
		for _, i := range g.insts {
			if g.r.Intn(3) == 0 {
				stale = append(stale, rig.Hex(i))
			}
		}
		if len(stale) == 0 || g.r.Intn(6) == 0 {
			stale = append(stale, rig.Hex(rig.Pick(g.r, g.insts)))
		}
		if g.r.Intn(8) == 0 {
			stale = append(stale, rig.Hex("nobody"))
		}
		for _, h := range stale {
			delete(lastID, h)
		}
		return Op{K: "sweep", Stale: stale}
	default:
		return Op{K: "unknown"}
	}
}

// lifecycleCase: several instances are known to the server (heartbeats, some with a stored condition) and hold
// in-flight counts that fill the limit; one or several of them time out in one sweep or are cleaned up as unknown
// clients, live ones report around the sweep, removed ones come back; the freed room is asked for at once.
func (g *gen) lifecycleCase() Case {
	limit := rig.Pick(g.r, []int32{10, 20, 101})
	schemas := []Schema{{Name: fcA, Mif: i32(limit)}}
	if g.r.Intn(3) == 0 {
		schemas = append(schemas, Schema{Name: fcB, Mif: i32(rig.Pick(g.r, []int32{5, 50}))})
	}
	ops := []Op{{K: "sync", Schemas: schemas}}
	lastID := map[string]int64{}
	report := func(inst string, cur int32) Op {
		h := rig.Hex(inst)
		lastID[h] += int64(1 + g.r.Intn(2))
		fc := fcA
		if len(schemas) > 1 && g.r.Intn(4) == 0 {
			fc = fcB
		}
		if g.r.Intn(3) == 0 {
			return Op{K: "acq", Inst: h, Rid: lastID[h], Nows: make([]int64, 8), Reqs: []Req{{FC: fc, Tokens: cur}}}
		}
		return Op{K: "set", FC: fc, Inst: h, Rid: lastID[h], Cur: cur}
	}
	// everybody says hello and takes a share that nearly fills the limit
	share := limit / int32(len(g.insts))
	for _, i := range g.insts {
		if g.r.Intn(8) != 0 {
			ops = append(ops, Op{K: "hb", Inst: rig.Hex(i)})
		}
		if g.r.Intn(3) == 0 {
			ops = append(ops, Op{K: "cond", Inst: rig.Hex(i)})
		}
		ops = append(ops, report(i, share+int32(g.r.Intn(2))))
	}
	for k := 4 + g.r.Intn(14); k > 0; k-- {
		switch w := g.r.Intn(10); {
		case w < 4:
			ops = append(ops, g.lifeOp(lastID))
		case w < 9:
			// a live one reports: its share, a bit more, or everything that should be free now
			cur := rig.Pick(g.r, []int32{share, share + 1, share - 1, limit - share, limit, 1, 0, 2 * share})
			if cur < 0 {
				cur = 0
			}
			ops = append(ops, report(rig.Pick(g.r, g.insts), cur))
		default:
			h := rig.Hex(rig.Pick(g.r, g.insts))
			delete(lastID, h)
			ops = append(ops, Op{K: "del", Inst: h})
		}
	}
	return Case{Kind: "seq", Ops: ops}
}

// resyncCase: a token bucket next to other schemas of the same cluster; tokens are drawn, the cluster's spec is
// synced again with a difference ELSEWHERE (another schema edited / added / removed, order changed) or the bucket is
// resized to the values it has, and tokens are drawn again at once.
func (g *gen) resyncCase() Case {
	burst := rig.Pick(g.r, []int32{2, 4, 10, 16})
	tb := Schema{Name: fcT, Tb: &[2]int32{1, burst}}
	other := []Schema{{Name: fcA, Mif: i32(rig.Pick(g.r, []int32{1, 5, 50}))}}
	spec := func() []Schema {
		l := append([]Schema{}, other...)
		pos := g.r.Intn(len(l) + 1)
		l = append(l[:pos], append([]Schema{tb}, l[pos:]...)...)
		return l
	}
	ops := []Op{{K: "sync", Schemas: spec()}}
	var rid int64
	acq := func() Op {
		rid++
		tk := rig.Pick(g.r, []int32{burst, burst, burst / 2, 1, 2 * burst, 8 * burst, burst + 1})
		return Op{K: "acq", Inst: rig.Hex(rig.Pick(g.r, g.insts)), Rid: rid, Nows: make([]int64, 8), Reqs: []Req{{FC: fcT, Tokens: tk}}}
	}
	for k := 4 + g.r.Intn(12); k > 0; k-- {
		switch w := g.r.Intn(10); {
		case w < 5:
			ops = append(ops, acq())
		case w < 8: // edit elsewhere
			switch g.r.Intn(4) {
			case 0:
				other[0].Mif = i32(*other[0].Mif + 1)
			case 1:
				other = append(other, Schema{Name: fcB, Mif: i32(7)})
			case 2:
				if len(other) > 1 {
					other = other[:1]
				} else {
					other[0].Mif = i32(*other[0].Mif + 2)
				}
			default:
				other[0] = Schema{Name: fcA, Mif: i32(int32(1 + g.r.Intn(60)))}
			}
			ops = append(ops, Op{K: "sync", Schemas: spec()})
		case w < 9: // Resize to the same values
			ops = append(ops, Op{K: "resize", FC: fcT, N: 1, Burst: burst})
		default: // a real change of this bucket
			burst = rig.Pick(g.r, []int32{2, 4, 10, 16})
			tb = Schema{Name: fcT, Tb: &[2]int32{1, burst}}
			ops = append(ops, Op{K: "sync", Schemas: spec()})
		}
	}
	return Case{Kind: "seq", Ops: g.withProbes(ops)}
}

func (g *gen) bucketCase() Case {
	qps := rig.Pick(g.r, []int32{1, 2, 3, 7, 10, 100, 1000, 99999})
	burst := rig.Pick(g.r, []int32{0, 1, 2, 5, 10, 100, 1000, 10000})
	cs := Case{Kind: "bucket", QPS: qps, Burst: burst, ViaSync: g.r.Intn(2) == 0}
	var now int64
	ms := int64(1000000)
	fill := int64(burst) * 1000 / int64(qps) // ms to refill completely
	n := 5 + g.r.Intn(36)
	back := g.r.Intn(12) == 0
	neg := g.r.Intn(15) == 0
	resizes := g.r.Intn(2) == 0
	for k := 0; k < n; k++ {
		step := rig.Pick(g.r, []int64{0, 0, 1, 1, 5, 100, 1000, 3000, fill, fill / 2, fill + 1, 1000 / int64(qps), 1000/int64(qps) + 1})
		now += step * ms
		if back && g.r.Intn(6) == 0 && now > 10*ms {
			now -= int64(1+g.r.Intn(9)) * ms
		}
		b := int64(burst)
		v := rig.Pick(g.r, []int64{0, 1, 1, 1, 2, b / 2, b, b + 1, b - 1, int64(g.r.Intn(int(b) + 2))})
		if neg && g.r.Intn(8) == 0 {
			v = -int64(1 + g.r.Intn(3))
		}
		if v < 0 && !neg {
			v = 0
		}
		cs.Calls = append(cs.Calls, Call{Now: now, N: int32(v)})
		if resizes && g.r.Intn(5) == 0 {
			// a re-sync of the spec: mostly to the values the bucket already has (no reconfiguration: the window
			// of the rate judge spans it), sometimes a real change (the window is closed)
			if g.r.Intn(4) != 0 {
				cs.Calls = append(cs.Calls, Call{Resize: &[2]int32{qps, burst}})
			} else {
				qps = rig.Pick(g.r, []int32{1, 2, 7, 10, 100, 1000})
				burst = rig.Pick(g.r, []int32{0, 1, 2, 5, 10, 100, 1000})
				fill = int64(burst) * 1000 / int64(qps)
				cs.Calls = append(cs.Calls, Call{Resize: &[2]int32{qps, burst}})
			}
		}
	}
	return cs
}

func (g *gen) concCase(i int, rounds int) Case {
	g.newUniverse()
	// "i1", "i2", "i3" below stand for the first three identities of the case's universe
	nm := func(inst string) string {
		switch inst {
		case "i1":
			return rig.Hex(g.insts[0])
		case "i2":
			return rig.Hex(g.insts[1])
		case "i3":
			return rig.Hex(g.insts[2])
		}
		return rig.Hex(inst)
	}
	a := func(max int32) Op { return Op{K: "sync", Schemas: []Schema{{Name: fcA, Mif: i32(max)}}} }
	set := func(inst string, rid int64, cur int32) Op {
		return Op{K: "set", FC: fcA, Inst: nm(inst), Rid: rid, Cur: cur}
	}
	del := func(inst string) Op { return Op{K: "del", Inst: nm(inst)} }
	cs := Case{Kind: "conc", Rounds: rounds, Reader: g.r.Intn(4) == 0}
	streams := []string{"removals", "report-removal", "same-id", "near-limit", "mixed", "resize", "acquire-removal", "mixed"}
	g.lastStream = streams[i%len(streams)]
	switch g.lastStream {
	case "removals":
		cs.Prefix = []Op{a(1000), set("i1", 1, int32(1+g.r.Intn(90))), set("i2", 1, int32(g.r.Intn(40)))}
		for k := 2 + g.r.Intn(3); k > 0; k-- {
			if g.r.Intn(2) == 0 {
				cs.Threads = append(cs.Threads, []Op{del("i1")})
			} else {
				cs.Threads = append(cs.Threads, []Op{set("i1", -1, -1)})
			}
		}
	case "report-removal":
		cs.Prefix = []Op{a(1000), set("i1", 1, int32(1+g.r.Intn(50))), set("i2", 1, 7)}
		cs.Threads = [][]Op{{set("i1", 2, int32(g.r.Intn(80)))}, {del("i1")}}
		if g.r.Intn(2) == 0 {
			cs.Threads = append(cs.Threads, []Op{set("i1", 3, int32(g.r.Intn(80)))})
		}
	case "same-id":
		cs.Prefix = []Op{a(1000), set("i1", 1, 10)}
		id := int64(2 + g.r.Intn(5))
		for k := 2 + g.r.Intn(3); k > 0; k-- {
			cs.Threads = append(cs.Threads, []Op{set("i1", id, int32(20+10*k))})
		}
	case "near-limit":
		cs.Prefix = []Op{a(50), set("i1", 1, 20), set("i2", 1, 20)}
		cs.Threads = [][]Op{{set("i1", 2, int32(20+g.r.Intn(15)))}, {set("i2", 2, int32(20+g.r.Intn(15)))}, {set("i3", 1, int32(g.r.Intn(15)))}}
		if g.r.Intn(2) == 0 {
			cs.Threads[2] = append(cs.Threads[2], set("i1", 3, int32(g.r.Intn(10))))
		}
	case "resize":
		cs.Prefix = []Op{a(100), set("i1", 1, 40), set("i2", 1, 40)}
		cs.Threads = [][]Op{{Op{K: "resize", FC: fcA, N: int32(30 + g.r.Intn(40))}, Op{K: "resize", FC: fcA, N: 100}},
			{set("i1", 2, int32(g.r.Intn(70)))}, {set("i2", 2, int32(g.r.Intn(70)))}}
	case "acquire-removal":
		cs.Prefix = []Op{a(100), set("i1", 1, 30)}
		acq := Op{K: "acq", Inst: nm("i1"), Rid: 2, Nows: make([]int64, 8), Reqs: []Req{{FC: fcA, Tokens: int32(g.r.Intn(120))}}}
		cs.Threads = [][]Op{{acq}, {del("i1")}, {set("i2", 1, int32(g.r.Intn(90)))}}
	default: // mixed
		cs.Prefix = []Op{a(int32(20 + g.r.Intn(60))), set("i1", 1, int32(g.r.Intn(30))), set("i2", 1, int32(g.r.Intn(30)))}
		nt := 2 + g.r.Intn(2)
		budget := 6
		var id int64 = 1
		for t := 0; t < nt; t++ {
			var th []Op
			for k := 1 + g.r.Intn(2); k > 0 && budget > 0; k-- {
				budget--
				inst := rig.Pick(g.r, []string{"i1", "i1", "i2"})
				switch w := g.r.Intn(10); {
				case w < 6:
					id += int64(g.r.Intn(2))
					th = append(th, set(inst, id, int32(g.r.Intn(60))))
				case w < 8:
					th = append(th, del(inst))
				case w < 9:
					th = append(th, Op{K: "resize", FC: fcA, N: int32(10 + g.r.Intn(80))})
				default:
					th = append(th, set(inst, 0, int32(g.r.Intn(60))))
				}
			}
			cs.Threads = append(cs.Threads, th)
		}
	}
	return cs
}

func (g *gen) rateCase(millis int) Case {
	qps := rig.Pick(g.r, []int32{50, 1000, 20000})
	burst := rig.Pick(g.r, []int32{1, 10, 100, 1000})
	b := burst
	cs := Case{Kind: "rate", QPS: qps, Burst: burst, Workers: 1 + g.r.Intn(6), Millis: millis,
		Asks: []int32{1, 3, b, 2*b + 1, 8 * b, 0, -1, 17, 16*b + 5, b / 2}}
	if g.r.Intn(2) == 0 {
		// many callers hammering the flow control itself: clock readings race for the bucket's lock
		cs.Direct, cs.Workers, cs.QPS = true, 8, 20000
		// (no negative asks here: DoAcquire refuses them before the flow control is reached, so TryAcquireN(-n) is
		// not a situation of the real server)
		cs.Asks = []int32{1, 2, 3, 1, 2, 0, b}
	}
	return cs
}
