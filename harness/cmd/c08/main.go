// C08 harness: the limiter server's global-count strategy.
//
// Real code driven (in-process, current /repo tree):
//   - local.NewLocalStore().SyncFlowControl / GetFlowControl / DeleteInstanceState
//   - flowcontrol.GlobalFlowControl.SetState / Resize / DebugInfo / TryAcquireN (globalMaxInflight, globalTokenBucket)
//   - limiter.rateLimiter.DoAcquire (through the overlay shim VerifC08RateLimiter: leader of one shard, local store)
//   - the rate.Limiter inside a real globalTokenBucket with scripted clock readings (AllowN)
//
// Case kinds (see Case): "seq" (deterministic op lists: model = code step by step + the Lean judge on the
// code's own observations), "bucket" (scripted AllowN), "conc" (goroutines released from a barrier; judged at
// quiescence: count == Σ states, outcome is the outcome of some interleaving of the atomic steps, equal
// request ids processed at most once), "rate" (real-time DoAcquire totals, one-sided with slack).
package main

import (
	"encoding/json"
	"flag"
	"fmt"
	"io"
	"os"
	"path/filepath"
	"regexp"
	"runtime"
	"sort"
	"strconv"
	"strings"
	"sync"
	"sync/atomic"
	"time"

	"k8s.io/apimachinery/pkg/labels"
	"k8s.io/klog"

	proxyv1alpha1 "github.com/kubewharf/kubegateway/pkg/apis/proxy/v1alpha1"
	"github.com/kubewharf/kubegateway/pkg/ratelimiter/limiter"
	"github.com/kubewharf/kubegateway/pkg/ratelimiter/store/flowcontrol"
	_interface "github.com/kubewharf/kubegateway/pkg/ratelimiter/store/interface"
	"github.com/kubewharf/kubegateway/pkg/ratelimiter/store/local"

	"verifharness/rig"
)

const cluster = "cluster-a"

type Schema struct {
	Name string    `json:"name"` // hex
	Mif  *int32    `json:"mif"`
	Tb   *[2]int32 `json:"tb"`
}

type Req struct {
	FC     string `json:"fc"` // hex
	Tokens int32  `json:"tokens"`
}

type Op struct {
	K       string   `json:"k"` // sync | set | resize | acq | del | hb | cond | sweep | unknown
	Schemas []Schema `json:"schemas,omitempty"`
	FC      string   `json:"fc,omitempty"`   // hex
	Inst    string   `json:"inst,omitempty"` // hex
	Rid     int64    `json:"rid"`
	Cur     int32    `json:"cur"`
	N       int32    `json:"n"`
	Burst   int32    `json:"burst"`
	Reqs    []Req    `json:"reqs,omitempty"`
	Stale   []string `json:"stale,omitempty"` // sweep: the recorded clients (hex) that are past the heartbeat time-out
	Nows    []int64  `json:"nows,omitempty"`
}

type Call struct {
	Now    int64     `json:"now"` // ns after the limiter's creation
	N      int32     `json:"n"`
	Resize *[2]int32 `json:"resize,omitempty"` // instead of an AllowN: Resize(qps, burst) on the flow control
}

type Case struct {
	Kind string `json:"kind"`
	// seq
	Ops []Op `json:"ops,omitempty"`
	// seq: buckets with qps != 1 refill noticeably while the case runs, so their grants are judged (against the
	// CONFIGURED qps/burst, in real time, one-sided) but not compared with the time-free model
	LooseTB bool `json:"looseTB,omitempty"`
	// bucket: Resize entries travel SyncFlowControl on a local store (next to a second schema that is edited so
	// that the spec differs) instead of a direct fc.Resize
	ViaSync bool `json:"viaSync,omitempty"`
	// bucket, rate
	QPS   int32  `json:"qps,omitempty"`
	Burst int32  `json:"burst,omitempty"`
	Calls []Call `json:"calls,omitempty"`
	// conc
	Prefix  []Op   `json:"prefix,omitempty"`
	Threads [][]Op `json:"threads,omitempty"`
	Rounds  int    `json:"rounds,omitempty"`
	Reader  bool   `json:"reader,omitempty"` // a goroutine calling DebugInfo all the time
	// rate
	Direct  bool  `json:"direct,omitempty"` // callers use GlobalFlowControl.TryAcquireN instead of DoAcquire
	Workers int   `json:"workers,omitempty"`
	Millis  int   `json:"millis,omitempty"`
	Asks    []int32 `json:"asks,omitempty"`
}

// Failure budget: the exploration goes on until five PROPERTY failures (judge) are recorded; of the model-vs-code
// differences only the first three are recorded (and shrunk) — a tree on which the tie is broken must still be
// searched for a failing input.
var nJudge, nDiff int

const maxDiffs = 3

func recordFailure(c *rig.Ctx, f rig.Failure) {
	if f.Kind == "judge" {
		nJudge++
	} else {
		if nDiff >= maxDiffs {
			c.Count("diff-not-recorded")
			return
		}
		nDiff++
	}
	c.Fail(f)
}

func otherFailures(c *rig.Ctx) int { return nJudge }

// ------------------------------------------------------------------------------------------------
// the real code

type world struct {
	store _interface.LimitStore
	rig   *limiter.VerifC08Rig
	rl    limiter.RateLimiter
	// a flow control's unexported state could not be read (representation changed): a broken tie
	notUnderstood bool
}

func newWorld() *world {
	s := local.NewLocalStore()
	rig := limiter.VerifC08NewRig(s, true, cluster)
	return &world{store: s, rig: rig, rl: rig.Limiter()}
}

type FCSnap struct {
	Name   string          `json:"name"` // hex
	T      string          `json:"t"`
	Max    int32           `json:"max"`
	Count  int32           `json:"count"`
	States [][]interface{} `json:"states"`
	QPS    int32           `json:"qps"`
	Burst  int32           `json:"burst"`
}

// known: the heartbeat table and the instances of the stored conditions (hex, sorted)
func (w *world) known() (clients, conds []string) {
	clients, conds = []string{}, []string{}
	for _, c := range w.rig.Clients() {
		clients = append(clients, rig.Hex(c))
	}
	for _, cd := range w.store.List(labels.Everything()) {
		conds = append(conds, rig.Hex(cd.Spec.Instance))
	}
	sort.Strings(clients)
	sort.Strings(conds)
	return
}

func (w *world) snapshot() []FCSnap {
	fcs := local.VerifC08FlowControls(w.store, cluster)
	names := make([]string, 0, len(fcs))
	for n := range fcs {
		names = append(names, n)
	}
	sort.Strings(names)
	res := []FCSnap{}
	for _, n := range names {
		st, understood := peekFC(fcs[n])
		if !understood {
			w.notUnderstood = true
		}
		s := FCSnap{Name: rig.Hex(n), T: st.Kind, Max: st.Max, Count: st.Count, QPS: st.QPS, Burst: st.Burst, States: [][]interface{}{}}
		insts := make([]string, 0, len(st.States))
		for i := range st.States {
			insts = append(insts, i)
		}
		sort.Strings(insts)
		for _, i := range insts {
			s.States = append(s.States, []interface{}{rig.Hex(i), st.States[i][0], st.States[i][1]})
		}
		res = append(res, s)
	}
	return res
}

// canonical form of a store snapshot for comparison with the model: name -> description
func canonSnap(raw json.RawMessage) (map[string]string, error) {
	var l []struct {
		Name   string          `json:"name"`
		T      string          `json:"t"`
		Max    int64           `json:"max"`
		Count  int64           `json:"count"`
		States [][]interface{} `json:"states"`
		QPS    int64           `json:"qps"`
		Burst  int64           `json:"burst"`
	}
	if err := json.Unmarshal(raw, &l); err != nil {
		return nil, err
	}
	res := map[string]string{}
	for _, f := range l {
		if _, dup := res[f.Name]; dup {
			return nil, fmt.Errorf("duplicate flow control %s", f.Name)
		}
		if f.T == "tb" {
			res[f.Name] = fmt.Sprintf("tb qps=%d burst=%d", f.QPS, f.Burst)
			continue
		}
		var st []string
		for _, s := range f.States {
			st = append(st, fmt.Sprintf("%v:%v:%v", s[0], jsonNum(s[1]), jsonNum(s[2])))
		}
		sort.Strings(st)
		res[f.Name] = fmt.Sprintf("mif max=%d count=%d %s", f.Max, f.Count, strings.Join(st, ","))
	}
	return res, nil
}

func jsonNum(v interface{}) string {
	switch x := v.(type) {
	case float64:
		return strconv.FormatInt(int64(x), 10)
	case int64:
		return strconv.FormatInt(x, 10)
	case json.Number:
		return x.String()
	}
	return fmt.Sprint(v)
}

func toSchemas(l []Schema) proxyv1alpha1.FlowControl {
	fc := proxyv1alpha1.FlowControl{}
	for _, s := range l {
		sc := proxyv1alpha1.FlowControlSchema{Name: rig.UnHex(s.Name)}
		if s.Mif != nil {
			sc.GlobalMaxRequestsInflight = &proxyv1alpha1.MaxRequestsInflightFlowControlSchema{Max: *s.Mif}
		}
		if s.Tb != nil {
			sc.GlobalTokenBucket = &proxyv1alpha1.TokenBucketFlowControlSchema{QPS: s.Tb[0], Burst: s.Tb[1]}
		}
		fc.Schemas = append(fc.Schemas, sc)
	}
	return fc
}

func errKind(msg string) string {
	switch {
	case msg == "":
		return ""
	case strings.Contains(msg, "RequestIDTooOld"):
		return "RequestIDTooOld"
	case strings.Contains(msg, "tokens cannot be negative"):
		return "NegativeTokens"
	case strings.Contains(msg, "not found"):
		return "NotFound"
	}
	return "other:" + msg
}

type setReply struct {
	Accept bool   `json:"accept"`
	Latest int32  `json:"latest"`
	Err    string `json:"err"`
}
type acqReply struct {
	Accept bool   `json:"accept"`
	Limit  int32  `json:"limit"`
	Err    string `json:"err"`
}

// exec runs one op on the real code and returns its reply in the model's shape.
func (w *world) exec(op Op) (reply interface{}, panicMsg string) {
	msg, panicked := rig.Recover(func() {
		switch op.K {
		case "sync":
			w.store.SyncFlowControl(cluster, toSchemas(op.Schemas))
		case "set":
			fc, err := w.store.GetFlowControl(cluster, rig.UnHex(op.FC))
			if err != nil {
				reply = "NotFound"
				return
			}
			a, l, e := fc.SetState(rig.UnHex(op.Inst), op.Rid, op.Cur)
			r := setReply{Accept: a, Latest: l}
			if e != nil {
				r.Err = errKind(e.Error())
			}
			reply = r
		case "resize":
			fc, err := w.store.GetFlowControl(cluster, rig.UnHex(op.FC))
			if err != nil {
				reply = "NotFound"
				return
			}
			reply = fc.Resize(op.N, op.Burst)
		case "del":
			w.store.DeleteInstanceState(rig.UnHex(op.Inst))
		case "hb":
			w.rl.Heartbeat(rig.UnHex(op.Inst))
		case "cond":
			// a rate-limit condition of this instance in the store, as UpdateRateLimitConditionStatus leaves it
			inst := rig.UnHex(op.Inst)
			cd := &proxyv1alpha1.RateLimitCondition{}
			cd.Name = "c-" + op.Inst
			cd.Labels = map[string]string{limiter.RateLimitConditionInstanceLabel: inst}
			cd.Spec.UpstreamCluster = cluster
			cd.Spec.Instance = inst
			w.store.Save(cluster, cd)
		case "sweep":
			stale := []string{}
			for _, h := range op.Stale {
				stale = append(stale, rig.UnHex(h))
			}
			if err := w.rig.SweepTimeout(stale); err != nil {
				reply = "error:" + err.Error()
			}
		case "unknown":
			w.rig.CleanupUnknown()
		case "acq":
			acq := &proxyv1alpha1.RateLimitAcquire{Spec: proxyv1alpha1.RateLimitAcquireSpec{Instance: rig.UnHex(op.Inst), RequestID: op.Rid}}
			for _, r := range op.Reqs {
				acq.Spec.Requests = append(acq.Spec.Requests, proxyv1alpha1.RateLimitAcquireRequest{FlowControl: rig.UnHex(r.FC), Tokens: r.Tokens})
			}
			res, err := w.rl.DoAcquire(cluster, acq)
			if err != nil {
				reply = "error:" + err.Error()
				return
			}
			out := []acqReply{}
			for i, r := range res.Status.Results {
				if i < len(op.Reqs) && r.FlowControl != rig.UnHex(op.Reqs[i].FC) {
					reply = fmt.Sprintf("error: result %d is for %q", i, r.FlowControl)
					return
				}
				out = append(out, acqReply{Accept: r.Accept, Limit: r.Limit, Err: errKind(r.Error)})
			}
			reply = out
		}
	})
	if panicked {
		return nil, msg
	}
	return reply, ""
}

var debugRe = regexp.MustCompile(` max=(-?\d+) count=(-?\d+) total=(-?\d+) details=`)

// debugTotals parses DebugInfo ("… max=M count=C total=T details=…").
func debugTotals(fc flowcontrol.GlobalFlowControl) (max, count, total int64, ok bool) {
	m := debugRe.FindStringSubmatch(fc.DebugInfo())
	if m == nil {
		return 0, 0, 0, false
	}
	max, _ = strconv.ParseInt(m[1], 10, 64)
	count, _ = strconv.ParseInt(m[2], 10, 64)
	total, _ = strconv.ParseInt(m[3], 10, 64)
	return max, count, total, true
}

// quiescentCheck compares DebugInfo with the shim snapshot and judges count == total on every max-in-flight
// flow control. Returns a judge message ("" if fine) and a diff message.
func (w *world) quiescentCheck() (judge string, diff string) {
	for name, fc := range local.VerifC08FlowControls(w.store, cluster) {
		st, understood := peekFC(fc)
		if !understood {
			return "", fmt.Sprintf("the fields of flow control %q are not understood any more (limit / total / per-instance map)", name)
		}
		if st.Kind != "mif" {
			continue
		}
		max, count, total, ok := debugTotals(fc)
		if !ok {
			return "", fmt.Sprintf("DebugInfo of %q does not parse: %q", name, fc.DebugInfo())
		}
		var sum int32
		for _, v := range st.States {
			sum += int32(v[0])
		}
		if int64(st.Count) != count || int64(sum) != total || int64(st.Max) != max {
			diff = fmt.Sprintf("DebugInfo of %q (max=%d count=%d total=%d) differs from the fields read by the shim (max=%d count=%d Σ=%d)", name, max, count, total, st.Max, st.Count, sum)
		}
		if count != total {
			return fmt.Sprintf("flow control %q: running total count=%d but the registered instances sum to %d (%s)", name, count, total, fc.DebugInfo()), diff
		}
	}
	return "", diff
}

// ------------------------------------------------------------------------------------------------
// seq cases

type obs struct {
	Reply interface{} `json:"reply"`
	Snap  []FCSnap    `json:"snap"` // what the code holds (compared with the model)
	// for the judge: the same with the CONFIGURED limit of every max-in-flight flow control, and the ghost
	// "newest request id already processed" per (flow control, instance) BEFORE the op
	JSnap []FCSnap        `json:"jsnap"`
	Ghost [][]interface{} `json:"ghost"`
	// the heartbeat table and the instances with a stored condition (compared with the model)
	Clients []string `json:"clients"`
	Conds   []string `json:"conds"`
}

// ghostAcc is the harness's own record, PER EXACT INSTANCE IDENTITY, of what the server has told the instances:
// for every max-in-flight flow control and instance the latest count the server registered for it according to its
// replies (accepted: the count reported; not accepted: the `latest` it answered; an error: nothing changes) and the
// newest positive request id it answered without an error, since the instance was last removed (by a negative report,
// DeleteInstanceState, a heartbeat time-out sweep or the clean-up of unknown clients) / the flow control (re)created.
// The judge's states are these, never the map the code keeps: "per instance" means per exact identity.
type ghostEntry struct {
	count  int64
	lastID int64
}

type ghostAcc map[string]map[string]*ghostEntry

func (g ghostAcc) list() [][]interface{} {
	out := [][]interface{}{}
	for fc, m := range g {
		for inst, e := range m {
			if e.lastID > 0 {
				out = append(out, []interface{}{fc, inst, e.lastID})
			}
		}
	}
	sort.Slice(out, func(i, j int) bool { return fmt.Sprint(out[i]) < fmt.Sprint(out[j]) })
	return out
}

// states of one flow control in the shape of a snapshot: [inst, count, lastId], sorted
func (g ghostAcc) states(fc string) [][]interface{} {
	insts := []string{}
	for i := range g[fc] {
		insts = append(insts, i)
	}
	sort.Strings(insts)
	out := [][]interface{}{}
	for _, i := range insts {
		out = append(out, []interface{}{i, g[fc][i].count, g[fc][i].lastID})
	}
	return out
}

func (g ghostAcc) report(fc, inst string, rid int64, cur int32, accept bool, latest int32, errKind string) {
	if cur < 0 {
		delete(g[fc], inst)
		return
	}
	if errKind != "" {
		return
	}
	if g[fc] == nil {
		g[fc] = map[string]*ghostEntry{}
	}
	e := g[fc][inst]
	if e == nil {
		e = &ghostEntry{}
		g[fc][inst] = e
	}
	if accept {
		e.count = int64(cur)
	} else {
		e.count = int64(latest)
	}
	if rid > e.lastID {
		e.lastID = rid
	}
}

func (g ghostAcc) remove(inst string) {
	for _, m := range g {
		delete(m, inst)
	}
}

// update after one op. mifBefore: the max-in-flight flow controls that existed before the op; clientsBefore /
// condsBefore: the heartbeat table and condition instances as the HARNESS tracks them.
func (g ghostAcc) update(op Op, reply interface{}, mifBefore map[string]bool, conf *confTracker, reset map[string]bool, known *knownTracker) {
	switch op.K {
	case "set":
		if r, ok := reply.(setReply); ok && mifBefore[op.FC] {
			g.report(op.FC, op.Inst, op.Rid, op.Cur, r.Accept, r.Latest, r.Err)
		}
	case "acq":
		if rs, ok := reply.([]acqReply); ok {
			for k, r := range rs {
				if k < len(op.Reqs) && mifBefore[op.Reqs[k].FC] && op.Reqs[k].Tokens >= 0 {
					g.report(op.Reqs[k].FC, op.Inst, op.Rid, op.Reqs[k].Tokens, r.Accept, r.Limit, r.Err)
				}
			}
		}
	case "del":
		g.remove(op.Inst)
	}
	for _, inst := range known.apply(op) {
		g.remove(inst)
	}
	for fc := range g {
		if f, ok := conf.fcs[fc]; !ok || f.typ != "mif" || reset[fc] {
			delete(g, fc)
		}
	}
}

// knownTracker restates from the ops alone which instances have a heartbeat on record and which have a stored
// condition; apply returns the instances an op removes through the server's own clean-up paths.
type knownTracker struct {
	clients, conds map[string]bool
}

func newKnownTracker() *knownTracker {
	return &knownTracker{clients: map[string]bool{}, conds: map[string]bool{}}
}

func (k *knownTracker) apply(op Op) (removed []string) {
	switch op.K {
	case "hb":
		k.clients[op.Inst] = true
	case "cond":
		k.conds[op.Inst] = true
	case "sweep":
		for _, i := range op.Stale {
			if k.clients[i] {
				delete(k.clients, i)
				delete(k.conds, i)
				removed = append(removed, i)
			}
		}
	case "unknown":
		for i := range k.conds {
			if !k.clients[i] && i != "" {
				delete(k.conds, i)
				removed = append(removed, i)
			}
		}
	}
	return
}

type runResult struct {
	ok          bool
	kind, class string // of the failure, when !ok
	features    map[string]bool
}

func runSeq(c *rig.Ctx, cs Case, record bool) runResult {
	res := runResult{ok: true, features: map[string]bool{}}
	fail := func(kind, class, what string, impl, model interface{}) runResult {
		if record {
			recordFailure(c, rig.Failure{Kind: kind, Class: class, What: what, Case: cs, Impl: impl, Model: model})
		}
		res.ok, res.kind, res.class = false, kind, class
		return res
	}
	w := newWorld()
	t0 := time.Now()
	var observations []obs
	epochs := map[string]*tbEpoch{}
	conf := newConfTracker()
	ghost := ghostAcc{}
	known := newKnownTracker()
	for i, op := range cs.Ops {
		ghostBefore := ghost.list()
		mifBefore := map[string]bool{}
		if i > 0 {
			for _, f := range observations[i-1].Snap {
				if f.T == "mif" {
					mifBefore[f.Name] = true
				}
			}
		}
		tBefore := time.Now()
		reply, pm := w.exec(op)
		tAfter := time.Now()
		if pm != "" {
			return fail("judge", "c08.panic", fmt.Sprintf("op %d (%s) panicked: %s", i, op.K, pm), nil, nil)
		}
		if s, ok := reply.(string); ok && strings.HasPrefix(s, "error:") {
			return fail("diff", "c08.acquire-error", fmt.Sprintf("op %d: DoAcquire failed: %s", i, s), s, nil)
		}
		snap := w.snapshot()
		// token-rate judge in real time (one-sided): Σ grants of a bucket over any window in which its (qps, burst)
		// do not really change is at most burst + qps*T, whatever re-syncs / same-value Resizes fall in between
		if rs, ok := reply.([]acqReply); ok && op.K == "acq" {
			for k, r := range rs {
				if k >= len(op.Reqs) || !r.Accept || r.Err != "" || r.Limit <= 0 {
					continue
				}
				if ep := epochs[op.Reqs[k].FC]; ep != nil {
					ep.grants = append(ep.grants, grantEv{tBefore, tAfter, int64(r.Limit)})
					if msg := ep.check(); msg != "" {
						res.features["tb-window-spans-resync"] = true
						return fail("judge", "c08.tokens-rate", fmt.Sprintf("after op %d %s: token bucket %q (configured qps=%d burst=%d, configuration unchanged since op %d, %d re-syncs/Resizes to the same values in between): %s",
							i, rig.Canon(op), rig.UnHex(op.Reqs[k].FC), ep.qps, ep.burst, ep.startOp, ep.sameResizes, msg), observations, nil)
					}
				}
			}
		}
		reset := updateEpochs(epochs, conf, op, i)
		nClientsBefore := len(known.clients)
		ghost.update(op, reply, mifBefore, conf, reset, known)
		switch op.K {
		case "sweep":
			res.features[fmt.Sprintf("sweep-removes-%d-of-%d-known", min(nClientsBefore-len(known.clients), 3), min(nClientsBefore, 4))] = true
		case "unknown":
			res.features["cleanup-unknown"] = true
		}
		if len(op.Inst) > 120 {
			res.features["identity-longer-than-60-bytes"] = true
		}
		jsnap := append([]FCSnap{}, snap...)
		for k := range jsnap {
			if f, ok := conf.fcs[jsnap[k].Name]; ok && f.typ == "mif" && jsnap[k].T == "mif" {
				jsnap[k].Max = f.q // judged against the limit that was configured, not the one the code stored
				// … and against the harness's own per-exact-identity record of what the server accepted, not the code's map
				jsnap[k].States = ghost.states(jsnap[k].Name)
			}
		}
		cl, cds := w.known()
		observations = append(observations, obs{Reply: reply, Snap: snap, JSnap: jsnap, Ghost: ghostBefore, Clients: cl, Conds: cds})
		for _, ep := range epochs {
			if ep.sameResizes > 0 && len(ep.grants) > 0 {
				res.features["tb-window-spans-resync"] = true
			}
			if ep.qps != ep.burst && len(ep.grants) > 0 {
				res.features["tb-judged-with-qps!=burst"] = true
			}
		}
		if j, d := w.quiescentCheck(); j != "" {
			return fail("judge", "c08.total", fmt.Sprintf("after op %d (%s): %s", i, rig.Canon(op), j), observations, nil)
		} else if d != "" {
			return fail("diff", "c08.debuginfo", d, nil, nil)
		}
	}
	slow := time.Since(t0) > 400*time.Millisecond
	var m struct {
		Model []struct {
			Reply   json.RawMessage `json:"reply"`
			Snap    json.RawMessage `json:"snap"`
			Clients []string        `json:"clients"`
			Conds   []string        `json:"conds"`
		} `json:"model"`
		Judge []string `json:"judge"`
	}
	if err := c.Model("C08.run", map[string]interface{}{"ops": cs.Ops, "impl": observations}, &m); err != nil {
		return fail("diff", "c08.model-error", "model error: "+err.Error(), nil, nil)
	}
	// the property, evaluated by the Lean judge on the implementation's own replies and states
	if len(m.Judge) > 0 {
		v := m.Judge[0]
		idx, clause := v, v
		if k := strings.Index(v, ":"); k >= 0 {
			idx, clause = v[:k], v[k+1:]
		}
		n, _ := strconv.Atoi(idx)
		var opj interface{}
		if n < len(cs.Ops) {
			opj = cs.Ops[n]
		}
		return fail("judge", "c08."+clause, fmt.Sprintf("op %s %s breaks clause %q: reply %s, state after %s (all violations: %v)",
			idx, rig.Canon(opj), clause, rig.Canon(observations[n].Reply), rig.Canon(observations[n].Snap), m.Judge), observations, nil)
	}
	if len(m.Model) != len(cs.Ops) {
		return fail("diff", "c08.model-shape", "model answered a different number of steps", nil, nil)
	}
	hasTB := false
	for i := range cs.Ops {
		for _, f := range observations[i].Snap {
			if f.T == "tb" {
				hasTB = true
			}
		}
	}
	if slow && hasTB && !cs.LooseTB {
		c.Count("seq:diff-skipped-slow-run-with-bucket")
		return res
	}
	for i, op := range cs.Ops {
		ib, _ := json.Marshal(observations[i].Reply)
		var iv, mv interface{}
		json.Unmarshal(ib, &iv)
		json.Unmarshal(m.Model[i].Reply, &mv)
		if cs.LooseTB && op.K == "acq" {
			// drop the entries that concern a token bucket (judged, not compared)
			tb := map[string]bool{}
			if i > 0 {
				for _, f := range observations[i-1].Snap {
					if f.T == "tb" {
						tb[f.Name] = true
					}
				}
			}
			strip := func(v interface{}) interface{} {
				l, ok := v.([]interface{})
				if !ok || len(l) != len(op.Reqs) {
					return v
				}
				out := []interface{}{}
				for k, e := range l {
					if !tb[op.Reqs[k].FC] {
						out = append(out, e)
					}
				}
				return out
			}
			iv, mv = strip(iv), strip(mv)
		}
		if rig.Canon(iv) != rig.Canon(mv) {
			return fail("diff", "c08.reply", fmt.Sprintf("op %d %s: code answered %s, model %s", i, rig.Canon(op), rig.Canon(iv), rig.Canon(mv)), iv, mv)
		}
		sb, _ := json.Marshal(observations[i].Snap)
		is, err1 := canonSnap(sb)
		ms, err2 := canonSnap(m.Model[i].Snap)
		if err1 != nil || err2 != nil {
			return fail("diff", "c08.snap-shape", fmt.Sprintf("op %d: snapshots do not decode: %v %v", i, err1, err2), nil, nil)
		}
		if rig.Canon(is) != rig.Canon(ms) {
			return fail("diff", "c08.state", fmt.Sprintf("after op %d %s: code state %s, model state %s", i, rig.Canon(op), rig.Canon(is), rig.Canon(ms)), is, ms)
		}
		mc, md := append([]string{}, m.Model[i].Clients...), append([]string{}, m.Model[i].Conds...)
		sort.Strings(mc)
		sort.Strings(md)
		if rig.Canon(mc) != rig.Canon(observations[i].Clients) || rig.Canon(md) != rig.Canon(observations[i].Conds) {
			return fail("diff", "c08.known", fmt.Sprintf("after op %d %s: heartbeat table / condition instances: code %v / %v, model %v / %v", i, rig.Canon(op), observations[i].Clients, observations[i].Conds, mc, md), nil, nil)
		}
		// features for the histogram / non-triviality
		switch r := observations[i].Reply.(type) {
		case setReply:
			noteSet(res.features, op.Cur, r.Accept, r.Latest, r.Err)
			// the repaired branch: a report that does not raise the count while the total is above the limit
			if i > 0 && op.Cur >= 0 && r.Err == "" && !r.Accept && r.Latest == op.Cur {
				for _, f := range observations[i].Snap {
					if f.Name == op.FC && f.T == "mif" && f.Count > f.Max {
						res.features["applied-while-over-lowered-limit"] = true
					}
				}
			}
		case []acqReply:
			for k, a := range r {
				if a.Err != "" {
					res.features["acq-err-"+a.Err] = true
				} else if a.Accept {
					res.features["acq-accept"] = true
					if k < len(op.Reqs) && a.Limit != op.Reqs[k].Tokens {
						res.features["acq-halved"] = true
					}
				} else {
					res.features["acq-refused"] = true
				}
			}
		}
	}
	return res
}

type grantEv struct {
	before, after time.Time
	n             int64
}

// tbEpoch: a stretch of a seq case during which one token bucket keeps its identity and its (qps, burst)
type tbEpoch struct {
	qps, burst  int32
	startOp     int
	sameResizes int // Resize / re-sync events that left (qps, burst) as they were
	grants      []grantEv
}

// check looks at every window that ends with the latest grant.
func (e *tbEpoch) check() string {
	if len(e.grants) == 0 {
		return ""
	}
	last := e.grants[len(e.grants)-1]
	var sum int64
	for i := len(e.grants) - 1; i >= 0; i-- {
		sum += e.grants[i].n
		T := last.after.Sub(e.grants[i].before).Seconds()
		bound := float64(e.burst) + float64(e.qps)*T
		if float64(sum) > bound+0.5+bound*0.002 {
			return fmt.Sprintf("%d tokens granted within %.6f s, bound burst + qps*T = %.3f", sum, T, bound)
		}
	}
	return ""
}

// confTracker restates, from the ops alone, what is CONFIGURED for each flow control of the cluster: the schemas
// delivered by SyncFlowControl (a spec equal to the previous one is no delivery; entries are applied in order;
// names of the previous spec that get no flow control any more are dropped) and direct Resize calls. The
// token-rate judge measures the real buckets against these values, never against what the code stored.
type confFC struct {
	typ  string
	q, b int32
}

type confTracker struct {
	fcs       map[string]confFC
	lastSpec  string
	specNames map[string]bool
}

func newConfTracker() *confTracker {
	return &confTracker{fcs: map[string]confFC{}, lastSpec: "[]", specNames: map[string]bool{}}
}

func canonSpec(l []Schema) string {
	if len(l) == 0 {
		return "[]"
	}
	return rig.Canon(l)
}

// apply returns, per token-bucket name, whether the op really changed it ("reset": created, type changed, qps or
// burst changed) or delivered it again unchanged ("same").
func (t *confTracker) apply(op Op) (reset, same map[string]bool) {
	reset, same = map[string]bool{}, map[string]bool{}
	switch op.K {
	case "sync":
		cs := canonSpec(op.Schemas)
		if cs == t.lastSpec {
			return
		}
		newset := map[string]bool{}
		for _, sc := range op.Schemas {
			if sc.Mif == nil && sc.Tb == nil {
				continue
			}
			newset[sc.Name] = true
			nf := confFC{typ: "tb"}
			if sc.Mif != nil {
				nf = confFC{typ: "mif", q: *sc.Mif}
			} else {
				nf.q, nf.b = sc.Tb[0], sc.Tb[1]
			}
			cur, ok := t.fcs[sc.Name]
			switch {
			case !ok || cur.typ != nf.typ:
				reset[sc.Name] = true
				delete(same, sc.Name)
			case nf.typ == "tb" && (cur.q != nf.q || cur.b != nf.b):
				reset[sc.Name] = true
				delete(same, sc.Name)
			case nf.typ == "tb" && !reset[sc.Name]:
				same[sc.Name] = true
			}
			t.fcs[sc.Name] = nf
		}
		for n := range t.specNames {
			if !newset[n] {
				delete(t.fcs, n)
			}
		}
		t.specNames = map[string]bool{}
		for _, sc := range op.Schemas {
			t.specNames[sc.Name] = true
		}
		t.lastSpec = cs
	case "resize":
		cur, ok := t.fcs[op.FC]
		if !ok {
			return
		}
		if cur.typ == "tb" {
			if cur.q != op.N || cur.b != op.Burst {
				reset[op.FC] = true
			} else {
				same[op.FC] = true
			}
			t.fcs[op.FC] = confFC{typ: "tb", q: op.N, b: op.Burst}
		} else {
			t.fcs[op.FC] = confFC{typ: "mif", q: op.N}
		}
	}
	return
}

// updateEpochs: a bucket's judging window is reset only when the bucket is (re)created, changes type, or its
// configured qps/burst really change.
func updateEpochs(epochs map[string]*tbEpoch, conf *confTracker, op Op, opIdx int) map[string]bool {
	reset, same := conf.apply(op)
	for n, f := range conf.fcs {
		if f.typ != "tb" || f.q <= 0 {
			delete(epochs, n)
			continue
		}
		if ep := epochs[n]; ep == nil || reset[n] {
			epochs[n] = &tbEpoch{qps: f.q, burst: f.b, startOp: opIdx}
		} else if same[n] {
			ep.sameResizes++
		}
	}
	for n := range epochs {
		if f, ok := conf.fcs[n]; !ok || f.typ != "tb" {
			delete(epochs, n)
		}
	}
	return reset
}

func noteSet(f map[string]bool, cur int32, accept bool, latest int32, err string) {
	switch {
	case cur < 0:
		f["removal"] = true
	case err != "":
		f["stale-id"] = true
	case accept:
		f["accepted"] = true
	case latest == cur:
		f["applied-not-accepted"] = true
	default:
		f["rolled-back"] = true
	}
}

// shrinkSeq keeps the kind and class of the failure: a property violation must not be shrunk into a mere
// model-vs-code difference.
func shrinkSeq(c *rig.Ctx, cs Case, orig runResult) Case {
	cs.Ops = rig.ShrinkList(cs.Ops, func(l []Op) bool {
		x := cs
		x.Ops = l
		r := runSeq(c, x, false)
		return !r.ok && r.kind == orig.kind && r.class == orig.class
	})
	return cs
}

// ------------------------------------------------------------------------------------------------
// bucket cases: scripted clock on the rate.Limiter of a real globalTokenBucket

func runBucket(c *rig.Ctx, cs Case, record bool) bool {
	fail := func(kind, class, what string, impl, model interface{}) bool {
		if record {
			recordFailure(c, rig.Failure{Kind: kind, Class: class, What: what, Case: cs, Impl: impl, Model: model})
		}
		return false
	}
	var fc flowcontrol.GlobalFlowControl
	var w *world
	edits := int32(1)
	curQ, curB := cs.QPS, cs.Burst
	syncSpec := func() {
		// the bucket next to a max-in-flight schema whose limit is edited each time, so that the spec differs
		w.store.SyncFlowControl(cluster, toSchemas([]Schema{{Name: rig.Hex("b"), Tb: &[2]int32{curQ, curB}}, {Name: rig.Hex("x"), Mif: i32(edits)}}))
		fc, _ = w.store.GetFlowControl(cluster, "b")
	}
	if cs.ViaSync {
		w = newWorld()
		syncSpec()
	} else {
		fc = flowcontrol.NewGlobalFlowControl(proxyv1alpha1.FlowControlSchema{Name: "b", FlowControlSchemaConfiguration: proxyv1alpha1.FlowControlSchemaConfiguration{
			GlobalTokenBucket: &proxyv1alpha1.TokenBucketFlowControlSchema{QPS: cs.QPS, Burst: cs.Burst}}})
	}
	if fc == nil {
		return fail("diff", "c08.bucket-shim", "no token bucket was built", nil, nil)
	}
	lim := peekLimiter(fc)
	if lim == nil {
		return fail("diff", "c08.bucket-shim", "NewGlobalFlowControl did not build a token bucket", nil, nil)
	}
	base := time.Now()
	oks := []bool{}
	for _, call := range cs.Calls {
		if call.Resize != nil {
			if cs.ViaSync {
				// the real wiring: SyncFlowControl -> syncLocalFlowControls -> ResizeGlobalFlowControl -> Resize
				changed := call.Resize[0] != curQ || call.Resize[1] != curB
				curQ, curB = call.Resize[0], call.Resize[1]
				edits++
				syncSpec()
				if fc == nil {
					return fail("diff", "c08.bucket-shim", "the bucket vanished on a re-sync", nil, nil)
				}
				oks = append(oks, changed)
			} else {
				oks = append(oks, fc.Resize(call.Resize[0], call.Resize[1]))
			}
			lim = peekLimiter(fc)
			if lim == nil {
				return fail("diff", "c08.bucket-shim", "the flow control is no token bucket any more", nil, nil)
			}
			continue
		}
		oks = append(oks, lim.AllowN(base.Add(time.Duration(call.Now)), int(call.N)))
	}
	var m struct {
		Ok      []bool `json:"ok"`
		Windows *bool  `json:"windows"`
		Tight   int    `json:"tight"`
	}
	if err := c.Model("C08.bucket", map[string]interface{}{"qps": cs.QPS, "burst": cs.Burst, "calls": cs.Calls, "impl": oks}, &m); err != nil {
		return fail("diff", "c08.model-error", "model error: "+err.Error(), nil, nil)
	}
	monotone, nonneg := true, true
	var lastNow int64 = -1 << 62
	for _, call := range cs.Calls {
		if call.Resize != nil {
			continue
		}
		if call.Now < lastNow {
			monotone = false
		}
		lastNow = call.Now
		if call.N < 0 {
			nonneg = false
		}
	}
	if m.Tight > 0 {
		c.Count("bucket:knife-edge-calls-following-impl")
	}
	if !monotone {
		// Readings that go back cannot reach the limiter in the real code (TryAcquireN reads the clock inside its
		// critical section; if a tree loses that, the real-time runs with several callers show it): such a script is a
		// comparison of the model with the rate library only and is never judged.
		c.Count("bucket:out-of-order-readings-compared-not-judged")
	} else if nonneg && m.Windows != nil && !*m.Windows {
		return fail("judge", "c08.tokens-rate", fmt.Sprintf("qps=%d burst=%d: some window of the granted calls exceeds the configured burst + qps*T: calls %s granted %v", cs.QPS, cs.Burst, rig.Canon(cs.Calls), oks), oks, m.Ok)
	}
	if rig.Canon(oks) != rig.Canon(m.Ok) {
		return fail("diff", "c08.bucket", fmt.Sprintf("qps=%d burst=%d calls %s: limiter answered %v, model %v", cs.QPS, cs.Burst, rig.Canon(cs.Calls), oks, m.Ok), oks, m.Ok)
	}
	return true
}

// ------------------------------------------------------------------------------------------------
// conc cases

// together runs the functions in goroutines that leave a spin barrier at the same moment.
func together(fns []func()) {
	var wg sync.WaitGroup
	var ready int32
	n := int32(len(fns))
	yield := runtime.GOMAXPROCS(0) < len(fns)
	for _, fn := range fns {
		wg.Add(1)
		go func(fn func()) {
			defer wg.Done()
			atomic.AddInt32(&ready, 1)
			for atomic.LoadInt32(&ready) < n {
				if yield {
					runtime.Gosched()
				}
			}
			fn()
		}(fn)
	}
	wg.Wait()
}

type concOutcome struct {
	Replies [][]interface{} `json:"replies"`
	Final   []FCSnap        `json:"final"`
}

func runConc(c *rig.Ctx, cs Case, record bool) bool {
	fail := func(kind, class, what string, impl, model interface{}) bool {
		if record {
			recordFailure(c, rig.Failure{Kind: kind, Class: class, What: what, Case: cs, Impl: impl, Model: model})
		}
		return false
	}
	seen := map[string]bool{}
	rounds := cs.Rounds
	if rounds <= 0 {
		rounds = 1
	}
	for round := 0; round < rounds; round++ {
		w := newWorld()
		for _, op := range cs.Prefix {
			if _, pm := w.exec(op); pm != "" {
				return fail("judge", "c08.panic", "prefix op panicked: "+pm, nil, nil)
			}
		}
		out := concOutcome{Replies: make([][]interface{}, len(cs.Threads))}
		var panics atomic.Value
		fns := []func(){}
		for t := range cs.Threads {
			t := t
			fns = append(fns, func() {
				for _, op := range cs.Threads[t] {
					r, pm := w.exec(op)
					if pm != "" {
						panics.Store(pm)
					}
					out.Replies[t] = append(out.Replies[t], r)
				}
			})
		}
		var stop int32
		var rwg sync.WaitGroup
		if cs.Reader {
			rwg.Add(1)
			go func() {
				defer rwg.Done()
				for atomic.LoadInt32(&stop) == 0 {
					for _, fc := range local.VerifC08FlowControls(w.store, cluster) {
						_ = fc.DebugInfo()
					}
				}
			}()
		}
		done := make(chan struct{})
		go func() { together(fns); close(done) }()
		select {
		case <-done:
		case <-time.After(20 * time.Second):
			return fail("judge", "c08.deadlock", fmt.Sprintf("round %d: concurrent SetState/Resize calls did not return within 20 s", round), nil, nil)
		}
		atomic.StoreInt32(&stop, 1)
		rwg.Wait()
		if pm := panics.Load(); pm != nil {
			return fail("judge", "c08.panic", "concurrent op panicked: "+pm.(string), nil, nil)
		}
		for t := range out.Replies {
			if out.Replies[t] == nil {
				out.Replies[t] = []interface{}{}
			}
		}
		out.Final = w.snapshot()
		// judge 1 (quiescence): the running total equals the sum of the registered counts
		if j, d := w.quiescentCheck(); j != "" {
			return fail("judge", "c08.conc-total", fmt.Sprintf("round %d, at quiescence after concurrent calls %s: %s", round, rig.Canon(cs.Threads), j), out, nil)
		} else if d != "" {
			return fail("diff", "c08.debuginfo", d, nil, nil)
		}
		// judge 2: equal positive request ids of one instance on one flow control are processed at most once
		if msg := sameIDTwice(cs, out); msg != "" {
			return fail("judge", "c08.conc-same-id", fmt.Sprintf("round %d: %s", round, msg), out, nil)
		}
		// correspondence (not a judge: the property does not demand that replies be those of the atomic model): the
		// outcome is the outcome of some interleaving of the atomic steps. Resize's answer is left out: the real
		// Resize is a read followed by a store, two racing calls may both answer true.
		cmp := concOutcome{Replies: make([][]interface{}, len(out.Replies)), Final: out.Final}
		for t := range out.Replies {
			cmp.Replies[t] = append([]interface{}{}, out.Replies[t]...)
			for i := range cmp.Replies[t] {
				if i < len(cs.Threads[t]) && cs.Threads[t][i].K == "resize" {
					cmp.Replies[t][i] = nil
				}
			}
		}
		key := rig.Canon(cmp)
		if seen[key] {
			continue
		}
		seen[key] = true
		var m struct {
			Linearizable bool        `json:"linearizable"`
			Schedules    int         `json:"schedules"`
			Example      interface{} `json:"example"`
		}
		if err := c.Model("C08.conc", map[string]interface{}{"prefix": cs.Prefix, "threads": cs.Threads, "replies": cmp.Replies, "final": cmp.Final}, &m); err != nil {
			return fail("diff", "c08.model-error", "model error: "+err.Error(), nil, nil)
		}
		if !m.Linearizable {
			return fail("diff", "c08.conc-outcome", fmt.Sprintf("round %d: replies %s and final state %s are not the outcome of any of the %d interleavings of %s after %s",
				round, rig.Canon(cmp.Replies), rig.Canon(cmp.Final), m.Schedules, rig.Canon(cs.Threads), rig.Canon(cs.Prefix)), out, m.Example)
		}
	}
	c.Count(fmt.Sprintf("conc:distinct-outcomes=%d", min(len(seen), 6)))
	return true
}

// sameIDTwice: without removals and re-creations in the case, two processed reports of one instance on one flow
// control with the same positive request id are a violation.
func sameIDTwice(cs Case, out concOutcome) string {
	for _, th := range cs.Threads {
		for _, op := range th {
			if op.K == "del" || op.K == "sync" || (op.K == "set" && op.Cur < 0) {
				return ""
			}
		}
	}
	type key struct {
		fc, inst string
		rid      int64
	}
	processed := map[key]int{}
	for t, th := range cs.Threads {
		for i, op := range th {
			if op.K != "set" || op.Rid <= 0 || i >= len(out.Replies[t]) {
				continue
			}
			// a refused report is never accepted, whatever else its reply says: count the ACCEPTED ones
			if r, ok := out.Replies[t][i].(setReply); ok && r.Accept {
				processed[key{op.FC, op.Inst, op.Rid}]++
			}
		}
	}
	// the prefix may already have used the id
	for _, op := range cs.Prefix {
		if op.K == "set" && op.Rid > 0 && op.Cur >= 0 {
			k := key{op.FC, op.Inst, op.Rid}
			if processed[k] > 0 {
				processed[k]++
			}
		}
	}
	for k, n := range processed {
		if n > 1 {
			return fmt.Sprintf("%d reports of instance %q with request id %d were accepted on %q", n, rig.UnHex(k.inst), k.rid, rig.UnHex(k.fc))
		}
	}
	return ""
}

// ------------------------------------------------------------------------------------------------
// rate cases: real time, one-sided

type grant struct {
	before, after time.Duration
	n             int32
}

func runRate(c *rig.Ctx, cs Case, record bool) bool {
	fail := func(kind, class, what string) bool {
		if record {
			recordFailure(c, rig.Failure{Kind: kind, Class: class, What: what, Case: cs})
		}
		return false
	}
	w := newWorld()
	name := "tb"
	w.store.SyncFlowControl(cluster, toSchemas([]Schema{{Name: rig.Hex(name), Tb: &[2]int32{cs.QPS, cs.Burst}}}))
	fc, err := w.store.GetFlowControl(cluster, name)
	if err != nil {
		return fail("diff", "c08.rate-setup", "the synced token bucket is not in the store: "+err.Error())
	}
	base := time.Now()
	deadline := base.Add(time.Duration(cs.Millis) * time.Millisecond)
	grants := make([][]grant, cs.Workers)
	var bad atomic.Value
	fns := []func(){}
	for wk := 0; wk < cs.Workers; wk++ {
		wk := wk
		fns = append(fns, func() {
			for k := 0; time.Now().Before(deadline) && k < 200000; k++ {
				ask := cs.Asks[(k+wk)%len(cs.Asks)]
				acq := &proxyv1alpha1.RateLimitAcquire{Spec: proxyv1alpha1.RateLimitAcquireSpec{Instance: fmt.Sprintf("i%d", wk), RequestID: int64(k + 1),
					Requests: []proxyv1alpha1.RateLimitAcquireRequest{{FlowControl: name, Tokens: ask}}}}
				b := time.Since(base)
				var accept bool
				var limit int32
				var errText string
				if cs.Direct {
					// the flow control's own public entry point, as DoAcquire's loop calls it
					accept = fc.TryAcquireN(fmt.Sprintf("i%d", wk), ask)
					if accept {
						limit = ask
					}
				} else {
					res, err := w.rl.DoAcquire(cluster, acq)
					if err != nil || len(res.Status.Results) != 1 {
						bad.Store(fmt.Sprintf("DoAcquire failed: %v", err))
						return
					}
					r := res.Status.Results[0]
					accept, limit, errText = r.Accept, r.Limit, r.Error
				}
				a := time.Since(base)
				// the property: a negative ask is refused; a grant lies between 0 and the ask. A refusal (accept=false,
				// with or without an error) grants nothing, whatever limit value comes with it.
				switch {
				case ask < 0 && cs.Direct:
					// not reachable through the server (DoAcquire refuses negative asks first): not judged
				case ask < 0:
					if accept || limit != 0 {
						bad.Store(fmt.Sprintf("negative ask %d answered accept=%v limit=%d error=%q", ask, accept, limit, errText))
					}
				case accept && (limit < 0 || limit > ask):
					bad.Store(fmt.Sprintf("ask %d answered accept=%v limit=%d", ask, accept, limit))
				case accept:
					grants[wk] = append(grants[wk], grant{b, a, limit})
				}
				if k%8 == 7 {
					runtime.Gosched()
				}
			}
		})
	}
	together(fns)
	if b := bad.Load(); b != nil {
		return fail("judge", "c08.tokens-grant", fmt.Sprintf("qps=%d burst=%d: %s", cs.QPS, cs.Burst, b.(string)))
	}
	var all []grant
	for _, g := range grants {
		all = append(all, g...)
	}
	check := func(lo, hi time.Duration) string {
		var sum int64
		var first, last time.Duration = -1, 0
		for _, g := range all {
			if g.before >= lo && g.after <= hi {
				sum += int64(g.n)
				if first < 0 || g.before < first {
					first = g.before
				}
				if g.after > last {
					last = g.after
				}
			}
		}
		if first < 0 {
			return ""
		}
		T := (last - first).Seconds()
		bound := float64(cs.Burst) + float64(cs.QPS)*T
		if float64(sum) > bound+2+bound*0.002 {
			return fmt.Sprintf("qps=%d burst=%d: %d tokens granted between %v and %v (T=%.6fs), bound burst+qps*T=%.3f", cs.QPS, cs.Burst, sum, first, last, T, bound)
		}
		return ""
	}
	total := time.Since(base)
	rateClass := "c08.tokens-rate"
	if msg := check(0, total); msg != "" {
		return fail("judge", rateClass, fmt.Sprintf("%d concurrent callers: %s", cs.Workers, msg))
	}
	for k := 0; k < 40; k++ {
		lo := time.Duration(c.Rng.Int63n(int64(total) + 1))
		hi := lo + time.Duration(c.Rng.Int63n(int64(total-lo)+1))
		if msg := check(lo, hi); msg != "" {
			return fail("judge", rateClass, fmt.Sprintf("%d concurrent callers: %s", cs.Workers, msg))
		}
	}
	var sum int64
	for _, g := range all {
		sum += int64(g.n)
	}
	c.Count(fmt.Sprintf("rate:granted>0=%v", sum > 0))
	return true
}

// ------------------------------------------------------------------------------------------------

func runCase(c *rig.Ctx, cs Case, record bool) bool {
	switch cs.Kind {
	case "seq":
		return runSeq(c, cs, record).ok
	case "bucket":
		return runBucket(c, cs, record)
	case "conc":
		return runConc(c, cs, record)
	case "rate":
		return runRate(c, cs, record)
	}
	fmt.Fprintln(os.Stderr, "unknown case kind", cs.Kind)
	os.Exit(2)
	return false
}

func silenceLogs() {
	fs := flag.NewFlagSet("klog", flag.ContinueOnError)
	klog.InitFlags(fs)
	fs.Set("logtostderr", "false")
	fs.Set("alsologtostderr", "false")
	fs.Set("stderrthreshold", "FATAL")
	klog.SetOutput(io.Discard)
}

func corpusFiles() []string {
	dir := os.Getenv("VERIF_DIR")
	if dir == "" {
		dir = "."
	}
	files, _ := filepath.Glob(filepath.Join(dir, "harness", "corpus", "C08", "*.json"))
	sort.Strings(files)
	return files
}

func main() {
	silenceLogs()
	rig.Main("C08", func(c *rig.Ctx) {
		c.SetRule("seq: 6-40 ops (sync of 1-3 schemas / SetState / Resize / DoAcquire of 1-3 requests / DeleteInstanceState) on the real local store + limiter server, " +
			"instances, request ids, counts and limits drawn from small colliding sets (totals land on, just under and just over the limit; limits are lowered under the total; ids repeat), " +
			"plus an int32-edge stream; distinct = distinct canonical op list; non-trivial = the run contains a rollback, a stale id, an applied-but-not-accepted report or a removal. " +
			"bucket: 5-40 scripted AllowN calls (ms grid) on the rate.Limiter of a real server bucket. conc: 2-4 goroutines x 1-3 calls released from a barrier, repeated; " +
			"judged at quiescence. rate: real-time DoAcquire totals (one-sided).")
		if c.Replay != "" {
			var cs Case
			if err := c.LoadReplay(&cs); err != nil {
				fmt.Fprintln(os.Stderr, err)
				os.Exit(2)
			}
			if cs.Kind == "conc" && cs.Rounds < 3000 {
				cs.Rounds = 3000
			}
			c.Case(rig.Canon(cs), true, "replay", func() interface{} { return cs })
			runCase(c, cs, true)
			return
		}
		// 1. corpus: past failures first
		for _, f := range corpusFiles() {
			b, err := os.ReadFile(f)
			if err != nil {
				continue
			}
			var env struct {
				Case Case `json:"case"`
			}
			if json.Unmarshal(b, &env) != nil || env.Case.Kind == "" {
				c.Note("corpus file %s does not decode", f)
				continue
			}
			c.Case(rig.Canon(env.Case), true, "corpus:"+env.Case.Kind, nil)
			c.Trace()
			runCase(c, env.Case, true)
		}
		g := &gen{r: c.Rng}
		// 2. sequential op lists
		nSeq := c.Budget(2500, 60000)
		for i := 0; i < nSeq && otherFailures(c) < 5; i++ {
			cs := g.seqCase(i)
			r := runSeq(c, cs, false)
			nontrivial := r.features["rolled-back"] || r.features["stale-id"] || r.features["applied-not-accepted"] || r.features["removal"] || r.features["acq-halved"] || r.features["acq-err-NegativeTokens"]
			c.Case(rig.Canon(cs), nontrivial, "seq:"+g.lastStream, func() interface{} { return cs })
			for f := range r.features {
				c.Count("seq-feature:" + f)
			}
			c.Count(fmt.Sprintf("seq-len:%d0s", len(cs.Ops)/10))
			c.Trace()
			if !r.ok {
				if r.kind != "judge" && nDiff >= maxDiffs {
					c.Count("diff-not-recorded")
				} else {
					runSeq(c, shrinkSeq(c, cs, r), true)
				}
			}
		}
		// 3. scripted bucket
		nB := c.Budget(1500, 30000)
		for i := 0; i < nB && otherFailures(c) < 5; i++ {
			cs := g.bucketCase()
			c.Case(rig.Canon(cs), true, "bucket", func() interface{} { return cs })
			c.Trace()
			if !runBucket(c, cs, false) {
				x := cs
				x.Calls = rig.ShrinkList(cs.Calls, func(l []Call) bool { y := cs; y.Calls = l; return !runBucket(c, y, false) })
				runBucket(c, x, true)
			}
		}
		// 4. concurrent
		nC := c.Budget(60, 600)
		for i := 0; i < nC && otherFailures(c) < 5; i++ {
			cs := g.concCase(i, c.Budget(300, 2000))
			c.Case(rig.Canon(cs), true, "conc:"+g.lastStream, func() interface{} { return cs })
			c.Trace()
			runConc(c, cs, true)
		}
		// 5. real-time totals
		nR := c.Budget(5, 40)
		for i := 0; i < nR && otherFailures(c) < 5; i++ {
			cs := g.rateCase(c.Budget(120, 400))
			c.Case(rig.Canon(cs), true, "rate", func() interface{} { return cs })
			c.Trace()
			runRate(c, cs, true)
		}
	})
}
