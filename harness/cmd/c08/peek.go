package main

import (
	"reflect"
	"unsafe"

	"golang.org/x/time/rate"

	proxyv1alpha1 "github.com/kubewharf/kubegateway/pkg/apis/proxy/v1alpha1"
	"github.com/kubewharf/kubegateway/pkg/ratelimiter/store/flowcontrol"
)

// Reading the unexported state of a global flow control by reflection (at quiescence only), so that the tie does
// not depend on how the fields are spelled or stored: the limit and the running total are the int fields `max` and
// `count`, the per-instance states are the one map field (values or pointers to structs with `count` and
// `requestId`); a token bucket has `qps`, `burst` and one *rate.Limiter field. ok=false: the representation is not
// understood any more (reported as a broken tie, never as a property failure).
type fcState struct {
	Kind   string // "mif" | "tb" | ""
	Max    int32
	Count  int32
	States map[string][2]int64 // instance -> (count, requestId)
	QPS    int32
	Burst  int32
}

func structOf(fc flowcontrol.GlobalFlowControl) (reflect.Value, bool) {
	v := reflect.ValueOf(fc)
	for v.Kind() == reflect.Ptr || v.Kind() == reflect.Interface {
		if v.IsNil() {
			return v, false
		}
		v = v.Elem()
	}
	return v, v.Kind() == reflect.Struct
}

func intField(v reflect.Value, name string) (int64, bool) {
	f := v.FieldByName(name)
	if !f.IsValid() {
		return 0, false
	}
	switch f.Kind() {
	case reflect.Int, reflect.Int32, reflect.Int64:
		return f.Int(), true
	case reflect.Struct: // atomic.Int32 / atomic.Int64: their value is the field `v`
		if iv := f.FieldByName("v"); iv.IsValid() && (iv.Kind() == reflect.Int32 || iv.Kind() == reflect.Int64) {
			return iv.Int(), true
		}
	}
	return 0, false
}

func peekFC(fc flowcontrol.GlobalFlowControl) (st fcState, ok bool) {
	if fc == nil {
		return st, false
	}
	v, good := structOf(fc)
	if !good {
		return st, false
	}
	switch fc.Type() {
	case proxyv1alpha1.MaxRequestsInflight:
		st.Kind = "mif"
		st.States = map[string][2]int64{}
		m, ok1 := intField(v, "max")
		c, ok2 := intField(v, "count")
		if !ok1 || !ok2 {
			return st, false
		}
		st.Max, st.Count = int32(m), int32(c)
		var mp reflect.Value
		for i := 0; i < v.NumField(); i++ {
			if f := v.Field(i); f.Kind() == reflect.Map && f.Type().Key().Kind() == reflect.String {
				if mp.IsValid() {
					return st, false // two maps: which one?
				}
				mp = f
			}
		}
		if !mp.IsValid() {
			return st, false
		}
		it := mp.MapRange()
		for it.Next() {
			e := it.Value()
			for e.Kind() == reflect.Ptr {
				if e.IsNil() {
					return st, false
				}
				e = e.Elem()
			}
			if e.Kind() != reflect.Struct {
				return st, false
			}
			cnt, ok1 := intField(e, "count")
			rid, ok2 := intField(e, "requestId")
			if !ok1 || !ok2 {
				return st, false
			}
			st.States[it.Key().String()] = [2]int64{cnt, rid}
		}
		return st, true
	case proxyv1alpha1.TokenBucket:
		st.Kind = "tb"
		q, ok1 := intField(v, "qps")
		b, ok2 := intField(v, "burst")
		if !ok1 || !ok2 {
			return st, false
		}
		st.QPS, st.Burst = int32(q), int32(b)
		return st, true
	}
	return st, false
}

// peekLimiter returns the rate.Limiter a server token bucket consults (nil: not understood).
func peekLimiter(fc flowcontrol.GlobalFlowControl) *rate.Limiter {
	if fc == nil {
		return nil
	}
	pv := reflect.ValueOf(fc)
	if pv.Kind() != reflect.Ptr || pv.IsNil() || pv.Elem().Kind() != reflect.Struct {
		return nil
	}
	v := pv.Elem()
	want := reflect.TypeOf((*rate.Limiter)(nil))
	var found *rate.Limiter
	for i := 0; i < v.NumField(); i++ {
		f := v.Field(i)
		if f.Type() != want {
			continue
		}
		if found != nil {
			return nil
		}
		found = *(**rate.Limiter)(unsafe.Pointer(f.UnsafeAddr()))
	}
	return found
}
