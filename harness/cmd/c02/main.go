package main

import (
	"flag"
	"fmt"
	"io"

	"k8s.io/apiserver/pkg/authentication/user"
	"k8s.io/klog"
)

func main() {
	fs := flag.NewFlagSet("klog", flag.ContinueOnError)
	klog.InitFlags(fs)
	fs.Set("logtostderr", "false")
	fs.Set("alsologtostderr", "false")
	klog.SetOutput(io.Discard)
	g, err := newGateway()
	if err != nil {
		panic(err)
	}
	defer g.close()
	u := &user.DefaultInfo{Name: "alice", Groups: []string{"dev", " edge "}, Extra: map[string][]string{"Scopes": {"a", "b"}, "x/y%": {"1"}, "é": {"2"}}}
	show := func(name string, o Observed) { fmt.Printf("%-30s %+v\n", name, o) }
	show("plain", g.send(u, nil, []string{"Authorization: Bearer client"}, false))
	show("uid", g.send(u, nil, []string{"authorization: Bearer client", "impersonate-uid: 0", "IMPERSONATE-FOO: x"}, false))
	show("imp", g.send(u, nil, []string{"Impersonate-User: bob", "impersonate-group: g1", "Impersonate-Group: ", "Impersonate-Extra-Sc%2fopes: v", "Impersonate-Uid: 7"}, false))
	show("imp-deny", g.send(u, map[AuthzCall]string{{Res: "groups", Name: "g1"}: "deny"}, []string{"Impersonate-User: bob", "impersonate-group: g1"}, false))
	show("imp-malformed", g.send(u, nil, []string{"impersonate-group: g1"}, false))
	show("imp-sa", g.send(u, nil, []string{"Impersonate-User: system:serviceaccount:ns1:sa1"}, false))
	show("bad name", g.send(u, nil, []string{"Imperso nate-User: bob"}, false))
	show("bad value", g.send(u, nil, []string{"Impersonate-User: b\x01ob"}, false))
	show("empty user 2nd", g.send(u, nil, []string{"Impersonate-User: ", "Impersonate-User: bob"}, false))
	u2 := &user.DefaultInfo{Name: "al\nice"}
	show("refused", g.send(u2, nil, nil, false))
	u3 := &user.DefaultInfo{Name: " alice\t", Groups: []string{""}}
	show("trim", g.send(u3, nil, nil, false))
	show("upgrade", g.send(u, nil, []string{"Authorization: Bearer client", "impersonate-uid: 0"}, true))
	show("after", g.send(u, nil, nil, false))
	show("unauth", g.send(nil, nil, []string{"Authorization: Bearer client", "impersonate-uid: 0"}, false))
}
