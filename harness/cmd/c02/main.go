// C02 harness: identity propagation, end to end.
//
// Every case is one HTTP request sent as raw bytes to an in-process gateway made of the REAL handler chain
// (buildProxyHandlerChainFunc), the REAL dispatcher and the REAL per-endpoint transport (gateway.go); an httptest
// upstream records the identity bearing headers it receives. The Lean model (KG.Model.Identity.serve) predicts the
// outcome and the received headers (diff), and the Lean judge (KG.Spec.Identity.judge) is evaluated on what the
// upstream really received (judge).
package main

import (
	"encoding/json"
	"flag"
	"fmt"
	"io"
	"os"
	"path/filepath"
	"sort"
	"strings"
	"unicode/utf8"

	"k8s.io/apiserver/pkg/authentication/user"
	"k8s.io/klog"

	"verifharness/rig"
)

// ---- case (all byte strings hex) -------------------------------------------------------------

type Extra struct {
	K string   `json:"k"`
	V []string `json:"v"`
}
type Ident struct {
	Name   string   `json:"name"`
	Groups []string `json:"groups"`
	Extra  []Extra  `json:"extra"`
}
type Line struct {
	N string `json:"n"`
	V string `json:"v"`
}
// Deny is one rule of the scripted policy (historical name: with the default "allow" the rules are refusals), or one
// attributes record in the model's answers (D empty). All five attributes are hex.
type Deny struct {
	Grp  string `json:"grp"`
	Res  string `json:"res"`
	Sub  string `json:"sub"`
	Ns   string `json:"ns"`
	Name string `json:"name"`
	D    string `json:"d"` // allow | deny | noopinion | error
}
type Case struct {
	Token    string    `json:"token"`
	User     *Ident    `json:"user"` // nil: the authenticator does not recognise the client
	Client   []Line    `json:"client"`
	Default  string    `json:"default,omitempty"` // decision for a record no rule names: "" = allow
	Deny     []Deny    `json:"deny"`
	Upgrade  bool      `json:"upgrade"`
	Before   string    `json:"before,omitempty"` // an event of the endpoint's life played before the request: reset-transport | reset-twice | resync | flap
	Observed *ObsWire  `json:"observed,omitempty"`
}
type ObsWire struct {
	Upstream [][]Line `json:"upstream"`
}

type modelOut struct {
	Outcome string `json:"outcome"`
	Recv    []Line `json:"recv"`
	CtxUser *Ident `json:"ctxUser"`
	Calls    []Deny `json:"calls"`
	Required []Deny `json:"required"`
	Expect  struct {
		Kind      string `json:"kind"`
		Status    int    `json:"status"`
		ID        *Ident `json:"id"`
		Carried   bool   `json:"carried"`
	} `json:"expect"`
	ImpRequested bool     `json:"impRequested"`
	JudgeModel   []string `json:"judgeModel"`
	JudgeImpl    []string `json:"judgeImpl"`
}

func unhexAll(l []string) []string {
	r := make([]string, len(l))
	for i, s := range l {
		r[i] = rig.UnHex(s)
	}
	return r
}

func (id *Ident) info() *user.DefaultInfo {
	if id == nil {
		return nil
	}
	u := &user.DefaultInfo{Name: rig.UnHex(id.Name), Groups: unhexAll(id.Groups)}
	if len(id.Extra) > 0 {
		u.Extra = map[string][]string{}
		for _, e := range id.Extra {
			k := rig.UnHex(e.K)
			u.Extra[k] = append(u.Extra[k], unhexAll(e.V)...)
		}
	}
	return u
}

func (id *Ident) readable() string {
	if id == nil {
		return "<unauthenticated>"
	}
	var ex []string
	for _, e := range id.Extra {
		ex = append(ex, fmt.Sprintf("%q=%q", rig.UnHex(e.K), unhexAll(e.V)))
	}
	return fmt.Sprintf("{name %q groups %q extra [%s]}", rig.UnHex(id.Name), unhexAll(id.Groups), strings.Join(ex, " "))
}

func (cs Case) readable() string {
	var ls []string
	for _, l := range cs.Client {
		ls = append(ls, fmt.Sprintf("%q", rig.UnHex(l.N)+": "+rig.UnHex(l.V)))
	}
	before := ""
	if cs.Before != "" {
		before = "; before the request: " + cs.Before
	}
	dflt := cs.Default
	if dflt == "" {
		dflt = "allow"
	}
	var dn []string
	for _, d := range cs.Deny {
		dn = append(dn, fmt.Sprintf("%s %s", d.D, d.readable()))
	}
	return fmt.Sprintf("authenticated as %s; client headers [%s]; policy [%s] else %s; upgrade=%v%s", cs.User.readable(), strings.Join(ls, ", "), strings.Join(dn, "; "), dflt, cs.Upgrade, before)
}

func (d Deny) readable() string {
	g := rig.UnHex(d.Grp)
	if g != "" {
		g += "/"
	}
	return fmt.Sprintf("%s%s/%q ns=%q name=%q", g, rig.UnHex(d.Res), rig.UnHex(d.Sub), rig.UnHex(d.Ns), rig.UnHex(d.Name))
}

func (d Deny) call() AuthzCall {
	return AuthzCall{Grp: rig.UnHex(d.Grp), Res: rig.UnHex(d.Res), Sub: rig.UnHex(d.Sub), Ns: rig.UnHex(d.Ns), Name: rig.UnHex(d.Name)}
}

func readableLines(ls []Line) string {
	var out []string
	for _, l := range ls {
		out = append(out, fmt.Sprintf("%q", rig.UnHex(l.N)+": "+rig.UnHex(l.V)))
	}
	return "[" + strings.Join(out, ", ") + "]"
}

// canonical rendering of a received header set: per name, values in order for Impersonate-Group (a list the code
// keeps in order), sorted otherwise (filled from Go maps)
func canonRecv(ls []Line) string {
	m := map[string][]string{}
	for _, l := range ls {
		m[l.N] = append(m[l.N], l.V)
	}
	names := make([]string, 0, len(m))
	for n := range m {
		names = append(names, n)
	}
	sort.Strings(names)
	var b strings.Builder
	for _, n := range names {
		vs := m[n]
		if rig.UnHex(n) != "Impersonate-Group" {
			sort.Strings(vs)
		}
		fmt.Fprintf(&b, "%s=%s;", n, strings.Join(vs, ","))
	}
	return b.String()
}

func callsOf(obs Observed) []Deny {
	out := []Deny{}
	for _, a := range obs.Calls {
		out = append(out, Deny{Grp: rig.Hex(a.Grp), Res: rig.Hex(a.Res), Sub: rig.Hex(a.Sub), Ns: rig.Hex(a.Ns), Name: rig.Hex(a.Name)})
	}
	return out
}

func canonCalls(ds []Deny) string {
	var l []string
	for _, d := range ds {
		l = append(l, d.readable())
	}
	sort.Strings(l)
	return strings.Join(l, ";")
}

var gw *gateway

// classes recorded as `finding:` in known_findings.txt: one shrunk witness per run is reported
var knownClass = map[string]bool{}

type verdict struct {
	ok      bool
	kind    string
	class   string
	what    string
	impl    interface{}
	model   interface{}
	classes []string
}

// eval runs one case on the real gateway and on the model.
func eval(c *rig.Ctx, cs Case) (verdict, Observed, modelOut) {
	cs.Observed = nil
	policy := Policy{Default: cs.Default}
	for _, d := range cs.Deny {
		policy.Rules = append(policy.Rules, PolicyRule{On: d.call(), D: d.D})
	}
	lines := make([]string, len(cs.Client))
	for i, l := range cs.Client {
		lines[i] = rig.UnHex(l.N) + ": " + rig.UnHex(l.V)
	}
	var obs Observed
	if cs.Before != "" {
		history = append(history, cs.Before)
		ready, problem := gw.lifecycle(cs.Before)
		if !ready {
			return verdict{kind: "inconclusive", what: "after " + cs.Before + ": " + problem}, obs, modelOut{}
		}
		if problem != "" {
			return verdict{kind: "judge", class: "c02.lifecycle-error", what: fmt.Sprintf("%s failed: %s; %s", cs.Before, problem, cs.readable())}, obs, modelOut{}
		}
	}
	msg, panicked := rig.Recover(func() { obs = gw.send(cs.User.info(), policy, lines, cs.Upgrade) })
	if panicked {
		return verdict{kind: "diff", class: "c02.harness-panic", what: "harness panicked: " + msg}, obs, modelOut{}
	}
	if obs.Err != "" {
		// a time-out or a broken connection (load, scheduling): inconclusive, never a failure
		return verdict{kind: "inconclusive", what: "request failed: " + obs.Err}, obs, modelOut{}
	}
	ow := &ObsWire{Upstream: [][]Line{}}
	for _, req := range obs.Upstream {
		ls := []Line{}
		for _, hv := range req {
			ls = append(ls, Line{rig.Hex(hv.N), rig.Hex(hv.V)})
		}
		ow.Upstream = append(ow.Upstream, ls)
	}
	withObs := cs
	withObs.Observed = ow
	var m modelOut
	if err := c.Model("C02.run", withObs, &m); err != nil {
		return verdict{kind: "diff", class: "c02.model-error", what: "model error: " + err.Error()}, obs, m
	}
	// 1. the judge (Lean) on what the upstream really received
	var bad []string
	for _, cl := range m.JudgeImpl {
		bad = append(bad, cl)
	}
	if len(bad) > 0 {
		got := "nothing"
		if len(ow.Upstream) > 0 {
			got = readableLines(ow.Upstream[0])
		}
		want := fmt.Sprintf("answered by the gateway with %d and not forwarded", m.Expect.Status)
		if m.Expect.Kind != "forward" && m.Expect.Status == 403 {
			var refused []string
			for _, d := range m.Required {
				if dec := policy.decide(d.call()); dec != "allow" {
					refused = append(refused, dec+" "+d.readable())
				}
			}
			want += fmt.Sprintf(" (the policy refuses the required record(s) [%s]; the authorizer was asked [%s])", strings.Join(refused, "; "), canonCalls(callsOf(obs)))
		}
		if m.Expect.Kind == "forward" {
			want = "forwarded as exactly " + m.Expect.ID.readable()
			if !m.Expect.Carried {
				want = "refused by the gateway and not forwarded (a header cannot carry " + m.Expect.ID.readable() + " unchanged), never forwarded altered"
			}
		}
		return verdict{kind: "judge", class: bad[0], classes: bad, impl: obs, model: m.Expect,
			what: fmt.Sprintf("%s: %s; must be %s; gateway answered %d, upstream received %s", strings.Join(bad, "+"), cs.readable(), want, obs.Status, got)}, obs, m
	}
	// 2. the model's own output must satisfy the judge (it is a theorem)
	if len(m.JudgeModel) > 0 {
		return verdict{kind: "diff", class: "c02.model-judge", what: fmt.Sprintf("the judge rejects the model's own output (%v) on %s", m.JudgeModel, cs.readable()), model: m}, obs, m
	}
	// 3. correspondence
	wantStatus := map[string]int{"badRequest": 400, "unauthorized": 401, "internalError": 500, "forbidden": 403, "transportRefused": 502, "valueRefused": 502, "upstreamRefused": 400, "forwarded": 200}[m.Outcome]
	if m.Outcome == "forwarded" && cs.Upgrade {
		wantStatus = 403 // what the stub upstream answers to an upgrade
	}
	nUp := 0
	if m.Outcome == "forwarded" {
		nUp = 1
	}
	if obs.Status != wantStatus || len(obs.Upstream) != nUp {
		return verdict{kind: "diff", class: "c02.outcome", impl: obs, model: m,
			what: fmt.Sprintf("model says %s (status %d, %d upstream request), gateway answered %d with %d upstream request(s); %s", m.Outcome, wantStatus, nUp, obs.Status, len(obs.Upstream), cs.readable())}, obs, m
	}
	if m.Outcome == "forwarded" && canonRecv(m.Recv) != canonRecv(ow.Upstream[0]) {
		return verdict{kind: "diff", class: "c02.received-headers", impl: obs, model: m,
			what: fmt.Sprintf("upstream received %s, model predicts %s; %s", readableLines(ow.Upstream[0]), readableLines(m.Recv), cs.readable())}, obs, m
	}
	implCalls := callsOf(obs)
	// every review must be about the authenticated requestor (compared where JSON carries the strings) and the verb impersonate
	if cs.User != nil {
		want := cs.User.info()
		carried := utf8.ValidString(want.Name)
		for _, g := range want.Groups {
			carried = carried && utf8.ValidString(g)
		}
		for _, sar := range obs.SARs {
			if sar.Verb != "impersonate" || (carried && (sar.User != want.Name || strings.Join(sar.Groups, "\x00") != strings.Join(want.Groups, "\x00"))) {
				return verdict{kind: "diff", class: "c02.sar-requestor", impl: obs, model: m,
					what: fmt.Sprintf("the cluster was asked verb %q about requestor %q %q; %s", sar.Verb, sar.User, sar.Groups, cs.readable())}, obs, m
			}
		}
	}
	switch m.Outcome {
	case "forwarded", "transportRefused", "valueRefused", "upstreamRefused":
		if canonCalls(implCalls) != canonCalls(m.Calls) {
			return verdict{kind: "diff", class: "c02.authorizer-calls", impl: obs, model: m,
				what: fmt.Sprintf("authorizer was asked %s, model derives %s; %s", canonCalls(implCalls), canonCalls(m.Calls), cs.readable())}, obs, m
		}
	case "forbidden":
		// the loop stops at the first refusal: the reviews sent are among the derived ones and the last one was refused; no review
		// at all when it cannot be sent for this requestor
		all := map[string]int{}
		for _, d := range m.Calls {
			all[canonCalls([]Deny{d})]++
		}
		okc := (len(implCalls) > 0) == (len(m.Calls) > 0)
		for _, d := range implCalls {
			k := canonCalls([]Deny{d})
			if all[k] == 0 {
				okc = false
			}
			all[k]--
		}
		if okc && len(obs.Calls) > 0 {
			last := obs.Calls[len(obs.Calls)-1]
			if policy.decide(last) == "allow" {
				okc = false
			}
		}
		if !okc {
			return verdict{kind: "diff", class: "c02.authorizer-calls", impl: obs, model: m,
				what: fmt.Sprintf("403 after asking the cluster %s, model derives %s; %s", canonCalls(implCalls), canonCalls(m.Calls), cs.readable())}, obs, m
		}
	default:
		if len(implCalls) != 0 {
			return verdict{kind: "diff", class: "c02.authorizer-calls", impl: obs, model: m, what: "authorizer asked although the request is answered before the impersonation filter; " + cs.readable()}, obs, m
		}
	}
	return verdict{ok: true}, obs, m
}

// sameFailure: a shrunk candidate still fails in the same way
func sameFailure(a, b verdict) bool {
	return !b.ok && a.kind == b.kind && a.class == b.class && strings.Join(a.classes, "+") == strings.Join(b.classes, "+")
}

func allKnown(classes []string) bool {
	for _, cl := range classes {
		if !knownClass[cl] {
			return false
		}
	}
	return len(classes) > 0
}

func shrink(c *rig.Ctx, cs Case, v verdict) Case {
	fails := func(x Case) bool { w, _, _ := eval(c, x); return sameFailure(v, w) }
	cs.Client = rig.ShrinkList(cs.Client, func(l []Line) bool { x := cs; x.Client = l; return fails(x) })
	cs.Deny = rig.ShrinkList(cs.Deny, func(l []Deny) bool { x := cs; x.Deny = l; return fails(x) })
	if cs.User != nil {
		u := *cs.User
		u.Groups = rig.ShrinkList(u.Groups, func(l []string) bool { x := cs; y := u; y.Groups = l; x.User = &y; return fails(x) })
		u.Extra = rig.ShrinkList(u.Extra, func(l []Extra) bool { x := cs; y := u; y.Extra = l; x.User = &y; return fails(x) })
		for i := range u.Extra {
			i := i
			vs := rig.ShrinkList(u.Extra[i].V, func(l []string) bool {
				if len(l) == 0 {
					return false
				}
				x := cs
				y := u
				y.Extra = append([]Extra{}, u.Extra...)
				y.Extra[i] = Extra{K: u.Extra[i].K, V: l}
				x.User = &y
				return fails(x)
			})
			u.Extra[i] = Extra{K: u.Extra[i].K, V: vs}
		}
		// simplify the name
		for _, n := range []string{"alice", "u"} {
			x := cs
			y := u
			y.Name = rig.Hex(n)
			x.User = &y
			if fails(x) {
				u = y
				break
			}
		}
		cs.User = &u
	}
	if cs.Upgrade {
		x := cs
		x.Upgrade = false
		if fails(x) {
			cs = x
		}
	}
	return cs
}

var reported = map[string]bool{}

// events of the endpoint's life played so far in this process (most recent last): a failure may be due to one of them
var history []string

// selfContained makes the recorded case reproduce in a FRESH process: it is re-run on a fresh gateway, first without any
// lifecycle event, then preceded by each event this process has played (most recent first).
func selfContained(c *rig.Ctx, cs Case, v verdict) Case {
	if len(history) == 0 && cs.Before == "" {
		return cs
	}
	old := gw
	defer func() { gw = old }()
	try := func(x Case) bool {
		g, err := newGateway()
		if err != nil {
			return false
		}
		gw = g
		defer g.close()
		w, _, _ := eval(c, x)
		return sameFailure(v, w)
	}
	x := cs
	x.Before = ""
	if try(x) {
		return x
	}
	seen := map[string]bool{}
	cands := []string{}
	if cs.Before != "" {
		cands = append(cands, cs.Before)
	}
	for i := len(history) - 1; i >= 0; i-- {
		cands = append(cands, history[i])
	}
	for _, op := range cands {
		if seen[op] {
			continue
		}
		seen[op] = true
		x.Before = op
		if try(x) {
			return x
		}
	}
	return cs
}

// judge failures and correspondence differences recorded so far: differences are recorded a few times only (the search for an
// input on which the PROPERTY fails goes on), judge failures stop the run after a few witnesses
var nJudge, nDiff, nInconclusive int

// runCase evaluates, counts and (on failure) shrinks and records one case.
func runCase(c *rig.Ctx, cs Case, origin string) bool {
	if cs.Token == "" {
		cs.Token = rig.Hex(gatewayToken)
	}
	if cs.Client == nil {
		cs.Client = []Line{}
	}
	if cs.Deny == nil {
		cs.Deny = []Deny{}
	}
	v, obs, m := eval(c, cs)
	c.Trace()
	nontrivial := false
	for _, l := range cs.Client {
		if isIdentityHeader(rig.UnHex(l.N)) {
			nontrivial = true
		}
	}
	if cs.User != nil && len(cs.User.Extra) > 0 {
		nontrivial = true
	}
	bucket := origin + ":" + m.Outcome
	if m.Outcome == "" {
		bucket = origin + ":error"
	}
	if m.ImpRequested {
		bucket += ":impersonation"
	}
	if cs.Upgrade {
		bucket += ":upgrade"
	}
	if m.Expect.Kind == "forward" && !m.Expect.Carried {
		bucket += ":wire-cannot-carry"
	}
	c.Case(rig.Canon(cs), nontrivial, bucket, func() interface{} {
		return map[string]interface{}{"case": cs.readable(), "gateway_status": obs.Status, "upstream_received": obs.Upstream}
	})
	c.Count(fmt.Sprintf("client-lines=%d", len(cs.Client)))
	if cs.Before != "" {
		c.Count("before:" + cs.Before)
	}
	if v.ok {
		return true
	}
	if v.kind == "inconclusive" {
		c.Count("inconclusive")
		nInconclusive++
		if nInconclusive <= 3 {
			c.Note("inconclusive case (not a failure): %s", v.what)
		}
		return true
	}
	if v.kind == "judge" && allKnown(v.classes) {
		// a recorded limitation of the wire format: one shrunk witness per run is enough
		key := strings.Join(v.classes, "+")
		c.Count("known:" + key)
		if reported[key] {
			return true
		}
		reported[key] = true
	}
	if v.kind == "diff" {
		nDiff++
		c.Count("diff:" + v.class)
		if nDiff > 3 {
			return false
		}
	} else if !allKnown(v.classes) {
		nJudge++
	}
	small := shrink(c, cs, v)
	w, _, _ := eval(c, small)
	if !sameFailure(v, w) {
		small, w = cs, v
	}
	small = selfContained(c, small, w)
	if small.Before != "" && !strings.Contains(w.what, "before the request") {
		w.what += "; before the request (needed to reproduce in a fresh process): " + small.Before
	}
	c.Fail(rig.Failure{Kind: w.kind, Class: w.class, What: w.what, Case: small, Impl: w.impl, Model: w.model})
	return false
}

func main() {
	fs := flag.NewFlagSet("klog", flag.ContinueOnError)
	klog.InitFlags(fs)
	fs.Set("logtostderr", "false")
	fs.Set("alsologtostderr", "false")
	fs.Set("stderrthreshold", "FATAL")
	klog.SetOutput(io.Discard)
	rig.Main("C02", func(c *rig.Ctx) {
		c.SetRule("one raw HTTP/1.1 request through the real gateway chain + dispatcher + transport to a recording upstream: authenticated identity (name / 0-4 groups / 0-3 extra keys x 0-3 values over pools with '%', space, upper case, UTF-8, ':', edge white space, control bytes), 0-7 client header lines from the families Authorization, Impersonate-User|Group|Extra-*|Uid|Foo and near misses in random casings with empty values and duplicates, an authorizer script (all allowed / one or two derived requests denied, no-opinion or error), plain or upgrade path; distinct = distinct canonical case; non-trivial = the client sent at least one identity bearing header or the identity has extras")
		var err error
		gw, err = newGateway()
		if err != nil {
			fmt.Fprintln(os.Stderr, "cannot start the in-process gateway:", err)
			os.Exit(2)
		}
		defer gw.close()
		c.Note("handler chain: %s", chainSource)
		if c.Replay != "" {
			var probe struct{ Key, S *string }
			if err := c.LoadReplay(&probe); err == nil && probe.Key != nil {
				sweepKey(c, rig.UnHex(*probe.Key))
				return
			}
			if probe.S != nil {
				jsonSweepOne(c, rig.UnHex(*probe.S))
				return
			}
			var cs Case
			if err := c.LoadReplay(&cs); err != nil {
				fmt.Fprintln(os.Stderr, err)
				os.Exit(2)
			}
			runCase(c, cs, "replay")
			return
		}
		files, _ := filepath.Glob(filepath.Join(os.Getenv("VERIF_DIR"), "harness", "corpus", "C02", "*.json"))
		sort.Strings(files)
		for _, f := range files {
			b, _ := os.ReadFile(f)
			var env struct{ Case *Case }
			if json.Unmarshal(b, &env) != nil || env.Case == nil {
				fmt.Fprintln(os.Stderr, "bad corpus file", f)
				os.Exit(2)
			}
			runCase(c, *env.Case, "corpus")
		}
		escapeSweep(c)
		jsonSweep(c)
		n := c.Budget(4000, 80000)
		for i := 0; i < n && nJudge < 3; i++ {
			runCase(c, genCase(c, i), "gen")
		}
	})
}
