package main

import (
	"encoding/json"
	"fmt"
	"math/rand"
	"net/http"
	"net/url"
	"strings"

	"golang.org/x/net/http/httpguts"
	utilproxy "k8s.io/apimachinery/pkg/util/proxy"
	"k8s.io/apiserver/pkg/authentication/user"
	genericapirequest "k8s.io/apiserver/pkg/endpoints/request"

	gwtransport "github.com/kubewharf/kubegateway/pkg/transport"

	"verifharness/rig"
)

var namePool = []string{
	"alice", "bob", "system:anonymous", "system:serviceaccount:ns1:sa1", "system:serviceaccount:kube-system:a.b-c",
	"system:serviceaccount:Ns:x", "system:serviceaccount:ns1:", "system:serviceaccount:ns1:sa1:x", "system:serviceaccount:-ns:sa",
	"system:admin", "kube-apiserver", "system:apiserver", "system:kube-controller-manager", "system:kube-scheduler", "a b", "al%ice", "al%41ice", "\xc3\xa9ve", "x:y", "Alice", "a,b", "\xff\xfe", "user@example.com",
}
var edgeNames = []string{" alice", "alice ", "\talice", "alice\t ", " ", ""}
var invalidNames = []string{"al\nice", "a\x01b", "a\x7fb", "a\rb"}

var groupPool = []string{
	"dev", "ops", "system:authenticated", "system:unauthenticated", "system:masters", "system:serviceaccounts",
	"system:serviceaccounts:ns1", "G", "g", "\xc3\xa9:x", "a,b", "a b", "p%q",
}
var edgeGroups = []string{"", " g", "g ", "\tg\t"}

var keyPool = []string{
	"scopes", "a", "b", "x/y", "p%q", "%41", "%zz", "\xc3\xa9", "a b", "k:1", "authentication.kubernetes.io/pod-name",
	"a-b", "a_b.c", "", "%", "a%2fb", "\x00", "~!#$&'*+^`|",
}
var upperKeys = []string{"Scopes", "SCOPES", "A", "B", "a-B", "X/Y", "scopeS", "\xc3\x89A"}

var valuePool = []string{"v", "view", "edit", "", "a b", "x,y", "\xc3\xa9", "V", "p%q", "1"}
var edgeValues = []string{" v", "v ", "\t"}

func pick(r *rand.Rand, main []string, rare []string, rareOneIn int) string {
	if len(rare) > 0 && r.Intn(rareOneIn) == 0 {
		return rig.Pick(r, rare)
	}
	return rig.Pick(r, main)
}

func randBytes(r *rand.Rand, alphabet string, max int) string {
	n := r.Intn(max + 1)
	b := make([]byte, n)
	for i := range b {
		b[i] = alphabet[r.Intn(len(alphabet))]
	}
	return string(b)
}

const keyAlphabet = "aAbZz09%-_./: \xc3\xa9\x80~"

func genIdent(r *rand.Rand, wild bool) *Ident {
	id := &Ident{Groups: []string{}, Extra: []Extra{}}
	name := pick(r, namePool, edgeNames, 25)
	if wild && r.Intn(10) == 0 {
		name = rig.Pick(r, invalidNames)
	}
	if r.Intn(12) == 0 {
		name = randBytes(r, keyAlphabet, 6)
	}
	id.Name = rig.Hex(name)
	for i, n := 0, r.Intn(5); i < n; i++ {
		g := pick(r, groupPool, edgeGroups, 30)
		if wild && r.Intn(25) == 0 {
			g = rig.Pick(r, invalidNames)
		}
		id.Groups = append(id.Groups, rig.Hex(g))
	}
	if r.Intn(5) == 0 { // privileged-looking requestors
		id.Groups = append(id.Groups, rig.Hex(rig.Pick(r, []string{"system:masters", "system:masters", "system:authenticated", "system:unauthenticated", "system:nodes"})))
		r.Shuffle(len(id.Groups), func(a, b int) { id.Groups[a], id.Groups[b] = id.Groups[b], id.Groups[a] })
	}
	seen := map[string]bool{}
	for i, n := 0, r.Intn(4); i < n; i++ {
		k := pick(r, keyPool, upperKeys, 10)
		if r.Intn(8) == 0 {
			k = randBytes(r, keyAlphabet, 5)
		}
		if seen[k] {
			continue
		}
		seen[k] = true
		e := Extra{K: rig.Hex(k), V: []string{}}
		for j, m := 0, r.Intn(4); j < m; j++ {
			v := pick(r, valuePool, edgeValues, 40)
			if wild && r.Intn(40) == 0 {
				v = rig.Pick(r, invalidNames)
			}
			e.V = append(e.V, rig.Hex(v))
		}
		id.Extra = append(id.Extra, e)
	}
	return id
}

func randomCase(r *rand.Rand, s string) string {
	b := []byte(s)
	switch r.Intn(5) {
	case 0: // as is
	case 1:
		return strings.ToLower(s)
	case 2:
		return strings.ToUpper(s)
	default:
		for i, c := range b {
			if r.Intn(2) == 0 {
				if 'a' <= c && c <= 'z' {
					b[i] = c - 32
				} else if 'A' <= c && c <= 'Z' {
					b[i] = c + 32
				}
			}
		}
	}
	return string(b)
}

// a token-only rendering of an extra key as a client would put it into a header name
func clientExtraSuffix(r *rand.Rand) string {
	switch r.Intn(8) {
	case 0:
		return rig.Pick(r, []string{"%41bc", "%zz", "%", "%4", "a%2Fb", "a%2fb", "%25", "%c3%a9", "%C3%A9", ""})
	case 1:
		return rig.Pick(r, []string{"Scopes", "SCOPES", "a-B"})
	default:
		h, _ := realExtraHeader(pick(r, keyPool, upperKeys, 8))
		return strings.TrimPrefix(h, extraPrefix)
	}
}

var otherImpersonate = []string{"Impersonate-Uid", "Impersonate-Foo", "Impersonate-", "Impersonate-User-", "Impersonate-Users", "Impersonate-Groups",
	"Impersonate-Extra", "Impersonate-User2", "Impersonate-X-Y"}
var nearMisses = []string{"Impersonate", "X-Impersonate-User", "Impersonate_User", "Impersonat-User", "Authorization2", "X-Authorization",
	"Proxy-Authorization", "X-Remote-User", "X-Remote-Group", "Accept", "Connection", "User-Agent"}

func genLine(r *rand.Rand) Line {
	var n, v string
	switch k := r.Intn(20); {
	case k < 3:
		n, v = "Authorization", rig.Pick(r, []string{"Bearer client-token", "", "Basic Y2xpZW50OnB3", "Bearer gateway-token", "bearer x"})
	case k < 7:
		n = "Impersonate-User"
		v = pick(r, namePool, []string{"", "", " "}, 15)
		if r.Intn(4) == 0 {
			v = rig.Pick(r, []string{"system:serviceaccount:ns1:sa1", "system:serviceaccount:kube-system:a.b-c", "system:serviceaccount:team-a:builder"})
		}
	case k < 10:
		n = "Impersonate-Group"
		v = pick(r, groupPool, []string{"", " "}, 10)
	case k < 14:
		n = "Impersonate-Extra-" + clientExtraSuffix(r)
		v = rig.Pick(r, valuePool)
	case k < 17:
		n = rig.Pick(r, otherImpersonate)
		v = rig.Pick(r, []string{"0", "x", "", "bob", "system:masters"})
	default:
		n = rig.Pick(r, nearMisses)
		v = rig.Pick(r, []string{"bob", "close", "x", "impersonate-user", "Impersonate-Uid, authorization"})
		if n == "Connection" {
			v = rig.Pick(r, []string{"keep-alive", "Impersonate-Uid", "impersonate-user, Impersonate-Group", "authorization"})
		}
	}
	return Line{rig.Hex(randomCase(r, n)), rig.Hex(v)}
}

var malformedLines = []Line{
	{rig.Hex("Imperso nate-User"), rig.Hex("bob")},
	{rig.Hex("Impersonate-User "), rig.Hex("bob")},
	{rig.Hex("Impersonate-Us\x80r"), rig.Hex("bob")},
	{rig.Hex("Impersonate(User)"), rig.Hex("bob")},
	{rig.Hex("Impersonate-User"), rig.Hex("b\x01ob")},
	{rig.Hex("Impersonate-Group"), rig.Hex("g\x7f")},
	{rig.Hex("Impersonate-Extra-a/b"), rig.Hex("v")},
	{rig.Hex("Authorization"), rig.Hex("Bearer \x00")},
}

func genCase(c *rig.Ctx, i int) Case {
	r := c.Rng
	wild := i%8 == 7 // the stream with bytes net/http refuses and malformed header lines
	cs := Case{Token: rig.Hex(gatewayToken), Client: []Line{}, Deny: []Deny{}}
	cs.User = genIdent(r, wild)
	if r.Intn(60) == 0 {
		cs.User = nil
	}
	// scenario: which lines of the impersonation family the client sends
	scenario := r.Intn(20)
	addLine := func(l Line) {
		cs.Client = append(cs.Client, l)
		if r.Intn(8) == 0 { // duplicate, maybe in another casing, maybe with another value
			d := Line{rig.Hex(randomCase(r, rig.UnHex(l.N))), l.V}
			if r.Intn(2) == 0 {
				d.V = rig.Hex(rig.Pick(r, valuePool))
			}
			cs.Client = append(cs.Client, d)
		}
	}
	family := func(kind int) Line { // 0 user, 1 group, 2 extra, 3 other Impersonate-*, 4 Authorization, 5 near miss
		for {
			l := genLine(r)
			n := strings.ToLower(rig.UnHex(l.N))
			k := 5
			switch {
			case n == "impersonate-user":
				k = 0
			case n == "impersonate-group":
				k = 1
			case strings.HasPrefix(n, "impersonate-extra-"):
				k = 2
			case strings.HasPrefix(n, "impersonate-"):
				k = 3
			case n == "authorization":
				k = 4
			}
			if k == kind {
				return l
			}
		}
	}
	switch {
	case scenario < 2: // no client line at all
	case scenario < 6: // no impersonation requested: credentials, strays of the family, near misses
		for j, n := 0, 1+r.Intn(4); j < n; j++ {
			addLine(family(rig.Pick(r, []int{3, 3, 4, 4, 5})))
		}
	case scenario < 15: // an impersonation with a user
		addLine(family(0))
		for j, n := 0, r.Intn(3); j < n; j++ {
			addLine(family(1))
		}
		for j, n := 0, r.Intn(3); j < n; j++ {
			addLine(family(2))
		}
		for j, n := 0, r.Intn(3); j < n; j++ {
			addLine(family(rig.Pick(r, []int{3, 4, 5})))
		}
	case scenario < 17: // groups / extras without a user
		for j, n := 0, 1+r.Intn(3); j < n; j++ {
			addLine(family(rig.Pick(r, []int{1, 2, 2, 3, 4})))
		}
	default: // anything
		for j, n := 0, r.Intn(8); j < n; j++ {
			addLine(genLine(r))
		}
	}
	// hop-by-hop: a Connection header that NAMES headers, among them the ones the gateway generates for this identity
	// (the reverse proxy strips what Connection names; identity headers must be written after that)
	if r.Intn(8) == 0 {
		tokens := []string{"Impersonate-Group", "impersonate-group", "Impersonate-User", "Authorization", "Impersonate-Uid", "X-Forwarded-For", "keep-alive", "Accept"}
		if cs.User != nil {
			for _, e := range cs.User.Extra {
				if h, err := realExtraHeader(rig.UnHex(e.K)); err == nil {
					tokens = append(tokens, h, h, strings.ToLower(h))
				}
			}
		}
		for _, l := range cs.Client {
			if n := rig.UnHex(l.N); strings.HasPrefix(strings.ToLower(n), "impersonate-extra-") {
				tokens = append(tokens, n)
			}
		}
		var chosen []string
		for k, n := 0, 1+r.Intn(3); k < n; k++ {
			chosen = append(chosen, rig.Pick(r, tokens))
		}
		name := rig.Pick(r, []string{"Connection", "connection", "CONNECTION"})
		if r.Intn(3) == 0 { // one line per token
			for _, t := range chosen {
				cs.Client = append(cs.Client, Line{rig.Hex(name), rig.Hex(t)})
			}
		} else {
			cs.Client = append(cs.Client, Line{rig.Hex(name), rig.Hex(strings.Join(chosen, rig.Pick(r, []string{", ", ","})))})
		}
	}
	r.Shuffle(len(cs.Client), func(a, b int) { cs.Client[a], cs.Client[b] = cs.Client[b], cs.Client[a] })
	if wild && r.Intn(3) == 0 {
		cs.Client = append(cs.Client, rig.Pick(r, malformedLines))
		r.Shuffle(len(cs.Client), func(a, b int) { cs.Client[a], cs.Client[b] = cs.Client[b], cs.Client[a] })
	}
	cs.Upgrade = r.Intn(6) == 0
	// the endpoint's life between requests: its transport is rebuilt, its cluster object applied again, its health flaps
	if i == 3 || i == 4 || i == 5 || i == 6 || r.Intn(50) == 0 {
		cs.Before = rig.Pick(r, []string{"reset-transport", "reset-transport", "reset-twice", "resync", "flap"})
		if i >= 3 && i <= 6 {
			cs.Before = []string{"reset-transport", "resync", "flap", "reset-twice"}[i-3]
		}
	}
	// the cluster's policy, keyed by the full attributes of a record (incl. the namespace), built around the records the
	// specification requires for this request
	var m modelOut
	var req []Deny
	if err := c.Model("C02.run", cs, &m); err == nil {
		req = m.Required
	}
	saNs := rig.Hex("ns1")
	for _, d := range req {
		if rig.UnHex(d.Res) == "serviceaccounts" {
			saNs = d.Ns
		}
	}
	refusal := func() string { return rig.Pick(r, []string{"deny", "deny", "noopinion", "error", "error403"}) }
	shift := func(d Deny) Deny { // the same record in another namespace
		if rig.UnHex(d.Res) == "serviceaccounts" {
			d.Ns = rig.Hex(rig.Pick(r, []string{"", "other", "kube-system"}))
		} else {
			d.Ns = saNs
			if r.Intn(4) == 0 {
				d.Ns = rig.Hex(rig.Pick(r, []string{"other", "default"}))
			}
		}
		return d
	}
	switch k := r.Intn(12); {
	case len(req) == 0 || k < 4: // everything allowed (or nothing to ask)
		if r.Intn(8) == 0 { // a refusal that may or may not concern the request
			cs.Deny = append(cs.Deny, Deny{Grp: rig.Hex(""), Res: rig.Hex(rig.Pick(r, []string{"users", "groups", "serviceaccounts"})),
				Sub: rig.Hex(""), Ns: rig.Hex(rig.Pick(r, []string{"", "ns1"})),
				Name: rig.Hex(rig.Pick(r, []string{"bob", "dev", "v", "sa1", "alice"})), D: "deny"})
		}
	case k < 6: // allow by default, refuse one or two required records
		for i, n := 0, 1+r.Intn(2); i < n; i++ {
			d := rig.Pick(r, req)
			d.D = refusal()
			cs.Deny = append(cs.Deny, d)
		}
	case k < 7: // deny by default, allow exactly the required records
		cs.Default = refusal()
		for _, d := range req {
			d.D = "allow"
			cs.Deny = append(cs.Deny, d)
		}
	case k < 8: // deny by default, one required record is not allowed
		cs.Default = refusal()
		miss := r.Intn(len(req))
		for i, d := range req {
			if i != miss {
				d.D = "allow"
				cs.Deny = append(cs.Deny, d)
			}
		}
	case k < 11: // deny by default, like namespaced RoleBindings: some records are allowed only in ANOTHER namespace
		// (groups / extras / users only inside the service account's namespace, the service account only elsewhere)
		cs.Default = refusal()
		shifted := r.Intn(len(req))
		for i, d := range req {
			if i == shifted || r.Intn(3) == 0 {
				d = shift(d)
			}
			d.D = "allow"
			cs.Deny = append(cs.Deny, d)
		}
	default: // allow by default, a refusal that names a required record in another namespace: does not concern the request
		d := shift(rig.Pick(r, req))
		d.D = refusal()
		cs.Deny = append(cs.Deny, d)
	}
	return cs
}

// escapeSweep ties headerKeyEscape and the decoder's building blocks to the real functions, byte by byte:
// the real headerKeyEscape against the model's, and Go's own url.PathUnescape / http.CanonicalHeaderKey /
// httpguts.ValidHeaderFieldName / strings.ToLower against the model's pathUnescape / canonicalKey / validName / toLower.
func escapeSweep(c *rig.Ctx) {
	keys := []string{}
	for b := 0; b < 256; b++ {
		keys = append(keys, string([]byte{byte(b)}), "k"+string([]byte{byte(b)})+"Z")
	}
	keys = append(keys, keyPool...)
	keys = append(keys, upperKeys...)
	for i, n := 0, c.Budget(500, 20000); i < n; i++ {
		keys = append(keys, randBytes(c.Rng, keyAlphabet+"\x00\x7f\xff()<>@,;\\\"[]?={}", 8))
	}
	for _, k := range keys {
		if c.NFailures() >= 5 {
			break
		}
		sweepKey(c, k)
	}
}

// sweepKey checks one extra key (also the replay entry point for a case of the form {"key": hex}).
func sweepKey(c *rig.Ctx, k string) {
	for once := true; once; once = false {
		cs := map[string]string{"key": rig.Hex(k)}
		c.Case("escape:"+k, true, "escape-sweep", nil)
		header, err := realExtraHeader(k)
		if err != nil {
			c.Fail(rig.Failure{Kind: "diff", Class: "c02.escape-api", Case: cs, What: fmt.Sprintf("WrapRequest with the extra key %q: %v", k, err)})
			continue
		}
		valid := httpguts.ValidHeaderFieldName(header)
		dec := strings.ToLower(strings.TrimPrefix(header, extraPrefix))
		var uerr error
		if d, err := url.PathUnescape(dec); err == nil {
			dec = d
		} else {
			uerr = err
		}
		// judge on the real functions: legal header name, and a kube-apiserver decodes exactly the key
		lower := []byte(k)
		for i, ch := range lower {
			if 'A' <= ch && ch <= 'Z' {
				lower[i] = ch + 32
			}
		}
		if !valid || uerr != nil {
			c.Fail(rig.Failure{Kind: "judge", Class: "c02.escape-roundtrip", Case: cs,
				What: fmt.Sprintf("extra key %q is sent as %q: valid header name=%v, PathUnescape of the lower-cased suffix: err=%v", k, header, valid, uerr)})
			continue
		}
		if dec != k {
			// losing exactly the ASCII case is the repaired defect C02-extra-key-case
			class := "c02.escape-decode"
			if dec == string(lower) {
				class = "c02.extra-key-case"
			}
			c.Fail(rig.Failure{Kind: "judge", Class: class, Case: cs,
				What: fmt.Sprintf("extra key %q is sent as %q, which a kube-apiserver decodes as %q", k, header, dec)})
			continue
		}
		var m struct {
			Escaped, Header, Decoded string
			Valid                    bool
			Unescaped                *string
		}
		if err := c.Model("C02.escape", cs, &m); err != nil {
			c.Fail(rig.Failure{Kind: "diff", Class: "c02.model-error", What: "model error: " + err.Error(), Case: cs})
			continue
		}
		if rig.UnHex(m.Header) != header || m.Valid != valid || rig.UnHex(m.Decoded) != dec {
			c.Fail(rig.Failure{Kind: "diff", Class: "c02.escape", Case: cs, Impl: []string{header, dec}, Model: m,
				What: fmt.Sprintf("extra key %q: code sends %q (decoded %q), model %q (decoded %q)", k, header, dec, rig.UnHex(m.Header), rig.UnHex(m.Decoded))})
		}
	}
}

const extraPrefix = "Impersonate-Extra-"

var escapeRT = gwtransport.NewDynamicImpersonatingRoundTripper(http.DefaultTransport)

// realExtraHeader asks the REAL code, through the package's public API (NewDynamicImpersonatingRoundTripper + WrapRequest of the
// upgrade round tripper interface), under which header name it sends the extra key k.
func realExtraHeader(k string) (string, error) {
	urt, ok := escapeRT.(utilproxy.UpgradeRequestRoundTripper)
	if !ok {
		return "", fmt.Errorf("the impersonating round tripper is no UpgradeRequestRoundTripper")
	}
	req, err := http.NewRequest("GET", "http://upstream.invalid/api", nil)
	if err != nil {
		return "", err
	}
	req = req.WithContext(genericapirequest.WithUser(req.Context(), &user.DefaultInfo{Name: "u", Extra: map[string][]string{k: {"v"}}}))
	var out *http.Request
	if msg, panicked := rig.Recover(func() { out, err = urt.WrapRequest(req) }); panicked {
		return "", fmt.Errorf("panic: %s", msg)
	}
	if err != nil {
		return "", err
	}
	found := ""
	for name := range out.Header {
		if strings.HasPrefix(name, extraPrefix) {
			if found != "" {
				return "", fmt.Errorf("two extra headers: %q %q", found, name)
			}
			found = name
		}
	}
	if found == "" {
		return "", fmt.Errorf("no %s* header written", extraPrefix)
	}
	return found, nil
}

// jsonSweep ties the model's jsonCarried (what a SubjectAccessReview carries of a string) to Go's encoding/json round trip.
func jsonSweep(c *rig.Ctx) {
	strs := []string{"", "bob", "\xff\xfe", "\xc3\xa9", "\xc3", "\xe2\x82\xac", "\xe2\x82", "\xed\xa0\x80", "\xf0\x9f\x98\x80", "\xf4\x90\x80\x80", "\xc0\xaf", "\xef\xbf\xbd", "a<b>&c\u2028", "\x00\x7f"}
	for i, n := 0, c.Budget(400, 20000); i < n; i++ {
		strs = append(strs, randBytes(c.Rng, "ab\x80\xbf\xc2\xc3\xe0\xa0\xed\x9f\xef\xf0\x90\xf4\x8f\xf5\xff\"\\<", 7))
	}
	for _, s := range strs {
		if !jsonSweepOne(c, s) {
			return
		}
	}
}

func jsonSweepOne(c *rig.Ctx, s string) bool {
	{
		b, _ := json.Marshal(s)
		var back string
		json.Unmarshal(b, &back)
		var m struct{ Carried string }
		cs := map[string]string{"s": rig.Hex(s)}
		c.Case("json:"+s, true, "json-sweep", nil)
		if err := c.Model("C02.json", cs, &m); err != nil {
			c.Fail(rig.Failure{Kind: "diff", Class: "c02.model-error", What: "model error: " + err.Error(), Case: cs})
			return false
		}
		if rig.UnHex(m.Carried) != back {
			c.Fail(rig.Failure{Kind: "diff", Class: "c02.json-carried", Case: cs, Impl: back, Model: rig.UnHex(m.Carried),
				What: fmt.Sprintf("JSON carries %q as %q, model says %q", s, back, rig.UnHex(m.Carried))})
			return false
		}
	}
	return true
}
