// The in-process end-to-end gateway used by the C02 harness.
//
//	raw HTTP/1.1 client --> net/http server --> REAL handler chain of cmd/kube-gateway/app/proxy.go
//	(buildProxyHandlerChainFunc, reached through the overlay shim) with a stub authenticator (returns the case's
//	identity) and the REAL authorizer the shipped wiring builds (proxy AuthorizationOptions.ApplyTo -> AuthorizerConfig.New:
//	SubjectAccessReviews sent to the target cluster through the cluster manager) --> REAL dispatcher --> REAL
//	clusters.ClusterInfo / EndpointInfo transport (client-go wrappers for the gateway's bearer token + the real
//	dynamic impersonating round tripper) --> httptest upstream that records the identity bearing headers
//	and ANSWERS the SubjectAccessReviews from the case's scripted policy: the policy is the target cluster's.
package main

import (
	"bufio"
	"encoding/json"
	"fmt"
	"io"
	"net"
	"net/http"
	"net/http/httptest"
	"sort"
	"strings"
	"sync"
	"time"

	authorizationv1 "k8s.io/api/authorization/v1"
	metav1 "k8s.io/apimachinery/pkg/apis/meta/v1"
	"k8s.io/apimachinery/pkg/util/sets"
	utilwaitgroup "k8s.io/apimachinery/pkg/util/waitgroup"
	"k8s.io/apiserver/pkg/authentication/authenticator"
	"k8s.io/apiserver/pkg/authentication/user"
	genericapirequest "k8s.io/apiserver/pkg/endpoints/request"
	genericapiserver "k8s.io/apiserver/pkg/server"
	genericfilters "k8s.io/apiserver/pkg/server/filters"
	"k8s.io/client-go/kubernetes/scheme"

	proxyv1alpha1 "github.com/kubewharf/kubegateway/pkg/apis/proxy/v1alpha1"
	"github.com/kubewharf/kubegateway/pkg/clusters"
	proxyoptions "github.com/kubewharf/kubegateway/pkg/gateway/proxy/options"

	"verifharness/rig"
)

const (
	clusterName  = "c02.cluster.local"
	gatewayToken = "gateway-token"
	casePath     = "/api/v1/namespaces/c02/pods"
	caseHeader   = "X-C02-Case"
)

// HV is one header field as received (canonical name as seen by Go's server, value).
type HV struct {
	N string `json:"n"`
	V string `json:"v"`
}

// AuthzCall is one call of the authorizer made by the impersonation filter.
type AuthzCall struct {
	Grp  string `json:"grp"`
	Res  string `json:"res"`
	Sub  string `json:"sub"`
	Ns   string `json:"ns"`
	Name string `json:"name"`
}

// SARSeen is one SubjectAccessReview the target cluster was asked: the record and the requestor it was asked about.
type SARSeen struct {
	Call   AuthzCall
	User   string
	Groups []string
	Verb   string
}

type upstream struct {
	mu       sync.Mutex
	received [][]HV // per request of the current case
	policy   Policy
	sars     []SARSeen
}

// serveSAR answers one SubjectAccessReview from the scripted policy, as the target cluster's authorizer.
func (u *upstream) serveSAR(w http.ResponseWriter, r *http.Request) {
	body, _ := io.ReadAll(r.Body)
	sar := &authorizationv1.SubjectAccessReview{}
	if _, _, err := scheme.Codecs.UniversalDeserializer().Decode(body, nil, sar); err != nil {
		http.Error(w, "cannot decode SubjectAccessReview: "+err.Error(), http.StatusBadRequest)
		return
	}
	seen := SARSeen{User: sar.Spec.User, Groups: sar.Spec.Groups}
	decision := "deny"
	if ra := sar.Spec.ResourceAttributes; ra != nil {
		seen.Call = AuthzCall{Grp: ra.Group, Res: ra.Resource, Sub: ra.Subresource, Ns: ra.Namespace, Name: ra.Name}
		seen.Verb = ra.Verb
		u.mu.Lock()
		if ra.Verb == "impersonate" {
			decision = u.policy.decide(seen.Call)
		}
		u.mu.Unlock()
	}
	u.mu.Lock()
	u.sars = append(u.sars, seen)
	u.mu.Unlock()
	switch decision {
	case "allow":
		sar.Status = authorizationv1.SubjectAccessReviewStatus{Allowed: true}
	case "deny":
		sar.Status = authorizationv1.SubjectAccessReviewStatus{Denied: true, Reason: "scripted deny"}
	case "noopinion":
		sar.Status = authorizationv1.SubjectAccessReviewStatus{}
	case "error": // a contradictory answer: the gateway's authorizer reports an error (no retry)
		sar.Status = authorizationv1.SubjectAccessReviewStatus{Allowed: true, Denied: true}
	default: // "error403": the cluster refuses the review itself (an error the client does not retry)
		w.Header().Set("Content-Type", "application/json")
		w.WriteHeader(http.StatusForbidden)
		json.NewEncoder(w).Encode(metav1.Status{TypeMeta: metav1.TypeMeta{Kind: "Status", APIVersion: "v1"}, Status: "Failure",
			Reason: metav1.StatusReasonForbidden, Code: http.StatusForbidden, Message: "subjectaccessreviews is forbidden (scripted)"})
		return
	}
	sar.TypeMeta = metav1.TypeMeta{Kind: "SubjectAccessReview", APIVersion: "authorization.k8s.io/v1"}
	w.Header().Set("Content-Type", "application/json")
	w.WriteHeader(http.StatusCreated)
	json.NewEncoder(w).Encode(sar)
}

func isIdentityHeader(name string) bool {
	l := strings.ToLower(name)
	return l == "authorization" || strings.HasPrefix(l, "impersonate-")
}

func (u *upstream) ServeHTTP(w http.ResponseWriter, r *http.Request) {
	if r.Method == http.MethodPost && strings.HasSuffix(r.URL.Path, "/subjectaccessreviews") {
		u.serveSAR(w, r)
		return
	}
	if r.Header.Get(caseHeader) == "" {
		// not case traffic (health probes of the gateway)
		w.WriteHeader(http.StatusOK)
		return
	}
	var got []HV
	names := make([]string, 0, len(r.Header))
	for n := range r.Header {
		if isIdentityHeader(n) {
			names = append(names, n)
		}
	}
	sort.Strings(names)
	for _, n := range names {
		for _, v := range r.Header[n] { // wire order within one name
			got = append(got, HV{n, v})
		}
	}
	u.mu.Lock()
	u.received = append(u.received, got)
	u.mu.Unlock()
	if r.Header.Get("Upgrade") != "" {
		// refuse the upgrade: the gateway relays this answer and closes
		w.WriteHeader(http.StatusForbidden)
		return
	}
	w.WriteHeader(http.StatusOK)
}

func (u *upstream) reset(p Policy) { u.mu.Lock(); u.received, u.sars, u.policy = nil, nil, p; u.mu.Unlock() }
func (u *upstream) takeSARs() []SARSeen {
	u.mu.Lock()
	defer u.mu.Unlock()
	r := u.sars
	u.sars = nil
	return r
}
func (u *upstream) take() [][]HV {
	u.mu.Lock()
	defer u.mu.Unlock()
	r := u.received
	u.received = nil
	return r
}

// Policy is the scripted authorizer of one case, keyed — like RBAC — by the full attributes of the record it is asked
// about (verb impersonate; API group, resource, subresource, NAMESPACE, name): the first rule whose attributes equal the
// record decides, else the default.
type PolicyRule struct {
	On AuthzCall
	D  string // allow | deny | noopinion | error
}
type Policy struct {
	Default string // "" = allow
	Rules   []PolicyRule
}

func (p Policy) decide(c AuthzCall) string {
	for _, r := range p.Rules {
		if r.On == c {
			return r.D
		}
	}
	if p.Default == "" {
		return "allow"
	}
	return p.Default
}

// script is what the stubs answer for the case being run (one case at a time).
type script struct {
	mu   sync.Mutex
	user *user.DefaultInfo
}

type gateway struct {
	up       *upstream
	upSrv    *httptest.Server
	gwSrv    *httptest.Server
	cluster  *clusters.ClusterInfo
	sc       *script
	conn     net.Conn
	br       *bufio.Reader
	caseSeq  int
	spec     *proxyv1alpha1.UpstreamCluster
}

func newGateway() (*gateway, error) {
	g := &gateway{up: &upstream{}, sc: &script{}}
	g.upSrv = httptest.NewServer(g.up)
	g.spec = &proxyv1alpha1.UpstreamCluster{
		ObjectMeta: metav1.ObjectMeta{Name: clusterName},
		Spec: proxyv1alpha1.UpstreamClusterSpec{
			Servers:      []proxyv1alpha1.UpstreamClusterServer{{Endpoint: g.upSrv.URL}},
			ClientConfig: proxyv1alpha1.ClientConfig{BearerToken: []byte(gatewayToken)},
			DispatchPolicies: []proxyv1alpha1.DispatchPolicy{{
				Rules: []proxyv1alpha1.DispatchPolicyRule{{
					Verbs: []string{"*"}, APIGroups: []string{"*"}, Resources: []string{"*"}, NonResourceURLs: []string{"*"},
				}},
			}},
		},
	}
	cluster, err := clusters.CreateClusterInfo(g.spec, func(e *clusters.EndpointInfo) bool {
		if !e.IsReady() {
			e.UpdateStatus(true, "", "")
		}
		return false
	}, "", nil)
	if err != nil {
		return nil, fmt.Errorf("CreateClusterInfo: %v", err)
	}
	g.cluster = cluster
	deadline := time.Now().Add(90 * time.Second)
	for {
		if ep, ok := cluster.Endpoints.Load(g.upSrv.URL); ok && ep.IsReady() {
			break
		}
		if time.Now().After(deadline) {
			return nil, fmt.Errorf("endpoint never became ready")
		}
		time.Sleep(5 * time.Millisecond)
	}
	manager := clusters.NewManager()
	manager.Add(cluster)

	longRunning := genericfilters.BasicLongRunningRequestCheck(
		sets.NewString("watch", "proxy"),
		sets.NewString("attach", "exec", "proxy", "log", "portforward"),
	)
	cfg := &genericapiserver.Config{
		Serializer:            scheme.Codecs,
		LongRunningFunc:       longRunning,
		HandlerChainWaitGroup: new(utilwaitgroup.SafeWaitGroup),
		RequestInfoResolver: &genericapirequest.RequestInfoFactory{
			APIPrefixes:          sets.NewString("api", "apis"),
			GrouplessAPIPrefixes: sets.NewString("api"),
		},
	}
	cfg.Authentication.Authenticator = authenticator.RequestFunc(func(req *http.Request) (*authenticator.Response, bool, error) {
		g.sc.mu.Lock()
		defer g.sc.mu.Unlock()
		if g.sc.user == nil {
			return nil, false, nil
		}
		return &authenticator.Response{User: g.sc.user}, true, nil
	})
	// the authorizer of the proxy server exactly as the shipped options -> config path builds it
	// (cmd/kube-gateway/app CreateProxyConfig: o.Authorization.ApplyTo(&recommendedConfig.Config, clusterController)); only the
	// decision cache is switched off (negative TTLs: every entry is expired when it is written), because cases with different
	// policies follow each other within the TTLs — the cache is property C12's subject
	authzOptions := proxyoptions.NewAuthorizationOptions()
	authzOptions.CacheAuthorizedTTL = -time.Second
	authzOptions.CacheUnauthorizedTTL = -time.Second
	if err := authzOptions.ApplyTo(cfg, manager); err != nil {
		return nil, fmt.Errorf("AuthorizationOptions.ApplyTo: %v", err)
	}
	if cfg.Authorization.Authorizer == nil {
		return nil, fmt.Errorf("the shipped wiring built no authorizer")
	}
	notFound := http.HandlerFunc(func(w http.ResponseWriter, r *http.Request) { w.WriteHeader(http.StatusTeapot) })
	handler := buildChain(manager, notFound, cfg)
	g.gwSrv = httptest.NewServer(handler)
	return g, nil
}

// lifecycle plays one event of an endpoint's life between two requests (exported entry points of pkg/clusters only) and waits,
// one-sidedly, until the endpoint is ready again. It returns false when the wait timed out: the case is then inconclusive.
func (g *gateway) lifecycle(op string) (bool, string) {
	ep, ok := g.cluster.Endpoints.Load(g.upSrv.URL)
	if !ok {
		return false, "endpoint not found"
	}
	var err error
	msg, panicked := rig.Recover(func() {
		switch op {
		case "reset-transport": // what the gateway's health check does after repeated failures
			err = ep.ResetTransport()
		case "resync": // the UpstreamCluster object is applied again (informer resync)
			err = g.cluster.Sync(g.spec)
		case "flap": // the endpoint is reported unhealthy, then healthy again
			ep.UpdateStatus(false, "Verif", "flap")
			ep.UpdateStatus(true, "", "")
		case "reset-twice":
			if err = ep.ResetTransport(); err == nil {
				err = ep.ResetTransport()
			}
		}
	})
	if panicked {
		return true, "panic: " + msg
	}
	if err != nil {
		return true, err.Error()
	}
	deadline := time.Now().Add(30 * time.Second)
	for {
		if e, ok := g.cluster.Endpoints.Load(g.upSrv.URL); ok && e.IsReady() {
			return true, ""
		}
		if time.Now().After(deadline) {
			return false, "endpoint not ready again"
		}
		time.Sleep(2 * time.Millisecond)
	}
}

func (g *gateway) close() {
	if g.conn != nil {
		g.conn.Close()
	}
	g.gwSrv.Close()
	g.cluster.Stop()
	g.upSrv.Close()
}

func (g *gateway) dial() error {
	if g.conn != nil {
		g.conn.Close()
		g.conn = nil
	}
	conn, err := net.Dial("tcp", g.gwSrv.Listener.Addr().String())
	if err != nil {
		return err
	}
	g.conn = conn
	g.br = bufio.NewReader(conn)
	return nil
}

// Observed is what one request through the gateway produced.
type Observed struct {
	Status   int         `json:"status"`
	Upstream [][]HV      `json:"upstream"` // identity headers of every request the upstream received for this case
	Calls    []AuthzCall `json:"calls"`    // the records the TARGET CLUSTER was asked about (SubjectAccessReviews), in order
	SARs     []SARSeen   `json:"sars"`
	Err      string      `json:"err,omitempty"`
}

// send writes one raw request (header lines exactly as given) and returns what happened.
func (g *gateway) send(u *user.DefaultInfo, policy Policy, lines []string, upgrade bool) Observed {
	g.sc.mu.Lock()
	g.sc.user = u
	g.sc.mu.Unlock()
	g.up.reset(policy)
	g.caseSeq++
	var b strings.Builder
	b.WriteString("GET " + casePath + " HTTP/1.1\r\nHost: " + clusterName + "\r\n")
	fmt.Fprintf(&b, "%s: %d\r\n", caseHeader, g.caseSeq)
	for _, l := range lines {
		b.WriteString(l + "\r\n")
	}
	if upgrade {
		b.WriteString("Connection: Upgrade\r\nUpgrade: SPDY/3.1\r\n")
	}
	b.WriteString("\r\n")
	var obs Observed
	for attempt := 0; attempt < 3; attempt++ {
		if g.conn == nil {
			if err := g.dial(); err != nil {
				obs.Err = "dial: " + err.Error()
				return obs
			}
		}
		g.conn.SetDeadline(time.Now().Add(20 * time.Second))
		_, werr := g.conn.Write([]byte(b.String()))
		var resp *http.Response
		var rerr error
		if werr == nil {
			resp, rerr = http.ReadResponse(g.br, nil)
		}
		if werr != nil || rerr != nil {
			// a connection closed by the server after an error answer: retry on a fresh one, unless the upstream
			// already saw this case (then the failure is real and reported)
			g.conn.Close()
			g.conn = nil
			g.up.mu.Lock()
			seen := len(g.up.received)
			g.up.mu.Unlock()
			if seen > 0 || attempt == 2 {
				obs.Err = fmt.Sprintf("io: %v %v", werr, rerr)
				break
			}
			continue
		}
		io.Copy(io.Discard, resp.Body)
		resp.Body.Close()
		obs.Status = resp.StatusCode
		if resp.Close || upgrade || resp.StatusCode == http.StatusBadRequest {
			g.conn.Close()
			g.conn = nil
		}
		break
	}
	obs.Upstream = g.up.take()
	obs.SARs = g.up.takeSARs()
	obs.Calls = []AuthzCall{}
	for _, s := range obs.SARs {
		obs.Calls = append(obs.Calls, s.Call)
	}
	return obs
}
