//go:build no_chain

package main

import (
	"net/http"

	genericapifilters "k8s.io/apiserver/pkg/endpoints/filters"
	genericapiserver "k8s.io/apiserver/pkg/server"

	"github.com/kubewharf/kubegateway/pkg/clusters"
	gatewayfilters "github.com/kubewharf/kubegateway/pkg/gateway/endpoints/filters"
	"github.com/kubewharf/kubegateway/pkg/gateway/endpoints/monitor"
	gatewayrequest "github.com/kubewharf/kubegateway/pkg/gateway/endpoints/request"
	proxydispatcher "github.com/kubewharf/kubegateway/pkg/gateway/proxy/dispatcher"
)

const chainSource = "REDUCED: the shim into cmd/kube-gateway/app no longer builds; the chain is assembled here from the exported filters in the order of proxy.go (the filter order is then NOT tied to the source)"

// buildChain: fallback when the unexported chain builder changed its name or shape: the exported filters the identity path
// goes through, in the order buildProxyHandlerChainFunc has at the time of writing.
func buildChain(manager clusters.Manager, apiHandler http.Handler, c *genericapiserver.Config) http.Handler {
	handler := gatewayfilters.WithDispatcher(apiHandler, proxydispatcher.NewDispatcher(manager, false))
	handler = gatewayfilters.WithNoLoggingImpersonation(handler, c.Authorization.Authorizer, c.Serializer)
	handler = gatewayfilters.WithImpersonator(handler)
	handler = genericapifilters.WithAuthentication(handler, c.Authentication.Authenticator, genericapifilters.Unauthorized(c.Serializer, false), c.Authentication.APIAudiences)
	handler = gatewayfilters.WithRequestReaderWriterWrapper(handler, monitor.NewThroughputMonitor())
	handler = gatewayfilters.WithUpstreamInfo(handler, manager, c.Serializer)
	handler = gatewayfilters.WithExtraRequestInfo(handler, &gatewayrequest.ExtraRequestInfoFactory{LongRunningFunc: c.LongRunningFunc}, c.Serializer)
	handler = gatewayfilters.WithTerminationMetrics(handler)
	handler = gatewayfilters.WithRequestInfo(handler, c.RequestInfoResolver, c.Serializer)
	return handler
}
