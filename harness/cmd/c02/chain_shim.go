//go:build !no_chain

package main

import (
	"net/http"

	genericapiserver "k8s.io/apiserver/pkg/server"

	gatewayapp "github.com/kubewharf/kubegateway/cmd/kube-gateway/app"
	"github.com/kubewharf/kubegateway/pkg/clusters"
)

const chainSource = "buildProxyHandlerChainFunc (cmd/kube-gateway/app/proxy.go) through the overlay shim"

// buildChain is the REAL proxy handler chain builder of cmd/kube-gateway/app.
func buildChain(manager clusters.Manager, apiHandler http.Handler, cfg *genericapiserver.Config) http.Handler {
	return gatewayapp.VerifBuildProxyHandlerChain(manager, apiHandler, cfg)
}
