// C20 harness: the control plane's REST storage for the proxy group, built by the REAL
// pkg/gateway/controlplane/registry/proxy/rest/rest.go on an in-memory storage backend, driven two ways per request:
//
//	L1  rest.BeforeCreate / rest.BeforeUpdate with the strategy of the endpoint's real store (the object right
//	    after the strategy ran, compared DeepEqual-exactly with the Lean model KG.Model.Strategy);
//	L2  the endpoint's real rest.Storage (Create / Update of the generic registry store, through the storage
//	    codec), whose answer is what the property is judged on (KG.Spec.Strategy via the driver).
package main

import (
	"bytes"
	"context"
	"encoding/json"
	"flag"
	"fmt"
	"io"
	"math"
	"os"
	"path/filepath"
	"reflect"
	"sort"
	"strings"

	"k8s.io/apimachinery/pkg/api/meta"
	metav1 "k8s.io/apimachinery/pkg/apis/meta/v1"
	"k8s.io/apimachinery/pkg/runtime"
	"k8s.io/apimachinery/pkg/types"
	genericapirequest "k8s.io/apiserver/pkg/endpoints/request"
	"k8s.io/apiserver/pkg/registry/rest"
	"k8s.io/klog"

	"github.com/kubewharf/apiserver-runtime/pkg/registry"
	runtimeschema "github.com/kubewharf/apiserver-runtime/pkg/schema"
	"github.com/kubewharf/apiserver-runtime/pkg/scheme"
	proxyv1alpha1 "github.com/kubewharf/kubegateway/pkg/apis/proxy/v1alpha1"

	"verifharness/rig"
)

const (
	protobufMedia = "application/vnd.kubernetes.protobuf"
	jsonMedia     = "application/json"
)

func nsCtx(ns string) context.Context {
	return genericapirequest.WithNamespace(context.Background(), ns)
}

// ---------------------------------------------------------------------------------------------------
// cases

// Step is one API request against the object. Submitted is the request body (a JSON document).
type Step struct {
	Op        string          `json:"op"` // create | main | status | delete (DELETE of the main resource; Submitted only names the object)
	Submitted json.RawMessage `json:"submitted"`
	// RV: what the body says in metadata.resourceVersion on an update of an existing object: "" = nothing
	// (unconditional update), "current" = the stored object's, "stale" = an old one (must be refused: Conflict).
	RV string `json:"rv,omitempty"`
	// MetaValid: whether the metadata is acceptable to the ObjectMeta validation apart from its two generation
	// rules — known by construction (the generator says what it broke), an oracle parameter of the model.
	MetaValid bool `json:"metaValid"`
}

// Case: an initial stored object (as a previous writer left it; null = none) and a list of requests.
type Case struct {
	Served string          `json:"served"` // how the kind is served (Served.Name)
	Stream string          `json:"stream"`
	Stored json.RawMessage `json:"stored"`
	Steps  []Step          `json:"steps"`
}

// Groups is a decoded object cut into the field groups of the model. Labels/Annotations/Spec/Status are
// DeepEqual-faithful renderings of the Go values (nil and empty differ); AnnotationsSem/SpecSem are the renderings
// under which apiequality.Semantic.DeepEqual — the code's semanticEqual — compares (the model's Sem).
type Groups struct {
	Labels         string `json:"labels"`
	Annotations    string `json:"annotations"`
	AnnotationsSem string `json:"annotationsSem"`
	Generation     int64  `json:"generation"`
	Spec           string `json:"spec"`
	SpecSem        string `json:"specSem"`
	Status         string `json:"status"`
}

func (g Groups) hex() Groups {
	return Groups{rig.Hex(g.Labels), rig.Hex(g.Annotations), rig.Hex(g.AnnotationsSem), g.Generation, rig.Hex(g.Spec), rig.Hex(g.SpecSem), rig.Hex(g.Status)}
}
func (g Groups) unhex() Groups {
	return Groups{rig.UnHex(g.Labels), rig.UnHex(g.Annotations), rig.UnHex(g.AnnotationsSem), g.Generation, rig.UnHex(g.Spec), rig.UnHex(g.SpecSem), rig.UnHex(g.Status)}
}

func deepGroups(obj runtime.Object) Groups {
	acc, err := meta.Accessor(obj)
	if err != nil {
		return Groups{}
	}
	v := reflect.ValueOf(obj).Elem()
	return Groups{
		Labels:         deepCanon(reflect.ValueOf(acc.GetLabels())),
		Annotations:    deepCanon(reflect.ValueOf(acc.GetAnnotations())),
		AnnotationsSem: semCanon(reflect.ValueOf(acc.GetAnnotations())),
		Generation:     acc.GetGeneration(),
		Spec:           deepCanon(v.FieldByName("Spec")),
		SpecSem:        semCanon(v.FieldByName("Spec")),
		Status:         deepCanon(v.FieldByName("Status")),
	}
}

// ViewG is an object as the API shows it, cut into the judge's field groups.
type ViewG struct {
	Labels      string `json:"labels"`
	Annotations string `json:"annotations"`
	Generation  int64  `json:"generation"`
	Spec        string `json:"spec"`
	Status      string `json:"status"`
}

func (g ViewG) String() string {
	return fmt.Sprintf("{generation %d labels %s annotations %s spec %s status %s}", g.Generation, short(g.Labels), short(g.Annotations), short(g.Spec), short(g.Status))
}

func (g ViewG) hex() ViewG {
	return ViewG{rig.Hex(g.Labels), rig.Hex(g.Annotations), g.Generation, rig.Hex(g.Spec), rig.Hex(g.Status)}
}

// apiGroups: the judge's view — every group in its semantic rendering (an empty map/list/byte string reads as a
// missing one; everything else exact). For spec and annotations this is the very rendering handed to the model
// as Sem. jsonGroups (the literal JSON documents) is kept beside it to report where the two notions of "reads
// the same" would part (a list/map member without omitempty).
func apiGroups(obj runtime.Object) ViewG {
	acc, err := meta.Accessor(obj)
	if err != nil {
		return ViewG{}
	}
	v := reflect.ValueOf(obj).Elem()
	return ViewG{
		Labels:      semCanon(reflect.ValueOf(acc.GetLabels())),
		Annotations: semCanon(reflect.ValueOf(acc.GetAnnotations())),
		Generation:  acc.GetGeneration(),
		Spec:        semCanon(v.FieldByName("Spec")),
		Status:      semCanon(v.FieldByName("Status")),
	}
}

// jsonGroups: the object as the JSON API prints it (omitempty), cut into the same groups.
func jsonGroups(obj runtime.Object) ViewG {
	b, err := json.Marshal(obj)
	if err != nil {
		return ViewG{Spec: "marshal error " + err.Error()}
	}
	m := toMap(b)
	md, _ := m["metadata"].(map[string]interface{})
	acc, _ := meta.Accessor(obj)
	return ViewG{Labels: canonJSON(md["labels"]), Annotations: canonJSON(md["annotations"]), Generation: acc.GetGeneration(),
		Spec: canonJSON(m["spec"]), Status: canonJSON(m["status"])}
}

// viewAgreement counts, per field group, the pairs on which "same semantic rendering" and "same JSON document"
// disagree (expected: none for kinds whose list/map/bytes members are all omitempty).
func (h *H) viewAgreement(a, b runtime.Object) {
	va, vb, ja, jb := apiGroups(a), apiGroups(b), jsonGroups(a), jsonGroups(b)
	chk := func(g string, v1, v2, j1, j2 string) {
		h.obs["view-pairs-compared"]++
		if (v1 == v2) != (j1 == j2) {
			h.obs["view-vs-json-disagreement:"+g]++
			if h.viewExample == "" {
				h.viewExample = fmt.Sprintf("%s: semantic %q vs %q, JSON %s vs %s", g, short(v1), short(v2), short(j1), short(j2))
			}
		}
	}
	chk("labels", va.Labels, vb.Labels, ja.Labels, jb.Labels)
	chk("annotations", va.Annotations, vb.Annotations, ja.Annotations, jb.Annotations)
	chk("spec", va.Spec, vb.Spec, ja.Spec, jb.Spec)
	chk("status", va.Status, vb.Status, ja.Status, jb.Status)
}

// ---------------------------------------------------------------------------------------------------
// the harness state

type H struct {
	c      *rig.Ctx
	planes []*Plane
	served map[string]*Served
	names  []string
	obs    map[string]int

	viewExample string
}

func (s *Served) decoder() runtime.Decoder {
	info, _ := runtime.SerializerInfoForMediaType(scheme.Codecs.SupportedMediaTypes(), jsonMedia)
	return scheme.Codecs.DecoderToVersion(info.Serializer, s.HubGV)
}

// decode is what the API handlers do with a request body (DecoderToVersion(json, hub) + defaulting).
func (s *Served) decode(doc []byte) (runtime.Object, error) {
	gvk := s.HubGV.WithKind(s.Kind)
	o, _, err := s.decoder().Decode(doc, &gvk, s.Main.NewFunc())
	return o, err
}

type regFlags struct {
	HasMeta      bool `json:"hasMeta"`
	HasSpec      bool `json:"hasSpec"`
	HasStatus    bool `json:"hasStatus"`
	SubStatus    bool `json:"subStatus"`
	OptSubStatus bool `json:"optSubStatus"`
}

// mainStrategyFlags finds out BEHAVIOURALLY whether a strategy's creation path is the one of a main strategy built
// with subStatus=true: its PrepareForCreate is run on a probe object with a non-empty status (the strategies work
// on any runtime.Object with ObjectMeta/Spec/Status) and the status is cleared or not. No unexported field is read,
// so the representation of the flag is free.
func mainStrategyFlags(strategy interface{}) (subStatus bool, err error) {
	cs, ok := strategy.(rest.RESTCreateStrategy)
	if !ok {
		return false, fmt.Errorf("strategy %T has no PrepareForCreate", strategy)
	}
	probe := &Widget{Status: WidgetStatus{Phase: "probe"}}
	if msg, panicked := rig.Recover(func() { cs.PrepareForCreate(context.Background(), probe) }); panicked {
		return false, fmt.Errorf("PrepareForCreate of %T panicked on the probe object: %s", strategy, msg)
	}
	return probe.Status.Phase == "", nil
}

func (s *Served) flags() (regFlags, error) {
	hm, hs, ht := registry.HasObjectMetaSpecStatus(s.Main.NewFunc())
	sub, err := mainStrategyFlags(s.Main.UpdateStrategy)
	if err != nil {
		return regFlags{}, err
	}
	if s.Status != nil {
		if _, ok := s.Status.UpdateStrategy.(registry.DefaultStatusRESTStrategy); !ok {
			return regFlags{}, fmt.Errorf("status store of %s has update strategy %T", s.Name, s.Status.UpdateStrategy)
		}
		inner, err := mainStrategyFlags(s.Status.UpdateStrategy)
		if err != nil || inner != sub {
			return regFlags{}, fmt.Errorf("status strategy of %s does not wrap the main strategy (%v)", s.Name, err)
		}
		csub, err := mainStrategyFlags(s.Status.CreateStrategy)
		if err != nil || csub != sub {
			return regFlags{}, fmt.Errorf("status store of %s creates with another strategy (%v)", s.Name, err)
		}
	}
	return regFlags{hm, hs, ht, sub, s.Status != nil}, nil
}

func (s *Served) key(name, ns string) string {
	k, err := s.Main.KeyFunc(s.ctx(ns), name)
	if err != nil {
		return "/invalid/" + name
	}
	return k
}

// toMap parses a document keeping numbers exact (generation can be MaxInt64).
func toMap(doc []byte) map[string]interface{} {
	var m map[string]interface{}
	d := json.NewDecoder(bytes.NewReader(doc))
	d.UseNumber()
	d.Decode(&m)
	return m
}

func docMeta(doc []byte) (name, ns string) {
	var m struct {
		Metadata struct{ Name, Namespace string }
	}
	json.Unmarshal(doc, &m)
	return m.Metadata.Name, m.Metadata.Namespace
}

// ---------------------------------------------------------------------------------------------------
// running one case on the real code and on the model

type stepTrace struct {
	Op       string      `json:"op"`
	Old      *ViewG      `json:"stored_api_view,omitempty"`
	Err1     string      `json:"before_err,omitempty"`
	Out1     *ViewG      `json:"after_strategy_api_view,omitempty"`
	Err2     string      `json:"store_err,omitempty"`
	Out2     *ViewG      `json:"store_answer_api_view,omitempty"`
	Stored   *ViewG      `json:"stored_afterwards_api_view,omitempty"`
	ModelRej string      `json:"model_rej,omitempty"`
	Model    interface{} `json:"model_out,omitempty"`
}

func short(s string) string {
	if len(s) > 300 {
		return s[:300] + "…"
	}
	return s
}

func errClass(err error) string {
	if err == nil {
		return ""
	}
	s := err.Error()
	if len(s) > 160 {
		s = s[:160]
	}
	return s
}

// run executes the case; returns false at the first failure (recorded when record is set).
func (h *H) run(cs Case, record bool) bool {
	f := h.eval(cs)
	if f != nil && record {
		h.c.Fail(*f)
	}
	return f == nil
}

// eval executes the case on the real code and on the model; nil = everything agreed and the property held.
func (h *H) eval(cs Case) *rig.Failure {
	c := h.c
	var trace []stepTrace
	fail := func(kind, class, what string, model interface{}) *rig.Failure {
		return &rig.Failure{Kind: kind, Class: class, What: what, Case: cs, Impl: trace, Model: model}
	}
	s := h.served[cs.Served]
	if s == nil {
		return fail("diff", "c20.unknown-served", "the case names "+cs.Served+", which the real storage map does not serve (served: "+strings.Join(h.names, ",")+")", nil)
	}
	fl, err := s.flags()
	if err != nil {
		return fail("diff", "c20.strategy-shape", err.Error(), nil)
	}
	served := s.StatusREST() != nil
	zeroAPI := apiGroups(s.Main.NewFunc()).Status
	zeroDeep := deepGroups(s.Main.NewFunc()).Status
	s.Mem.Reset()
	name, ns := "", ""
	if len(cs.Stored) > 0 && string(cs.Stored) != "null" {
		so, err := s.decode(cs.Stored)
		if err != nil {
			return fail("diff", "c20.bad-case", "stored document does not decode: "+err.Error(), nil)
		}
		name, ns = docMeta(cs.Stored)
		if err := s.Mem.Seed(s.key(name, ns), so); err != nil {
			return fail("diff", "c20.bad-case", "cannot seed: "+err.Error(), nil)
		}
	}
	for i, st := range cs.Steps {
		tr := stepTrace{Op: st.Op}
		trace = append(trace, tr)
		t := &trace[len(trace)-1]
		if s.Mem.Len() == 0 {
			name, ns = docMeta(st.Submitted) // nothing stored: the request names the object
		}
		ctx := s.ctx(ns)
		key := s.key(name, ns)
		// the stored state, as the store will read it
		var old runtime.Object
		if _, ok := s.Mem.Raw(key); ok {
			old = s.Main.NewFunc()
			if err := s.Mem.Get(ctx, key, "", old, false); err != nil {
				return fail("diff", "c20.bad-case", "stored object unreadable: "+err.Error(), nil)
			}
		}
		var oldDeep Groups
		var oldAPI ViewG
		if old != nil {
			oldDeep, oldAPI = deepGroups(old), apiGroups(old)
			t.Old = &oldAPI
		}
		if st.Op == "delete" {
			if f := h.evalDelete(cs, trace, s, i, st, fl, zeroDeep, ctx, key, name, old, oldDeep); f != nil {
				return f
			}
			continue
		}
		if old != nil && st.Op == "create" {
			// POST of an object that exists: AlreadyExists, nothing changes
			pre, _ := s.decode(st.Submitted)
			var err2 error
			rig.Recover(func() {
				_, err2 = s.MainREST.(rest.Creater).Create(ctx, pre, rest.ValidateAllObjectFunc, &metav1.CreateOptions{})
			})
			back := s.Main.NewFunc()
			if gerr := s.Mem.Get(ctx, key, "", back, false); err2 == nil || gerr != nil || deepGroups(back) != oldDeep {
				return fail("diff", "c20.already-exists", fmt.Sprintf("step %d: create of an existing object: error=%q, stored object changed=%v", i, errClass(err2), gerr != nil || deepGroups(back) != oldDeep), nil)
			}
			h.obs["step:create:already-exists"]++
			continue
		}
		if old == nil && st.Op != "create" {
			// an update that names (by uid) an object that does not exist is refused by the store's precondition,
			// it is not turned into a creation
			if pre, _ := s.decode(st.Submitted); pre != nil {
				if pa, _ := meta.Accessor(pre); pa != nil && pa.GetUID() != "" && !(st.Op == "status" && !served) {
					upd := rest.Storage(s.MainREST)
					if st.Op == "status" {
						upd = s.StatusREST()
					}
					var err2 error
					rig.Recover(func() {
						_, _, err2 = upd.(rest.Updater).Update(ctx, name, rest.DefaultUpdatedObjectInfo(pre), rest.ValidateAllObjectFunc, rest.ValidateAllObjectUpdateFunc, false, &metav1.UpdateOptions{})
					})
					if _, now := s.Mem.Raw(key); err2 == nil || now {
						return fail("diff", "c20.uid-precondition", fmt.Sprintf("step %d: an update carrying a uid for a missing object: error=%q, object stored now=%v", i, errClass(err2), now), nil)
					}
					h.obs["step:"+st.Op+":uid-of-missing-object-refused"]++
					continue
				}
			}
		}
		if st.RV == "stale" && old != nil && st.Op != "create" {
			// optimistic concurrency: a body carrying an old resourceVersion is refused and nothing changes
			obj, err := s.decode(st.Submitted)
			if err != nil {
				return fail("diff", "c20.bad-case", "submitted document does not decode: "+err.Error(), nil)
			}
			na, _ := meta.Accessor(obj)
			na.SetResourceVersion("1")
			upd := rest.Storage(s.MainREST)
			if st.Op == "status" && served {
				upd = s.StatusREST()
			}
			var err2 error
			rig.Recover(func() {
				_, _, err2 = upd.(rest.Updater).Update(ctx, name, rest.DefaultUpdatedObjectInfo(obj), rest.ValidateAllObjectFunc, rest.ValidateAllObjectUpdateFunc, false, &metav1.UpdateOptions{})
			})
			back := s.Main.NewFunc()
			if gerr := s.Mem.Get(ctx, key, "", back, false); err2 == nil || gerr != nil || deepGroups(back) != oldDeep {
				return fail("diff", "c20.stale-resource-version", fmt.Sprintf("step %d: an update carrying a stale resourceVersion: error=%q, stored object changed=%v", i, errClass(err2), gerr != nil || deepGroups(back) != oldDeep), nil)
			}
			h.obs["step:"+st.Op+":stale-resourceVersion-refused"]++
			continue
		}
		endpoint := s.Main
		var endpointREST rest.Storage = s.MainREST
		if st.Op == "status" {
			if !served {
				// no such endpoint on the real storage map; the model must say the same
				var m struct{ Rej string }
				sub, _ := s.decode(st.Submitted)
				if sub == nil {
					return fail("diff", "c20.bad-case", "submitted document does not decode", nil)
				}
				if err := c.Model("C20.op", h.modelArgs(st, fl, zeroDeep, old, oldDeep, deepGroups(sub)), &m); err != nil {
					return fail("diff", "c20.model-error", err.Error(), nil)
				}
				h.obs["step:status:no-such-endpoint"]++
				if m.Rej != "notServed" {
					return fail("diff", "c20.served", fmt.Sprintf("step %d: no status endpoint is served for %s but the model answers %q", i, s.Name, m.Rej), m)
				}
				continue
			}
			endpoint, endpointREST = s.Status, s.StatusREST()
		}
		if old == nil && st.Op != "create" && !endpoint.UpdateStrategy.AllowCreateOnUpdate() {
			// the endpoint's update strategy does not create on update: NotFound, nothing is stored; the model takes
			// the same answer from the regenerated constant
			pre, _ := s.decode(st.Submitted)
			if pre == nil {
				return fail("diff", "c20.bad-case", "submitted document does not decode", nil)
			}
			var err2 error
			rig.Recover(func() {
				_, _, err2 = endpointREST.(rest.Updater).Update(ctx, name, rest.DefaultUpdatedObjectInfo(pre), rest.ValidateAllObjectFunc, rest.ValidateAllObjectUpdateFunc, false, &metav1.UpdateOptions{})
			})
			var m struct{ Rej string }
			if merr := c.Model("C20.op", h.modelArgs(st, fl, zeroDeep, nil, oldDeep, deepGroups(pre)), &m); merr != nil {
				return fail("diff", "c20.model-error", merr.Error(), nil)
			}
			if _, now := s.Mem.Raw(key); err2 == nil || now || m.Rej != "notServed" {
				return fail("diff", "c20.create-on-update", fmt.Sprintf("step %d (%s on %s): the update strategy says AllowCreateOnUpdate()=false for a missing object: store error=%q, object stored now=%v, model answer %q", i, st.Op, s.Name, errClass(err2), now, m.Rej), m)
			}
			h.obs["step:"+st.Op+":missing-object-not-created"]++
			continue
		}
		// ---- L1: BeforeCreate / BeforeUpdate with the endpoint's strategy
		obj, err := s.decode(st.Submitted)
		if err != nil {
			return fail("diff", "c20.bad-case", "submitted document does not decode: "+err.Error(), nil)
		}
		subDeep := deepGroups(obj)
		st.MetaValid = st.MetaValid && metaAcceptable(old, obj)
		if old != nil {
			h.viewAgreement(old, obj)
			if (subDeep.Spec != oldDeep.Spec && subDeep.SpecSem == oldDeep.SpecSem) || (subDeep.Annotations != oldDeep.Annotations && subDeep.AnnotationsSem == oldDeep.AnnotationsSem) {
				h.obs["requests-differing-from-stored-only-by-empty-vs-absent"]++
			}
		}
		var err1 error
		msg, panicked := rig.Recover(func() {
			if old == nil || st.Op == "create" {
				if old != nil {
					err1 = fmt.Errorf("AlreadyExists")
					return
				}
				err1 = rest.BeforeCreate(endpoint.CreateStrategy, ctx, obj)
			} else {
				oldc := old.DeepCopyObject()
				// Store.Update: an update without resourceVersion is unconditional and gets the stored one
				oa, _ := meta.Accessor(oldc)
				na, _ := meta.Accessor(obj)
				na.SetResourceVersion(oa.GetResourceVersion())
				err1 = rest.BeforeUpdate(endpoint.UpdateStrategy, ctx, obj, oldc)
			}
		})
		if panicked {
			return fail("judge", "c20.panic", fmt.Sprintf("step %d (%s): BeforeCreate/BeforeUpdate panicked: %s", i, st.Op, msg), nil)
		}
		t.Err1 = errClass(err1)
		var out1Deep Groups
		var out1API ViewG
		if err1 == nil {
			out1Deep, out1API = deepGroups(obj), apiGroups(obj)
			t.Out1 = &out1API
		}
		// ---- L2: the endpoint's rest.Storage
		var out2 runtime.Object
		var err2 error
		created := false
		obj2, _ := s.decode(st.Submitted)
		if st.RV == "current" && old != nil && st.Op != "create" {
			oa, _ := meta.Accessor(old)
			na, _ := meta.Accessor(obj2)
			na.SetResourceVersion(oa.GetResourceVersion())
			h.obs["step:"+st.Op+":with-current-resourceVersion"]++
		}
		msg, panicked = rig.Recover(func() {
			if st.Op == "create" {
				out2, err2 = endpointREST.(rest.Creater).Create(ctx, obj2, rest.ValidateAllObjectFunc, &metav1.CreateOptions{})
				created = true
			} else {
				out2, created, err2 = endpointREST.(rest.Updater).Update(ctx, name, rest.DefaultUpdatedObjectInfo(obj2), rest.ValidateAllObjectFunc, rest.ValidateAllObjectUpdateFunc, false, &metav1.UpdateOptions{})
			}
		})
		if panicked {
			return fail("judge", "c20.panic", fmt.Sprintf("step %d (%s): the store panicked: %s", i, st.Op, msg), nil)
		}
		t.Err2 = errClass(err2)
		// ---- judge first, on what is STORED now against what was stored before (the whole pipeline has run:
		// PrepareFor…, validation, Canonicalize, the storage codec) — the property is decided on the real code alone,
		// whatever the model says. Only when the update removed the object is the answer judged instead.
		var out2API ViewG
		if err2 == nil {
			out2API = apiGroups(out2)
			t.Out2 = &out2API
			judged := out2API
			after := s.Main.NewFunc()
			if gerr := s.Mem.Get(ctx, key, "", after, false); gerr == nil {
				judged = apiGroups(after)
				t.Stored = &judged
			}
			if f := h.judge(cs, trace, s, i, st, created, served, zeroAPI, oldAPI, judged, subDeep, oldDeep); f != nil {
				return f
			}
		}
		// ---- model
		var m struct {
			Rej     string
			Out     *Groups
			Created bool
		}
		if err := c.Model("C20.op", h.modelArgs(st, fl, zeroDeep, old, oldDeep, subDeep), &m); err != nil {
			return fail("diff", "c20.model-error", err.Error(), nil)
		}
		t.ModelRej = m.Rej
		if m.Out != nil {
			u := m.Out.unhex()
			t.Model = u
		}
		if (m.Rej == "") != (err1 == nil) {
			return fail("diff", "c20.accept", fmt.Sprintf("step %d (%s on %s): real BeforeCreate/BeforeUpdate error=%q, model rejection=%q (metaValid=%v)", i, st.Op, s.Name, errClass(err1), m.Rej, st.MetaValid), m)
		}
		if err1 == nil {
			mo := m.Out.unhex()
			if mo != out1Deep {
				return fail("diff", "c20.strategy-output", fmt.Sprintf("step %d (%s on %s): after the strategy the real object is %+v, the model's is %+v", i, st.Op, s.Name, out1Deep, mo), mo)
			}
		}
		if (err2 == nil) != (err1 == nil) {
			return fail("diff", "c20.store-accept", fmt.Sprintf("step %d (%s on %s): BeforeCreate/BeforeUpdate error=%q but the store's error=%q", i, st.Op, s.Name, errClass(err1), errClass(err2)), nil)
		}
		if err2 != nil {
			h.obs["step:"+st.Op+":rejected"]++
			continue
		}
		if created {
			h.obs["step:"+st.Op+":created"]++
		} else {
			h.obs["step:"+st.Op+":accepted"]++
			if oa, _ := meta.Accessor(old); oa != nil && oa.GetDeletionTimestamp() != nil {
				h.obs["step:"+st.Op+":accepted-on-terminating-object"]++
			}
		}
		if created != m.Created {
			return fail("diff", "c20.created", fmt.Sprintf("step %d (%s on %s): store created=%v, model created=%v", i, st.Op, s.Name, created, m.Created), nil)
		}
		if out2API != out1API {
			return fail("diff", "c20.store-output", fmt.Sprintf("step %d (%s on %s): the store answered %+v but the object after BeforeCreate/BeforeUpdate renders as %+v", i, st.Op, s.Name, out2API, out1API), nil)
		}
		// what a later read shows must be what was answered — unless the update emptied the finalizers of a
		// terminating object, which removes it (the answer is then the object as updated)
		if _, still := s.Mem.Raw(key); !still && old != nil {
			oa, _ := meta.Accessor(old)
			na, _ := meta.Accessor(out2)
			if oa.GetDeletionTimestamp() == nil || len(na.GetFinalizers()) != 0 {
				return fail("diff", "c20.read-back", fmt.Sprintf("step %d: the object is gone after an accepted update although it was not terminating or still has finalizers", i), nil)
			}
			h.obs["step:"+st.Op+":removed-by-update(finalizers emptied while terminating)"]++
			continue
		}
		back := s.Main.NewFunc()
		if err := s.Mem.Get(ctx, key, "", back, false); err != nil || apiGroups(back) != out2API {
			return fail("diff", "c20.read-back", fmt.Sprintf("step %d: read-back differs from the answer (%v)", i, err), nil)
		}
	}
	return nil
}

// metaAcceptable: the ObjectMeta rules the generator cannot always foresee because they depend on the state the
// server is in by now (an object re-created under a new uid, a deletionTimestamp set by an earlier DELETE): uid and
// the deletion fields are immutable, a terminating object accepts no new finalizers. Decided from the stored object
// and the body — never from the outcome.
func metaAcceptable(old, obj runtime.Object) bool {
	if old == nil {
		return true
	}
	oa, _ := meta.Accessor(old)
	na, _ := meta.Accessor(obj)
	if na.GetUID() != "" && na.GetUID() != oa.GetUID() {
		return false
	}
	if oa.GetDeletionTimestamp() == nil && na.GetDeletionTimestamp() != nil {
		return false
	}
	if g := na.GetDeletionGracePeriodSeconds(); g != nil && (oa.GetDeletionGracePeriodSeconds() == nil || *oa.GetDeletionGracePeriodSeconds() != *g) {
		return false
	}
	if oa.GetDeletionTimestamp() != nil {
		have := map[string]bool{}
		for _, f := range oa.GetFinalizers() {
			have[f] = true
		}
		for _, f := range na.GetFinalizers() {
			if !have[f] {
				return false
			}
		}
	}
	return true
}

func (h *H) modelArgs(st Step, fl regFlags, zeroDeep string, old runtime.Object, oldDeep, subDeep Groups) map[string]interface{} {
	a := map[string]interface{}{"op": st.Op, "reg": fl, "metaValid": st.MetaValid, "zero": rig.Hex(zeroDeep), "submitted": subDeep.hex(), "stored": nil}
	if old != nil {
		a["stored"] = oldDeep.hex()
	}
	return a
}

// evalDelete: DELETE of the main resource. Not judged (the property speaks about creation and updates); the
// outcome is compared with the model's apiDelete: an object with pending finalizers (or a pending graceful
// deletion) stays, everything but the rest of the metadata and the generation untouched, and k8s' markAsDeleting
// bumps the generation of an object that was not terminating yet (if > 0).
func (h *H) evalDelete(cs Case, trace []stepTrace, s *Served, i int, st Step, fl regFlags, zeroDeep string, ctx context.Context, key, name string, old runtime.Object, oldDeep Groups) *rig.Failure {
	c := h.c
	fail := func(kind, class, what string, model interface{}) *rig.Failure {
		return &rig.Failure{Kind: kind, Class: class, What: what, Case: cs, Impl: trace, Model: model}
	}
	var err error
	msg, panicked := rig.Recover(func() {
		_, _, err = s.MainREST.(rest.GracefulDeleter).Delete(ctx, name, rest.ValidateAllObjectFunc, &metav1.DeleteOptions{})
	})
	if panicked {
		return fail("judge", "c20.panic", fmt.Sprintf("step %d: Delete panicked: %s", i, msg), nil)
	}
	trace[len(trace)-1].Err2 = errClass(err)
	if old == nil {
		if err == nil {
			return fail("diff", "c20.delete", fmt.Sprintf("step %d: DELETE of a missing object succeeded", i), nil)
		}
		h.obs["step:delete:not-found"]++
		return nil
	}
	oa, _ := meta.Accessor(old)
	// the strategies are not RESTGracefulDeleteStrategy: a grace period never keeps the object, finalizers do
	keeps := len(oa.GetFinalizers()) > 0
	bumps := oa.GetDeletionTimestamp() == nil
	args := h.modelArgs(st, fl, zeroDeep, old, oldDeep, oldDeep)
	args["deleteKeeps"], args["deleteBumps"] = keeps, bumps
	var m struct {
		Rej string
		Out *Groups
	}
	if merr := c.Model("C20.op", args, &m); merr != nil {
		return fail("diff", "c20.model-error", merr.Error(), nil)
	}
	_, still := s.Mem.Raw(key)
	if err != nil || still != (m.Out != nil) {
		return fail("diff", "c20.delete", fmt.Sprintf("step %d: DELETE error=%q, object still stored=%v, model keeps it=%v (finalizers %v, terminating %v)", i, errClass(err), still, m.Out != nil, oa.GetFinalizers(), !bumps), m)
	}
	if !still {
		h.obs["step:delete:removed"]++
		return nil
	}
	back := s.Main.NewFunc()
	if gerr := s.Mem.Get(ctx, key, "", back, false); gerr != nil || deepGroups(back) != m.Out.unhex() {
		return fail("diff", "c20.delete", fmt.Sprintf("step %d: after DELETE the kept object is %+v, the model's is %+v", i, deepGroups(back), m.Out.unhex()), m)
	}
	ba, _ := meta.Accessor(back)
	if ba.GetDeletionTimestamp() == nil {
		return fail("diff", "c20.delete", fmt.Sprintf("step %d: the object kept by DELETE has no deletionTimestamp", i), nil)
	}
	if bumps {
		h.obs["step:delete:kept-now-terminating"]++
	} else {
		h.obs["step:delete:kept-was-terminating"]++
	}
	return nil
}

// judge evaluates the property's clauses (KG.Spec.Strategy, through the driver) on one accepted request as the
// API showed it: the stored object before, the store's answer after.
func (h *H) judge(cs Case, trace []stepTrace, s *Served, i int, st Step, created, served bool, zeroAPI string, oldAPI, out2API ViewG, subDeep, oldDeep Groups) *rig.Failure {
	c := h.c
	fail := func(kind, class, what string, model interface{}) *rig.Failure {
		return &rig.Failure{Kind: kind, Class: class, What: what, Case: cs, Impl: trace, Model: model}
	}
	op := st.Op
	if created {
		op = "create"
	}
	var j struct {
		Violations            []string
		StatusAnnotationsOnly bool
	}
	jargs := map[string]interface{}{"op": op, "served": served, "zero": rig.Hex(zeroAPI), "out": out2API.hex()}
	if op != "create" {
		jargs["stored"] = oldAPI.hex()
	}
	if err := c.Model("C20.judge", jargs, &j); err != nil {
		return fail("diff", "c20.model-error", err.Error(), nil)
	}
	if j.StatusAnnotationsOnly {
		h.obs["status-update-changed-annotations-generation-kept"]++
	}
	if len(j.Violations) > 0 {
		v := j.Violations[0]
		class := "c20." + v
		storedTxt := "stored before " + oldAPI.String()
		if created {
			storedTxt = "nothing stored (the request created the object)"
		}
		what := fmt.Sprintf("step %d: %s of %s (%s): %s; %s, stored afterwards %s", i, st.Op, s.Kind, s.Name, v, storedTxt, out2API.String())
		if v == "generation-bumped-without-change" && (subDeep.SpecSem != oldDeep.SpecSem || subDeep.AnnotationsSem != oldDeep.AnnotationsSem) {
			// the body did differ from the stored object in spec or annotations, the generation moved, but what is
			// stored afterwards reads like what was stored before: something after the comparison (Canonicalize, the
			// storage codec, a store hook) undid the change
			class = "c20.generation-bumped-but-stored-unchanged"
			what = fmt.Sprintf("step %d: %s of %s (%s): generation %d -> %d for a body whose spec/annotations differ from the stored ones, but the stored spec and annotations are the same afterwards; stored before %s, body annotations %s, stored afterwards %s",
				i, st.Op, s.Kind, s.Name, oldAPI.Generation, out2API.Generation, oldAPI.String(), short(subDeep.AnnotationsSem), out2API.String())
		} else if v == "generation-bumped-without-change" && (subDeep.Spec != oldDeep.Spec || subDeep.Annotations != oldDeep.Annotations) {
			// spec and annotations read the same before and after, but the decoded Go values differ
			// (a spelled-out empty list/map/bytes against a missing one): findings/C20-empty-vs-absent-bumps-generation
			class = "c20.generation-bumped-on-empty-vs-absent"
			diff := ""
			if subDeep.Spec != oldDeep.Spec {
				diff += fmt.Sprintf(" decoded spec %s vs stored %s;", short(subDeep.Spec), short(oldDeep.Spec))
			}
			if subDeep.Annotations != oldDeep.Annotations {
				diff += fmt.Sprintf(" decoded annotations %s vs stored %s;", subDeep.Annotations, oldDeep.Annotations)
			}
			what = fmt.Sprintf("step %d: %s of %s (%s): generation %d -> %d although spec and annotations read the same before and after; the request spelled an empty list/map/bytes out (or the store held one):%s",
				i, st.Op, s.Kind, s.Name, oldAPI.Generation, out2API.Generation, diff)
		}
		return fail("judge", class, what, j)
	}
	return nil
}

func (s *Served) StatusREST() rest.Storage {
	if s.StatusRESTv == nil {
		return nil
	}
	return s.StatusRESTv
}

// ---------------------------------------------------------------------------------------------------
// generators

var (
	genPool = []int64{1, 1, 2, 5, 5, 41, 1 << 40, math.MaxInt64 - 1}
)

func copyMap(m map[string]string) map[string]string {
	if m == nil {
		return nil
	}
	r := map[string]string{}
	for k, v := range m {
		r[k] = v
	}
	return r
}

// genStored builds a typed object as a previous writer could have left it, rendered to a document and passed
// once through the request decoder (defaulting) so that it is in the form the server holds.
func (h *H) genStored(s *Served) []byte {
	r := h.c.Rng
	obj := s.Main.NewFunc()
	v := reflect.ValueOf(obj).Elem()
	if f := v.FieldByName("Spec"); f.IsValid() {
		fill(r, f, 0)
	}
	if f := v.FieldByName("Status"); f.IsValid() && r.Intn(3) != 0 {
		fill(r, f, 0)
	}
	acc, _ := meta.Accessor(obj)
	acc.SetName(rig.Pick(r, []string{"a", "b"}))
	if s.Namespaced {
		acc.SetNamespace("ns1")
	}
	acc.SetLabels(genStrMap(r, labelU))
	acc.SetAnnotations(genStrMap(r, annU))
	if r.Intn(4) == 0 {
		a := copyMap(acc.GetAnnotations())
		if a == nil {
			a = map[string]string{}
		}
		a["proxy.kubegateway.io/feature-gates"] = rig.Pick(r, []string{"A=true", "A=false"})
		acc.SetAnnotations(a)
	}
	acc.SetGeneration(rig.Pick(r, genPool))
	acc.SetUID(types.UID("uid-" + acc.GetName()))
	acc.SetCreationTimestamp(metav1.Unix(1700000000, 0))
	// the rest of the metadata: finalizers, a terminating object (DELETE was requested, finalizers or a grace period
	// keep it — it is still updatable), owner references, managed fields
	switch r.Intn(6) {
	case 0, 1:
		acc.SetFinalizers([]string{"example.com/hold"})
	case 2:
		acc.SetFinalizers([]string{"example.com/hold", "example.com/other"})
	}
	if r.Intn(5) == 0 {
		ts := metav1.Unix(1700005000, 0)
		acc.SetDeletionTimestamp(&ts)
		g := int64(0)
		if r.Intn(4) == 0 {
			g = 30
		}
		acc.SetDeletionGracePeriodSeconds(&g)
		if len(acc.GetFinalizers()) == 0 && r.Intn(4) != 0 {
			acc.SetFinalizers([]string{"example.com/hold"})
		}
	}
	if r.Intn(5) == 0 {
		acc.SetOwnerReferences(genOwners(r))
	}
	if r.Intn(7) == 0 {
		acc.SetManagedFields(genManaged(r))
	}
	return h.normalise(s, obj)
}

func genOwners(r interface{ Intn(int) int }) []metav1.OwnerReference {
	o := []metav1.OwnerReference{{APIVersion: "v1", Kind: "ConfigMap", Name: "owner-a", UID: "uid-owner-a"}}
	if r.Intn(2) == 0 {
		t := true
		o = append(o, metav1.OwnerReference{APIVersion: "apps/v1", Kind: "Deployment", Name: "owner-b", UID: "uid-owner-b", Controller: &t})
	}
	return o
}

func genManaged(r interface{ Intn(int) int }) []metav1.ManagedFieldsEntry {
	return []metav1.ManagedFieldsEntry{{Manager: []string{"kubectl", "controller"}[r.Intn(2)], Operation: metav1.ManagedFieldsOperationUpdate,
		APIVersion: "v1", FieldsType: "FieldsV1", FieldsV1: &metav1.FieldsV1{Raw: []byte("{}")}}}
}

// subOpts: what the generator knows about the server-side state when it derives a request body.
type subOpts struct {
	noNewFinalizers bool // the object is (or may be) terminating: finalizers may only be removed
	stripDeletion   bool // do not echo deletionTimestamp / deletionGracePeriodSeconds (the server's may differ by now)
	stripUID        bool // the object may have been re-created since: its uid is not the one in the document
}

func (h *H) normalise(s *Served, obj runtime.Object) []byte {
	b, _ := json.Marshal(obj)
	o, err := s.decode(b)
	if err != nil {
		fmt.Fprintln(os.Stderr, "generator produced an undecodable document:", err, string(b))
		os.Exit(2)
	}
	b, _ = json.Marshal(o)
	return b
}

const (
	dLabels = 1 << iota
	dAnnotations
	dSpec
	dStatus
	dGeneration
	dOther
)

// genSubmitted derives a request body from the stored document: any subset of field groups is changed.
func (h *H) genSubmitted(s *Served, stored []byte, mask int, o subOpts) []byte {
	r := h.c.Rng
	obj, err := s.decode(stored)
	if err != nil {
		fmt.Fprintln(os.Stderr, "generator: document does not decode:", err, string(stored))
		os.Exit(2)
	}
	v := reflect.ValueOf(obj).Elem()
	acc, _ := meta.Accessor(obj)
	if mask&dLabels != 0 {
		m, e := editStrMap(r, acc.GetLabels(), labelU)
		acc.SetLabels(m)
		h.c.Count("label-edit:" + e)
	}
	if mask&dAnnotations != 0 {
		m, e := editStrMap(r, acc.GetAnnotations(), annU)
		acc.SetAnnotations(m)
		h.c.Count("annotation-edit:" + e)
	}
	if mask&dSpec != 0 {
		if f := v.FieldByName("Spec"); f.IsValid() {
			mutate(r, f, 0)
		}
	}
	if mask&dStatus != 0 {
		if f := v.FieldByName("Status"); f.IsValid() {
			mutate(r, f, 0)
		}
	}
	if mask&dGeneration != 0 {
		acc.SetGeneration(rig.Pick(r, []int64{0, 1, 3, 99, -4, math.MaxInt64}))
	}
	if acc.GetDeletionTimestamp() != nil {
		o.noNewFinalizers = true
	}
	if mask&dOther != 0 {
		for n := 1 + r.Intn(2); n > 0; n-- {
			e := r.Intn(8)
			switch e {
			case 0:
				acc.SetUID("") // a client that does not send the uid
			case 1:
				acc.SetCreationTimestamp(metav1.Time{})
			case 2: // finalizers: on a terminating object they can only go away
				f := acc.GetFinalizers()
				switch {
				case len(f) > 0 && (o.noNewFinalizers || r.Intn(2) == 0):
					k := r.Intn(len(f))
					acc.SetFinalizers(append(append([]string{}, f[:k]...), f[k+1:]...))
					h.c.Count("meta-edit:remove-finalizer")
				case !o.noNewFinalizers:
					acc.SetFinalizers(append(append([]string{}, f...), []string{"example.com/hold", "example.com/other", "example.com/third"}[len(f)%3]))
					h.c.Count("meta-edit:add-finalizer")
				}
				continue
			case 3:
				acc.SetClusterName("somewhere")
			case 4:
				if len(acc.GetOwnerReferences()) > 0 && r.Intn(2) == 0 {
					acc.SetOwnerReferences(nil)
				} else {
					acc.SetOwnerReferences(genOwners(r))
				}
			case 5:
				if len(acc.GetManagedFields()) > 0 && r.Intn(2) == 0 {
					acc.SetManagedFields(nil)
				} else {
					acc.SetManagedFields(genManaged(r))
				}
			case 6: // do not echo the deletion fields (the server puts them back)
				acc.SetDeletionTimestamp(nil)
				acc.SetDeletionGracePeriodSeconds(nil)
			case 7: // all finalizers at once
				if len(acc.GetFinalizers()) > 0 {
					acc.SetFinalizers(nil)
					h.c.Count("meta-edit:remove-all-finalizers")
					continue
				}
			}
			h.c.Count(fmt.Sprintf("meta-edit:%d", e))
		}
	}
	if o.stripDeletion {
		acc.SetDeletionTimestamp(nil)
		acc.SetDeletionGracePeriodSeconds(nil)
	}
	if o.stripUID {
		acc.SetUID("")
	}
	acc.SetResourceVersion("")
	return h.normalise(s, obj)
}

func randMask(r interface{ Intn(int) int }) int {
	switch r.Intn(10) {
	case 0, 1:
		return 0 // nothing differs
	case 2:
		return 1 << uint(r.Intn(6)) // exactly one group
	case 3:
		return dLabels | dStatus | dGeneration | dOther // everything but spec and annotations
	}
	m := 0
	for b := 0; b < 6; b++ {
		if r.Intn(3) == 0 {
			m |= 1 << uint(b)
		}
	}
	return m
}

// breakMeta makes the metadata unacceptable to the ObjectMeta validation in a known way.
func (h *H) breakMeta(s *Served, doc []byte, create bool, op string) []byte {
	r := h.c.Rng
	m := toMap(doc)
	md, _ := m["metadata"].(map[string]interface{})
	if md == nil {
		md = map[string]interface{}{}
		m["metadata"] = md
	}
	k := r.Intn(3)
	if create && k == 1 {
		k = 0
	}
	if !create && op == "status" && k == 0 {
		k = 1 // the status strategy puts the stored labels back, so a bad label never reaches the validation
	}
	switch k {
	case 0:
		md["labels"] = map[string]interface{}{"app": "not a valid label value!"}
	case 1:
		md["uid"] = "another-uid"
	case 2:
		md["name"] = "no/slash" // path.ValidatePathSegmentName; on update also "field is immutable"
	}
	b, _ := json.Marshal(m)
	return b
}

// injectEmpties spells out empty lists / maps / byte strings (and nulls) at omitempty positions of a document.
func injectEmpties(r interface{ Intn(int) int }, m map[string]interface{}, t reflect.Type, p int) int {
	n := 0
	if t.Kind() == reflect.Ptr {
		t = t.Elem()
	}
	if t.Kind() != reflect.Struct {
		return 0
	}
	for i := 0; i < t.NumField(); i++ {
		f := t.Field(i)
		tag := strings.Split(f.Tag.Get("json"), ",")
		name := tag[0]
		if name == "" || name == "-" || f.PkgPath != "" {
			continue
		}
		ft := f.Type
		cur, present := m[name]
		switch {
		case ft.Kind() == reflect.Slice && ft.Elem().Kind() == reflect.Uint8:
			if !present && r.Intn(p) == 0 {
				m[name] = ""
				n++
			}
		case ft.Kind() == reflect.Slice:
			if !present && r.Intn(p) == 0 {
				if r.Intn(4) == 0 {
					m[name] = nil
				} else {
					m[name] = []interface{}{}
					n++
				}
			} else if l, ok := cur.([]interface{}); ok {
				for _, e := range l {
					if em, ok := e.(map[string]interface{}); ok {
						n += injectEmpties(r, em, ft.Elem(), p)
					}
				}
			}
		case ft.Kind() == reflect.Map:
			if !present && r.Intn(p) == 0 {
				m[name] = map[string]interface{}{}
				n++
			}
		case ft.Kind() == reflect.Struct || (ft.Kind() == reflect.Ptr && ft.Elem().Kind() == reflect.Struct):
			if em, ok := cur.(map[string]interface{}); ok {
				n += injectEmpties(r, em, ft, p)
			}
		}
	}
	return n
}

func (h *H) withEmpties(s *Served, doc []byte) ([]byte, int) {
	r := h.c.Rng
	m := toMap(doc)
	n := 0
	md, _ := m["metadata"].(map[string]interface{})
	if md != nil {
		for _, k := range []string{"annotations", "labels"} {
			if _, ok := md[k]; !ok && r.Intn(3) == 0 {
				md[k] = map[string]interface{}{}
				n++
			}
		}
	}
	t := reflect.TypeOf(s.Main.NewFunc()).Elem()
	for _, g := range []string{"Spec", "Status"} {
		f, ok := t.FieldByName(g)
		if !ok {
			continue
		}
		name := strings.Split(f.Tag.Get("json"), ",")[0]
		gm, _ := m[name].(map[string]interface{})
		if gm == nil {
			gm = map[string]interface{}{}
			m[name] = gm
		}
		n += injectEmpties(r, gm, f.Type, 4)
	}
	b, _ := json.Marshal(m)
	return b, n
}

// genCase draws one case of the given stream.
func (h *H) genCase(s *Served, stream string) Case {
	r := h.c.Rng
	cs := Case{Served: s.Name, Stream: stream}
	stored := h.genStored(s)
	nSteps := 1
	if stream == "history" {
		nSteps = 2 + r.Intn(5)
	}
	hasStored := r.Intn(5) != 0
	if stream == "history" {
		hasStored = r.Intn(2) == 0
	}
	if hasStored {
		cs.Stored = stored
		if stream == "extreme" {
			m := toMap(stored)
			md := m["metadata"].(map[string]interface{})
			md["generation"] = rig.Pick(r, []int64{math.MaxInt64, math.MaxInt64, -3, 0})
			cs.Stored, _ = json.Marshal(m)
		}
		if stream == "explicit-empty" && r.Intn(2) == 0 {
			cs.Stored, _ = h.withEmpties(s, stored)
		}
	} else {
		cs.Stored = json.RawMessage("null")
	}
	cur := stored
	exists := hasStored
	var o subOpts
	if hasStored {
		if md, _ := toMap(stored)["metadata"].(map[string]interface{}); md["deletionTimestamp"] != nil {
			o.noNewFinalizers = true // sticky: later bodies do not echo the deletion fields any more
		}
	}
	for i := 0; i < nSteps; i++ {
		st := Step{MetaValid: true}
		switch {
		case !exists && r.Intn(3) != 0:
			st.Op = "create"
		case exists && stream == "history" && r.Intn(6) == 0:
			st.Op = "delete"
		case r.Intn(5) < 3 || (s.Status == nil && r.Intn(4) != 0):
			st.Op = "main"
		default:
			st.Op = "status"
		}
		if st.Op == "delete" {
			m := toMap(cur)
			md, _ := m["metadata"].(map[string]interface{})
			nm := map[string]interface{}{"name": md["name"]}
			if ns, ok := md["namespace"]; ok {
				nm["namespace"] = ns
			}
			st.Submitted, _ = json.Marshal(map[string]interface{}{"metadata": nm})
			cs.Steps = append(cs.Steps, st)
			// afterwards the object is gone, or terminating with the server's own deletionTimestamp; if it goes
			// and is re-created its uid is a new one
			fin, _ := md["finalizers"].([]interface{})
			exists = len(fin) > 0
			o = subOpts{noNewFinalizers: true, stripDeletion: true, stripUID: true}
			continue
		}
		if i > 0 {
			o.stripDeletion = true
		}
		st.Submitted = h.genSubmitted(s, cur, randMask(r), o)
		if !exists {
			// a client creating an object sends neither uid nor creationTimestamp (both would be kept otherwise)
			m := toMap(st.Submitted)
			md := m["metadata"].(map[string]interface{})
			delete(md, "uid")
			delete(md, "creationTimestamp")
			st.Submitted, _ = json.Marshal(m)
		} else if st.Op != "create" {
			switch r.Intn(12) {
			case 0, 1, 2:
				st.RV = "current"
			case 3:
				st.RV = "stale"
			}
		}
		if stream == "explicit-empty" {
			st.Submitted, _ = h.withEmpties(s, st.Submitted)
		}
		if stream == "invalid-meta" || (stream == "history" && r.Intn(6) == 0) {
			st.Submitted = h.breakMeta(s, st.Submitted, !exists, st.Op)
			st.MetaValid = false
		}
		cs.Steps = append(cs.Steps, st)
		if st.MetaValid && st.RV != "stale" && !(st.Op == "status" && s.Status == nil) {
			exists = true
			cur = st.Submitted
		}
	}
	return cs
}

// diffMask says which field groups differ between the stored and the (first) submitted document, as rendered.
func (h *H) diffMask(s *Served, cs Case) string {
	if len(cs.Steps) == 0 {
		return "-"
	}
	if string(cs.Stored) == "null" {
		return "new"
	}
	a, err1 := s.decode(cs.Stored)
	b, err2 := s.decode(cs.Steps[0].Submitted)
	if err1 != nil || err2 != nil {
		return "undecodable"
	}
	ga, gb := apiGroups(a), apiGroups(b)
	out := ""
	if ga.Labels != gb.Labels {
		out += "L"
	}
	if ga.Annotations != gb.Annotations {
		out += "A"
	}
	if ga.Spec != gb.Spec {
		out += "S"
	}
	if ga.Status != gb.Status {
		out += "T"
	}
	if ga.Generation != gb.Generation {
		out += "G"
	}
	if out == "" {
		out = "none"
	}
	return out
}

// ---------------------------------------------------------------------------------------------------

type genFact struct {
	Kind, Resource                                                           string
	Namespaced, StrategySubStatus, OptSubStatus, HasMeta, HasSpec, HasStatus bool
	StatusFields                                                             int
	Served                                                                   bool
}

// checkRegistrations compares the regenerated fact (tools/extract/c20, read from the source text) with the
// storage map the real code built.
func (h *H) checkRegistrations() {
	c := h.c
	var facts []genFact
	if err := c.Model("C20.registrations", map[string]interface{}{}, &facts); err != nil {
		c.Fail(rig.Failure{Kind: "diff", Class: "c20.model-error", What: err.Error()})
		return
	}
	real := map[string]string{}
	for _, s := range h.planes[0].Served {
		if !s.Registered {
			continue
		}
		fl, err := s.flags()
		if err != nil {
			c.Fail(rig.Failure{Kind: "diff", Class: "c20.strategy-shape", What: err.Error()})
			return
		}
		nf := 0
		if f, ok := reflect.TypeOf(s.Main.NewFunc()).Elem().FieldByName("Status"); ok && f.Type.Kind() == reflect.Struct {
			nf = f.Type.NumField()
		}
		real[s.Resource] = fmt.Sprintf("kind=%s namespaced=%v strategySubStatus=%v served=%v meta=%v spec=%v status=%v statusFields=%d",
			s.Kind, s.Namespaced, fl.SubStatus, s.Status != nil, fl.HasMeta, fl.HasSpec, fl.HasStatus, nf)
	}
	gen := map[string]string{}
	for _, f := range facts {
		gen[f.Resource] = fmt.Sprintf("kind=%s namespaced=%v strategySubStatus=%v served=%v meta=%v spec=%v status=%v statusFields=%d",
			f.Kind, f.Namespaced, f.StrategySubStatus, f.Served, f.HasMeta, f.HasSpec, f.HasStatus, f.StatusFields)
	}
	if rig.Canon(real) != rig.Canon(gen) {
		c.Fail(rig.Failure{Kind: "diff", Class: "c20.registration-fact", What: "the kinds read from rest.go by the extractor differ from the storage map the real code builds",
			Impl: real, Model: gen})
	}
	c.SetExtra("registrations", real)
}

// judgeControl: a deliberately INCONSISTENT registration (status subresource served, main strategy built with
// subStatus=false — what c20_registrations_consistent excludes for rest.go). A main-resource update that changes
// the status must be flagged by the judge; if it is not, the harness has stopped judging.
func (h *H) judgeControl() {
	c := h.c
	p := h.planes[0]
	wg := runtimeschema.GroupVersionKindResource{Group: widgetGV.Group, Version: widgetGV.Version, Kind: "Widget", Resource: "widgets"}
	s, err := p.AddProbe("control:widgets-inconsistent", wg, registry.NewDefaultRESTStrategy(true, false), true, jsonMedia)
	if err != nil {
		c.Fail(rig.Failure{Kind: "diff", Class: "c20.plane", What: "control registration: " + err.Error()})
		return
	}
	p.Served = p.Served[:len(p.Served)-1] // never part of the generated cases
	h.served[s.Name] = s
	defer delete(h.served, s.Name)
	doc := func(phase string) json.RawMessage {
		return json.RawMessage(`{"metadata":{"name":"a","namespace":"ns1","uid":"uid-a","creationTimestamp":"2023-11-14T22:13:20Z","generation":5},"spec":{"mode":"m"},"status":{"phase":"` + phase + `"}}`)
	}
	cs := Case{Served: s.Name, Stream: "control", Stored: doc("old"), Steps: []Step{{Op: "main", Submitted: doc("new"), MetaValid: true}}}
	f := h.eval(cs)
	if f == nil || f.Kind != "judge" || f.Class != "c20.main-update-changed-status" {
		c.Fail(rig.Failure{Kind: "diff", Class: "c20.judge-control", What: "the judge did not flag a main-resource update that changed the status on the deliberately inconsistent control registration", Case: cs, Impl: f})
		return
	}
	c.Count("control:judge-flags-inconsistent-registration")
}

func (h *H) addPlane(media, suffix string) error {
	p, err := NewPlane(media)
	if err != nil {
		return err
	}
	// probe registrations: kinds with a non-empty Status served with a status subresource
	rlc := runtimeschema.GroupVersionKindResource{Group: proxyv1alpha1.SchemeGroupVersion.Group, Version: proxyv1alpha1.SchemeGroupVersion.Version,
		Kind: "RateLimitCondition", Resource: "ratelimitconditions"}
	if _, err := p.AddProbe("probe:ratelimitconditions+status", rlc, registry.ClusterScopeStorageStrategySingleton, true, ""); err != nil {
		return err
	}
	wg := runtimeschema.GroupVersionKindResource{Group: widgetGV.Group, Version: widgetGV.Version, Kind: "Widget", Resource: "widgets"}
	// no SetRESTStrategy: the factory's default (NamespacedStorageStrategySingleton), as a kind added without one gets
	if _, err := p.AddProbe("probe:widgets+status", wg, nil, true, jsonMedia); err != nil {
		return err
	}
	// a main strategy built with subStatus=true but no status endpoint
	if _, err := p.AddProbe("probe:widgets-nostatus-endpoint", wg, registry.NewDefaultRESTStrategy(true, true), false, jsonMedia); err != nil {
		return err
	}
	// neither (the way RateLimitCondition is registered), namespaced
	if _, err := p.AddProbe("probe:widgets-plain", wg, registry.NewDefaultRESTStrategy(true, false), false, jsonMedia); err != nil {
		return err
	}
	for _, s := range p.Served {
		s.Name += suffix
		h.served[s.Name] = s
		h.names = append(h.names, s.Name)
	}
	h.planes = append(h.planes, p)
	return nil
}

func main() {
	fs := flag.NewFlagSet("klog", flag.ContinueOnError)
	klog.InitFlags(fs)
	fs.Set("logtostderr", "false")
	fs.Set("alsologtostderr", "false")
	klog.SetOutput(io.Discard)
	installWidget()
	rig.Main("C20", func(c *rig.Ctx) {
		h := &H{c: c, served: map[string]*Served{}, obs: map[string]int{}}
		c.SetRule("a case = one way a kind is served (the 2 registrations of rest.go as the real NewRESTStorageProvider builds them + 4 probe registrations through the same NewResourceREST; protobuf storage, JSON too in thorough) x an initial stored object or none x 1-6 requests (create / main update / status update / DELETE in histories; bodies are JSON documents derived from the stored one with any subset of {labels, annotations, spec, status, generation, other metadata} changed; label/annotation maps over small universes that include the well-known tool-written keys (kubectl last-applied-configuration, deployment.kubernetes.io/*, change-cause, helm, leader election), case variants, JSON blobs and 5 KiB values, otherwise values from {\"\",a,b} and changed by structured edits (rename key, swap values, replace an empty-valued key by another, add+remove at equal size, key case, change/add/remove; counted as label-edit:/annotation-edit:); spec/status filled by reflection from small pools and changed by the same kinds of edits on every map/list member or by re-fill; the rest of the metadata varies too: finalizers (added/removed), stored objects that are terminating (deletionTimestamp + grace period 0 or 30, kept by finalizers), owner references, managed fields, uid/creationTimestamp present or not, resourceVersion absent/current/stale, a client-supplied generation on create and update (any value, MaxInt64 and negative included), deletion fields echoed or not; the histogram's differs:<mask> says which groups of the first request differ from the stored object, L=labels A=annotations S=spec T=status G=generation; streams: roundtrip (no explicit empties), explicit-empty ({} [] \"\" null spelled out), invalid-meta, extreme (stored generation MaxInt64/negative/0), history); distinct = distinct canonical case; non-trivial = some field group differs or the object is new")
		if err := h.addPlane(protobufMedia, ""); err != nil {
			c.Fail(rig.Failure{Kind: "diff", Class: "c20.plane", What: "the control plane's REST storage can no longer be built the way the harness does: " + err.Error()})
			return
		}
		if c.Replay != "" {
			h.addPlane(jsonMedia, "@json")
			var cs Case
			if err := c.LoadReplay(&cs); err != nil {
				fmt.Fprintln(os.Stderr, err)
				os.Exit(2)
			}
			c.Case(rig.Canon(cs), true, "replay", func() interface{} { return cs })
			h.run(cs, true)
			return
		}
		h.checkRegistrations()
		h.judgeControl()
		for _, s := range h.planes[0].Served {
			if s.Registered && s.Status != nil {
				if f, ok := reflect.TypeOf(s.Main.NewFunc()).Elem().FieldByName("Status"); ok && f.Type.Kind() == reflect.Struct && f.Type.NumField() == 0 {
					c.Note("%s is served with a status subresource but its Status type has no fields: on it the status clauses hold trivially; they are exercised on the probe registrations (RateLimitCondition and a harness-defined kind served the same way)", s.Kind)
				}
			}
		}
		// corpus of past failures first
		files, _ := filepath.Glob(filepath.Join(os.Getenv("VERIF_DIR"), "harness", "corpus", "C20", "*.json"))
		sort.Strings(files)
		for _, f := range files {
			b, _ := os.ReadFile(f)
			var env struct{ Case json.RawMessage }
			var cs Case
			if json.Unmarshal(b, &env) != nil || env.Case == nil || json.Unmarshal(env.Case, &cs) != nil {
				continue
			}
			c.Case(string(env.Case), true, "corpus", nil)
			c.Trace()
			h.run(cs, true)
		}
		if c.Thorough() {
			if err := h.addPlane(jsonMedia, "@json"); err != nil {
				c.Fail(rig.Failure{Kind: "diff", Class: "c20.plane", What: err.Error()})
				return
			}
		}
		streams := []string{"roundtrip", "roundtrip", "roundtrip", "roundtrip", "history", "history", "explicit-empty", "invalid-meta", "extreme", "roundtrip"}
		n := c.Budget(6000, 150000)
		failedClasses := map[string]int{}
		for i := 0; i < n && c.NFailures() < 12; i++ {
			s := h.served[h.names[i%len(h.names)]]
			stream := streams[(i/len(h.names))%len(streams)]
			cs := h.genCase(s, stream)
			mask := h.diffMask(s, cs)
			ops := ""
			for _, st := range cs.Steps {
				ops += st.Op[:1]
			}
			if len(ops) > 2 {
				ops = fmt.Sprintf("%d-steps", len(ops))
			}
			c.Case(rig.Canon(cs), mask != "none", s.Name+"/"+stream, func() interface{} { return cs })
			c.Count("requests:" + ops)
			c.Count("differs:" + mask)
			c.Trace()
			if f0 := h.eval(cs); f0 != nil {
				if failedClasses[f0.Class] >= 2 {
					failedClasses[f0.Class]++ // already recorded twice: count, do not shrink again
					continue
				}
				small := h.shrink(cs, f0.Class)
				f := h.eval(small)
				if f == nil { // cannot happen (shrink keeps failing cases); be safe
					f = h.eval(cs)
				}
				// two recorded failures per class are enough (a known finding is hit many times)
				if f != nil {
					if failedClasses[f.Class] < 2 {
						c.Fail(*f)
					}
					failedClasses[f.Class]++
				}
			}
		}
		keys := []string{}
		for k := range h.obs {
			keys = append(keys, k)
		}
		sort.Strings(keys)
		for _, k := range keys {
			c.SetExtra("observed:"+k, h.obs[k])
		}
		if nobs := h.obs["status-update-changed-annotations-generation-kept"]; nobs > 0 {
			c.Note("observation (not a violation under the reading chosen, see notes/C20.md): %d accepted status-subresource updates changed the annotations and kept the generation — annotations can be changed through /status without a generation bump", nobs)
		}
		if h.viewExample != "" {
			c.Note("the semantic rendering used as the API's view and the literal JSON documents disagree on whether some pairs read the same (a list/map/bytes member without omitempty?), first: %s", h.viewExample)
		}
		for k, v := range failedClasses {
			c.SetExtra("failing-cases:"+k, v)
		}
	})
}
