package main

import (
	"context"
	"flag"
	"fmt"
	"io"
	"os"

	metav1 "k8s.io/apimachinery/pkg/apis/meta/v1"
	"k8s.io/apimachinery/pkg/runtime"
	genericapirequest "k8s.io/apiserver/pkg/endpoints/request"
	"k8s.io/apiserver/pkg/registry/rest"
	"k8s.io/klog"

	"github.com/kubewharf/apiserver-runtime/pkg/scheme"
	proxyv1alpha1 "github.com/kubewharf/kubegateway/pkg/apis/proxy/v1alpha1"
)

func nsCtx(ns string) context.Context {
	return genericapirequest.WithNamespace(context.Background(), ns)
}

func main() {
	fs := flag.NewFlagSet("klog", flag.ContinueOnError)
	klog.InitFlags(fs)
	fs.Set("logtostderr", "false")
	klog.SetOutput(io.Discard)
	p, err := NewPlane("application/vnd.kubernetes.protobuf")
	if err != nil {
		fmt.Println("ERR", err)
		os.Exit(1)
	}
	for _, s := range p.Served {
		fmt.Printf("%s kind=%s hub=%s ns=%v status=%v create=%T update=%T\n", s.Name, s.Kind, s.HubGV, s.Namespaced, s.Status != nil, s.Main.CreateStrategy, s.Main.UpdateStrategy)
		if s.Status != nil {
			fmt.Printf("   status update=%T %+v\n", s.Status.UpdateStrategy, s.Status.UpdateStrategy)
		}
	}
	s := p.Served[1]
	info, _ := runtime.SerializerInfoForMediaType(scheme.Codecs.SupportedMediaTypes(), "application/json")
	dec := scheme.Codecs.DecoderToVersion(info.Serializer, s.HubGV)
	decode := func(doc string) runtime.Object {
		gvk := s.HubGV.WithKind(s.Kind)
		o, _, err := dec.Decode([]byte(doc), &gvk, s.Main.NewFunc())
		if err != nil {
			panic(err)
		}
		return o
	}
	ctx := context.Background()
	o := decode(`{"metadata":{"name":"a"},"spec":{"servers":[{"endpoint":"https://x"}]}}`)
	out, err := s.Main.Create(ctx, o, rest.ValidateAllObjectFunc, &metav1.CreateOptions{})
	fmt.Println("create", err, out.(*proxyv1alpha1.UpstreamCluster).Generation)
	for _, doc := range []string{
		`{"metadata":{"name":"a"},"spec":{"servers":[{"endpoint":"https://x"}]}}`,
		`{"metadata":{"name":"a","annotations":{}},"spec":{"servers":[{"endpoint":"https://x"}]}}`,
		`{"metadata":{"name":"a","annotations":null},"spec":{"servers":[{"endpoint":"https://x"}]}}`,
		`{"metadata":{"name":"a"},"spec":{"servers":[{"endpoint":"https://x"}],"dispatchPolicies":[]}}`,
		`{"metadata":{"name":"a"},"spec":{"servers":[{"endpoint":"https://x"}],"secureServing":{"keyData":""}}}`,
		`{"metadata":{"name":"a"},"spec":{"servers":[{"endpoint":"https://x"}]}}`,
		`{"metadata":{"name":"a"},"spec":{"servers":[{"endpoint":"https://x"}]}}`,
	} {
		o := decode(doc)
		out, _, err := s.Main.Update(ctx, "a", rest.DefaultUpdatedObjectInfo(o), rest.ValidateAllObjectFunc, rest.ValidateAllObjectUpdateFunc, false, &metav1.UpdateOptions{})
		if err != nil {
			fmt.Println("update err", err)
			continue
		}
		u := out.(*proxyv1alpha1.UpstreamCluster)
		fmt.Printf("update gen=%d ann=%#v  doc=%s\n", u.Generation, u.Annotations, doc)
	}
}
