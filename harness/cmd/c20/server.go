package main

// Builds the control plane's REST storage for the proxy group the way the gateway does, but on an in-memory
// storage backend:
//
//   cmd/kube-gateway … RecommendedOptions.ApplyEtcdTo   (storage factory: project scheme/codecs, protobuf media type)
//   registry.NewRESTStorageOptionsFactory(storageFactory)
//   proxyrest.NewRESTStorageProvider(scheme, factory)            <- pkg/gateway/controlplane/registry/proxy/rest/rest.go (REAL)
//   provider.NewRESTStorage(apiResourceConfig, restOptionsGetter) <- apiserver-runtime/pkg/registry (REAL): one
//        genericregistry.Store per kind + a status store (DefaultStatusRESTStrategy{main strategy}) when served
//
// What the harness then drives are the REAL *genericregistry.Store values out of the returned storage map, with
// the strategies that rest.go registered; nothing about "which strategy for which kind" is restated here.

import (
	"context"
	"fmt"
	"sort"
	"strings"

	"k8s.io/apimachinery/pkg/runtime"
	"k8s.io/apimachinery/pkg/runtime/schema"
	"k8s.io/apiserver/pkg/registry/generic"
	genericregistry "k8s.io/apiserver/pkg/registry/generic/registry"
	"k8s.io/apiserver/pkg/registry/rest"
	genericoptions "k8s.io/apiserver/pkg/server/options"
	serverstorage "k8s.io/apiserver/pkg/server/storage"
	"k8s.io/apiserver/pkg/storage"
	"k8s.io/apiserver/pkg/storage/storagebackend"
	"k8s.io/apiserver/pkg/storage/storagebackend/factory"
	"k8s.io/client-go/tools/cache"
	"k8s.io/kubernetes/pkg/kubeapiserver"

	"github.com/kubewharf/apiserver-runtime/pkg/registry"
	runtimeschema "github.com/kubewharf/apiserver-runtime/pkg/schema"
	"github.com/kubewharf/apiserver-runtime/pkg/scheme"
	rtstorage "github.com/kubewharf/apiserver-runtime/pkg/server/storage"
	controlplane "github.com/kubewharf/kubegateway/pkg/gateway/controlplane"
	proxyrest "github.com/kubewharf/kubegateway/pkg/gateway/controlplane/registry/proxy/rest"
)

// Served is one way a kind is served: its main store, and its status store when a status subresource exists.
type Served struct {
	Name        string // label used in cases, e.g. "upstreamclusters" or "probe:ratelimitconditions+status"
	Resource    string
	Registered  bool // true: exactly what rest.go registers; false: a probe registration built with the same functions
	Main        *genericregistry.Store
	Status      *genericregistry.Store // nil: no status subresource served
	MainREST    rest.Storage           // what the API installer would call
	StatusRESTv rest.Storage
	Mem         *memStore
	HubGV       schema.GroupVersion
	Kind        string
	Namespaced  bool
	MediaType   string
}

type memGetter struct {
	sf   rtstorage.StorageFactory
	mems map[string]*memStore // by resource prefix
}

func (g *memGetter) GetRESTOptions(resource schema.GroupResource) (generic.RESTOptions, error) {
	cfg, err := g.sf.NewConfig(resource)
	if err != nil {
		return generic.RESTOptions{}, fmt.Errorf("unable to find storage destination for %v, due to %v", resource, err.Error())
	}
	return generic.RESTOptions{
		StorageConfig: cfg,
		Decorator: func(config *storagebackend.Config, resourcePrefix string, keyFunc func(obj runtime.Object) (string, error),
			newFunc func() runtime.Object, newListFunc func() runtime.Object, getAttrsFunc storage.AttrFunc,
			trigger storage.IndexerFuncs, indexers *cache.Indexers) (storage.Interface, factory.DestroyFunc, error) {
			m := newMemStore(config.Codec, newFunc)
			g.mems[strings.TrimPrefix(resourcePrefix, "/")] = m
			return m, func() {}, nil
		},
		DeleteCollectionWorkers: 1,
		EnableGarbageCollection: false,
		ResourcePrefix:          g.sf.ResourcePrefix(resource),
	}, nil
}

type Plane struct {
	Factory *registry.RESTStorageOptionsFactory
	Getter  *memGetter
	Served  []*Served
}

// newStorageFactory mirrors RecommendedOptions.ApplyEtcdTo of apiserver-runtime (with the gateway's media type).
func newStorageFactory(mediaType string) (rtstorage.StorageFactory, error) {
	etcd := genericoptions.NewEtcdOptions(storagebackend.NewDefaultConfig("/registry/verif", nil))
	etcd.DefaultStorageMediaType = mediaType
	sfc := kubeapiserver.NewStorageFactoryConfig()
	sfc.Serializer = scheme.Codecs
	sfc.DefaultResourceEncoding = serverstorage.NewDefaultResourceEncodingConfig(scheme.Scheme)
	sfc.APIResourceConfig = controlplane.DefaultAPIResourceConfigSource()
	completed, err := sfc.Complete(etcd)
	if err != nil {
		return nil, err
	}
	sf, err := completed.New()
	if err != nil {
		return nil, err
	}
	return rtstorage.NewStorageFactory(sf)
}

func storeOf(s rest.Storage) *genericregistry.Store {
	switch t := s.(type) {
	case *registry.ObjectREST:
		return t.Store
	case *registry.StatusREST:
		return t.Store
	case *genericregistry.Store:
		return t
	}
	return nil
}

// NewPlane builds the storage exactly as the gateway's control plane does (Registered entries), then adds probe
// registrations (built by the same apiserver-runtime functions) of kinds whose status is not empty.
func NewPlane(mediaType string) (*Plane, error) {
	sf, err := newStorageFactory(mediaType)
	if err != nil {
		return nil, err
	}
	p := &Plane{Factory: registry.NewRESTStorageOptionsFactory(sf), Getter: &memGetter{sf: sf, mems: map[string]*memStore{}}}
	provider, err := proxyrest.NewRESTStorageProvider(scheme.Scheme, p.Factory)
	if err != nil {
		return nil, err
	}
	info, enabled, err := provider.NewRESTStorage(controlplane.DefaultAPIResourceConfigSource(), p.Getter)
	if err != nil || !enabled {
		return nil, fmt.Errorf("NewRESTStorage: enabled=%v err=%v", enabled, err)
	}
	group := provider.GroupName()
	versions := []string{}
	for v := range info.VersionedResourcesStorageMap {
		versions = append(versions, v)
	}
	sort.Strings(versions)
	for _, v := range versions {
		m := info.VersionedResourcesStorageMap[v]
		names := []string{}
		for r := range m {
			names = append(names, r)
		}
		sort.Strings(names)
		for _, r := range names {
			if strings.Contains(r, "/") {
				continue
			}
			main := storeOf(m[r])
			if main == nil {
				return nil, fmt.Errorf("storage of %s is a %T, not a generic store", r, m[r])
			}
			s := &Served{Name: r, Resource: r, Registered: true, Main: main, MainREST: m[r], MediaType: mediaType}
			for _, sub := range names {
				if strings.HasPrefix(sub, r+"/") && sub != r+"/status" {
					return nil, fmt.Errorf("unexpected subresource %s: the harness only knows status", sub)
				}
			}
			if st, ok := m[r+"/status"]; ok {
				s.Status = storeOf(st)
				s.StatusRESTv = st
				if s.Status == nil {
					return nil, fmt.Errorf("status storage of %s is a %T", r, st)
				}
			}
			if err := p.complete(s, schema.GroupResource{Group: group, Resource: r}); err != nil {
				return nil, err
			}
			p.Served = append(p.Served, s)
		}
	}
	return p, nil
}

func (p *Plane) complete(s *Served, gr schema.GroupResource) error {
	obj := s.Main.NewFunc()
	gvks, _, err := scheme.Scheme.ObjectKinds(obj)
	if err != nil || len(gvks) == 0 {
		return fmt.Errorf("kind of %s: %v", s.Name, err)
	}
	s.Kind = gvks[0].Kind
	s.HubGV = gvks[0].GroupVersion()
	s.Namespaced = s.Main.CreateStrategy.NamespaceScoped()
	s.Mem = p.Getter.mems[p.Getter.sf.ResourcePrefix(gr)]
	if s.Mem == nil {
		return fmt.Errorf("no in-memory storage was created for %s (prefix %s)", s.Name, p.Getter.sf.ResourcePrefix(gr))
	}
	return nil
}

// AddProbe serves `kind` through registry.NewResourceREST with the given main strategy (nil = the factory's
// default, as a kind that never calls SetRESTStrategy would get) and SubStatus flag.
func (p *Plane) AddProbe(name string, gvkr runtimeschema.GroupVersionKindResource, strategy rest.RESTCreateUpdateStrategy, subStatus bool, mediaType string) (*Served, error) {
	p.Factory.SetHubGroupVersion(gvkr, gvkr.GroupVersion())
	if strategy != nil {
		p.Factory.SetRESTStrategy(gvkr, strategy)
	}
	if mediaType != "" {
		p.Factory.SetStorageMediaType(gvkr, mediaType)
	}
	o, err := p.Factory.GetRESTStorageOptions(gvkr)
	if err != nil {
		return nil, err
	}
	o.SubStatus = subStatus
	delete(p.Getter.mems, p.Getter.sf.ResourcePrefix(gvkr.GroupResource()))
	rr, err := registry.NewResourceREST(scheme.Scheme, p.Getter, o)
	if err != nil {
		return nil, err
	}
	s := &Served{Name: name, Resource: gvkr.Resource, Registered: false, Main: storeOf(rr.ObjectREST), MainREST: rr.ObjectREST, MediaType: mediaType}
	if st, ok := rr.SubresourcesREST["status"]; ok {
		s.Status = storeOf(st)
		s.StatusRESTv = st
	}
	if err := p.complete(s, gvkr.GroupResource()); err != nil {
		return nil, err
	}
	p.Served = append(p.Served, s)
	return s, nil
}

func (s *Served) ctx(ns string) context.Context {
	if s.Namespaced {
		return nsCtx(ns)
	}
	return context.Background()
}
