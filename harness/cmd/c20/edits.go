package main

// Structured edits of maps and lists. Independent re-draws almost never produce the pairs on which a
// hand-written comparison goes wrong (same size, one key renamed, a key with an empty value replaced by another
// key with an empty value, two values swapped, only the case of a key changed …), so (stored, submitted) pairs are
// derived by such edits: for the label and annotation maps (small colliding key universes, values from
// {"", "a", "b"}) and, by reflection, for every map- or list-valued member inside spec and status.

import (
	"math/rand"
	"reflect"
	"sort"
	"strings"
)

// universe: the keys and values a label or annotation map is drawn from. Small enough that independent draws
// collide, and including the well-known keys that tools write (and that a server-side hook might single out):
// kubectl's last-applied-configuration and restartedAt, change-cause, the deployment.kubernetes.io/* bookkeeping,
// leader-election and helm annotations; keys differing only in case; values that are empty, short, numeric, JSON
// blobs the size and shape of a last-applied manifest or a managed-fields entry, and very long.
type universe struct {
	keys   []string
	values []string
}

var (
	lastAppliedBlob = `{"apiVersion":"proxy.kubegateway.io/v1alpha1","kind":"UpstreamCluster","metadata":{"annotations":{},"name":"a"},"spec":{"clientConfig":{"bearerToken":"c2VjcmV0"},"servers":[{"endpoint":"https://x:6443"}]}}` + "\n"
	managedBlob     = `{"f:metadata":{"f:annotations":{".":{},"f:note":{}}},"f:spec":{"f:servers":{}}}`
	longValue       = strings.Repeat("0123456789abcdef", 320) // 5 KiB

	labelU = universe{
		keys:   []string{"app", "App", "tier", "example.com/role", "example.com/Role", "app.kubernetes.io/name", "app.kubernetes.io/managed-by", "kubernetes.io/metadata.name"},
		values: []string{"", "", "a", "b", "Helm"},
	}
	annU = universe{
		keys: []string{"example.com/paused", "example.com/drained", "example.com/Paused", "note", "proxy.kubegateway.io/feature-gates",
			"kubectl.kubernetes.io/last-applied-configuration", "kubectl.kubernetes.io/Last-Applied-Configuration", "kubectl.kubernetes.io/restartedAt",
			"kubernetes.io/change-cause", "deployment.kubernetes.io/revision", "deployment.kubernetes.io/desired-replicas",
			"control-plane.alpha.kubernetes.io/leader", "meta.helm.sh/release-name"},
		values: []string{"", "", "a", "b", "1", "2", lastAppliedBlob, managedBlob, longValue},
	}
)

// genStrMap draws 0-3 entries.
func genStrMap(r *rand.Rand, u universe) map[string]string {
	n := r.Intn(4)
	if n == 0 {
		return nil
	}
	m := map[string]string{}
	for i := 0; i < n; i++ {
		m[u.keys[r.Intn(len(u.keys))]] = u.values[r.Intn(len(u.values))]
	}
	return m
}

func sortedKeys(m map[string]string) []string {
	ks := make([]string, 0, len(m))
	for k := range m {
		ks = append(ks, k)
	}
	sort.Strings(ks)
	return ks
}

func swapCase(k string) string {
	// change the case of the first letter of the name part
	i := strings.LastIndex(k, "/") + 1
	if i >= len(k) {
		return k
	}
	c := k[i]
	switch {
	case c >= 'a' && c <= 'z':
		c -= 32
	case c >= 'A' && c <= 'Z':
		c += 32
	}
	return k[:i] + string(c) + k[i+1:]
}

// editStrMap returns an edited copy of m (the edit's name is for the histogram). Edits keep the map valid for
// labels as well as annotations (keys come from the universe or are case variants of present keys).
func editStrMap(r *rand.Rand, m map[string]string, u universe) (map[string]string, string) {
	keys := u.keys
	out := copyMap(m)
	ks := sortedKeys(out)
	absent := func() string {
		var cand []string
		for _, k := range keys {
			if _, ok := out[k]; !ok {
				cand = append(cand, k)
			}
		}
		if len(cand) == 0 {
			return ""
		}
		return cand[r.Intn(len(cand))]
	}
	if len(ks) == 0 {
		return genStrMap(r, u), "redraw"
	}
	switch r.Intn(9) {
	case 0: // rename a key keeping its value
		k, nk := ks[r.Intn(len(ks))], absent()
		if nk != "" {
			out[nk] = out[k]
			delete(out, k)
			return out, "rename-key"
		}
	case 1: // swap two keys' values
		if len(ks) >= 2 {
			i := r.Intn(len(ks))
			j := (i + 1 + r.Intn(len(ks)-1)) % len(ks)
			out[ks[i]], out[ks[j]] = out[ks[j]], out[ks[i]]
			return out, "swap-values"
		}
	case 2: // replace a key that has an empty value by another key with an empty value
		nk := absent()
		for _, k := range ks {
			if out[k] == "" && nk != "" {
				delete(out, k)
				out[nk] = ""
				return out, "replace-empty-valued-key"
			}
		}
		// none has an empty value: make one, the next edit of a history can then replace it
		out[ks[r.Intn(len(ks))]] = ""
		return out, "set-empty-value"
	case 3: // add one and remove one: the size stays
		nk := absent()
		if nk != "" {
			delete(out, ks[r.Intn(len(ks))])
			out[nk] = u.values[r.Intn(len(u.values))]
			return out, "add-and-remove"
		}
	case 4: // only the case of a key
		k := ks[r.Intn(len(ks))]
		nk := swapCase(k)
		if _, ok := out[nk]; !ok && nk != k {
			out[nk] = out[k]
			delete(out, k)
			return out, "key-case"
		}
	case 5: // change one value
		k := ks[r.Intn(len(ks))]
		for _, v := range u.values {
			if v != out[k] && r.Intn(2) == 0 {
				out[k] = v
				return out, "change-value"
			}
		}
		out[k] = out[k] + "x"
		return out, "change-value"
	case 6: // remove a key
		delete(out, ks[r.Intn(len(ks))])
		if len(out) == 0 {
			return nil, "remove-last-key"
		}
		return out, "remove-key"
	case 7: // add a key
		if nk := absent(); nk != "" {
			out[nk] = u.values[r.Intn(len(u.values))]
			return out, "add-key"
		}
	}
	return genStrMap(r, u), "redraw"
}

// editMapValue edits a non-empty map (string keys) in place by reflection: rename a key keeping its value, swap
// two values, replace a key by another one with the same (zero) value, add+remove, case of a key.
func editMapValue(r *rand.Rand, v reflect.Value) bool {
	if v.Kind() != reflect.Map || v.Len() == 0 || v.Type().Key().Kind() != reflect.String || !v.CanSet() {
		return false
	}
	var ks []string
	for _, k := range v.MapKeys() {
		ks = append(ks, k.String())
	}
	sort.Strings(ks)
	key := func(s string) reflect.Value { k := reflect.New(v.Type().Key()).Elem(); k.SetString(s); return k }
	universe := append(append([]string{}, keyPool...), "K1", "k4")
	absent := ""
	for _, i := range r.Perm(len(universe)) {
		if !v.MapIndex(key(universe[i])).IsValid() {
			absent = universe[i]
			break
		}
	}
	m := reflect.MakeMap(v.Type())
	for _, k := range ks {
		m.SetMapIndex(key(k), deepCopyValue(v.MapIndex(key(k))))
	}
	k := ks[r.Intn(len(ks))]
	switch r.Intn(5) {
	case 0, 1: // rename / replace keeping the value (also the zero value)
		if absent == "" {
			return false
		}
		m.SetMapIndex(key(absent), m.MapIndex(key(k)))
		m.SetMapIndex(key(k), reflect.Value{})
	case 2:
		if len(ks) < 2 {
			return false
		}
		k2 := ks[(indexOf(ks, k)+1)%len(ks)]
		a, b := m.MapIndex(key(k)), m.MapIndex(key(k2))
		m.SetMapIndex(key(k), b)
		m.SetMapIndex(key(k2), a)
	case 3: // add + remove, new entry with the zero value
		if absent == "" {
			return false
		}
		m.SetMapIndex(key(k), reflect.Value{})
		m.SetMapIndex(key(absent), reflect.Zero(v.Type().Elem()))
	case 4:
		nk := swapCase(k)
		if nk == k || m.MapIndex(key(nk)).IsValid() {
			return false
		}
		m.SetMapIndex(key(nk), m.MapIndex(key(k)))
		m.SetMapIndex(key(k), reflect.Value{})
	}
	v.Set(m)
	return true
}

func indexOf(l []string, s string) int {
	for i, x := range l {
		if x == s {
			return i
		}
	}
	return 0
}

// editSliceValue edits a non-empty list in place: swap two elements, replace one element (size stays), rotate,
// duplicate the first into the last position.
func editSliceValue(r *rand.Rand, v reflect.Value, depth int) bool {
	if v.Kind() != reflect.Slice || v.Len() == 0 || !v.CanSet() || v.Type().Elem().Kind() == reflect.Uint8 {
		return false
	}
	n := v.Len()
	s := reflect.MakeSlice(v.Type(), n, n)
	for i := 0; i < n; i++ {
		s.Index(i).Set(deepCopyValue(v.Index(i)))
	}
	switch r.Intn(4) {
	case 0:
		if n < 2 {
			return false
		}
		a, b := deepCopyValue(s.Index(0)), deepCopyValue(s.Index(n-1))
		s.Index(0).Set(b)
		s.Index(n - 1).Set(a)
	case 1:
		fill(r, s.Index(r.Intn(n)), depth+1)
	case 2:
		s.Index(n - 1).Set(deepCopyValue(s.Index(0)))
	case 3:
		s.Index(r.Intn(n)).Set(reflect.Zero(v.Type().Elem()))
	}
	v.Set(s)
	return true
}
