package main

// A harness-defined kind with every value shape in Spec and Status (maps, slices, pointers, bytes, nested
// structs), registered into the project's scheme so that the REAL strategies, BeforeCreate/BeforeUpdate and the
// real generic store run on it. The served kind UpstreamCluster has an EMPTY Status type, so on it the clauses
// about status cannot be observed to fail; this kind (and RateLimitCondition served "like UpstreamCluster") is
// where they can.

import (
	"reflect"

	metav1 "k8s.io/apimachinery/pkg/apis/meta/v1"
	"k8s.io/apimachinery/pkg/runtime"
	"k8s.io/apimachinery/pkg/runtime/schema"

	"github.com/kubewharf/apiserver-runtime/pkg/scheme"
)

var widgetGV = schema.GroupVersion{Group: "probe.verif.local", Version: "v1"}

type WidgetPart struct {
	Name  string            `json:"name,omitempty"`
	Tags  []string          `json:"tags,omitempty"`
	Attrs map[string]string `json:"attrs,omitempty"`
}

type WidgetSpec struct {
	Replicas *int32            `json:"replicas,omitempty"`
	Mode     string            `json:"mode,omitempty"`
	Paused   bool              `json:"paused,omitempty"`
	Parts    []WidgetPart      `json:"parts,omitempty"`
	Selector map[string]string `json:"selector,omitempty"`
	Secret   []byte            `json:"secret,omitempty"`
	Main     *WidgetPart       `json:"main,omitempty"`
}

type WidgetStatus struct {
	Phase      string           `json:"phase,omitempty"`
	Observed   int64            `json:"observed,omitempty"`
	Conditions []WidgetPart     `json:"conditions,omitempty"`
	Counts     map[string]int32 `json:"counts,omitempty"`
	Last       *WidgetPart      `json:"last,omitempty"`
}

type Widget struct {
	metav1.TypeMeta   `json:",inline"`
	metav1.ObjectMeta `json:"metadata,omitempty"`

	Spec   WidgetSpec   `json:"spec,omitempty"`
	Status WidgetStatus `json:"status,omitempty"`
}

type WidgetList struct {
	metav1.TypeMeta `json:",inline"`
	metav1.ListMeta `json:"metadata,omitempty"`
	Items           []Widget `json:"items"`
}

func (w *Widget) DeepCopyObject() runtime.Object {
	if w == nil {
		return nil
	}
	out := deepCopyValue(reflect.ValueOf(*w)).Interface().(Widget)
	return &out
}

func (l *WidgetList) DeepCopyObject() runtime.Object {
	if l == nil {
		return nil
	}
	out := deepCopyValue(reflect.ValueOf(*l)).Interface().(WidgetList)
	return &out
}

func installWidget() {
	scheme.Scheme.AddKnownTypes(widgetGV, &Widget{}, &WidgetList{})
	metav1.AddToGroupVersion(scheme.Scheme, widgetGV)
}
