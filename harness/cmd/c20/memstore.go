package main

// An in-memory storage.Interface standing in for etcd3 below the REAL generic registry store
// (k8s.io/apiserver/pkg/registry/generic/registry.Store). It mirrors the etcd3 store where the store's
// Create/Update paths depend on it: objects are kept as bytes ENCODED WITH THE STORAGE CODEC handed over by
// the storage factory (so that what Update sees as "existing" has been through the real encode/decode),
// resource versions are a global revision counter, GuaranteedUpdate decodes the current state, calls
// tryUpdate once and writes (no concurrency here, so no retry loop is needed).

import (
	"context"
	"errors"
	"fmt"
	"reflect"
	"sort"
	"strings"
	"sync"

	"k8s.io/apimachinery/pkg/api/meta"
	"k8s.io/apimachinery/pkg/conversion"
	"k8s.io/apimachinery/pkg/runtime"
	"k8s.io/apimachinery/pkg/watch"
	"k8s.io/apiserver/pkg/storage"
	"k8s.io/apiserver/pkg/storage/etcd3"
)

type memEntry struct {
	data []byte
	rev  int64
}

type memStore struct {
	mu        sync.Mutex
	codec     runtime.Codec
	versioner storage.Versioner
	data      map[string]memEntry
	rev       int64
	newFunc   func() runtime.Object
}

func newMemStore(codec runtime.Codec, newFunc func() runtime.Object) *memStore {
	return &memStore{codec: codec, versioner: etcd3.APIObjectVersioner{}, data: map[string]memEntry{}, rev: 100, newFunc: newFunc}
}

var _ storage.Interface = &memStore{}

func (s *memStore) Versioner() storage.Versioner { return s.versioner }

func (s *memStore) decode(data []byte, out runtime.Object, rev int64) error {
	if _, err := conversion.EnforcePtr(out); err != nil {
		return err
	}
	if _, _, err := s.codec.Decode(data, nil, out); err != nil {
		return err
	}
	return s.versioner.UpdateObject(out, uint64(rev))
}

// Reset drops every object (one harness case = one fresh store content).
func (s *memStore) Reset() {
	s.mu.Lock()
	s.data = map[string]memEntry{}
	s.rev = 100
	s.mu.Unlock()
}

// Len is the number of stored objects.
func (s *memStore) Len() int {
	s.mu.Lock()
	defer s.mu.Unlock()
	return len(s.data)
}

// Raw returns the stored bytes of a key (what a later read decodes).
func (s *memStore) Raw(key string) ([]byte, bool) {
	s.mu.Lock()
	defer s.mu.Unlock()
	e, ok := s.data[key]
	return e.data, ok
}

// Seed writes an object directly (as a previous writer would have left it), bypassing every strategy.
func (s *memStore) Seed(key string, obj runtime.Object) error {
	s.mu.Lock()
	defer s.mu.Unlock()
	if err := s.versioner.PrepareObjectForStorage(obj); err != nil {
		return err
	}
	data, err := runtime.Encode(s.codec, obj)
	if err != nil {
		return err
	}
	s.rev++
	s.data[key] = memEntry{data: data, rev: s.rev}
	return nil
}

func (s *memStore) Create(ctx context.Context, key string, obj, out runtime.Object, ttl uint64) error {
	s.mu.Lock()
	defer s.mu.Unlock()
	if version, err := s.versioner.ObjectResourceVersion(obj); err == nil && version != 0 {
		return errors.New("resourceVersion should not be set on objects to be created")
	}
	if err := s.versioner.PrepareObjectForStorage(obj); err != nil {
		return fmt.Errorf("PrepareObjectForStorage failed: %v", err)
	}
	data, err := runtime.Encode(s.codec, obj)
	if err != nil {
		return err
	}
	if _, ok := s.data[key]; ok {
		return storage.NewKeyExistsError(key, 0)
	}
	s.rev++
	s.data[key] = memEntry{data: data, rev: s.rev}
	if out != nil {
		return s.decode(data, out, s.rev)
	}
	return nil
}

func (s *memStore) Delete(ctx context.Context, key string, out runtime.Object, preconditions *storage.Preconditions, validateDeletion storage.ValidateObjectFunc) error {
	s.mu.Lock()
	defer s.mu.Unlock()
	e, ok := s.data[key]
	if !ok {
		return storage.NewKeyNotFoundError(key, 0)
	}
	if err := s.decode(e.data, out, e.rev); err != nil {
		return err
	}
	if preconditions != nil {
		if err := preconditions.Check(key, out); err != nil {
			return err
		}
	}
	if validateDeletion != nil {
		if err := validateDeletion(ctx, out); err != nil {
			return err
		}
	}
	s.rev++
	delete(s.data, key)
	return nil
}

func (s *memStore) Watch(ctx context.Context, key string, resourceVersion string, p storage.SelectionPredicate) (watch.Interface, error) {
	return watch.NewFake(), nil
}

func (s *memStore) WatchList(ctx context.Context, key string, resourceVersion string, p storage.SelectionPredicate) (watch.Interface, error) {
	return watch.NewFake(), nil
}

func (s *memStore) Get(ctx context.Context, key string, resourceVersion string, out runtime.Object, ignoreNotFound bool) error {
	s.mu.Lock()
	defer s.mu.Unlock()
	e, ok := s.data[key]
	if !ok {
		if ignoreNotFound {
			return runtime.SetZeroValue(out)
		}
		return storage.NewKeyNotFoundError(key, 0)
	}
	return s.decode(e.data, out, e.rev)
}

func (s *memStore) list(prefix string, p storage.SelectionPredicate, listObj runtime.Object, exact bool) error {
	s.mu.Lock()
	defer s.mu.Unlock()
	listPtr, err := meta.GetItemsPtr(listObj)
	if err != nil {
		return err
	}
	v, err := conversion.EnforcePtr(listPtr)
	if err != nil || v.Kind() != reflect.Slice {
		return fmt.Errorf("need ptr to slice: %v", err)
	}
	keys := []string{}
	for k := range s.data {
		if (exact && k == prefix) || (!exact && strings.HasPrefix(k, prefix)) {
			keys = append(keys, k)
		}
	}
	sort.Strings(keys)
	for _, k := range keys {
		e := s.data[k]
		obj := s.newFunc()
		if err := s.decode(e.data, obj, e.rev); err != nil {
			return err
		}
		if matched, err := p.Matches(obj); err == nil && matched {
			v.Set(reflect.Append(v, reflect.ValueOf(obj).Elem()))
		}
	}
	return s.versioner.UpdateList(listObj, uint64(s.rev), "", nil)
}

func (s *memStore) GetToList(ctx context.Context, key string, resourceVersion string, p storage.SelectionPredicate, listObj runtime.Object) error {
	return s.list(key, p, listObj, true)
}

func (s *memStore) List(ctx context.Context, key string, resourceVersion string, p storage.SelectionPredicate, listObj runtime.Object) error {
	if !strings.HasSuffix(key, "/") {
		key += "/"
	}
	return s.list(key, p, listObj, false)
}

func (s *memStore) GuaranteedUpdate(ctx context.Context, key string, out runtime.Object, ignoreNotFound bool,
	preconditions *storage.Preconditions, tryUpdate storage.UpdateFunc, suggestion ...runtime.Object) error {
	s.mu.Lock()
	defer s.mu.Unlock()
	v, err := conversion.EnforcePtr(out)
	if err != nil {
		return fmt.Errorf("unable to convert output object to pointer: %v", err)
	}
	cur := reflect.New(v.Type()).Interface().(runtime.Object)
	resp := storage.ResponseMeta{}
	e, ok := s.data[key]
	if !ok {
		if !ignoreNotFound {
			return storage.NewKeyNotFoundError(key, 0)
		}
		if err := runtime.SetZeroValue(cur); err != nil {
			return err
		}
	} else {
		resp.ResourceVersion = uint64(e.rev)
		if err := s.decode(e.data, cur, e.rev); err != nil {
			return err
		}
	}
	if err := preconditions.Check(key, cur); err != nil {
		return err
	}
	ret, _, err := tryUpdate(cur, resp)
	if err != nil {
		return err
	}
	if err := s.versioner.PrepareObjectForStorage(ret); err != nil {
		return fmt.Errorf("PrepareObjectForStorage failed: %v", err)
	}
	data, err := runtime.Encode(s.codec, ret)
	if err != nil {
		return err
	}
	if ok && string(data) == string(e.data) {
		return s.decode(e.data, out, e.rev)
	}
	s.rev++
	s.data[key] = memEntry{data: data, rev: s.rev}
	return s.decode(data, out, s.rev)
}

func (s *memStore) Count(key string) (int64, error) {
	s.mu.Lock()
	defer s.mu.Unlock()
	n := int64(0)
	for k := range s.data {
		if strings.HasPrefix(k, key) {
			n++
		}
	}
	return n, nil
}
