package main

// Canonical renderings of Go values, a generic random filler and a generic deep copy (all by reflection, so
// that a kind added to rest.go later is exercised without touching the harness).
//
//   deepCanon  - injective up to reflect.DeepEqual on the value shapes API types use (nil and empty slices/maps
//                are rendered differently, pointers are followed): the model's notion of "=".
//   apiView    - the object as the API renders it (the scheme's JSON, omitempty): what a client can observe.

import (
	"encoding/json"
	"fmt"
	"math/rand"
	"reflect"
	"sort"
	"strconv"
	"strings"

	metav1 "k8s.io/apimachinery/pkg/apis/meta/v1"
)

func deepCanon(v reflect.Value) string {
	var b strings.Builder
	deepCanonTo(&b, v)
	return b.String()
}

func deepCanonTo(b *strings.Builder, v reflect.Value) {
	switch v.Kind() {
	case reflect.Invalid:
		b.WriteString("<invalid>")
	case reflect.Bool:
		b.WriteString(strconv.FormatBool(v.Bool()))
	case reflect.Int, reflect.Int8, reflect.Int16, reflect.Int32, reflect.Int64:
		b.WriteString(strconv.FormatInt(v.Int(), 10))
	case reflect.Uint, reflect.Uint8, reflect.Uint16, reflect.Uint32, reflect.Uint64, reflect.Uintptr:
		b.WriteString(strconv.FormatUint(v.Uint(), 10))
	case reflect.Float32, reflect.Float64:
		b.WriteString(strconv.FormatFloat(v.Float(), 'g', -1, 64))
	case reflect.String:
		b.WriteString(strconv.Quote(v.String()))
	case reflect.Ptr, reflect.Interface:
		if v.IsNil() {
			b.WriteString("nil")
		} else {
			b.WriteString("&")
			deepCanonTo(b, v.Elem())
		}
	case reflect.Slice:
		if v.IsNil() {
			b.WriteString("nil")
			return
		}
		fallthrough
	case reflect.Array:
		b.WriteString("[")
		for i := 0; i < v.Len(); i++ {
			if i > 0 {
				b.WriteString(",")
			}
			deepCanonTo(b, v.Index(i))
		}
		b.WriteString("]")
	case reflect.Map:
		if v.IsNil() {
			b.WriteString("nil")
			return
		}
		type kv struct{ k, v string }
		var kvs []kv
		for _, k := range v.MapKeys() {
			kvs = append(kvs, kv{deepCanon(k), deepCanon(v.MapIndex(k))})
		}
		sort.Slice(kvs, func(i, j int) bool { return kvs[i].k < kvs[j].k })
		b.WriteString("{")
		for i, e := range kvs {
			if i > 0 {
				b.WriteString(",")
			}
			b.WriteString(e.k + ":" + e.v)
		}
		b.WriteString("}")
	case reflect.Struct:
		if t, ok := v.Interface().(metav1.Time); ok {
			b.WriteString("time(" + strconv.FormatInt(t.Unix(), 10) + ")")
			return
		}
		b.WriteString(v.Type().Name() + "{")
		for i := 0; i < v.NumField(); i++ {
			if v.Type().Field(i).PkgPath != "" {
				continue // unexported
			}
			if i > 0 {
				b.WriteString(",")
			}
			b.WriteString(v.Type().Field(i).Name + ":")
			deepCanonTo(b, v.Field(i))
		}
		b.WriteString("}")
	default:
		b.WriteString(fmt.Sprintf("<%s>", v.Kind()))
	}
}

// semCanon renders a value so that two values have the same rendering iff apiequality.Semantic.DeepEqual holds
// (on the shapes API types use): nil and empty slices/maps/byte strings coincide, pointers are followed (nil stays
// distinct from a pointer to a zero value), metav1.Time by instant, everything else exact.
func semCanon(v reflect.Value) string {
	var b strings.Builder
	semCanonTo(&b, v)
	return b.String()
}

func semCanonTo(b *strings.Builder, v reflect.Value) {
	switch v.Kind() {
	case reflect.Ptr, reflect.Interface:
		if v.IsNil() {
			b.WriteString("nil")
		} else {
			b.WriteString("&")
			semCanonTo(b, v.Elem())
		}
	case reflect.Slice:
		if v.IsNil() || v.Len() == 0 {
			b.WriteString("∅")
			return
		}
		fallthrough
	case reflect.Array:
		b.WriteString("[")
		for i := 0; i < v.Len(); i++ {
			if i > 0 {
				b.WriteString(",")
			}
			semCanonTo(b, v.Index(i))
		}
		b.WriteString("]")
	case reflect.Map:
		if v.IsNil() || v.Len() == 0 {
			b.WriteString("∅")
			return
		}
		type kv struct{ k, v string }
		var kvs []kv
		for _, k := range v.MapKeys() {
			kvs = append(kvs, kv{semCanon(k), semCanon(v.MapIndex(k))})
		}
		sort.Slice(kvs, func(i, j int) bool { return kvs[i].k < kvs[j].k })
		b.WriteString("{")
		for i, e := range kvs {
			if i > 0 {
				b.WriteString(",")
			}
			b.WriteString(e.k + ":" + e.v)
		}
		b.WriteString("}")
	case reflect.Struct:
		if t, ok := v.Interface().(metav1.Time); ok {
			b.WriteString("time(" + strconv.FormatInt(t.UTC().UnixNano(), 10) + ")")
			return
		}
		b.WriteString(v.Type().Name() + "{")
		for i := 0; i < v.NumField(); i++ {
			if v.Type().Field(i).PkgPath != "" {
				continue
			}
			if i > 0 {
				b.WriteString(",")
			}
			b.WriteString(v.Type().Field(i).Name + ":")
			semCanonTo(b, v.Field(i))
		}
		b.WriteString("}")
	default:
		deepCanonTo(b, v)
	}
}

// canonJSON re-marshals any JSON-ish value with sorted keys.
func canonJSON(v interface{}) string {
	b, _ := json.Marshal(v)
	return string(b)
}

// ---------------------------------------------------------------------------------------------------
// generic random filler

var (
	strPool   = []string{"", "a", "b", "https://x:6443", "*", "-pods", "default"}
	keyPool   = []string{"k1", "k2", "example.com/k3"}
	intPool   = []int64{0, 1, 2, 7, 100, -1}
	bytesPool = [][]byte{nil, []byte("k"), []byte("cert"), {0, 255}}
)

// fill sets v (settable) to a random value of its type: small pools so that independent draws collide.
// Empty (non-nil) slices, maps and byte strings are NOT produced here: objects built from fill are then
// rendered to JSON, which is where explicit empties are injected by the explicit-empty stream.
func fill(r *rand.Rand, v reflect.Value, depth int) {
	if !v.CanSet() {
		return
	}
	if _, ok := v.Interface().(metav1.Time); ok {
		return
	}
	switch v.Kind() {
	case reflect.Bool:
		v.SetBool(r.Intn(2) == 0)
	case reflect.Int, reflect.Int8, reflect.Int16, reflect.Int32, reflect.Int64:
		x := intPool[r.Intn(len(intPool))]
		if v.OverflowInt(x) {
			x = 1
		}
		v.SetInt(x)
	case reflect.Uint, reflect.Uint8, reflect.Uint16, reflect.Uint32, reflect.Uint64:
		v.SetUint(uint64(r.Intn(3)))
	case reflect.Float32, reflect.Float64:
		v.SetFloat(float64(r.Intn(3)))
	case reflect.String:
		v.SetString(strPool[r.Intn(len(strPool))])
	case reflect.Ptr:
		if r.Intn(2) == 0 || depth > 5 {
			v.Set(reflect.Zero(v.Type()))
			return
		}
		p := reflect.New(v.Type().Elem())
		fill(r, p.Elem(), depth+1)
		v.Set(p)
	case reflect.Slice:
		if v.Type().Elem().Kind() == reflect.Uint8 {
			b := bytesPool[r.Intn(len(bytesPool))]
			if b == nil {
				v.Set(reflect.Zero(v.Type()))
			} else {
				v.SetBytes(append([]byte{}, b...))
			}
			return
		}
		n := r.Intn(3)
		if depth > 5 {
			n = 0
		}
		if n == 0 {
			v.Set(reflect.Zero(v.Type()))
			return
		}
		s := reflect.MakeSlice(v.Type(), n, n)
		for i := 0; i < n; i++ {
			fill(r, s.Index(i), depth+1)
		}
		v.Set(s)
	case reflect.Map:
		n := r.Intn(3)
		if n == 0 || v.Type().Key().Kind() != reflect.String {
			v.Set(reflect.Zero(v.Type()))
			return
		}
		m := reflect.MakeMap(v.Type())
		for i := 0; i < n; i++ {
			k := reflect.New(v.Type().Key()).Elem()
			k.SetString(keyPool[r.Intn(len(keyPool))])
			e := reflect.New(v.Type().Elem()).Elem()
			fill(r, e, depth+1)
			m.SetMapIndex(k, e)
		}
		v.Set(m)
	case reflect.Struct:
		for i := 0; i < v.NumField(); i++ {
			if r.Intn(3) == 0 {
				continue // leave the zero value
			}
			fill(r, v.Field(i), depth+1)
		}
	}
}

// mutate changes a random part of v (a value built by fill): it walks into a random member (struct field, list
// element, pointer target), applies a structured edit to a map or list it meets (edits.go), or re-fills.
func mutate(r *rand.Rand, v reflect.Value, depth int) {
	if !v.CanSet() {
		return
	}
	switch v.Kind() {
	case reflect.Struct:
		if v.NumField() > 0 && depth < 4 && r.Intn(4) != 0 {
			f := v.Field(r.Intn(v.NumField()))
			if f.CanSet() {
				mutate(r, f, depth+1)
				return
			}
		}
	case reflect.Ptr:
		if !v.IsNil() && r.Intn(2) == 0 {
			mutate(r, v.Elem(), depth+1)
			return
		}
	case reflect.Map:
		if r.Intn(3) != 0 && editMapValue(r, v) {
			return
		}
	case reflect.Slice:
		if v.Len() > 0 && v.Type().Elem().Kind() != reflect.Uint8 {
			switch r.Intn(3) {
			case 0:
				// lists are shared with nothing else here (objects are freshly decoded), edit an element in place
				mutate(r, v.Index(r.Intn(v.Len())), depth+1)
				return
			case 1:
				if editSliceValue(r, v, depth) {
					return
				}
			}
		}
	}
	fill(r, v, depth)
}

// ---------------------------------------------------------------------------------------------------
// generic deep copy that keeps nil and empty apart (used by the harness-defined probe kind)

func deepCopyValue(v reflect.Value) reflect.Value {
	switch v.Kind() {
	case reflect.Ptr:
		if v.IsNil() {
			return reflect.Zero(v.Type())
		}
		p := reflect.New(v.Type().Elem())
		p.Elem().Set(deepCopyValue(v.Elem()))
		return p
	case reflect.Slice:
		if v.IsNil() {
			return reflect.Zero(v.Type())
		}
		s := reflect.MakeSlice(v.Type(), v.Len(), v.Len())
		for i := 0; i < v.Len(); i++ {
			s.Index(i).Set(deepCopyValue(v.Index(i)))
		}
		return s
	case reflect.Map:
		if v.IsNil() {
			return reflect.Zero(v.Type())
		}
		m := reflect.MakeMapWithSize(v.Type(), v.Len())
		for _, k := range v.MapKeys() {
			m.SetMapIndex(k, deepCopyValue(v.MapIndex(k)))
		}
		return m
	case reflect.Struct:
		if t, ok := v.Interface().(metav1.ObjectMeta); ok {
			return reflect.ValueOf(*t.DeepCopy())
		}
		out := reflect.New(v.Type()).Elem()
		out.Set(v) // copies unexported fields shallowly (time.Time etc.)
		for i := 0; i < v.NumField(); i++ {
			if out.Field(i).CanSet() {
				out.Field(i).Set(deepCopyValue(v.Field(i)))
			}
		}
		return out
	default:
		return v
	}
}
