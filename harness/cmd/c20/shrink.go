package main

// Shrinking keeps the failure CLASS: fewer requests, then document parts (map members, list elements at the
// same path in every document of the case) are removed while the case still fails the same way.

import (
	"encoding/json"
	"sort"

	"verifharness/rig"
)

type pathT []interface{} // string = map key, int = list index

func collectPaths(v interface{}, prefix pathT, out *[]pathT) {
	switch t := v.(type) {
	case map[string]interface{}:
		keys := []string{}
		for k := range t {
			keys = append(keys, k)
		}
		sort.Strings(keys)
		for _, k := range keys {
			p := append(append(pathT{}, prefix...), k)
			*out = append(*out, p)
			collectPaths(t[k], p, out)
		}
	case []interface{}:
		for i := len(t) - 1; i >= 0; i-- {
			p := append(append(pathT{}, prefix...), i)
			*out = append(*out, p)
			collectPaths(t[i], p, out)
		}
	}
}

// deletePath removes the member at p (returns the new root; ok=false if p is absent).
func deletePath(root interface{}, p pathT) (interface{}, bool) {
	if len(p) == 0 {
		return root, false
	}
	switch k := p[0].(type) {
	case string:
		m, ok := root.(map[string]interface{})
		if !ok {
			return root, false
		}
		child, ok := m[k]
		if !ok {
			return root, false
		}
		if len(p) == 1 {
			delete(m, k)
			return m, true
		}
		nc, ok := deletePath(child, p[1:])
		m[k] = nc
		return m, ok
	case int:
		l, ok := root.([]interface{})
		if !ok || k >= len(l) {
			return root, false
		}
		if len(p) == 1 {
			return append(append([]interface{}{}, l[:k]...), l[k+1:]...), true
		}
		nc, ok := deletePath(l[k], p[1:])
		l[k] = nc
		return l, ok
	}
	return root, false
}

func protected(p pathT) bool {
	if len(p) == 1 && p[0] == "metadata" {
		return true
	}
	if len(p) == 2 && p[0] == "metadata" {
		switch p[1] {
		case "name", "namespace", "uid", "creationTimestamp":
			return true
		}
	}
	return false
}

func pathKey(p pathT) string { b, _ := json.Marshal(p); return string(b) }

func (h *H) shrink(cs Case, class string) Case {
	fails := func(x Case) bool {
		f := h.eval(x)
		return f != nil && f.Class == class
	}
	if len(cs.Steps) > 1 {
		cs.Steps = rig.ShrinkList(cs.Steps, func(l []Step) bool { x := cs; x.Steps = l; return len(l) > 0 && fails(x) })
	}
	docs := func(x Case) []map[string]interface{} {
		var ds []map[string]interface{}
		if string(x.Stored) != "null" && len(x.Stored) > 0 {
			ds = append(ds, toMap(x.Stored))
		} else {
			ds = append(ds, nil)
		}
		for _, st := range x.Steps {
			ds = append(ds, toMap(st.Submitted))
		}
		return ds
	}
	build := func(x Case, ds []map[string]interface{}) Case {
		y := Case{Served: x.Served, Stream: x.Stream, Stored: x.Stored}
		if ds[0] != nil {
			y.Stored, _ = json.Marshal(ds[0])
		}
		for i, st := range x.Steps {
			b, _ := json.Marshal(ds[i+1])
			y.Steps = append(y.Steps, Step{Op: st.Op, Submitted: b, MetaValid: st.MetaValid})
		}
		return y
	}
	for round := 0; round < 4; round++ {
		progress := false
		seen := map[string]bool{}
		var paths []pathT
		for _, d := range docs(cs) {
			if d != nil {
				var ps []pathT
				collectPaths(d, nil, &ps)
				for _, p := range ps {
					if !seen[pathKey(p)] && !protected(p) {
						seen[pathKey(p)] = true
						paths = append(paths, p)
					}
				}
			}
		}
		for _, p := range paths {
			ds := docs(cs)
			any := false
			for i, d := range ds {
				if d == nil {
					continue
				}
				nd, ok := deletePath(d, p)
				if ok {
					any = true
					ds[i] = nd.(map[string]interface{})
				}
			}
			if !any {
				continue
			}
			if y := build(cs, ds); fails(y) {
				cs = y
				progress = true
			}
		}
		if !progress {
			break
		}
	}
	return cs
}
