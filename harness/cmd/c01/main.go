// C01 harness: real rule matching (pkg/apis/proxy/v1alpha1 field matchers, clusters.MatchPolicies,
// ClusterInfo.MatchAttributes) against the Lean model KG.Model.Match, judged by the declarative KG.Spec.Match.
package main

import (
	"context"
	"encoding/json"
	"fmt"
	"math/rand"
	"os"
	"path/filepath"
	"sort"
	"sync"

	proxyv1alpha1 "github.com/kubewharf/kubegateway/pkg/apis/proxy/v1alpha1"
	"github.com/kubewharf/kubegateway/pkg/clusters"
	upstreamclusteradmission "github.com/kubewharf/kubegateway/plugin/admission/upstreamcluster"
	metav1 "k8s.io/apimachinery/pkg/apis/meta/v1"
	"k8s.io/apimachinery/pkg/runtime"
	"k8s.io/apimachinery/pkg/types"
	"k8s.io/apiserver/pkg/admission"

	mg "verifharness/matchgen"
	"verifharness/rig"
)

// FieldCase is one field-matcher evaluation (all strings hex on the wire).
type FieldCase struct {
	Kind  string              `json:"kind"` // "field"
	Field string              `json:"field"`
	Rules []string            `json:"rules"`
	Req   string              `json:"req"`
	Reqs  []string            `json:"reqs"`
	Sub   string              `json:"sub"`
	SAs   []map[string]string `json:"sas"`
}

type PolicyCfg struct {
	FC      string   `json:"fc"`
	Subset  []string `json:"subset"`
	LogMode string   `json:"logMode"`
}

type MatchCase struct {
	Kind     string                     `json:"kind"` // "match"
	Attrs    map[string]interface{}     `json:"attrs"`
	Policies [][]map[string]interface{} `json:"policies"`
	Cfgs     []PolicyCfg                `json:"cfgs"`    // per policy: flow-control schema name, upstream subset, log mode (hex)
	All      []string                   `json:"all"`     // (unused by the code path driven here: endpoints are not synced)
	Logging  string                     `json:"logging"` // spec.logging.mode
}

func implField(fc FieldCase) bool {
	rules := unhex(fc.Rules)
	if fc.Rules == nil {
		rules = nil
	}
	req := rig.UnHex(fc.Req)
	switch fc.Field {
	case "verb":
		return proxyv1alpha1.VerbMatches(rules, req)
	case "apiGroup":
		return proxyv1alpha1.APIGroupMatches(rules, req)
	case "resource":
		return proxyv1alpha1.ResourceMatches(rules, req, rig.UnHex(fc.Sub))
	case "resourceName":
		return proxyv1alpha1.ResourceNameMatches(rules, req)
	case "user":
		var sas []proxyv1alpha1.ServiceAccountRef
		for _, s := range fc.SAs {
			sas = append(sas, proxyv1alpha1.ServiceAccountRef{Namespace: rig.UnHex(s["ns"]), Name: rig.UnHex(s["name"])})
		}
		return proxyv1alpha1.UserOrServiceAccountMatches(rules, sas, req)
	case "userGroup":
		return proxyv1alpha1.UserGroupMatches(rules, unhex(fc.Reqs))
	case "url":
		return proxyv1alpha1.NonResourceURLMatches(rules, req)
	}
	panic("field " + fc.Field)
}

func unhex(l []string) []string {
	r := make([]string, len(l))
	for i, s := range l {
		r[i] = rig.UnHex(s)
	}
	return r
}

func readable(fc FieldCase) string {
	return fmt.Sprintf("%s rules=%q req=%q reqs=%q sub=%q sas=%v", fc.Field, unhex(fc.Rules), rig.UnHex(fc.Req), unhex(fc.Reqs), rig.UnHex(fc.Sub), fc.SAs)
}

func runField(c *rig.Ctx, fc FieldCase, record bool) bool {
	var impl bool
	msg, panicked := rig.Recover(func() { impl = implField(fc) })
	var m struct{ Model, Spec bool }
	if err := c.Model("C01.field", fc, &m); err != nil {
		c.Fail(rig.Failure{Kind: "diff", Class: "c01.model-error", What: "model error " + err.Error(), Case: fc})
		return false
	}
	ok := true
	if panicked {
		c.Fail(rig.Failure{Kind: "judge", Class: "c01.panic", What: "matcher panicked: " + msg + " on " + readable(fc), Case: fc})
		return false
	}
	if impl != m.Spec {
		ok = false
		if record {
			c.Fail(rig.Failure{Kind: "judge", Class: "c01.field." + fc.Field, Case: fc, Impl: impl, Model: m.Spec,
				What: fmt.Sprintf("documented semantics say %v, the code answers %v for %s", m.Spec, impl, readable(fc))})
		}
	} else if impl != m.Model {
		ok = false
		if record {
			c.Fail(rig.Failure{Kind: "diff", Class: "c01.field." + fc.Field, Case: fc, Impl: impl, Model: m.Model,
				What: fmt.Sprintf("model %v, code %v for %s", m.Model, impl, readable(fc))})
		}
	}
	return ok
}

// shrinkField minimises a failing field case (drop entries, drop request groups, drop service accounts).
func shrinkField(c *rig.Ctx, fc FieldCase) FieldCase {
	fails := func(x FieldCase) bool { return !runField(c, x, false) }
	fc.Rules = rig.ShrinkList(fc.Rules, func(l []string) bool { x := fc; x.Rules = l; return fails(x) })
	fc.Reqs = rig.ShrinkList(fc.Reqs, func(l []string) bool { x := fc; x.Reqs = l; return fails(x) })
	fc.SAs = rig.ShrinkList(fc.SAs, func(l []map[string]string) bool { x := fc; x.SAs = l; return fails(x) })
	return fc
}

func policiesOf(mc MatchCase) []proxyv1alpha1.DispatchPolicy {
	var ps []proxyv1alpha1.DispatchPolicy
	for i, p := range mc.Policies {
		dp := proxyv1alpha1.DispatchPolicy{FlowControlSchemaName: fmt.Sprintf("fc-%d", i)}
		for _, r := range p {
			b, _ := json.Marshal(r)
			var w mg.RuleWire
			json.Unmarshal(b, &w)
			dp.Rules = append(dp.Rules, w.Rule())
		}
		ps = append(ps, dp)
	}
	return ps
}

func attrsOf(m map[string]interface{}) mg.Attrs {
	b, _ := json.Marshal(m)
	var w struct {
		Verb, User, APIGroup, Resource, Subresource, Name, Path string
		Groups                                                  []string
		IsResource                                              bool
	}
	json.Unmarshal(b, &w)
	return mg.Attrs{Verb: rig.UnHex(w.Verb), User: rig.UnHex(w.User), Groups: unhex(w.Groups), IsResource: w.IsResource,
		APIGroup: rig.UnHex(w.APIGroup), Resource: rig.UnHex(w.Resource), Subresource: rig.UnHex(w.Subresource),
		Name: rig.UnHex(w.Name), Path: rig.UnHex(w.Path)}
}

type matchOut struct {
	Idx   int      `json:"idx"`
	Rules [][]bool `json:"rules"`
}

func runMatch(c *rig.Ctx, mc MatchCase, record bool) bool {
	ps := policiesOf(mc)
	attrs := attrsOf(mc.Attrs).Record()
	impl := matchOut{Idx: -1}
	var viaCluster = -2
	var clusterErr string
	msg, panicked := rig.Recover(func() {
		got := clusters.MatchPolicies(attrs, ps)
		for i := range ps {
			if got == &ps[i] {
				impl.Idx = i
			}
			var row []bool
			for j := range ps[i].Rules {
				row = append(row, clusters.RuleMatches(attrs, &ps[i].Rules[j]))
			}
			if row == nil {
				row = []bool{}
			}
			impl.Rules = append(impl.Rules, row)
		}
		if got != nil && impl.Idx < 0 {
			impl.Idx = -3 // a policy outside the list
		}
		// the same through a ClusterInfo whose current policy list is ps
		ci := clusters.NewEmptyClusterInfo("c", nil, nil, "", nil)
		defer ci.Stop()
		ci.Sync(&proxyv1alpha1.UpstreamCluster{ObjectMeta: metav1.ObjectMeta{Name: "c"},
			Spec: proxyv1alpha1.UpstreamClusterSpec{DispatchPolicies: ps}})
		picker, err := ci.MatchAttributes(attrs)
		if err != nil {
			viaCluster = -1
			clusterErr = err.Error()
		} else {
			fmt.Sscanf(picker.FlowControlName(), "fc-%d", &viaCluster)
		}
	})
	if impl.Rules == nil {
		impl.Rules = [][]bool{}
	}
	if panicked {
		c.Fail(rig.Failure{Kind: "judge", Class: "c01.panic", What: "MatchPolicies panicked: " + msg, Case: mc})
		return false
	}
	var m struct {
		Idx       int      `json:"idx"`
		Rules     [][]bool `json:"rules"`
		SpecIdx   int      `json:"spec_idx"`
		SpecRules [][]bool `json:"spec_rules"`
	}
	if err := c.Model("C01.match", mc, &m); err != nil {
		c.Fail(rig.Failure{Kind: "diff", Class: "c01.model-error", What: "model error " + err.Error(), Case: mc})
		return false
	}
	fail := func(kind, class, what string, model interface{}) bool {
		if record {
			c.Fail(rig.Failure{Kind: kind, Class: class, What: what, Case: mc, Impl: impl, Model: model})
		}
		return false
	}
	if rig.Canon(impl.Rules) != rig.Canon(m.SpecRules) {
		return fail("judge", "c01.rule", fmt.Sprintf("RuleMatches differs from the documented semantics: code %v, spec %v", impl.Rules, m.SpecRules), m.SpecRules)
	}
	if impl.Idx != m.SpecIdx {
		return fail("judge", "c01.first-match", fmt.Sprintf("MatchPolicies chose policy %d, the first policy with a matching rule is %d", impl.Idx, m.SpecIdx), m.SpecIdx)
	}
	if viaCluster != m.SpecIdx {
		return fail("judge", "c01.match-attributes", fmt.Sprintf("ClusterInfo.MatchAttributes routed under policy %d (%s), the first matching policy is %d", viaCluster, clusterErr, m.SpecIdx), m.SpecIdx)
	}
	if viaCluster == -1 && clusterErr != clusters.ErrNoRouterRuleMatches.Error() {
		return fail("judge", "c01.no-match-error", "no policy matches but the error is "+clusterErr, nil)
	}
	// MatchAttributes with the policies' own flow-control names, subsets and log modes
	if len(mc.Cfgs) == len(mc.Policies) {
		ps2 := policiesOf(mc)
		for i := range ps2 {
			ps2[i].FlowControlSchemaName = rig.UnHex(mc.Cfgs[i].FC)
			ps2[i].UpstreamSubset = unhex(mc.Cfgs[i].Subset)
			ps2[i].LogMode = proxyv1alpha1.LogMode(rig.UnHex(mc.Cfgs[i].LogMode))
		}
		var got struct {
			Matched bool   `json:"matched"`
			FC      string `json:"fc"`
			Log     bool   `json:"log"`
		}
		rig.Recover(func() {
			ci := clusters.NewEmptyClusterInfo("c", nil, nil, "", nil)
			defer ci.Stop()
			ci.Sync(&proxyv1alpha1.UpstreamCluster{ObjectMeta: metav1.ObjectMeta{Name: "c"},
				Spec: proxyv1alpha1.UpstreamClusterSpec{DispatchPolicies: ps2, Logging: proxyv1alpha1.LoggingConfig{Mode: proxyv1alpha1.LogMode(rig.UnHex(mc.Logging))}}})
			if picker, err := ci.MatchAttributes(attrs); err == nil {
				got.Matched, got.FC, got.Log = true, rig.Hex(picker.FlowControlName()), picker.EnableLog()
			}
		})
		var ma struct {
			Matched bool   `json:"matched"`
			Policy  int    `json:"policy"`
			FC      string `json:"fc"`
			Log     bool   `json:"log"`
		}
		if err := c.Model("C01.attrs", mc, &ma); err != nil {
			return fail("diff", "c01.model-error", "model error "+err.Error(), nil)
		}
		if got.Matched != ma.Matched || got.FC != ma.FC || got.Log != ma.Log {
			return fail("diff", "c01.match-attributes-fields", fmt.Sprintf("MatchAttributes: model matched=%v fc=%q log=%v, code matched=%v fc=%q log=%v",
				ma.Matched, rig.UnHex(ma.FC), ma.Log, got.Matched, rig.UnHex(got.FC), got.Log), ma)
		}
		if ma.Matched && ma.Policy != m.SpecIdx {
			return fail("diff", "c01.match-attributes-fields", "model's MatchAttributes policy differs from firstMatchSpec", ma)
		}
	}
	if impl.Idx != m.Idx || rig.Canon(impl.Rules) != rig.Canon(m.Rules) {
		return fail("diff", "c01.match", fmt.Sprintf("model idx %d rules %v, code idx %d rules %v", m.Idx, m.Rules, impl.Idx, impl.Rules), m)
	}
	return true
}

func shrinkMatch(c *rig.Ctx, mc MatchCase) MatchCase {
	fails := func(x MatchCase) bool { return !runMatch(c, x, false) }
	// shrink policies together with their cfgs: index lists
	idx := make([]int, len(mc.Policies))
	for i := range idx {
		idx[i] = i
	}
	sel := func(l []int) MatchCase {
		x := mc
		x.Policies, x.Cfgs = [][]map[string]interface{}{}, []PolicyCfg{}
		for _, i := range l {
			x.Policies = append(x.Policies, mc.Policies[i])
			if len(mc.Cfgs) == len(mc.Policies) {
				x.Cfgs = append(x.Cfgs, mc.Cfgs[i])
			}
		}
		return x
	}
	mc = sel(rig.ShrinkList(idx, func(l []int) bool { return fails(sel(l)) }))
	for i := range mc.Policies {
		i := i
		mc.Policies[i] = rig.ShrinkList(mc.Policies[i], func(l []map[string]interface{}) bool {
			x := mc
			x.Policies = append([][]map[string]interface{}(nil), mc.Policies...)
			x.Policies[i] = l
			return fails(x)
		})
	}
	return mc
}

func genField(c *rig.Ctx, raw bool) FieldCase {
	r := c.Rng
	f := rig.Pick(r, []string{"verb", "apiGroup", "resource", "resourceName", "user", "userGroup", "url"})
	fc := FieldCase{Kind: "field", Field: f, Rules: rig.HexList(mg.List(r, raw)), Req: rig.Hex(mg.Request(r, raw)), Reqs: []string{}, SAs: []map[string]string{}}
	switch f {
	case "resource":
		if r.Intn(2) == 0 {
			sub := rig.Pick(r, []string{"s", "t", "status"})
			res := rig.Pick(r, []string{"a", "pods", "b"})
			fc.Sub = rig.Hex(sub)
			fc.Req = rig.Hex(res + "/" + sub)
		}
	case "user":
		for _, sa := range mg.SAs(r) {
			fc.SAs = append(fc.SAs, map[string]string{"ns": rig.Hex(sa.Namespace), "name": rig.Hex(sa.Name)})
		}
	case "userGroup":
		for i, n := 0, r.Intn(4); i < n; i++ {
			fc.Reqs = append(fc.Reqs, rig.Hex(mg.Request(r, raw)))
		}
	}
	return fc
}

func genMatch(c *rig.Ctx, raw bool) MatchCase {
	r := c.Rng
	mc := MatchCase{Kind: "match", Attrs: mg.GenAttrs(r, raw).JSON(), Policies: [][]map[string]interface{}{}, Cfgs: []PolicyCfg{}}
	for i, n := 0, r.Intn(5); i < n; i++ {
		p := []map[string]interface{}{}
		for j, k := 0, r.Intn(4); j < k; j++ {
			p = append(p, mg.RuleJSON(mg.Rule(r, raw)))
		}
		if len(p) > 0 && r.Intn(2) == 0 {
			// aim the request at one of the rules generated so far
			var w mg.RuleWire
			b, _ := json.Marshal(p[r.Intn(len(p))])
			json.Unmarshal(b, &w)
			mc.Attrs = mg.AttrsFor(r, w.Rule(), raw).JSON()
		}
		mc.Policies = append(mc.Policies, p)
		mc.Cfgs = append(mc.Cfgs, PolicyCfg{FC: rig.Hex(rig.Pick(r, []string{"", "", "a", "system-default", "limit-1"})),
			Subset: rig.HexList(rig.Pick(r, [][]string{{}, {}, {"e1"}, {"e1", "e2"}})), LogMode: rig.Hex(rig.Pick(r, []string{"", "on", "off", "ON", "x"}))})
	}
	mc.Logging = rig.Hex(rig.Pick(r, []string{"", "on", "off", "Off"}))
	mc.All = []string{}
	return mc
}

// ---------------------------------------------------------------------------------------------
// sequences on ONE long-lived ClusterInfo: "the decision depends only on the request attributes and the cluster's current
// policy list" — not on the requests served before, nor on earlier policy lists

type SeqStep struct {
	Sync  *int                   `json:"sync,omitempty"`  // install policy list Versions[*Sync]
	Attrs map[string]interface{} `json:"attrs,omitempty"` // or route this request
	// metadata of the object delivered by a sync step, as the control plane would set it: the generation (0 = not set; a
	// re-created object restarts at 1), its uid, and whether the object went through the admission plugin (defaulting +
	// rule normalisation) on its way into the store. None of them may influence routing: the expected answer is always
	// computed from the SUBMITTED policy list.
	Gen   int64  `json:"gen,omitempty"`
	UID   string `json:"uid,omitempty"`
	Admit bool   `json:"admit,omitempty"`
}

var (
	admScheme = runtime.NewScheme()
	admPlugin admission.MutationInterface
)

// admitted passes the object through the real admission plugin as a CREATE (old == nil) or an UPDATE of old.
func admitted(uc, old *proxyv1alpha1.UpstreamCluster) error {
	var oldObj runtime.Object
	op := admission.Create
	var opts runtime.Object = &metav1.CreateOptions{}
	if old != nil {
		oldObj, op, opts = old, admission.Update, &metav1.UpdateOptions{}
	}
	attrs := admission.NewAttributesRecord(uc, oldObj, proxyv1alpha1.SchemeGroupVersion.WithKind("UpstreamCluster"), "", "c",
		proxyv1alpha1.SchemeGroupVersion.WithResource("upstreamclusters"), "", op, opts, false, nil)
	return admPlugin.Admit(context.Background(), attrs, admission.NewObjectInterfacesFromScheme(admScheme))
}

type SeqCase struct {
	Kind     string                       `json:"kind"` // "seq"
	Versions [][][]map[string]interface{} `json:"versions"`
	Steps    []SeqStep                    `json:"steps"`
}

func runSeq(c *rig.Ctx, sc SeqCase, record bool) bool {
	fail := func(kind, class, what string) bool {
		if record {
			c.Fail(rig.Failure{Kind: kind, Class: class, What: what, Case: sc})
		}
		return false
	}
	var ci *clusters.ClusterInfo
	msg, panicked := rig.Recover(func() { ci = clusters.NewEmptyClusterInfo("c", nil, nil, "", nil) })
	if panicked {
		return fail("judge", "c01.panic", "NewEmptyClusterInfo panicked: "+msg)
	}
	defer ci.Stop()
	cur := -1
	var stored *proxyv1alpha1.UpstreamCluster
	how := ""
	for k, st := range sc.Steps {
		if st.Sync != nil {
			ps := policiesOf(MatchCase{Policies: sc.Versions[*st.Sync]})
			uc := &proxyv1alpha1.UpstreamCluster{ObjectMeta: metav1.ObjectMeta{Name: "c", Generation: st.Gen, UID: types.UID(st.UID)}, Spec: proxyv1alpha1.UpstreamClusterSpec{DispatchPolicies: ps}}
			if st.Admit {
				old := stored
				if old != nil && old.UID != uc.UID {
					old = nil // another uid: the object was deleted and created again
				}
				var err error
				msg, panicked := rig.Recover(func() { err = admitted(uc, old) })
				if panicked {
					return fail("judge", "c01.panic", fmt.Sprintf("step %d: the admission plugin panicked: %s", k, msg))
				}
				if err != nil {
					continue // refused: the stored object, and what is in force, stay as they are
				}
			}
			cur, stored = *st.Sync, uc.DeepCopy()
			how = fmt.Sprintf("delivered with generation %d, uid %q, admitted=%v", st.Gen, st.UID, st.Admit)
			ci.Sync(uc)
			continue
		}
		if cur < 0 {
			continue
		}
		got := -1
		msg, panicked := rig.Recover(func() {
			if picker, err := ci.MatchAttributes(attrsOf(st.Attrs).Record()); err == nil {
				got = -3
				fmt.Sscanf(picker.FlowControlName(), "fc-%d", &got)
			}
		})
		if panicked {
			return fail("judge", "c01.panic", fmt.Sprintf("step %d: MatchAttributes panicked: %s", k, msg))
		}
		var m struct {
			Idx     int `json:"idx"`
			SpecIdx int `json:"spec_idx"`
		}
		if err := c.Model("C01.match", MatchCase{Kind: "match", Attrs: st.Attrs, Policies: sc.Versions[cur]}, &m); err != nil {
			return fail("diff", "c01.model-error", "model error "+err.Error())
		}
		if got != m.SpecIdx {
			return fail("judge", "c01.sequence", fmt.Sprintf("step %d: on the long-lived ClusterInfo the request is routed under policy %d, but the first policy of the CURRENT list (version %d) with a matching rule is %d (that list was %s) — the decision depends on something else than the request and the current policy list",
				k, got, cur, m.SpecIdx, how))
		}
	}
	return true
}

// variant changes exactly one attribute of a request (what a cache keyed by too few attributes would miss)
func variant(r *rand.Rand, a mg.Attrs, raw bool) mg.Attrs {
	b := mg.GenAttrs(r, raw)
	switch r.Intn(9) {
	case 0:
		a.Groups = b.Groups
	case 1:
		a.Groups = append(append([]string{}, a.Groups...), mg.Request(r, raw))
	case 2:
		a.User = b.User
	case 3:
		a.Verb = b.Verb
	case 4:
		a.Name = b.Name
	case 5:
		a.Path = b.Path
	case 6:
		a.Resource, a.Subresource = b.Resource, b.Subresource
	case 7:
		a.APIGroup = b.APIGroup
	case 8:
		a.IsResource = !a.IsResource
	}
	return a
}

func genSeq(c *rig.Ctx, raw bool) SeqCase {
	r := c.Rng
	sc := SeqCase{Kind: "seq"}
	var rules []proxyv1alpha1.DispatchPolicyRule
	var prev [][]proxyv1alpha1.DispatchPolicyRule
	for v, nv := 0, 1+r.Intn(3); v < nv; v++ {
		var cur [][]proxyv1alpha1.DispatchPolicyRule
		if prev != nil && r.Intn(2) == 0 {
			// the next version is a MINIMAL edit of the previous one: one list of one rule changes ([] vs [""], "a b" vs
			// "a","b", entries swapped / doubled / re-cased / dropped …) — what a comparison of two versions must not miss
			for _, p := range prev {
				cur = append(cur, append([]proxyv1alpha1.DispatchPolicyRule{}, p...))
			}
			i := r.Intn(len(cur))
			j := r.Intn(len(cur[i]))
			cur[i][j] = mg.EditRule(r, cur[i][j], raw)
		} else {
			for i, n := 0, 1+r.Intn(4); i < n; i++ {
				var p []proxyv1alpha1.DispatchPolicyRule
				for j, k := 0, 1+r.Intn(3); j < k; j++ {
					rule := mg.Rule(r, raw)
					if r.Intn(2) == 0 { // make the optional identity fields decisive more often
						rule.UserGroups, rule.Users = mg.List(r, raw), mg.List(r, raw)
					}
					p = append(p, rule)
				}
				cur = append(cur, p)
			}
		}
		ver := [][]map[string]interface{}{}
		for _, p := range cur {
			pj := []map[string]interface{}{}
			for _, rule := range p {
				rules = append(rules, rule)
				pj = append(pj, mg.RuleJSON(rule))
			}
			ver = append(ver, pj)
		}
		sc.Versions = append(sc.Versions, ver)
		prev = cur
	}
	// object metadata along the history: generations count up, repeat (an event delivered again, or a metadata-only
	// update), or restart at 1 under a new uid (delete + re-create under the same name); a third of the histories goes
	// through the admission plugin
	gen, uid, admit := int64(0), "", r.Intn(3) == 0
	if r.Intn(3) > 0 {
		gen, uid = 1, "u1"
	}
	zero, curV := 0, 0
	sc.Steps = append(sc.Steps, SeqStep{Sync: &zero, Gen: gen, UID: uid, Admit: admit})
	var seen []mg.Attrs
	for k, n := 0, 6+r.Intn(10); k < n; k++ {
		if r.Intn(6) == 0 {
			v := r.Intn(len(sc.Versions))
			switch {
			case gen == 0: // no metadata: any list may follow
			case r.Intn(5) == 0:
				v = curV // the same object delivered again (resync, requeue): same generation, same uid, same spec
			case r.Intn(4) == 0:
				gen, uid = 1, uid+"'" // deleted and created again under the same name: generation restarts, new uid
			default:
				gen++ // an update (a spec change bumps the generation; so does an annotation change that keeps the spec)
			}
			curV = v
			sc.Steps = append(sc.Steps, SeqStep{Sync: &v, Gen: gen, UID: uid, Admit: admit})
			continue
		}
		var a mg.Attrs
		switch {
		case len(seen) > 0 && r.Intn(2) == 0:
			a = variant(r, seen[r.Intn(len(seen))], raw)
		case len(seen) > 0 && r.Intn(4) == 0:
			a = seen[r.Intn(len(seen))] // the same request again
		default:
			a = mg.AttrsFor(r, rules[r.Intn(len(rules))], raw)
		}
		seen = append(seen, a)
		sc.Steps = append(sc.Steps, SeqStep{Attrs: a.JSON()})
	}
	return sc
}

// ---------------------------------------------------------------------------------------------
// concurrent matching: the decision for a request must not depend on what else is being matched at the same time

type ConcCase struct {
	Kind     string                     `json:"kind"` // "conc"
	Policies [][]map[string]interface{} `json:"policies"`
	Reqs     []map[string]interface{}   `json:"reqs"`
	Workers  int                        `json:"workers"`
	Rounds   int                        `json:"rounds"`
}

func runConc(c *rig.Ctx, cc ConcCase, record bool) bool {
	fail := func(kind, class, what string) bool {
		if record {
			c.Fail(rig.Failure{Kind: kind, Class: class, What: what, Case: cc})
		}
		return false
	}
	// what every request must be answered: the declarative spec, computed once, sequentially, by the model
	want := make([]int, len(cc.Reqs))
	for i, a := range cc.Reqs {
		var m struct {
			SpecIdx int `json:"spec_idx"`
		}
		if err := c.Model("C01.match", MatchCase{Kind: "match", Attrs: a, Policies: cc.Policies}, &m); err != nil {
			return fail("diff", "c01.model-error", "model error "+err.Error())
		}
		want[i] = m.SpecIdx
	}
	ps := policiesOf(MatchCase{Policies: cc.Policies})
	ci := clusters.NewEmptyClusterInfo("c", nil, nil, "", nil)
	defer ci.Stop()
	ci.Sync(&proxyv1alpha1.UpstreamCluster{ObjectMeta: metav1.ObjectMeta{Name: "c"}, Spec: proxyv1alpha1.UpstreamClusterSpec{DispatchPolicies: ps}})
	recs := make([]mg.Attrs, len(cc.Reqs))
	for i, a := range cc.Reqs {
		recs[i] = attrsOf(a)
	}
	type bad struct{ req, got int }
	var mu sync.Mutex
	var first *bad
	var wg sync.WaitGroup
	start := make(chan struct{})
	for w := 0; w < cc.Workers; w++ {
		wg.Add(1)
		go func(w int) {
			defer wg.Done()
			defer func() { recover() }()
			<-start
			for r := 0; r < cc.Rounds; r++ {
				for k := range recs {
					i := (k*7 + w*3 + r) % len(recs)
					got := -1
					if w%2 == 0 {
						if picker, err := ci.MatchAttributes(recs[i].Record()); err == nil {
							got = -3
							fmt.Sscanf(picker.FlowControlName(), "fc-%d", &got)
						}
					} else if p := clusters.MatchPolicies(recs[i].Record(), ps); p != nil {
						got = -3
						fmt.Sscanf(p.FlowControlSchemaName, "fc-%d", &got)
					}
					if got != want[i] {
						mu.Lock()
						if first == nil {
							first = &bad{i, got}
						}
						mu.Unlock()
						return
					}
				}
			}
		}(w)
	}
	close(start)
	wg.Wait()
	if first != nil {
		return fail("judge", "c01.concurrent", fmt.Sprintf("while %d goroutines were matching requests against the same policy list, request %d was routed under policy %d; the first policy with a matching rule is %d — the decision depends on concurrent activity",
			cc.Workers, first.req, first.got, want[first.req]))
	}
	return true
}

func genConc(c *rig.Ctx) ConcCase {
	r := c.Rng
	cc := ConcCase{Kind: "conc", Workers: 4 + r.Intn(13), Rounds: 150}
	var rules []proxyv1alpha1.DispatchPolicyRule
	for i, n := 0, 2+r.Intn(3); i < n; i++ {
		p := []map[string]interface{}{}
		for j, k := 0, 1+r.Intn(3); j < k; j++ {
			rule := mg.Rule(r, false)
			// long lists, all-inverted ones in particular, in the fields every request walks
			long := func() []string {
				l := []string{}
				inv := r.Intn(2) == 0
				for x, n := 0, 3+r.Intn(12); x < n; x++ {
					e := mg.Request(r, false)
					if inv {
						e = "-" + e
					}
					l = append(l, e)
				}
				return l
			}
			if r.Intn(2) == 0 {
				rule.UserGroups = long()
			}
			if r.Intn(2) == 0 {
				rule.Verbs = long()
			}
			if r.Intn(3) == 0 {
				rule.Users = long()
			}
			rules = append(rules, rule)
			p = append(p, mg.RuleJSON(rule))
		}
		cc.Policies = append(cc.Policies, p)
	}
	for i := 0; i < 24; i++ {
		cc.Reqs = append(cc.Reqs, mg.AttrsFor(r, rules[r.Intn(len(rules))], false).JSON())
	}
	return cc
}

func runAny(c *rig.Ctx, raw json.RawMessage, record bool) bool {
	var k struct{ Kind string }
	json.Unmarshal(raw, &k)
	if k.Kind == "conc" {
		var cc ConcCase
		json.Unmarshal(raw, &cc)
		return runConc(c, cc, record)
	}
	if k.Kind == "seq" {
		var sc SeqCase
		json.Unmarshal(raw, &sc)
		return runSeq(c, sc, record)
	}
	if k.Kind == "match" {
		var mc MatchCase
		json.Unmarshal(raw, &mc)
		return runMatch(c, mc, record)
	}
	var fc FieldCase
	json.Unmarshal(raw, &fc)
	return runField(c, fc, record)
}

func main() {
	rig.QuietKlog()
	proxyv1alpha1.AddToScheme(admScheme)
	admPlugin = upstreamclusteradmission.NewUpstreamClusterPlugin().(admission.MutationInterface)
	rig.Main("C01", func(c *rig.Ctx) {
		c.SetRule("field cases: one of the 7 field matchers on a rule list (0-4 entries from a 39-token colliding universe or raw bytes; classes empty/star/positive/mixed/inverted-1/inverted-n) against request values from a 29-token universe; match cases: 0-4 policies x 0-3 rules against a request tuple, through clusters.MatchPolicies, RuleMatches and ClusterInfo.MatchAttributes; sequence cases: 6-15 requests (derived from the rules, single-attribute variants of earlier requests, repeats) and policy-list changes on ONE long-lived ClusterInfo, the delivered objects carrying generations / uids as the control plane sets them (counting up, repeated, restarting at 1 after a re-create) and, in a third of the histories, passing through the real admission plugin first (the expected route is always that of the SUBMITTED list); concurrent cases: 4-16 goroutines matching 24 requests against the same policy list (long all-inverted lists), every answer compared with the sequentially computed spec. distinct = distinct canonical case; non-trivial = the rule list is not empty and not match-all (field) / at least one policy has a rule (match)")
		if c.Replay != "" {
			var raw json.RawMessage
			if err := c.LoadReplay(&raw); err != nil {
				fmt.Fprintln(os.Stderr, err)
				os.Exit(2)
			}
			c.Case(string(raw), true, "replay", func() interface{} { return raw })
			runAny(c, raw, true)
			return
		}
		// corpus of past failures first
		files, _ := filepath.Glob(filepath.Join(os.Getenv("VERIF_DIR"), "harness", "corpus", "C01", "*.json"))
		sort.Strings(files)
		for _, f := range files {
			b, _ := os.ReadFile(f)
			var env struct{ Case json.RawMessage }
			if json.Unmarshal(b, &env) != nil || env.Case == nil {
				continue
			}
			c.Case(string(env.Case), true, "corpus", nil)
			runAny(c, env.Case, true)
		}
		nField := c.Budget(30000, 1000000)
		for i := 0; i < nField && !c.Stop(); i++ {
			fc := genField(c, i%4 == 3)
			cls := mg.ListClass(unhex(fc.Rules))
			c.Case(rig.Canon(fc), cls != "empty" && cls != "star", "field:"+fc.Field+":"+cls, func() interface{} { return readable(fc) })
			if !runField(c, fc, false) {
				runField(c, shrinkField(c, fc), true)
			}
		}
		nMatch := c.Budget(5000, 150000)
		for i := 0; i < nMatch && !c.Stop(); i++ {
			mc := genMatch(c, i%4 == 3)
			nr := 0
			for _, p := range mc.Policies {
				nr += len(p)
			}
			c.Case(rig.Canon(mc), nr > 0, fmt.Sprintf("match:policies=%d", len(mc.Policies)), nil)
			c.Trace()
			if !runMatch(c, mc, false) {
				runMatch(c, shrinkMatch(c, mc), true)
			}
		}
		nSeq := c.Budget(2500, 60000)
		for i := 0; i < nSeq && !c.Stop(); i++ {
			sc := genSeq(c, i%4 == 3)
			c.Case(rig.Canon(sc), true, fmt.Sprintf("seq:versions=%d", len(sc.Versions)), nil)
			c.Trace()
			if !runSeq(c, sc, false) {
				steps := rig.ShrinkList(sc.Steps, func(l []SeqStep) bool { x := sc; x.Steps = l; return !runSeq(c, x, false) })
				x := sc
				x.Steps = steps
				runSeq(c, x, true)
			}
		}
		for i, n := 0, c.Budget(40, 800); i < n && !c.Stop(); i++ {
			cc := genConc(c)
			c.Case(rig.Canon(cc), true, "conc", nil)
			c.Trace()
			runConc(c, cc, true)
		}
		if c.Thorough() {
			exhaustive(c)
		}
	})
}

// exhaustive enumerates every single-field list of length <= 3 over an 8-token alphabet against every request
// of a 6-value universe, for the equality-type field and the resource and user fields (supports the correspondence).
func exhaustive(c *rig.Ctx) {
	alpha := []string{"a", "-a", "*", "-b", "b", "", "-", "*/s"}
	reqs := []string{"a", "b", "", "a/s", "-a", "*"}
	var lists [][]string
	lists = append(lists, []string{})
	for _, x := range alpha {
		lists = append(lists, []string{x})
		for _, y := range alpha {
			lists = append(lists, []string{x, y})
			for _, z := range alpha {
				lists = append(lists, []string{x, y, z})
			}
		}
	}
	n := 0
	for _, f := range []string{"verb", "resource", "user", "userGroup", "resourceName", "url"} {
		for _, l := range lists {
			for _, q := range reqs {
				fc := FieldCase{Kind: "field", Field: f, Rules: rig.HexList(l), Req: rig.Hex(q), Reqs: rig.HexList([]string{q, "b"}), SAs: []map[string]string{}}
				if f == "resource" && q == "a/s" {
					fc.Sub = rig.Hex("s")
				}
				c.Case(rig.Canon(fc), true, "exhaustive:"+f, nil)
				runField(c, fc, true)
				n++
			}
		}
	}
	c.SetExtra("exhaustive_field_cases", n)
}
